#!/bin/sh
# usage: check.sh <property> [quick|thorough]
# Builds the checker if needed and runs one property's rules against $SBPF_REPO (default /repo).
set -u
HERE=$(cd "$(dirname "$0")" && pwd)
export GOFLAGS=-mod=mod GOPROXY=off GOSUMDB=off GOTOOLCHAIN=local GOWORK=off
unset GOOS GOARCH
PROP=${1:?property id}
TIER=${2:-${VERIF_TIER:-quick}}
BIN="$HERE/bin/sbpfcheck"
if [ ! -x "$BIN" ] || [ -n "$(find "$HERE/checker" -name '*.go' -newer "$BIN" 2>/dev/null | head -1)" ]; then
  mkdir -p "$HERE/bin"
  (cd "$HERE/checker" && go build -o "$BIN" .) || { echo "VIOLATION property=$PROP replay=$HERE/evidence/replay/build-failed"; exit 1; }
fi
exec "$BIN" -prop "$PROP" -tier "$TIER" -verif "$HERE"
