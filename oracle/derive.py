#!/usr/bin/env python3
"""Derive /verif/oracle/oracle.json from the oracle files present on this image.

The result is committed (vendored) so that the checks do not depend on the image;
run with --verify to compare the live files with the vendored copy.
Sources: golang.org/x/sys v0.19.0 (the version pinned in /repo/go.sum), GOROOT/src/syscall,
kernel UAPI headers under /usr/include.
"""
import json, os, re, sys, glob

XSYS = "/root/go/pkg/mod/golang.org/x/sys@v0.19.0/unix"
GOROOT = "/usr/lib/go-1.23/src/syscall"
INC = "/usr/include"

def go_sysnum(path):
    out = {}
    if not os.path.exists(path):
        return None
    for line in open(path):
        m = re.match(r"\s*SYS_([A-Z0-9_]+)\s*=\s*(\d+)", line)
        if m:
            out[m.group(1).lower()] = int(m.group(2))
    return out

def hdr_sysnum(path, base_sym=None, base=0):
    out = {}
    if not os.path.exists(path):
        return None
    for line in open(path):
        m = re.match(r"#define\s+__NR_([a-z0-9_]+)\s+\(?(?:(__X32_SYSCALL_BIT)\s*\+\s*)?(\d+)\)?\s*$", line)
        if m:
            out[m.group(1)] = int(m.group(3))
    return out

def defines(path):
    out = {}
    if not os.path.exists(path):
        return out
    txt = open(path).read().replace("\\\n", " ")
    for line in txt.splitlines():
        m = re.match(r"#\s*define\s+([A-Za-z0-9_]+)\s+(.+?)\s*(/\*.*)?$", line)
        if m:
            out[m.group(1)] = m.group(2).strip()
    return out

def evalc(expr, env, depth=0):
    expr = re.sub(r"/\*.*?\*/", "", expr).strip()
    expr = re.sub(r"(\b0x[0-9a-fA-F]+|\b\d+)[uUlL]+\b", r"\1", expr)
    def sub(m):
        name = m.group(0)
        if name in env and depth < 10:
            v = evalc(env[name], env, depth + 1)
            if v is None:
                raise KeyError(name)
            return str(v)
        raise KeyError(name)
    try:
        e = re.sub(r"\b[A-Za-z_][A-Za-z0-9_]*\b", sub, expr)
        if not re.fullmatch(r"[0-9a-fA-Fx\s()|+<<>>&~-]+", e):
            return None
        return int(eval(e, {"__builtins__": {}}))
    except Exception:
        return None

def main():
    o = {"sources": {}, "syscalls": {}, "consts": {}, "audit_arch": {}}
    tables = {
        "x86_64": [("xsys", XSYS + "/zsysnum_linux_amd64.go", go_sysnum), ("goroot", GOROOT + "/zsysnum_linux_amd64.go", go_sysnum),
                   ("uapi", INC + "/x86_64-linux-gnu/asm/unistd_64.h", hdr_sysnum)],
        "i386": [("xsys", XSYS + "/zsysnum_linux_386.go", go_sysnum), ("goroot", GOROOT + "/zsysnum_linux_386.go", go_sysnum),
                 ("uapi", INC + "/x86_64-linux-gnu/asm/unistd_32.h", hdr_sysnum)],
        "arm": [("xsys", XSYS + "/zsysnum_linux_arm.go", go_sysnum), ("goroot", GOROOT + "/zsysnum_linux_arm.go", go_sysnum)],
        "aarch64": [("xsys", XSYS + "/zsysnum_linux_arm64.go", go_sysnum), ("goroot", GOROOT + "/zsysnum_linux_arm64.go", go_sysnum)],
        "x32": [("uapi", INC + "/x86_64-linux-gnu/asm/unistd_x32.h", hdr_sysnum)],
    }
    # the other Linux ports of Go: no table in the library today; recorded so that a table added later has an oracle
    # (key = the Linux architecture name the library uses, sources = x/sys and GOROOT/syscall for the matching GOARCH)
    for linux_name, goarch in [("riscv64", "riscv64"), ("loongarch64", "loong64"), ("ppc64", "ppc64"), ("ppc64le", "ppc64le"), ("s390x", "s390x"),
                               ("mips", "mips"), ("mipsel", "mipsle"), ("mips64", "mips64"), ("mipsel64", "mips64le"), ("ppc", "ppc"), ("sparc64", "sparc64")]:
        tables[linux_name] = [("xsys", XSYS + "/zsysnum_linux_%s.go" % goarch, go_sysnum), ("goroot", GOROOT + "/zsysnum_linux_%s.go" % goarch, go_sysnum)]
    # newer releases of x/sys that are present offline (dependencies of the analysis tooling): they list syscalls added to
    # the kernel after the version the library pins
    for ver in ("v0.29.0", "v0.48.0"):
        newer = "/root/go/pkg/mod/golang.org/x/sys@%s/unix" % ver
        if not os.path.isdir(newer):
            continue
        for abi, goarch in [("x86_64", "amd64"), ("i386", "386"), ("arm", "arm"), ("aarch64", "arm64"), ("riscv64", "riscv64"),
                            ("loongarch64", "loong64"), ("ppc64", "ppc64"), ("ppc64le", "ppc64le"), ("s390x", "s390x"), ("mips", "mips"),
                            ("mipsel", "mipsle"), ("mips64", "mips64"), ("mipsel64", "mips64le"), ("ppc", "ppc"), ("sparc64", "sparc64")]:
            tables[abi].append(("xsys-" + ver, newer + "/zsysnum_linux_%s.go" % goarch, go_sysnum))
    for abi, srcs in tables.items():
        o["syscalls"][abi] = {}
        for name, path, fn in srcs:
            t = fn(path)
            if t is None:
                continue
            o["syscalls"][abi][name] = t
            o["sources"][abi + "/" + name] = path
    # x32: since Linux 5.1 new syscalls get one number for all x86-64 ABIs (arch/x86/entry/syscalls/syscall_64.tbl: entries
    # 424..511 are "common"; 512..547 are the x32-specific ones), so the newest x86_64 source is a source for that range
    for src in sorted(o["syscalls"].get("x86_64", {})):
        if src.startswith("xsys-"):
            common = {n: v for n, v in o["syscalls"]["x86_64"][src].items() if 424 <= v < 512}
            if common:
                o["syscalls"]["x32"]["common-" + src] = common
                o["sources"]["x32/common-" + src] = o["sources"]["x86_64/" + src] + " (numbers 424..511 are common to x86_64 and x32)"
    # UAPI constants
    env = {}
    for h in ["linux/seccomp.h", "linux/prctl.h", "asm-generic/errno-base.h", "asm-generic/errno.h", "linux/elf-em.h", "linux/audit.h",
              "x86_64-linux-gnu/asm/unistd.h", "x86_64-linux-gnu/asm/unistd_x32.h"]:
        env.update(defines(os.path.join(INC, h)))
    want = ["SECCOMP_SET_MODE_STRICT", "SECCOMP_SET_MODE_FILTER", "SECCOMP_FILTER_FLAG_TSYNC", "SECCOMP_FILTER_FLAG_LOG",
            "SECCOMP_FILTER_FLAG_TSYNC_ESRCH",
            "SECCOMP_RET_KILL_PROCESS", "SECCOMP_RET_KILL_THREAD", "SECCOMP_RET_TRAP", "SECCOMP_RET_ERRNO", "SECCOMP_RET_USER_NOTIF",
            "SECCOMP_RET_TRACE", "SECCOMP_RET_LOG", "SECCOMP_RET_ALLOW", "PR_SET_NO_NEW_PRIVS", "PR_SET_SECCOMP", "EPERM", "ENOSYS", "EINVAL", "EACCES",
            "__X32_SYSCALL_BIT", "SECCOMP_RET_DATA", "SECCOMP_RET_ACTION_FULL"]
    # besides the names the rules refer to: every other integer-valued SECCOMP_*, PR_* and errno define of the same headers,
    # so that a constant the library starts to expose later (a further action, filter flag, prctl option, errno) has an
    # oracle value too
    base_errnos = set(defines(os.path.join(INC, "asm-generic/errno-base.h")))  # 1..34: the same on every architecture
    for k in sorted(env):
        if k in want:
            continue
        if re.match(r"^E[A-Z0-9]+$", k) and k not in base_errnos:
            continue  # errno values above 34 differ between architectures (mips, sparc, alpha, parisc)
        if re.match(r"^(SECCOMP_(RET|FILTER_FLAG|SET_MODE|GET|MODE|USER_NOTIF_FLAG|ADDFD_FLAG)_[A-Z0-9_]+|SECCOMP_RET_[A-Z]+|PR_[A-Z0-9_]+|E[A-Z0-9]+)$", k):
            want.append(k)
    for w in want:
        v = evalc(env.get(w, ""), env) if w in env else None
        if v is not None:
            o["consts"][w] = v & 0xFFFFFFFF
    # mips ENOSYS differs (89); alpha 78, sparc 90, parisc 251: recorded by hand from arch/*/include/uapi/asm/errno.h
    o["consts_per_goarch"] = {"ENOSYS": {"mips": 89, "mipsle": 89, "mips64": 89, "mips64le": 89, "sparc64": 90}}
    for k, v in env.items():
        if k.startswith("AUDIT_ARCH_"):
            val = evalc(v, env)
            if val is not None:
                o["audit_arch"][k[len("AUDIT_ARCH_"):]] = val & 0xFFFFFFFF
    # second source for audit arch: x/sys zerrors_linux.go
    xs = {}
    p = XSYS + "/zerrors_linux.go"
    if os.path.exists(p):
        for line in open(p):
            m = re.match(r"\s*AUDIT_ARCH_([A-Z0-9_]+)\s*=\s*(0x[0-9a-f]+|\d+)", line)
            if m:
                xs[m.group(1)] = int(m.group(2), 0)
    o["audit_arch_xsys"] = xs
    # SYS_SECCOMP / SYS_PRCTL per linux GOARCH from x/sys and GOROOT (trap numbers used by the loader)
    trap = {}
    for path in sorted(glob.glob(XSYS + "/zsysnum_linux_*.go")):
        ga = re.search(r"zsysnum_linux_(\w+)\.go", path).group(1)
        t = go_sysnum(path)
        trap[ga] = {"SYS_SECCOMP": t.get("seccomp"), "SYS_PRCTL_xsys": t.get("prctl")}
    for path in sorted(glob.glob(GOROOT + "/zsysnum_linux_*.go")):
        ga = re.search(r"zsysnum_linux_(\w+)\.go", path).group(1)
        t = go_sysnum(path)
        trap.setdefault(ga, {})["SYS_PRCTL"] = t.get("prctl")
    o["traps"] = trap
    return o

if __name__ == "__main__":
    here = os.path.dirname(os.path.abspath(__file__))
    out = os.path.join(here, "oracle.json")
    o = main()
    if "--verify" in sys.argv:
        old = json.load(open(out))
        if old != json.loads(json.dumps(o)):
            print("oracle drift: live files differ from vendored oracle.json")
            sys.exit(1)
        print("oracle.json matches the live files")
        sys.exit(0)
    json.dump(o, open(out, "w"), indent=0, sort_keys=True)
    print("wrote", out, {k: {s: len(t) for s, t in v.items()} for k, v in o["syscalls"].items()}, len(o["consts"]), len(o["audit_arch"]))
