// Package load type-checks /repo (never runs it) and builds go/ssa for it.
package load

import (
	"fmt"
	"go/ast"
	"go/token"
	"go/types"
	"os"
	"sort"
	"strings"

	"golang.org/x/tools/go/packages"
	"golang.org/x/tools/go/ssa"
	"golang.org/x/tools/go/ssa/ssautil"
)

const Module = "github.com/elastic/go-seccomp-bpf"

// Paths of the packages of the module.
const (
	PkgRoot     = Module
	PkgArch     = Module + "/arch"
	PkgUnix     = Module + "/internal/unix"
	PkgSandbox  = Module + "/cmd/sandbox"
	PkgProfiler = Module + "/cmd/seccomp-profiler"
	PkgDisasm   = Module + "/cmd/seccomp-profiler/disasm"
)

// Program is one loaded build context.
type Program struct {
	Dir    string
	GOOS   string
	GOARCH string
	Fset   *token.FileSet
	Pkgs   map[string]*packages.Package // module packages by path
	All    []*packages.Package          // every package incl. dependencies
	SSA    *ssa.Program
	SSAPkg map[string]*ssa.Package
}

func env(goos, goarch string) []string {
	var out []string
	for _, e := range os.Environ() {
		k := strings.SplitN(e, "=", 2)[0]
		switch k {
		case "GOFLAGS", "GOPROXY", "GOSUMDB", "GOTOOLCHAIN", "GOWORK", "GOOS", "GOARCH", "CGO_ENABLED":
			continue
		}
		out = append(out, e)
	}
	out = append(out, "GOFLAGS=-mod=mod", "GOPROXY=off", "GOSUMDB=off", "GOTOOLCHAIN=local", "GOWORK=off", "CGO_ENABLED=0")
	if goos != "" {
		out = append(out, "GOOS="+goos)
	}
	if goarch != "" {
		out = append(out, "GOARCH="+goarch)
	}
	return out
}

// Load loads the module in dir for a target.  withSSA also loads the syntax of
// all dependencies and builds SSA; without it only the module's own packages
// carry syntax (dependencies come from export data: fast).
func Load(dir, goos, goarch string, withSSA bool, patterns ...string) (*Program, error) {
	mode := packages.NeedName | packages.NeedFiles | packages.NeedCompiledGoFiles | packages.NeedImports |
		packages.NeedTypes | packages.NeedTypesSizes | packages.NeedSyntax | packages.NeedTypesInfo | packages.NeedDeps | packages.NeedModule
	if len(patterns) == 0 {
		patterns = []string{"./..."}
	}
	fset := token.NewFileSet()
	cfg := &packages.Config{Mode: mode, Dir: dir, Tests: false, Env: env(goos, goarch), Fset: fset}
	pkgs, err := packages.Load(cfg, patterns...)
	if err != nil {
		return nil, fmt.Errorf("go/packages: %v", err)
	}
	p := &Program{Dir: dir, GOOS: goos, GOARCH: goarch, Fset: fset, Pkgs: map[string]*packages.Package{}}
	var errs []string
	packages.Visit(pkgs, nil, func(pk *packages.Package) {
		p.All = append(p.All, pk)
		if strings.HasPrefix(pk.PkgPath, Module) {
			for _, e := range pk.Errors {
				errs = append(errs, e.Error())
			}
		}
	})
	for _, pk := range pkgs {
		p.Pkgs[pk.PkgPath] = pk
	}
	if len(errs) > 0 {
		sort.Strings(errs)
		return nil, fmt.Errorf("type-check of %s (%s/%s) failed: %s", dir, goos, goarch, strings.Join(errs, "; "))
	}
	if len(pkgs) == 0 {
		return nil, fmt.Errorf("no packages loaded from %s", dir)
	}
	if withSSA {
		prog, _ := ssautil.AllPackages(pkgs, ssa.BuilderMode(0))
		prog.Build()
		p.SSA = prog
		p.SSAPkg = map[string]*ssa.Package{}
		for _, pk := range p.All {
			if sp := prog.Package(pk.Types); sp != nil {
				p.SSAPkg[pk.PkgPath] = sp
			}
		}
	}
	return p, nil
}

// Pos renders a position as file:line:col.
func (p *Program) Pos(pos token.Pos) string {
	if !pos.IsValid() {
		return ""
	}
	ps := p.Fset.Position(pos)
	return fmt.Sprintf("%s:%d:%d", ps.Filename, ps.Line, ps.Column)
}

// roleSignatures: unexported helpers the rules need, identified by their signature when they were renamed
// (receiver; parameter types; result types).  A behaviour-preserving rename must not make a rule lose its subject.
var roleSignatures = map[string]string{
	PkgRoot + ".SyscallGroup.toSyscallsWithConditions": "SyscallGroup;;[]SyscallWithConditions,error",
	PkgRoot + ".getSyscall":                            ";[]SyscallWithConditions,uint32;*SyscallWithConditions",
	PkgRoot + ".Program.insertAfter":                   "Program;Index,bpf.Instruction;Index",
	PkgRoot + ".Program.updateIndices":                 "Program;Index;",
	PkgRoot + ".Program.resolveLabel":                  "Program;JumpIf,Label;uint8,error",
	PkgRoot + ".Program.computeSkipN":                  "Program;JumpIf,Label;int",
	PkgRoot + ".Program.currentIndex":                  "Program;;Index",
	PkgArch + ".invert":                                ";map[int]string;map[string]int",
}

// SigKey renders a function's signature as "Recv;params;results" with package-less type names.
func SigKey(f *ssa.Function) string {
	q := func(pk *types.Package) string {
		if pk.Name() == "bpf" {
			return "bpf"
		}
		return ""
	}
	sig := f.Signature
	recv := ""
	if sig.Recv() != nil {
		t := sig.Recv().Type()
		if pt, ok := t.(*types.Pointer); ok {
			t = pt.Elem()
		}
		recv = types.TypeString(t, q)
	}
	var ps, rs []string
	for i := 0; i < sig.Params().Len(); i++ {
		ps = append(ps, types.TypeString(sig.Params().At(i).Type(), q))
	}
	for i := 0; i < sig.Results().Len(); i++ {
		rs = append(rs, types.TypeString(sig.Results().At(i).Type(), q))
	}
	return recv + ";" + strings.Join(ps, ",") + ";" + strings.Join(rs, ",")
}

// Func returns the SSA function pkg.name or pkg.(recv).name ("Policy.Assemble").  For the unexported helpers
// listed in roleSignatures a unique function with the recorded signature is used when the name is gone.
func (p *Program) Func(pkgPath, name string) *ssa.Function {
	if f := p.funcByName(pkgPath, name); f != nil {
		return f
	}
	want, ok := roleSignatures[pkgPath+"."+name]
	if !ok {
		return nil
	}
	var found *ssa.Function
	ambiguous := false
	for _, f := range p.SrcFuncs(pkgPath) {
		if f.Parent() == nil && SigKey(f) == want {
			if found != nil {
				ambiguous = true
			}
			found = f
		}
	}
	if found != nil && !ambiguous {
		return found
	}
	// neither the name nor the signature: identify the function by what it does
	if rf, ok := RoleFinders[pkgPath+"."+name]; ok {
		return rf(p)
	}
	return nil
}

// RoleFinders identify unexported helpers structurally (by their effect) when they were renamed and their signature
// changed; registered by the rules that need them.
var RoleFinders = map[string]func(p *Program) *ssa.Function{}

func (p *Program) funcByName(pkgPath, name string) *ssa.Function {
	sp := p.SSAPkg[pkgPath]
	if sp == nil {
		return nil
	}
	if i := strings.Index(name, "."); i >= 0 {
		tn, mn := name[:i], name[i+1:]
		obj := sp.Pkg.Scope().Lookup(tn)
		if obj == nil {
			return nil
		}
		named, ok := obj.Type().(*types.Named)
		if !ok {
			return nil
		}
		for _, t := range []types.Type{named, types.NewPointer(named)} {
			ms := p.SSA.MethodSets.MethodSet(t)
			for i := 0; i < ms.Len(); i++ {
				if ms.At(i).Obj().Name() == mn {
					fn := p.SSA.MethodValue(ms.At(i))
					// Prefer the declared method, not a wrapper.
					if fn != nil && fn.Synthetic == "" {
						return fn
					}
					if fn != nil {
						// wrapper: find the declared function through the object
						if f := p.SSA.FuncValue(ms.At(i).Obj().(*types.Func)); f != nil {
							return f
						}
					}
				}
			}
		}
		return nil
	}
	return sp.Func(name)
}

// SrcFuncs returns all source functions (incl. methods and anonymous functions)
// of a module package, sorted by position.
func (p *Program) SrcFuncs(pkgPath string) []*ssa.Function {
	sp := p.SSAPkg[pkgPath]
	if sp == nil {
		return nil
	}
	var out []*ssa.Function
	seen := map[*ssa.Function]bool{}
	var add func(f *ssa.Function)
	add = func(f *ssa.Function) {
		if f == nil || seen[f] {
			return
		}
		seen[f] = true
		out = append(out, f)
		for _, a := range f.AnonFuncs {
			add(a)
		}
	}
	// declared `func init()` functions are not members (they cannot be referred to); the synthetic initialiser calls them
	if ini, ok := sp.Members["init"].(*ssa.Function); ok {
		for _, b := range ini.Blocks {
			for _, in := range b.Instrs {
				if c, ok := in.(*ssa.Call); ok {
					if f := c.Call.StaticCallee(); f != nil && f.Pkg == sp && strings.HasPrefix(f.Name(), "init#") {
						add(f)
					}
				}
			}
		}
	}
	for _, m := range sp.Members {
		switch m := m.(type) {
		case *ssa.Function:
			add(m)
		case *ssa.Type:
			named, ok := m.Type().(*types.Named)
			if !ok {
				continue
			}
			for i := 0; i < named.NumMethods(); i++ {
				add(p.SSA.FuncValue(named.Method(i)))
			}
		}
	}
	sort.Slice(out, func(i, j int) bool { return out[i].Pos() < out[j].Pos() })
	return out
}

// FileOf returns the syntax file of a module package whose name ends in suffix.
func (p *Program) FileOf(pkgPath, suffix string) *ast.File {
	pk := p.Pkgs[pkgPath]
	if pk == nil {
		return nil
	}
	for i, f := range pk.Syntax {
		if strings.HasSuffix(pk.CompiledGoFiles[i], suffix) {
			return f
		}
	}
	return nil
}

// FuncName is a stable display name: "Policy.Assemble", "sockFilter", "main$1".
func FuncName(f *ssa.Function) string {
	if f == nil {
		return "<nil>"
	}
	if f.Signature != nil && f.Signature.Recv() != nil {
		t := f.Signature.Recv().Type()
		if pt, ok := t.(*types.Pointer); ok {
			t = pt.Elem()
		}
		if n, ok := t.(*types.Named); ok {
			return n.Obj().Name() + "." + f.Name()
		}
	}
	return f.Name()
}
