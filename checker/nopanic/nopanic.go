// Package nopanic enumerates the sites of a package that can panic (engine E6):
// the bounds checks the Go compiler's prove pass could not eliminate, plus an
// SSA scan for type assertions, explicit panics, divisions and nil-map stores.
// The compiler is used as an analysis (it compiles, it never runs the code).
package nopanic

import (
	"bufio"
	"bytes"
	"fmt"
	"go/token"
	"os"
	"os/exec"
	"path/filepath"
	"regexp"
	"sort"
	"strconv"
	"strings"

	"golang.org/x/tools/go/ssa"

	"sbpfcheck/flow"
)

// BCE is one unproven bounds check reported by the compiler.
type BCE struct {
	File string // absolute
	Line int
	Col  int
	Kind string // IsInBounds | IsSliceInBounds
}

var bceRe = regexp.MustCompile(`^(.+\.go):(\d+):(\d+): Found (IsInBounds|IsSliceInBounds)`)

// CompilerBCE runs `go build -gcflags=-d=ssa/check_bce/debug=1 <pkgPattern>` in
// dir and returns the listed checks (sorted).
func CompilerBCE(dir, pkgPattern string) ([]BCE, error) {
	cmd := exec.Command("go", "build", "-gcflags=-d=ssa/check_bce/debug=1", pkgPattern)
	cmd.Dir = dir
	var env []string
	for _, e := range os.Environ() {
		k := strings.SplitN(e, "=", 2)[0]
		switch k {
		case "GOFLAGS", "GOPROXY", "GOSUMDB", "GOTOOLCHAIN", "GOWORK", "GOOS", "GOARCH":
			continue
		}
		env = append(env, e)
	}
	cmd.Env = append(env, "GOFLAGS=-mod=mod", "GOPROXY=off", "GOSUMDB=off", "GOTOOLCHAIN=local", "GOWORK=off")
	var out bytes.Buffer
	cmd.Stdout = &out
	cmd.Stderr = &out
	err := cmd.Run()
	var res []BCE
	sc := bufio.NewScanner(&out)
	var other []string
	for sc.Scan() {
		line := sc.Text()
		m := bceRe.FindStringSubmatch(line)
		if m == nil {
			if !strings.HasPrefix(line, "#") && strings.TrimSpace(line) != "" {
				other = append(other, line)
			}
			continue
		}
		l, _ := strconv.Atoi(m[2])
		c, _ := strconv.Atoi(m[3])
		f := m[1]
		if !filepath.IsAbs(f) {
			f = filepath.Join(dir, f)
		}
		res = append(res, BCE{File: filepath.Clean(f), Line: l, Col: c, Kind: m[4]})
	}
	if err != nil {
		return nil, fmt.Errorf("go build %s: %v: %s", pkgPattern, err, strings.Join(other, "; "))
	}
	sort.Slice(res, func(i, j int) bool {
		if res[i].File != res[j].File {
			return res[i].File < res[j].File
		}
		if res[i].Line != res[j].Line {
			return res[i].Line < res[j].Line
		}
		return res[i].Col < res[j].Col
	})
	return res, nil
}

// Site is an SSA instruction that indexes or slices.
type Site struct {
	Instr ssa.Instruction
	Fn    *ssa.Function
}

// FindSite returns the index/slice instruction of fns at the position.
func FindSite(fset *token.FileSet, fns []*ssa.Function, b BCE) *Site {
	for _, fn := range fns {
		for _, blk := range fn.Blocks {
			for _, in := range blk.Instrs {
				switch in.(type) {
				case *ssa.Slice, *ssa.IndexAddr, *ssa.Index, *ssa.Lookup:
				default:
					continue
				}
				p := fset.Position(in.Pos())
				if filepath.Clean(p.Filename) == b.File && p.Line == b.Line && p.Column == b.Col {
					return &Site{in, fn}
				}
			}
		}
	}
	return nil
}

// MinLen returns the greatest lower bound on len(v) implied by the branch
// conditions that dominate block blk: len(v) comparisons with constants,
// strings.HasPrefix/HasSuffix(v, const).
func MinLen(v ssa.Value, blk *ssa.BasicBlock) (int64, []string) {
	min := int64(0)
	var why []string
	for _, c := range flow.DomConds(blk) {
		switch x := c.V.(type) {
		case *ssa.Call:
			if (flow.CalleeIs(x, "strings", "HasPrefix") || flow.CalleeIs(x, "strings", "HasSuffix")) && c.Pol && x.Call.Args[0] == v {
				if s, ok := flow.ConstString(x.Call.Args[1]); ok {
					if int64(len(s)) > min {
						min = int64(len(s))
					}
					why = append(why, fmt.Sprintf("%s(_, %q) holds => len >= %d", x.Call.StaticCallee().Name(), s, len(s)))
				}
			}
		case *ssa.BinOp:
			lenOf := func(y ssa.Value) bool {
				c, ok := y.(*ssa.Call)
				if !ok {
					return false
				}
				bi, ok := c.Call.Value.(*ssa.Builtin)
				return ok && bi.Name() == "len" && len(c.Call.Args) == 1 && c.Call.Args[0] == v
			}
			op := x.Op
			var k int64
			var ok bool
			if lenOf(x.X) {
				k, ok = flow.ConstInt(x.Y)
			} else if lenOf(x.Y) {
				k, ok = flow.ConstInt(x.X)
				// mirror: k op len  ==  len op' k
				switch op {
				case token.LSS:
					op = token.GTR
				case token.GTR:
					op = token.LSS
				case token.LEQ:
					op = token.GEQ
				case token.GEQ:
					op = token.LEQ
				}
			}
			if !ok {
				continue
			}
			lb := int64(-1)
			switch {
			case op == token.GEQ && c.Pol, op == token.LSS && !c.Pol:
				lb = k
			case op == token.GTR && c.Pol, op == token.LEQ && !c.Pol:
				lb = k + 1
			case op == token.EQL && c.Pol, op == token.NEQ && !c.Pol:
				lb = k
			case op == token.NEQ && c.Pol && k == 0, op == token.EQL && !c.Pol && k == 0:
				lb = 1
			}
			if lb > min {
				min = lb
			}
			if lb >= 0 {
				why = append(why, fmt.Sprintf("len %s %d is %v => len >= %d", x.Op, k, c.Pol, lb))
			}
		}
	}
	return min, why
}

// MaxLen collects an upper bound on len(v) from the dominating branch conditions (len == k, len != k on the false edge,
// len < k, ...).  The compiler's listing only names checks it could NOT decide; a check it proved to FAIL (index 1 behind
// `len == 1`) is compiled into an unconditional panic and is not listed, so such sites are found with this bound.
func MaxLen(v ssa.Value, blk *ssa.BasicBlock) (int64, bool) {
	ub, have := int64(0), false
	for _, c := range flow.DomConds(blk) {
		pr, ok := flow.AsIntPred(c.V, c.Pol)
		if !ok {
			continue
		}
		call, ok := flow.StripConv(pr.X).(*ssa.Call)
		if !ok {
			continue
		}
		bi, ok := call.Call.Value.(*ssa.Builtin)
		if !ok || bi.Name() != "len" || len(call.Call.Args) != 1 || call.Call.Args[0] != v {
			continue
		}
		// the largest n in [0, K+2] for which the predicate holds, provided it fails beyond
		if pr.Holds(pr.K+2) || pr.Holds(pr.K+1000) {
			continue // unbounded above
		}
		for n := pr.K + 2; n >= 0; n-- {
			if pr.Holds(n) {
				if !have || n < ub {
					ub, have = n, true
				}
				break
			}
		}
	}
	return ub, have
}

// Need returns the minimal length the site needs (index i needs i+1, s[l:h] needs max(l,h))
// and the indexed value, or ok=false when the indices are not constants.
func Need(in ssa.Instruction) (v ssa.Value, need int64, ok bool) {
	switch x := in.(type) {
	case *ssa.Slice:
		need = 0
		for _, b := range []ssa.Value{x.Low, x.High, x.Max} {
			if b == nil {
				continue
			}
			k, isK := flow.ConstInt(b)
			if !isK {
				return x.X, 0, false
			}
			if k > need {
				need = k
			}
		}
		return x.X, need, true
	case *ssa.IndexAddr:
		k, isK := flow.ConstInt(x.Index)
		return x.X, k + 1, isK
	case *ssa.Index:
		k, isK := flow.ConstInt(x.Index)
		return x.X, k + 1, isK
	}
	return nil, 0, false
}
