package flow

import (
	"sync"

	"golang.org/x/tools/go/ssa"
)

// Graph is the CFG of a function with the successors of blocks that end in a
// call to a function that never returns (os.Exit, log.Fatal, ...) removed, and
// dominators computed on that pruned graph.  go/ssa itself does not know that
// os.Exit does not return, so `if err != nil { ...; os.Exit(1) }` would
// otherwise appear to fall through into the success path.
type Graph struct {
	Fn    *ssa.Function
	succs map[*ssa.BasicBlock][]*ssa.BasicBlock
	preds map[*ssa.BasicBlock][]*ssa.BasicBlock
	idom  map[*ssa.BasicBlock]*ssa.BasicBlock
	order map[*ssa.BasicBlock]int // reverse postorder number; absent = unreachable
	// NoRet lists, per block, the never-returning call that ends it.
	NoRet map[*ssa.BasicBlock]ssa.CallInstruction
}

var (
	graphMu sync.Mutex
	graphs  = map[*ssa.Function]*Graph{}
)

// IsNoReturn reports whether the call never returns to its caller: the known library exits, and functions with a
// body in which no return statement is reachable once such calls are taken into account (a `fatalf` helper).
func IsNoReturn(c ssa.CallInstruction) bool {
	if _, ok := c.(*ssa.Call); !ok {
		return false
	}
	f := Callee(c)
	if f == nil {
		return false
	}
	return FuncNoReturn(f)
}

func libNoReturn(f *ssa.Function) bool {
	switch {
	case FuncIs(f, "os", "Exit"), FuncIs(f, "syscall", "Exit"), FuncIs(f, "runtime", "Goexit"),
		FuncIs(f, "log", "Fatal"), FuncIs(f, "log", "Fatalf"), FuncIs(f, "log", "Fatalln"),
		FuncIs(f, "log", "Panic"), FuncIs(f, "log", "Panicf"), FuncIs(f, "log", "Panicln"),
		FuncIs(f, "log", "Logger.Fatal"), FuncIs(f, "log", "Logger.Fatalf"), FuncIs(f, "log", "Logger.Fatalln"),
		FuncIs(f, "log", "Logger.Panic"), FuncIs(f, "log", "Logger.Panicf"), FuncIs(f, "log", "Logger.Panicln"):
		return true
	}
	return false
}

var (
	noRetMemo = map[*ssa.Function]bool{}
	noRetBusy = map[*ssa.Function]bool{}
	// ModulePrefix restricts the interprocedural no-return inference to functions of the analysed module.
	ModulePrefix = "github.com/elastic/go-seccomp-bpf"
)

// FuncNoReturn: f never returns normally.
func FuncNoReturn(f *ssa.Function) bool {
	if libNoReturn(f) {
		return true
	}
	if f.Pkg == nil || len(f.Blocks) == 0 || len(f.Pkg.Pkg.Path()) < len(ModulePrefix) || f.Pkg.Pkg.Path()[:len(ModulePrefix)] != ModulePrefix {
		return false
	}
	graphMu.Lock()
	if v, ok := noRetMemo[f]; ok {
		graphMu.Unlock()
		return v
	}
	if noRetBusy[f] {
		graphMu.Unlock()
		return false // recursion: assume it returns
	}
	noRetBusy[f] = true
	graphMu.Unlock()
	g := G(f)
	res := true
	for _, b := range f.Blocks {
		if !g.Live(b) {
			continue
		}
		if _, dead := g.NoRet[b]; dead {
			continue
		}
		if _, ok := b.Instrs[len(b.Instrs)-1].(*ssa.Return); ok {
			res = false
		}
	}
	if f.Recover != nil {
		res = false
	}
	graphMu.Lock()
	noRetMemo[f] = res
	delete(noRetBusy, f)
	graphMu.Unlock()
	return res
}

// ResetCaches drops the per-function memo tables (graphs, no-return inference, counted loops).  They are keyed by SSA
// function and would otherwise keep every program analysed in this process alive (the thorough tier loads one program
// per control variant).
func ResetCaches() {
	graphMu.Lock()
	graphs = map[*ssa.Function]*Graph{}
	noRetMemo = map[*ssa.Function]bool{}
	noRetBusy = map[*ssa.Function]bool{}
	graphMu.Unlock()
	loopMu.Lock()
	loopMemo = map[*ssa.Function][]*CountedLoop{}
	loopMu.Unlock()
}

// G returns the pruned graph of fn.
func G(fn *ssa.Function) *Graph {
	graphMu.Lock()
	if g, ok := graphs[fn]; ok {
		graphMu.Unlock()
		return g
	}
	graphMu.Unlock()
	g := buildGraph(fn)
	graphMu.Lock()
	defer graphMu.Unlock()
	if old, ok := graphs[fn]; ok {
		return old
	}
	graphs[fn] = g
	return g
}

func buildGraph(fn *ssa.Function) *Graph {
	g := &Graph{Fn: fn, succs: map[*ssa.BasicBlock][]*ssa.BasicBlock{}, preds: map[*ssa.BasicBlock][]*ssa.BasicBlock{},
		idom: map[*ssa.BasicBlock]*ssa.BasicBlock{}, order: map[*ssa.BasicBlock]int{}, NoRet: map[*ssa.BasicBlock]ssa.CallInstruction{}}
	for _, b := range fn.Blocks {
		for _, in := range b.Instrs {
			if c, ok := in.(ssa.CallInstruction); ok && IsNoReturn(c) {
				g.NoRet[b] = c
				break
			}
		}
	}
	for _, b := range fn.Blocks {
		if _, dead := g.NoRet[b]; dead {
			continue
		}
		for _, s := range b.Succs {
			g.succs[b] = append(g.succs[b], s)
			g.preds[s] = append(g.preds[s], b)
		}
	}
	if len(fn.Blocks) == 0 {
		return g
	}
	// reverse postorder
	var post []*ssa.BasicBlock
	seen := map[*ssa.BasicBlock]bool{}
	var dfs func(b *ssa.BasicBlock)
	dfs = func(b *ssa.BasicBlock) {
		seen[b] = true
		for _, s := range g.succs[b] {
			if !seen[s] {
				dfs(s)
			}
		}
		post = append(post, b)
	}
	entry := fn.Blocks[0]
	dfs(entry)
	rpo := make([]*ssa.BasicBlock, len(post))
	for i, b := range post {
		rpo[len(post)-1-i] = b
	}
	for i, b := range rpo {
		g.order[b] = i
	}
	// Cooper-Harvey-Kennedy
	g.idom[entry] = entry
	changed := true
	intersect := func(a, b *ssa.BasicBlock) *ssa.BasicBlock {
		for a != b {
			for g.order[a] > g.order[b] {
				a = g.idom[a]
			}
			for g.order[b] > g.order[a] {
				b = g.idom[b]
			}
		}
		return a
	}
	for changed {
		changed = false
		for _, b := range rpo[1:] {
			var nd *ssa.BasicBlock
			for _, p := range g.preds[b] {
				if _, ok := g.idom[p]; !ok {
					continue
				}
				if nd == nil {
					nd = p
				} else {
					nd = intersect(p, nd)
				}
			}
			if nd != nil && g.idom[b] != nd {
				g.idom[b] = nd
				changed = true
			}
		}
	}
	return g
}

// Live reports whether b is reachable from the entry in the pruned graph.
func (g *Graph) Live(b *ssa.BasicBlock) bool { _, ok := g.order[b]; return ok }

// Succs / Preds of the pruned graph.
func (g *Graph) Succs(b *ssa.BasicBlock) []*ssa.BasicBlock { return g.succs[b] }
func (g *Graph) Preds(b *ssa.BasicBlock) []*ssa.BasicBlock { return g.preds[b] }

// Idom returns the immediate dominator (nil for the entry and dead blocks).
func (g *Graph) Idom(b *ssa.BasicBlock) *ssa.BasicBlock {
	d, ok := g.idom[b]
	if !ok || d == b {
		return nil
	}
	return d
}

// Dominates: a dominates b (reflexive).  Dead blocks are dominated by everything.
func (g *Graph) Dominates(a, b *ssa.BasicBlock) bool {
	if !g.Live(b) {
		return true
	}
	if !g.Live(a) {
		return false
	}
	for x := b; x != nil; x = g.Idom(x) {
		if x == a {
			return true
		}
	}
	return false
}

// EdgeDominates: every path from the entry to b uses the edge from->to.
func (g *Graph) EdgeDominates(from, to, b *ssa.BasicBlock) bool {
	if !g.Live(b) {
		return true
	}
	isSucc := false
	n := 0
	for _, s := range g.succs[from] {
		if s == to {
			isSucc = true
			n++
		}
	}
	if !isSucc || n > 1 {
		return false
	}
	if !g.Dominates(to, b) {
		return false
	}
	for _, p := range g.preds[to] {
		if p == from {
			continue
		}
		if !g.Dominates(to, p) {
			return false
		}
	}
	return true
}

// Reachable returns the blocks reachable from b in the pruned graph.
func (g *Graph) Reachable(b *ssa.BasicBlock) map[*ssa.BasicBlock]bool {
	seen := map[*ssa.BasicBlock]bool{}
	var walk func(x *ssa.BasicBlock)
	walk = func(x *ssa.BasicBlock) {
		if seen[x] {
			return
		}
		seen[x] = true
		for _, s := range g.succs[x] {
			walk(s)
		}
	}
	walk(b)
	return seen
}
