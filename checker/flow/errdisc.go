package flow

import (
	"go/token"
	"go/types"

	"golang.org/x/tools/go/ssa"
)

var errorType = types.Universe.Lookup("error").Type()

// IsErrorType reports whether t is the predeclared error type.
func IsErrorType(t types.Type) bool { return types.Identical(t, errorType) }

// ErrResult returns the SSA value holding the error result of a call (the call
// itself, or the Extract of the error-typed component), or nil.
func ErrResult(call *ssa.Call) ssa.Value {
	sig := call.Call.Signature()
	res := sig.Results()
	if res.Len() == 0 {
		return nil
	}
	if res.Len() == 1 {
		if IsErrorType(res.At(0).Type()) {
			return call
		}
		return nil
	}
	idx := -1
	for i := 0; i < res.Len(); i++ {
		if IsErrorType(res.At(i).Type()) {
			idx = i
		}
	}
	if idx < 0 {
		return nil
	}
	for _, ref := range *call.Referrers() {
		if ex, ok := ref.(*ssa.Extract); ok && ex.Index == idx {
			return ex
		}
	}
	return nil
}

// ResultN returns the Extract #i of a tuple-returning call (or the call itself
// when it has one result and i == 0).
func ResultN(call *ssa.Call, i int) ssa.Value {
	if call.Call.Signature().Results().Len() == 1 && i == 0 {
		return call
	}
	for _, ref := range *call.Referrers() {
		if ex, ok := ref.(*ssa.Extract); ok && ex.Index == i {
			return ex
		}
	}
	return nil
}

// ErrCheck is the branch that inspects an error value.
type ErrCheck struct {
	Err  ssa.Value
	If   *ssa.If
	Fail *ssa.BasicBlock // successor taken when Err != nil
	OK   *ssa.BasicBlock // successor taken when Err == nil
}

// FindErrChecks returns every branch on `err != nil` / `err == nil` for the value err.
func FindErrChecks(err ssa.Value) []*ErrCheck {
	var out []*ErrCheck
	refs := err.Referrers()
	if refs == nil {
		return nil
	}
	for _, ref := range *refs {
		b, ok := ref.(*ssa.BinOp)
		if !ok || (b.Op != token.NEQ && b.Op != token.EQL) {
			continue
		}
		var other ssa.Value
		if b.X == err {
			other = b.Y
		} else {
			other = b.X
		}
		if !IsNilConst(other) {
			continue
		}
		for _, r2 := range *b.Referrers() {
			ifi, ok := r2.(*ssa.If)
			if !ok {
				continue
			}
			ec := &ErrCheck{Err: err, If: ifi}
			if b.Op == token.NEQ {
				ec.Fail, ec.OK = ifi.Block().Succs[0], ifi.Block().Succs[1]
			} else {
				ec.Fail, ec.OK = ifi.Block().Succs[1], ifi.Block().Succs[0]
			}
			out = append(out, ec)
		}
	}
	return out
}

// Region returns the blocks dominated by the edge from->to, i.e. those reached
// only through that edge.
func Region(from, to *ssa.BasicBlock) map[*ssa.BasicBlock]bool {
	g := G(to.Parent())
	out := map[*ssa.BasicBlock]bool{}
	for _, b := range to.Parent().Blocks {
		if g.Live(b) && g.EdgeDominates(from, to, b) {
			out[b] = true
		}
	}
	return out
}

// KnownNonNilError reports whether v is certainly a non-nil error: the result
// of fmt.Errorf / errors.New, a MakeInterface of a concrete value, or a value
// that the dominating conditions of block b prove non-nil.
var nonNilBusy = map[*ssa.Function]bool{}

func KnownNonNilError(v ssa.Value, b *ssa.BasicBlock) bool {
	switch x := v.(type) {
	case *ssa.MakeInterface:
		return true
	case *ssa.Call:
		if CalleeIs(x, "fmt", "Errorf") || CalleeIs(x, "errors", "New") {
			return true
		}
		// an error constructor: a function with a single (error) result that returns a provably non-nil error on every path
		if h := x.Call.StaticCallee(); h != nil && len(h.Blocks) > 0 && len(h.Blocks) <= 8 && h.Signature.Results().Len() == 1 && !nonNilBusy[h] {
			nonNilBusy[h] = true
			all, n := true, 0
			for _, ret := range Returns(h) {
				n++
				if !KnownNonNilError(RetResults(ret)[0], ret.Block()) {
					all = false
				}
			}
			delete(nonNilBusy, h)
			if all && n > 0 {
				return true
			}
		}
	case *ssa.Phi:
		// all edges must be non-nil in their predecessor blocks
		for i, e := range x.Edges {
			if !KnownNonNilError(e, x.Block().Preds[i]) {
				return false
			}
		}
		return len(x.Edges) > 0
	case *ssa.UnOp:
		// a sentinel: `var errX = errors.New(...)` of the module, assigned by its initialiser only
		if g, ok := x.X.(*ssa.Global); ok && x.Op == token.MUL && sentinelError(g) {
			return true
		}
	}
	if nn, known := ErrKnown(v, b); known && nn {
		return true
	}
	// conditions attached to the block itself via its dominating If on the incoming edge
	return false
}

// KnownNilError reports whether v is certainly nil in block b.
func KnownNilError(v ssa.Value, b *ssa.BasicBlock) bool {
	if IsNilConst(v) {
		return true
	}
	if nn, known := ErrKnown(v, b); known && !nn {
		return true
	}
	return false
}

// nilAsserting: function h returns normally only if its parameter k (an error) is nil: `func check(err error) { if err !=
// nil { log.Fatal(err) } }`.  Returns the parameter indices for which this holds.
func nilAsserting(h *ssa.Function) []int {
	if h == nil || len(h.Blocks) == 0 {
		return nil
	}
	var out []int
	g := G(h)
	for k, p := range h.Params {
		if !IsErrorType(p.Type()) {
			continue
		}
		ok := true
		n := 0
		for _, b := range h.Blocks {
			if !g.Live(b) {
				continue
			}
			if _, dead := g.NoRet[b]; dead {
				continue
			}
			if _, isRet := b.Instrs[len(b.Instrs)-1].(*ssa.Return); !isRet {
				continue
			}
			n++
			if nn, known := ErrNonNil(DomConds(b), p); !known || nn {
				ok = false
			}
		}
		if ok && n > 0 {
			out = append(out, k)
		}
	}
	return out
}

// NilAssertedAt: a call `h(..., e, ...)` to a nil-asserting helper dominates instruction `at` (so e == nil there).
func NilAssertedAt(e ssa.Value, at ssa.Instruction) bool {
	refs := e.Referrers()
	if refs == nil || at == nil {
		return false
	}
	for _, ref := range *refs {
		c, ok := ref.(*ssa.Call)
		if !ok || c == at {
			continue
		}
		h := c.Call.StaticCallee()
		if h == nil {
			continue
		}
		for _, k := range nilAsserting(h) {
			if k < len(c.Call.Args) && c.Call.Args[k] == e && InstrDominates(c, at) {
				return true
			}
		}
	}
	return false
}

// ErrKnown: what is known about error value e at the start of block b (branch conditions, nil-asserting helpers).
func ErrKnown(e ssa.Value, b *ssa.BasicBlock) (nonnil bool, known bool) {
	if nn, known := ErrNonNil(DomConds(b), e); known {
		return nn, true
	}
	if len(b.Instrs) > 0 && NilAssertedAt(e, b.Instrs[0]) {
		return false, true
	}
	return false, false
}

// ErrKnownAt is ErrKnown for a position inside a block.
func ErrKnownAt(e ssa.Value, at ssa.Instruction) (nonnil bool, known bool) {
	if nn, known := ErrNonNil(DomConds(at.Block()), e); known {
		return nn, true
	}
	if NilAssertedAt(e, at) {
		return false, true
	}
	return false, false
}

// sentinelError: a package-level error variable whose only store is its initialiser errors.New(...) / fmt.Errorf(...).
func sentinelError(g *ssa.Global) bool {
	if g.Pkg == nil || !IsErrorType(g.Type().Underlying().(*types.Pointer).Elem()) {
		return false
	}
	n := 0
	good := false
	for _, mem := range g.Pkg.Members {
		f, ok := mem.(*ssa.Function)
		if !ok {
			continue
		}
		fns := append([]*ssa.Function{f}, f.AnonFuncs...)
		for _, fn := range fns {
			for _, b := range fn.Blocks {
				for _, in := range b.Instrs {
					st, ok := in.(*ssa.Store)
					if !ok || st.Addr != ssa.Value(g) {
						continue
					}
					n++
					if c, ok := st.Val.(*ssa.Call); ok && fn.Name() == "init" && fn.Synthetic != "" && (CalleeIs(c, "errors", "New") || CalleeIs(c, "fmt", "Errorf")) {
						good = true
					}
				}
			}
		}
	}
	// methods and declared init functions are not members: a store there would not be seen, so also require that the
	// variable's address is used by loads only outside the initialiser
	if g.Referrers() != nil {
		for _, ref := range *g.Referrers() {
			if st, ok := ref.(*ssa.Store); ok && st.Addr == ssa.Value(g) {
				if !(st.Parent().Name() == "init" && st.Parent().Synthetic != "") {
					return false
				}
			}
		}
	}
	return n == 1 && good
}
