package flow

import (
	"go/token"
	"go/types"
	"sync"

	"golang.org/x/tools/go/ssa"
)

// CountedLoop is a loop that visits the indices 0, 1, ..., len(Over)-1 in order, whatever its spelling
// (`for i, x := range s`, `for i := range s`, `for i := 0; i < len(s); i++`, `for i := 0; len(s) > i; i += 1` ...).
type CountedLoop struct {
	members map[*ssa.BasicBlock]bool // blocks of the natural loop (lazily computed)
	Header  *ssa.BasicBlock
	Phi     *ssa.Phi  // the loop variable in the header
	D       int64     // the index visited by an iteration is Phi + D (1 for go/ssa's rotated range loops, 0 otherwise)
	Over    ssa.Value // the slice (or string/array) whose length bounds the loop
	LenAt   *ssa.Call // the len() call of the bound
	Body    *ssa.BasicBlock
	Exit    *ssa.BasicBlock
}

// Offset: v = Phi + k for the loop's variable (through +/- constants and conversions).
func (l *CountedLoop) Offset(v ssa.Value) (int64, bool) { return offsetFrom(v, l.Phi, 0) }

// IsIndex: v is the index visited by the current iteration.
func (l *CountedLoop) IsIndex(v ssa.Value) bool {
	k, ok := l.Offset(v)
	return ok && k == l.D
}

// Contains: block b belongs to the loop.
func (l *CountedLoop) Contains(b *ssa.BasicBlock) bool {
	if l.members == nil {
		l.members = naturalLoop(G(l.Header.Parent()), l.Header)
	}
	return l.members[b]
}

func offsetFrom(v ssa.Value, base ssa.Value, depth int) (int64, bool) {
	if depth > 8 {
		return 0, false
	}
	if v == base {
		return 0, true
	}
	switch x := v.(type) {
	case *ssa.Convert:
		return offsetFrom(x.X, base, depth+1)
	case *ssa.ChangeType:
		return offsetFrom(x.X, base, depth+1)
	case *ssa.BinOp:
		if x.Op == token.ADD || x.Op == token.SUB {
			if k, ok := ConstInt(x.Y); ok {
				o, ok2 := offsetFrom(x.X, base, depth+1)
				if x.Op == token.SUB {
					k = -k
				}
				return o + k, ok2
			}
			if k, ok := ConstInt(x.X); ok && x.Op == token.ADD {
				o, ok2 := offsetFrom(x.Y, base, depth+1)
				return o + k, ok2
			}
		}
	}
	return 0, false
}

// CountedLoops finds the loops of fn that provably visit every index of a sequence once, ascending.
func CountedLoops(fn *ssa.Function) []*CountedLoop {
	loopMu.Lock()
	if ls, ok := loopMemo[fn]; ok {
		loopMu.Unlock()
		return ls
	}
	loopMu.Unlock()
	out := countedLoops(fn)
	loopMu.Lock()
	loopMemo[fn] = out
	loopMu.Unlock()
	return out
}

var (
	loopMu   sync.Mutex
	loopMemo = map[*ssa.Function][]*CountedLoop{}
)

func countedLoops(fn *ssa.Function) []*CountedLoop {
	var out []*CountedLoop
	g := G(fn)
	for _, H := range fn.Blocks {
		if !g.Live(H) {
			continue
		}
		ifi, ok := lastIf(H)
		if !ok || len(H.Succs) != 2 {
			continue
		}
		for _, in := range H.Instrs {
			ph, ok := in.(*ssa.Phi)
			if !ok {
				break
			}
			bt, ok := ph.Type().Underlying().(*types.Basic)
			if !ok || bt.Info()&types.IsInteger == 0 || len(ph.Edges) < 2 {
				continue
			}
			// one initial constant; step +1 on every back edge
			var init int64
			nInit, nBack, stepOK := 0, 0, true
			initOK := false
			for i, ed := range ph.Edges {
				if g.Dominates(H, H.Preds[i]) {
					nBack++
					k, ok := offsetFrom(ed, ph, 0)
					stepOK = stepOK && ok && k == 1
				} else {
					nInit++
					init, initOK = ConstInt(ed)
				}
			}
			if !initOK || !stepOK || nInit != 1 || nBack == 0 {
				continue
			}
			// the test: Phi + d < len(X) (any spelling), true => stay
			c := norm(Cond{V: ifi.Cond, Pol: true})
			bo, ok := c.V.(*ssa.BinOp)
			if !ok {
				continue
			}
			var idx ssa.Value
			var lc *ssa.Call
			isLen := func(v ssa.Value) *ssa.Call {
				call, ok := StripConv(v).(*ssa.Call)
				if !ok {
					return nil
				}
				if bi, ok := call.Call.Value.(*ssa.Builtin); ok && bi.Name() == "len" && len(call.Call.Args) == 1 {
					return call
				}
				return nil
			}
			op := bo.Op
			if l := isLen(bo.Y); l != nil {
				idx, lc = bo.X, l
			} else if l := isLen(bo.X); l != nil {
				idx, lc = bo.Y, l
				switch op { // len op idx  ==  idx op' len
				case token.LSS:
					op = token.GTR
				case token.LEQ:
					op = token.GEQ
				case token.GTR:
					op = token.LSS
				case token.GEQ:
					op = token.LEQ
				}
			} else {
				continue
			}
			d, ok := offsetFrom(idx, ph, 0)
			if !ok {
				continue
			}
			// stay-in-loop successor
			// (a successor that leaves this loop can still come back to H through an enclosing loop: membership in the
			// natural loop of H also needs H to dominate it)
			members := naturalLoop(g, H)
			stayTrue := members[H.Succs[0]]
			stayFalse := members[H.Succs[1]]
			if stayTrue == stayFalse {
				continue
			}
			pol := c.Pol == stayTrue // value of the comparison that stays
			// stays iff idx < len:  (op == <, pol) or (op == >=, !pol);  `idx != len` also works for an ascending unit step from <= len
			stays := (op == token.LSS && pol) || (op == token.GEQ && !pol) || (op == token.NEQ && pol) || (op == token.EQL && !pol)
			if !stays || init+d != 0 {
				continue
			}
			// the length must not change inside the loop: the bound is the length of a value defined outside the loop
			l := &CountedLoop{Header: H, Phi: ph, D: d, Over: lc.Call.Args[0], LenAt: lc, members: members}
			if stayTrue {
				l.Body, l.Exit = H.Succs[0], H.Succs[1]
			} else {
				l.Body, l.Exit = H.Succs[1], H.Succs[0]
			}
			if def, ok := l.Over.(ssa.Instruction); ok && def.Block() != nil && l.Contains(def.Block()) {
				// re-read inside the loop (e.g. a field load each iteration): accept only loads; the caller checks
				// that nothing stores to that location inside the loop when it matters
				if _, isLoad := def.(*ssa.UnOp); !isLoad {
					continue
				}
			}
			out = append(out, l)
		}
	}
	return out
}

// naturalLoop: the blocks of the natural loop with header H: H and everything that reaches one of its latches (a
// predecessor that H dominates) without passing through H.
func naturalLoop(g *Graph, H *ssa.BasicBlock) map[*ssa.BasicBlock]bool {
	in := map[*ssa.BasicBlock]bool{H: true}
	var work []*ssa.BasicBlock
	for _, p := range g.Preds(H) {
		if g.Dominates(H, p) && !in[p] {
			in[p] = true
			work = append(work, p)
		}
	}
	for len(work) > 0 {
		b := work[len(work)-1]
		work = work[:len(work)-1]
		for _, p := range g.Preds(b) {
			if !in[p] {
				in[p] = true
				work = append(work, p)
			}
		}
	}
	return in
}

func reaches(g *Graph, from, to *ssa.BasicBlock) bool {
	seen := map[*ssa.BasicBlock]bool{}
	var walk func(b *ssa.BasicBlock) bool
	walk = func(b *ssa.BasicBlock) bool {
		if b == to {
			return true
		}
		if seen[b] {
			return false
		}
		seen[b] = true
		for _, s := range g.Succs(b) {
			if walk(s) {
				return true
			}
		}
		return false
	}
	return walk(from)
}

// Unconditional: every iteration executes every block of the loop body exactly once (no branch inside the loop
// other than the header's own test, no early exit).
func (l *CountedLoop) Unconditional() bool {
	g := G(l.Header.Parent())
	b := l.Body
	seen := map[*ssa.BasicBlock]bool{}
	for b != l.Header {
		if seen[b] {
			return false
		}
		seen[b] = true
		succs := g.Succs(b)
		if len(succs) != 1 || len(g.Preds(b)) != 1 {
			return false
		}
		b = succs[0]
	}
	// the header has exactly two predecessors: the entry and the latch
	return len(g.Preds(l.Header)) == 2
}

// BodyBlocks lists the blocks of an unconditional body in execution order.
func (l *CountedLoop) BodyBlocks() []*ssa.BasicBlock {
	g := G(l.Header.Parent())
	var out []*ssa.BasicBlock
	for b := l.Body; b != l.Header && len(out) < 64; {
		out = append(out, b)
		s := g.Succs(b)
		if len(s) != 1 {
			break
		}
		b = s[0]
	}
	return out
}

// ElementOf: v is the element Over[current index] of this iteration (a load through IndexAddr/Index with the current
// index, possibly of a field of it: then field is the selected field's name).
func (l *CountedLoop) ElementOf(v ssa.Value) (field string, ok bool) {
	ld, isLoad := v.(*ssa.UnOp)
	if !isLoad || ld.Op != token.MUL {
		if fx, isField := v.(*ssa.Field); isField {
			if _, ok := l.ElementOf(fx.X); ok {
				st := fx.X.Type().Underlying().(*types.Struct)
				return st.Field(fx.Field).Name(), true
			}
		}
		return "", false
	}
	switch a := ld.X.(type) {
	case *ssa.Alloc:
		// a local copy of the element (`for _, x := range s` with x spilled), read whole
		if st := onlyStore(a); st != nil && l.Contains(st.Block()) {
			if f, ok := l.ElementOf(st.Val); ok && f == "" {
				return "", true
			}
		}
	case *ssa.IndexAddr:
		if sameLoaded(a.X, l.Over) && l.IsIndex(a.Index) {
			return "", true
		}
	case *ssa.FieldAddr:
		if ia, ok := a.X.(*ssa.IndexAddr); ok && sameLoaded(ia.X, l.Over) && l.IsIndex(ia.Index) {
			st := a.X.Type().Underlying().(*types.Pointer).Elem().Underlying().(*types.Struct)
			return st.Field(a.Field).Name(), true
		}
		// field of a local copy of the element (`for _, x := range s` with x spilled)
		if al, ok := a.X.(*ssa.Alloc); ok {
			var only *ssa.Store
			n := 0
			for _, ref := range *al.Referrers() {
				if st, ok := ref.(*ssa.Store); ok && st.Addr == ssa.Value(al) {
					only = st
					n++
				}
			}
			if n == 1 {
				if f, ok := l.ElementOf(only.Val); ok && f == "" && l.Contains(only.Block()) {
					stt := al.Type().Underlying().(*types.Pointer).Elem().Underlying().(*types.Struct)
					return stt.Field(a.Field).Name(), true
				}
			}
		}
	}
	return "", false
}

// sameLoaded: a and b are the same value, or loads of the same address.
func sameLoaded(a, b ssa.Value) bool {
	if a == b {
		return true
	}
	la, ok1 := a.(*ssa.UnOp)
	lb, ok2 := b.(*ssa.UnOp)
	return ok1 && ok2 && la.Op == token.MUL && lb.Op == token.MUL && la.X == lb.X
}

// onlyStore: the single whole-value store into a local, or nil.
func onlyStore(al *ssa.Alloc) *ssa.Store {
	var only *ssa.Store
	for _, ref := range *al.Referrers() {
		if st, ok := ref.(*ssa.Store); ok && st.Addr == ssa.Value(al) {
			if only != nil {
				return nil
			}
			only = st
		}
	}
	return only
}

// OnlyStore is the exported form.
func OnlyStore(al *ssa.Alloc) *ssa.Store { return onlyStore(al) }
