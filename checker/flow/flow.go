// Package flow has the SSA helpers shared by the dominance / value-flow rules
// (engine E3): dominating branch conditions, value origins through conversions,
// callee resolution, reachability.
package flow

import (
	"go/constant"
	"go/token"
	"go/types"

	"golang.org/x/tools/go/ssa"
)

// Cond is a branch condition known to hold (Pol) or not hold (!Pol) in a block.
type Cond struct {
	V   ssa.Value
	Pol bool
	At  *ssa.If
}

// Dominates reports whether a dominates b (reflexive) in the no-return-pruned CFG.
func Dominates(a, b *ssa.BasicBlock) bool { return G(b.Parent()).Dominates(a, b) }

// EdgeDominates reports whether every path to b passes through the CFG edge
// from->to (to must be a successor of from).
func EdgeDominates(from, to, b *ssa.BasicBlock) bool {
	return G(b.Parent()).EdgeDominates(from, to, b)
}

// DomConds returns the branch conditions that hold on every path to b, with
// their polarity, outermost first.  Conditions `!x` are unwrapped.
func DomConds(b *ssa.BasicBlock) []Cond {
	g := G(b.Parent())
	var out []Cond
	for d := g.Idom(b); d != nil; d = g.Idom(d) {
		ifi, ok := lastIf(d)
		if !ok || len(g.Succs(d)) != 2 {
			continue
		}
		if g.EdgeDominates(d, d.Succs[0], b) {
			out = append(out, norm(Cond{ifi.Cond, true, ifi}))
		} else if g.EdgeDominates(d, d.Succs[1], b) {
			out = append(out, norm(Cond{ifi.Cond, false, ifi}))
		}
	}
	for i, j := 0, len(out)-1; i < j; i, j = i+1, j-1 {
		out[i], out[j] = out[j], out[i]
	}
	return out
}

func lastIf(b *ssa.BasicBlock) (*ssa.If, bool) {
	if len(b.Instrs) == 0 {
		return nil, false
	}
	ifi, ok := b.Instrs[len(b.Instrs)-1].(*ssa.If)
	return ifi, ok
}

// LastIf is the exported form.
func LastIf(b *ssa.BasicBlock) (*ssa.If, bool) { return lastIf(b) }

func norm(c Cond) Cond {
	for {
		u, ok := c.V.(*ssa.UnOp)
		if !ok || u.Op != token.NOT {
			return c
		}
		c.V = u.X
		c.Pol = !c.Pol
	}
}

// Norm unwraps negations.
func Norm(c Cond) Cond { return norm(c) }

// StripConv follows conversions / type changes / MakeInterface that do not
// change the numeric value... it returns the innermost value and whether only
// such value-preserving steps were taken.
func StripConv(v ssa.Value) ssa.Value {
	for {
		switch x := v.(type) {
		case *ssa.Convert:
			v = x.X
		case *ssa.ChangeType:
			v = x.X
		case *ssa.MakeInterface:
			v = x.X
		case *ssa.ChangeInterface:
			v = x.X
		default:
			return v
		}
	}
}

// ConstInt returns the integer value of a constant (through conversions).
func ConstInt(v ssa.Value) (int64, bool) {
	c, ok := StripConv(v).(*ssa.Const)
	if !ok || c.Value == nil {
		if ok && c.Value == nil {
			// zero value of a numeric type
			if b, isb := c.Type().Underlying().(*types.Basic); isb && b.Info()&types.IsNumeric != 0 {
				return 0, true
			}
		}
		return 0, false
	}
	if c.Value.Kind() != constant.Int {
		return 0, false
	}
	if i, exact := constant.Int64Val(c.Value); exact {
		return i, true
	}
	if u, exact := constant.Uint64Val(c.Value); exact {
		return int64(u), true
	}
	return 0, false
}

// ConstString returns the string value of a constant.
func ConstString(v ssa.Value) (string, bool) {
	c, ok := StripConv(v).(*ssa.Const)
	if !ok || c.Value == nil || c.Value.Kind() != constant.String {
		return "", false
	}
	return constant.StringVal(c.Value), true
}

// IsNilConst reports whether v is the nil constant.
func IsNilConst(v ssa.Value) bool {
	c, ok := v.(*ssa.Const)
	return ok && c.IsNil()
}

// Callee returns the statically known callee of a call instruction, or nil.
func Callee(c ssa.CallInstruction) *ssa.Function {
	f := c.Common().StaticCallee()
	// an instance of a generic function (`invert[int,string]`) is, in this build mode, a wrapper around the generic
	// body: the rules identify and enter functions by the declared function
	if f != nil && f.Origin() != nil {
		return f.Origin()
	}
	return f
}

// CalleeIs reports whether the call statically targets pkgPath.name (a
// package-level function) or a method (recv type name "T" -> name "T.m").
func CalleeIs(c ssa.CallInstruction, pkgPath, name string) bool {
	f := Callee(c)
	if f == nil {
		// interface method invocation
		if c.Common().IsInvoke() {
			m := c.Common().Method
			return m.Pkg() != nil && m.Pkg().Path() == pkgPath && recvName(m)+"."+m.Name() == name
		}
		return false
	}
	return FuncIs(f, pkgPath, name)
}

func recvName(m *types.Func) string {
	sig := m.Type().(*types.Signature)
	if sig.Recv() == nil {
		return ""
	}
	t := sig.Recv().Type()
	if p, ok := t.(*types.Pointer); ok {
		t = p.Elem()
	}
	if n, ok := t.(*types.Named); ok {
		return n.Obj().Name()
	}
	return ""
}

// FuncIs reports whether f is pkgPath.name ("LockOSThread") or pkgPath.T.m ("Cmd.Run").
func FuncIs(f *ssa.Function, pkgPath, name string) bool {
	if f == nil {
		return false
	}
	obj, _ := f.Object().(*types.Func)
	if obj == nil || obj.Pkg() == nil || obj.Pkg().Path() != pkgPath {
		return false
	}
	if rn := recvName(obj); rn != "" {
		return rn+"."+obj.Name() == name
	}
	return obj.Name() == name
}

// Calls returns all call instructions (call, go, defer) of f in block order.
func Calls(f *ssa.Function) []ssa.CallInstruction {
	var out []ssa.CallInstruction
	for _, b := range f.Blocks {
		for _, in := range b.Instrs {
			if c, ok := in.(ssa.CallInstruction); ok {
				out = append(out, c)
			}
		}
	}
	return out
}

// Reachable returns the set of blocks reachable from b (including b), not
// passing through blocks for which stop returns true (those are included but
// not expanded).
func Reachable(b *ssa.BasicBlock, stop func(*ssa.BasicBlock) bool) map[*ssa.BasicBlock]bool {
	g := G(b.Parent())
	seen := map[*ssa.BasicBlock]bool{}
	var walk func(x *ssa.BasicBlock)
	walk = func(x *ssa.BasicBlock) {
		if seen[x] {
			return
		}
		seen[x] = true
		if stop != nil && stop(x) {
			return
		}
		for _, s := range g.Succs(x) {
			walk(s)
		}
	}
	walk(b)
	return seen
}

// InstrIndex returns the index of in within its block, or -1.
func InstrIndex(in ssa.Instruction) int {
	for i, x := range in.Block().Instrs {
		if x == in {
			return i
		}
	}
	return -1
}

// InstrDominates reports whether instruction a is executed before b on every
// path to b.
func InstrDominates(a, b ssa.Instruction) bool {
	if a.Block() == b.Block() {
		return InstrIndex(a) < InstrIndex(b)
	}
	return Dominates(a.Block(), b.Block())
}

// RetResults returns the values a return instruction returns, seeing through
// the spill go/ssa introduces in functions with defer statements
// (`*res = v; rundefers; t = *res; return t`).
func RetResults(ret *ssa.Return) []ssa.Value {
	out := make([]ssa.Value, len(ret.Results))
	for i, v := range ret.Results {
		out[i] = v
		ld, ok := v.(*ssa.UnOp)
		if !ok || ld.Op != token.MUL {
			continue
		}
		al, ok := ld.X.(*ssa.Alloc)
		if !ok {
			continue
		}
		// a deferred closure that can overwrite the result (other than replacing nil by something) makes the spilled
		// value meaningless: keep the load, which no rule can reason about
		if w, monotone := DeferredResultWrites(al); w && !monotone {
			continue
		}
		b := ret.Block()
		for j := len(b.Instrs) - 1; j >= 0; j-- {
			if st, ok := b.Instrs[j].(*ssa.Store); ok && st.Addr == ssa.Value(al) {
				out[i] = st.Val
				break
			}
		}
	}
	return out
}

// DeferredResultWrites: closures created in the function (deferred or not) store into the result cell `al`; monotone: every
// such store is guarded by `cell == nil` (it can replace a nil result by something, never hide a non-nil one).
func DeferredResultWrites(al *ssa.Alloc) (writes bool, monotone bool) {
	monotone = true
	for _, ref := range *al.Referrers() {
		mc, ok := ref.(*ssa.MakeClosure)
		if !ok {
			continue
		}
		fn, ok := mc.Fn.(*ssa.Function)
		if !ok {
			continue
		}
		for i, bnd := range mc.Bindings {
			if bnd != ssa.Value(al) || i >= len(fn.FreeVars) {
				continue
			}
			fv := fn.FreeVars[i]
			for _, r2 := range *fv.Referrers() {
				st, ok := r2.(*ssa.Store)
				if !ok || st.Addr != ssa.Value(fv) {
					continue
				}
				writes = true
				guarded := false
				for _, cd := range DomConds(st.Block()) {
					c := norm(cd)
					bo, ok := c.V.(*ssa.BinOp)
					if !ok {
						continue
					}
					for _, pair := range [][2]ssa.Value{{bo.X, bo.Y}, {bo.Y, bo.X}} {
						ld, ok := pair[0].(*ssa.UnOp)
						if ok && ld.Op == token.MUL && ld.X == ssa.Value(fv) && IsNilConst(pair[1]) {
							if (bo.Op == token.EQL && c.Pol) || (bo.Op == token.NEQ && !c.Pol) {
								guarded = true
							}
						}
					}
				}
				if !guarded {
					monotone = false
				}
			}
		}
	}
	return writes, monotone
}

// Returns lists the return instructions of f (the synthetic recover block of a
// function with defers is not a return of the source program and is skipped).
func Returns(f *ssa.Function) []*ssa.Return {
	var out []*ssa.Return
	for _, b := range f.Blocks {
		if len(b.Instrs) == 0 || b == f.Recover {
			continue
		}
		if r, ok := b.Instrs[len(b.Instrs)-1].(*ssa.Return); ok {
			out = append(out, r)
		}
	}
	return out
}

// Forwarded: v is a load of a local cell (the shape a named result takes when a deferred closure captures it:
// `*err = f(); t = *err`); the result is the value of the unique store that reaches the load - it dominates the load and
// no other store to the cell, and no point at which deferred functions run, lies on a path between them - otherwise nil.
func Forwarded(v ssa.Value) ssa.Value {
	ld, ok := v.(*ssa.UnOp)
	if !ok || ld.Op != token.MUL {
		return nil
	}
	al, ok := ld.X.(*ssa.Alloc)
	if !ok {
		return nil
	}
	// the cell may be written by the function's own stores and by closures that capture it (run at rundefers / when called)
	var stores []*ssa.Store
	var clobbers []ssa.Instruction
	for _, ref := range *al.Referrers() {
		switch x := ref.(type) {
		case *ssa.Store:
			if x.Addr == ssa.Value(al) {
				stores = append(stores, x)
			} else {
				return nil // the address is stored somewhere
			}
		case *ssa.UnOp, *ssa.DebugRef:
		case *ssa.MakeClosure:
			// the closure runs where it is called or, when deferred, at the function's rundefers
			for _, r2 := range *x.Referrers() {
				switch y := r2.(type) {
				case *ssa.Defer:
				case ssa.CallInstruction:
					clobbers = append(clobbers, y)
				default:
					return nil
				}
			}
		default:
			return nil
		}
	}
	for _, b := range ld.Parent().Blocks {
		for _, in := range b.Instrs {
			if rd, ok := in.(*ssa.RunDefers); ok {
				clobbers = append(clobbers, rd)
			}
		}
	}
	var best *ssa.Store
	for _, st := range stores {
		if !InstrDominates(st, ld) {
			continue
		}
		if best == nil || InstrDominates(best, st) {
			best = st
		}
	}
	if best == nil {
		return nil
	}
	between := func(x ssa.Instruction) bool {
		return x != ssa.Instruction(best) && instrReaches(best, x, nil) && instrReaches(x, ld, best)
	}
	for _, st := range stores {
		if st != best && between(st) {
			return nil
		}
	}
	for _, c := range clobbers {
		if between(c) {
			return nil
		}
	}
	return best.Val
}

// sameErrValue: the same SSA value, or loads of a local cell that see the same store.
func sameErrValue(a, e ssa.Value) bool {
	if a == e {
		return true
	}
	fa, fe := Forwarded(a), Forwarded(e)
	return (fa != nil && fa == e) || (fe != nil && fe == a) || (fa != nil && fa == fe)
}

// instrReaches: control can go from `from` to `to` without executing `avoid`.
func instrReaches(from, to, avoid ssa.Instruction) bool {
	g := G(from.Parent())
	seen := map[*ssa.BasicBlock]bool{}
	var walk func(b *ssa.BasicBlock, idx int) bool
	walk = func(b *ssa.BasicBlock, idx int) bool {
		for i := idx; i < len(b.Instrs); i++ {
			if b.Instrs[i] == to {
				return true
			}
			if avoid != nil && b.Instrs[i] == avoid {
				return false
			}
		}
		for _, sx := range g.Succs(b) {
			if seen[sx] {
				continue
			}
			seen[sx] = true
			if walk(sx, 0) {
				return true
			}
		}
		return false
	}
	return walk(from.Block(), InstrIndex(from)+1)
}

// CondHolds searches conds for a condition on value v and returns its polarity.
func CondHolds(conds []Cond, v ssa.Value) (pol bool, found bool) {
	for _, c := range conds {
		if c.V == v {
			return c.Pol, true
		}
	}
	return false, false
}

// ErrNonNilOn reports, for a condition list, whether the error value e is known
// to be non-nil (pol true) or nil (pol false).  It recognises `e != nil` and
// `e == nil` BinOps over e.
func ErrNonNil(conds []Cond, e ssa.Value) (nonnil bool, known bool) {
	for _, c := range conds {
		b, ok := c.V.(*ssa.BinOp)
		if !ok {
			continue
		}
		var other ssa.Value
		if sameErrValue(b.X, e) {
			other = b.Y
		} else if sameErrValue(b.Y, e) {
			other = b.X
		} else {
			continue
		}
		if !IsNilConst(other) {
			continue
		}
		switch b.Op {
		case token.NEQ:
			return c.Pol, true
		case token.EQL:
			return !c.Pol, true
		}
	}
	return false, false
}

// IntPred is a branch condition normalised to a predicate over one integer expression X compared with a constant:
// `X op k`, `k op X`, under a polarity.  Holds(n) says whether the branch is taken for X == n.
type IntPred struct {
	X     ssa.Value
	K     int64
	Holds func(n int64) bool
}

// AsIntPred recognises every spelling of a comparison with a constant (==, !=, <, <=, >, >=, either operand order,
// either polarity), so that rules can ask what the comparison implies instead of demanding one spelling.
func AsIntPred(cond ssa.Value, pol bool) (IntPred, bool) {
	c := norm(Cond{V: cond, Pol: pol})
	bo, ok := c.V.(*ssa.BinOp)
	if !ok {
		return IntPred{}, false
	}
	op := bo.Op
	x, y := bo.X, bo.Y
	k, isK := ConstInt(y)
	if !isK {
		k, isK = ConstInt(x)
		if !isK {
			return IntPred{}, false
		}
		x = y
		switch op { // k op x  ==  x op' k
		case token.LSS:
			op = token.GTR
		case token.LEQ:
			op = token.GEQ
		case token.GTR:
			op = token.LSS
		case token.GEQ:
			op = token.LEQ
		}
	}
	var f func(n int64) bool
	switch op {
	case token.EQL:
		f = func(n int64) bool { return n == k }
	case token.NEQ:
		f = func(n int64) bool { return n != k }
	case token.LSS:
		f = func(n int64) bool { return n < k }
	case token.LEQ:
		f = func(n int64) bool { return n <= k }
	case token.GTR:
		f = func(n int64) bool { return n > k }
	case token.GEQ:
		f = func(n int64) bool { return n >= k }
	default:
		return IntPred{}, false
	}
	p := c.Pol
	return IntPred{X: x, K: k, Holds: func(n int64) bool { return f(n) == p }}, true
}

// LenPred: the condition compares len(arg) with a constant.
func LenPred(cond ssa.Value, pol bool) (arg ssa.Value, p IntPred, ok bool) {
	p, ok = AsIntPred(cond, pol)
	if !ok {
		return nil, p, false
	}
	c, isCall := StripConv(p.X).(*ssa.Call)
	if !isCall {
		return nil, p, false
	}
	if bi, isB := c.Call.Value.(*ssa.Builtin); !isB || bi.Name() != "len" || len(c.Call.Args) != 1 {
		return nil, p, false
	}
	return c.Call.Args[0], p, true
}

// OnlyZero: for a non-negative quantity, the predicate holds for no value other than 0 (it implies X == 0).
func (p IntPred) OnlyZero() bool {
	hi := p.K
	if hi < 0 {
		hi = 0
	}
	for n := int64(1); n <= hi+2; n++ {
		if p.Holds(n) {
			return false
		}
	}
	return p.Holds(0)
}

// NonZero: the predicate excludes 0 (it implies X != 0, i.e. X >= 1 for a non-negative quantity).
func (p IntPred) NonZero() bool { return !p.Holds(0) }

// AtLeast: the predicate implies X >= m (checked on 0..m-1).
func (p IntPred) AtLeast(m int64) bool {
	for n := int64(0); n < m; n++ {
		if p.Holds(n) {
			return false
		}
	}
	return true
}

// AtMost: the predicate implies X <= m for a quantity that does not exceed lim (checked on m+1..max(K,m)+2).
func (p IntPred) AtMost(m int64) bool {
	hi := p.K
	if hi < m {
		hi = m
	}
	for n := m + 1; n <= hi+2; n++ {
		if p.Holds(n) {
			return false
		}
	}
	return true
}
