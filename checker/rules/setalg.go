package rules

import (
	"fmt"
	"go/constant"
	"go/token"
	"go/types"
	"sort"
	"strings"

	"golang.org/x/tools/go/ssa"

	"sbpfcheck/flow"
	"sbpfcheck/load"
)

// Engine E7 (setalg): an abstract interpretation of the profiler's list handling.  Every string collection (slice or
// map key set) is mapped to a set expression over four base sets - F (names of the syscalls found in the binary), BL (the
// -b flag), AL (the -allow flag), ARCH (the names of the architecture's table) - by summarising each element-wise loop:
// an element enters an accumulator under the conjunction of the membership tests on its path, so the accumulator is
// `init U { x in A | tests }`.  Set expressions over base sets are boolean functions of the four membership bits, so the
// final comparison with the specified expression is a 16-row truth table: exact, for all inputs.  Anything the
// interpreter does not recognise makes the value unknown and the obligation undecided.  No code is run.

// ---------------------------------------------------------------- set expressions

type sx struct {
	op   byte // 'b' base, 'u' union, 'i' intersection, 'd' difference, '0' empty, 'c' case split: a if base `name` is empty, else b
	name string
	a, b *sx
}

var sxEmpty = &sx{op: '0'}

func sxBase(n string) *sx { return &sx{op: 'b', name: n} }
func sxU(a, b *sx) *sx {
	if a.op == '0' {
		return b
	}
	if b.op == '0' {
		return a
	}
	return &sx{op: 'u', a: a, b: b}
}
func sxI(a, b *sx) *sx {
	if a.op == '0' || b.op == '0' {
		return sxEmpty
	}
	return &sx{op: 'i', a: a, b: b}
}
func sxD(a, b *sx) *sx {
	if a.op == '0' {
		return sxEmpty
	}
	if b.op == '0' {
		return a
	}
	return &sx{op: 'd', a: a, b: b}
}

func (s *sx) eval(env map[string]bool) bool {
	switch s.op {
	case 'b':
		return env[s.name]
	case 'u':
		return s.a.eval(env) || s.b.eval(env)
	case 'i':
		return s.a.eval(env) && s.b.eval(env)
	case 'd':
		return s.a.eval(env) && !s.b.eval(env)
	case 'c':
		if env["empty:"+s.name] {
			return s.a.eval(env)
		}
		return s.b.eval(env)
	}
	return false
}

func (s *sx) bases(out map[string]bool) {
	switch s.op {
	case 'b':
		out[s.name] = true
	case 'u', 'i', 'd':
		s.a.bases(out)
		s.b.bases(out)
	case 'c':
		out["empty:"+s.name] = true
		out[s.name] = true
		s.a.bases(out)
		s.b.bases(out)
	}
}

func (s *sx) subst(name string, with *sx) *sx {
	switch s.op {
	case 'b':
		if s.name == name {
			return with
		}
		return s
	case 'u':
		return sxU(s.a.subst(name, with), s.b.subst(name, with))
	case 'i':
		return sxI(s.a.subst(name, with), s.b.subst(name, with))
	case 'd':
		return sxD(s.a.subst(name, with), s.b.subst(name, with))
	case 'c':
		if s.name == name && with.op == '0' {
			return s.a.subst(name, with)
		}
		return &sx{op: 'c', name: s.name, a: s.a.subst(name, with), b: s.b.subst(name, with)}
	}
	return s
}

func (s *sx) String() string {
	switch s.op {
	case 'b':
		return s.name
	case 'u':
		return "(" + s.a.String() + " U " + s.b.String() + ")"
	case 'i':
		return "(" + s.a.String() + " & " + s.b.String() + ")"
	case 'd':
		return "(" + s.a.String() + " \\ " + s.b.String() + ")"
	case 'c':
		return "[" + s.name + " empty ? " + s.a.String() + " : " + s.b.String() + "]"
	}
	return "{}"
}

// sxEqual decides a == b for all values of the base sets that satisfy the constraint, by truth table over the
// membership bits of one arbitrary element.  It returns a counterexample row otherwise.
func sxEqual(a, b *sx, constraint func(map[string]bool) bool) (bool, string) {
	bs := map[string]bool{}
	a.bases(bs)
	b.bases(bs)
	var names []string
	for n := range bs {
		names = append(names, n)
	}
	sort.Strings(names)
	if len(names) > 12 {
		return false, "too many base sets"
	}
	for m := 0; m < 1<<uint(len(names)); m++ {
		env := map[string]bool{}
		for i, n := range names {
			env[n] = m&(1<<uint(i)) != 0
		}
		if constraint != nil && !constraint(env) {
			continue
		}
		feasible := true
		for _, n := range names {
			if strings.HasPrefix(n, "empty:") && env[n] && env[strings.TrimPrefix(n, "empty:")] {
				feasible = false // an element of a set that is empty
			}
		}
		if !feasible {
			continue
		}
		if a.eval(env) != b.eval(env) {
			var in []string
			for _, n := range names {
				if env[n] && !strings.HasPrefix(n, "empty:") {
					in = append(in, n)
				}
			}
			for _, n := range names {
				if strings.HasPrefix(n, "empty:") {
					if env[n] {
						in = append(in, "(with "+strings.TrimPrefix(n, "empty:")+" empty)")
					} else {
						in = append(in, "(with "+strings.TrimPrefix(n, "empty:")+" non-empty)")
					}
				}
			}
			return false, fmt.Sprintf("an element that is in {%s} and in no other base set: left=%v right=%v", strings.Join(in, ", "), a.eval(env), b.eval(env))
		}
	}
	return true, ""
}

// ---------------------------------------------------------------- collections

type coll struct {
	set       *sx
	dupfree   bool
	sorted    bool
	elem      string // "name" or "sys"
	uniqueNum bool   // sys collections: at most one element per syscall number
	why       string // set == nil: why the value is unknown
}

func unknownColl(format string, a ...interface{}) *coll { return &coll{why: fmt.Sprintf(format, a...)} }
func (c *coll) known() bool                             { return c != nil && c.set != nil }

type sframe struct {
	fn     *ssa.Function
	call   *ssa.Call
	parent *sframe
	id     string
}

type setLoop struct {
	header, body, exit *ssa.BasicBlock
	counted            *flow.CountedLoop
	rng                *ssa.Range
	key, val           ssa.Value
}

func (l *setLoop) contains(b *ssa.BasicBlock) bool {
	if l.counted != nil {
		return l.counted.Contains(b)
	}
	g := flow.G(l.header.Parent())
	if b == l.header {
		return true
	}
	if !g.Dominates(l.body, b) {
		return false
	}
	// reaches the header again
	seen := map[*ssa.BasicBlock]bool{}
	var walk func(x *ssa.BasicBlock) bool
	walk = func(x *ssa.BasicBlock) bool {
		if x == l.header {
			return true
		}
		if seen[x] || !g.Dominates(l.body, x) {
			return false
		}
		seen[x] = true
		for _, s := range g.Succs(x) {
			if walk(s) {
				return true
			}
		}
		return false
	}
	return walk(b)
}

type setInterp struct {
	p        *load.Program
	pkg      string
	archVal  ssa.Value // the *arch.Info handed to ExtractSyscalls
	loops    map[*ssa.Function][]*setLoop
	memo     map[string]*coll
	busy     map[string]bool
	flagName map[*ssa.Global]string // "BL" / "AL"
	notes    []string
}

func newSetInterp(p *load.Program, pkg string) *setInterp {
	si := &setInterp{p: p, pkg: pkg, loops: map[*ssa.Function][]*setLoop{}, memo: map[string]*coll{}, busy: map[string]bool{}, flagName: map[*ssa.Global]string{}}
	// the flag variables: flag.Var(&X, "b", ...) / flag.Var(&X, "allow", ...)
	for _, f := range p.SrcFuncs(pkg) {
		for _, c := range flow.Calls(f) {
			if !flow.CalleeIs(c, "flag", "Var") && !flow.CalleeIs(c, "flag", "FlagSet.Var") {
				continue
			}
			args := c.Common().Args
			if len(args) < 3 {
				continue
			}
			name, ok := flow.ConstString(args[len(args)-2])
			if !ok {
				continue
			}
			v := args[len(args)-3]
			if mi, ok := v.(*ssa.MakeInterface); ok {
				v = mi.X
			}
			if ct, ok := v.(*ssa.ChangeType); ok {
				v = ct.X
			}
			if g, ok := v.(*ssa.Global); ok {
				switch name {
				case "b":
					si.flagName[g] = "BL"
				case "allow":
					si.flagName[g] = "AL"
				}
			}
		}
	}
	return si
}

func (si *setInterp) loopsIn(fn *ssa.Function) []*setLoop {
	if ls, ok := si.loops[fn]; ok {
		return ls
	}
	var out []*setLoop
	for _, cl := range flow.CountedLoops(fn) {
		out = append(out, &setLoop{header: cl.Header, body: cl.Body, exit: cl.Exit, counted: cl})
	}
	for _, b := range fn.Blocks {
		for _, in := range b.Instrs {
			nx, ok := in.(*ssa.Next)
			if !ok || nx.IsString {
				continue
			}
			rg, ok := nx.Iter.(*ssa.Range)
			if !ok {
				continue
			}
			ifi, ok := flow.LastIf(b)
			if !ok || len(b.Succs) != 2 {
				continue
			}
			ex, ok := ifi.Cond.(*ssa.Extract)
			if !ok || ex.Tuple != ssa.Value(nx) || ex.Index != 0 {
				continue
			}
			l := &setLoop{header: b, body: b.Succs[0], exit: b.Succs[1], rng: rg}
			for _, ref := range *nx.Referrers() {
				if e2, ok := ref.(*ssa.Extract); ok {
					switch e2.Index {
					case 1:
						l.key = e2
					case 2:
						l.val = e2
					}
				}
			}
			out = append(out, l)
		}
	}
	si.loops[fn] = out
	return out
}

func (si *setInterp) loopOf(b *ssa.BasicBlock) *setLoop {
	var best *setLoop
	for _, l := range si.loopsIn(b.Parent()) {
		if l.contains(b) && b != l.header {
			if best == nil || best.contains(l.header) {
				best = l
			}
		}
	}
	return best
}

func (si *setInterp) loopWithHeader(b *ssa.BasicBlock) *setLoop {
	for _, l := range si.loopsIn(b.Parent()) {
		if l.header == b {
			return l
		}
	}
	return nil
}

func isStringSlice(t types.Type) bool {
	s, ok := t.Underlying().(*types.Slice)
	return ok && types.Identical(s.Elem().Underlying(), types.Typ[types.String])
}

func isSysSlice(t types.Type) bool {
	s, ok := t.Underlying().(*types.Slice)
	return ok && isNamed(s.Elem(), load.PkgDisasm, "Syscall")
}

func isCollType(t types.Type) bool {
	if isStringSlice(t) || isSysSlice(t) {
		return true
	}
	_, ok := t.Underlying().(*types.Map)
	return ok
}

// up maps a parameter to the caller's argument.
func (si *setInterp) up(v ssa.Value, fr *sframe) (ssa.Value, *sframe) {
	for i := 0; i < 8; i++ {
		prm, ok := v.(*ssa.Parameter)
		if !ok || fr == nil || fr.call == nil {
			return v, fr
		}
		idx := -1
		for k, q := range fr.fn.Params {
			if q == prm {
				idx = k
			}
		}
		if idx < 0 || idx >= len(fr.call.Call.Args) {
			return v, fr
		}
		v, fr = fr.call.Call.Args[idx], fr.parent
	}
	return v, fr
}

func (si *setInterp) key(kind string, v ssa.Value, fr *sframe, at ssa.Instruction) string {
	id := ""
	if fr != nil {
		id = fr.id
	}
	return fmt.Sprintf("%s|%p|%s|%p", kind, v, id, at)
}

// eval: the abstract value of a slice-typed SSA value.
func (si *setInterp) eval(v ssa.Value, fr *sframe) *coll {
	k := si.key("s", v, fr, nil)
	if c, ok := si.memo[k]; ok {
		return c
	}
	if si.busy[k] {
		return unknownColl("cyclic definition of %s", v.Name())
	}
	si.busy[k] = true
	c := si.eval0(v, fr)
	delete(si.busy, k)
	si.memo[k] = c
	return c
}

func (si *setInterp) eval0(v ssa.Value, fr *sframe) *coll {
	elem := "name"
	if isSysSlice(v.Type()) {
		elem = "sys"
	}
	switch x := v.(type) {
	case *ssa.Const:
		if x.IsNil() {
			return &coll{set: sxEmpty, dupfree: true, sorted: true, elem: elem}
		}
	case *ssa.MakeSlice:
		if k, ok := flow.ConstInt(x.Len); ok && k == 0 {
			return &coll{set: sxEmpty, dupfree: true, sorted: true, elem: elem}
		}
		return unknownColl("make with a non-zero length (elements written by index are not modelled)")
	case *ssa.ChangeType:
		return si.eval(x.X, fr)
	case *ssa.Parameter:
		if fr != nil && fr.call != nil {
			a, pf := si.up(x, fr)
			if a != ssa.Value(x) {
				return si.eval(a, pf)
			}
		}
		return unknownColl("parameter %s of %s has no known caller", x.Name(), x.Parent().Name())
	case *ssa.UnOp:
		if x.Op == token.MUL {
			if g, ok := x.X.(*ssa.Global); ok {
				if n, ok := si.flagName[g]; ok {
					return &coll{set: sxBase(n), elem: "name"}
				}
				return unknownColl("global %s is not a flag variable", g.Name())
			}
		}
	case *ssa.Extract:
		if c, ok := x.Tuple.(*ssa.Call); ok {
			return si.callResult(c, x.Index, fr)
		}
	case *ssa.Call:
		if a := isAppend(x); a != nil && len(a.Call.Args) == 2 && appendedValues(a) == nil {
			// append(a, b...) outside a loop: the union; nothing is known about elements the two have in common
			c1, c2 := si.eval(a.Call.Args[0], fr), si.eval(a.Call.Args[1], fr)
			if !c1.known() {
				return c1
			}
			if !c2.known() {
				return c2
			}
			df := (c1.set.op == '0' && c2.dupfree) || (c2.set.op == '0' && c1.dupfree)
			return &coll{set: sxU(c1.set, c2.set), dupfree: df, elem: c1.elem}
		}
		return si.callResult(x, 0, fr)
	case *ssa.Phi:
		if l := si.loopWithHeader(x.Block()); l != nil {
			return si.accumulator(x, l, fr)
		}
		return si.join(x, fr)
	}
	return unknownColl("%T %s is not modelled", v, v.String())
}

func (si *setInterp) callResult(c *ssa.Call, idx int, fr *sframe) *coll {
	if flow.CalleeIs(c, load.PkgDisasm, "ExtractSyscalls") && idx == 0 {
		if len(c.Call.Args) > 0 {
			a, _ := si.up(c.Call.Args[0], fr)
			si.archVal = a
		}
		return &coll{set: sxBase("F"), elem: "sys"}
	}
	cal := flow.Callee(c)
	if cal == nil || cal.Pkg == nil || cal.Pkg.Pkg.Path() != si.pkg || len(cal.Blocks) == 0 {
		return unknownColl("result of %s is not modelled (%s in %s)", calleeName(c), c.String(), c.Parent().Name())
	}
	nf := si.frame(fr, c, cal)
	if nf == nil {
		return unknownColl("call depth exceeded at %s", cal.Name())
	}
	var out *coll
	for _, ret := range flow.Returns(cal) {
		rs := flow.RetResults(ret)
		if idx >= len(rs) {
			return unknownColl("%s: result index", cal.Name())
		}
		var c1 *coll
		if _, isMap := rs[idx].Type().Underlying().(*types.Map); isMap {
			c1 = si.evalMap(rs[idx], nf, ret, false)
		} else {
			c1 = si.eval(rs[idx], nf)
			if c1.known() {
				c2 := *c1
				c2.sorted = c1.sorted || si.sortedAt(rs[idx], ret)
				c1 = &c2
			}
		}
		if !c1.known() {
			return c1
		}
		if out == nil {
			out = c1
			continue
		}
		if eq, _ := sxEqual(out.set, c1.set, nil); !eq {
			return unknownColl("%s returns different sets on different paths", cal.Name())
		}
		o2 := *out
		o2.dupfree = out.dupfree && c1.dupfree
		o2.sorted = out.sorted && c1.sorted
		out = &o2
	}
	if out == nil {
		return unknownColl("%s has no return", cal.Name())
	}
	return out
}

func (si *setInterp) frame(parent *sframe, c *ssa.Call, cal *ssa.Function) *sframe {
	d := 0
	for f := parent; f != nil; f = f.parent {
		d++
	}
	if d > 6 {
		return nil
	}
	id := fmt.Sprintf("%p", c)
	if parent != nil {
		id = parent.id + ">" + id
	}
	return &sframe{fn: cal, call: c, parent: parent, id: id}
}

// sortedAt: v was handed to sort.Strings at a point that dominates `at`, and nothing else received it in between.
func (si *setInterp) sortedAt(v ssa.Value, at ssa.Instruction) bool {
	refs := v.Referrers()
	if refs == nil {
		return false
	}
	var srt *ssa.Call
	for _, ref := range *refs {
		if c, ok := ref.(*ssa.Call); ok && (flow.CalleeIs(c, "sort", "Strings") || flow.CalleeIs(c, "slices", "Sort")) && flow.InstrDominates(c, at) {
			srt = c
		}
	}
	if srt == nil {
		return false
	}
	for _, ref := range *refs {
		c, ok := ref.(ssa.CallInstruction)
		if !ok || ref == ssa.Instruction(srt) || ref == at {
			continue
		}
		if si.readerCall(c) {
			continue
		}
		if in, ok := ref.(ssa.Instruction); ok && instrReachesNoRepeat(srt, in, nil) && (in == at || instrReachesNoRepeat(in, at, nil)) {
			return false
		}
	}
	// element stores through the slice after the sort
	for _, ref := range *refs {
		if ia, ok := ref.(*ssa.IndexAddr); ok {
			for _, r2 := range *ia.Referrers() {
				if st, ok := r2.(*ssa.Store); ok && st.Addr == ssa.Value(ia) && instrReachesNoRepeat(srt, st, nil) {
					return false
				}
			}
		}
	}
	return true
}

// sortedThrough: v is sorted when `at` executes in frame fr: sorted in this function before `at`, or v is a parameter that
// nothing in this function modifies before `at` and that the (unique) caller passes sorted.
func (si *setInterp) sortedThrough(v ssa.Value, at ssa.Instruction, fr *sframe, depth int) bool {
	if si.sortedAt(v, at) {
		return true
	}
	prm, ok := v.(*ssa.Parameter)
	if !ok || fr == nil || fr.call == nil || depth > 4 || prm.Referrers() == nil {
		return false
	}
	idx := -1
	for k, q := range fr.fn.Params {
		if q == prm {
			idx = k
		}
	}
	if idx < 0 || idx >= len(fr.call.Call.Args) || len(fr.call.Call.Args) != len(fr.fn.Params) {
		return false
	}
	// nothing between entry and `at` may reorder or rewrite the list
	for _, ref := range *prm.Referrers() {
		if ref == at {
			continue
		}
		switch x := ref.(type) {
		case *ssa.DebugRef:
		case ssa.CallInstruction:
			if si.readerCall(x) {
				continue
			}
			// a sibling emitter (reads the list) is harmless; anything else that can run before `at` is not
			if in := ref; in.Block() != nil && (in == at || instrReachesNoRepeat(in, at, nil)) {
				if f := flow.Callee(x); f != nil && si.readOnlyParam(f, x, prm) {
					continue
				}
				return false
			}
		case *ssa.IndexAddr:
			for _, r2 := range *x.Referrers() {
				if st, ok := r2.(*ssa.Store); ok && st.Addr == ssa.Value(x) {
					return false
				}
			}
		case *ssa.Store:
			if x.Val != ssa.Value(prm) {
				return false
			}
		case *ssa.Phi, *ssa.Slice, *ssa.MakeClosure:
			return false
		}
	}
	return si.sortedThrough(fr.call.Call.Args[idx], fr.call, fr.parent, depth+1)
}

// readOnlyParam: the callee only reads the slice it receives as `arg` (length, elements, stored into a value that is
// marshalled or executed as template data).
func (si *setInterp) readOnlyParam(f *ssa.Function, c ssa.CallInstruction, arg ssa.Value) bool {
	if len(f.Blocks) == 0 || len(f.Params) != len(c.Common().Args) {
		return false
	}
	for k, a := range c.Common().Args {
		if a != arg {
			continue
		}
		prm := f.Params[k]
		if prm.Referrers() == nil {
			continue
		}
		for _, ref := range *prm.Referrers() {
			switch x := ref.(type) {
			case *ssa.DebugRef, *ssa.Index, *ssa.Range:
			case *ssa.IndexAddr:
				for _, r2 := range *x.Referrers() {
					if st, ok := r2.(*ssa.Store); ok && st.Addr == ssa.Value(x) {
						return false
					}
				}
			case *ssa.Store:
				if x.Val != ssa.Value(prm) {
					return false
				}
			case ssa.CallInstruction:
				if !si.readerCall(x) {
					return false
				}
			default:
				return false
			}
		}
	}
	return true
}

// readerCall: the call does not modify a slice argument.
func (si *setInterp) readerCall(c ssa.CallInstruction) bool {
	if bi, ok := c.Common().Value.(*ssa.Builtin); ok {
		switch bi.Name() {
		case "len", "cap", "print", "println":
			return true
		}
		return false
	}
	f := flow.Callee(c)
	if f == nil || f.Pkg == nil {
		return false
	}
	switch f.Pkg.Pkg.Path() {
	case "strings", "log", "fmt":
		return true
	}
	return false
}

// join: the value of a phi that merges branches.
func (si *setInterp) join(ph *ssa.Phi, fr *sframe) *coll {
	var cs []*coll
	for _, ed := range ph.Edges {
		c := si.eval(ed, fr)
		if !c.known() {
			return c
		}
		cs = append(cs, c)
	}
	allEq := true
	for _, c := range cs[1:] {
		if eq, _ := sxEqual(cs[0].set, c.set, nil); !eq {
			allEq = false
		}
	}
	merge := func(set *sx) *coll {
		out := &coll{set: set, dupfree: true, sorted: true, elem: cs[0].elem, uniqueNum: true}
		for _, c := range cs {
			out.dupfree = out.dupfree && c.dupfree
			out.sorted = out.sorted && c.sorted
			out.uniqueNum = out.uniqueNum && c.uniqueNum
		}
		return out
	}
	if allEq {
		return merge(cs[0].set)
	}
	// `if len(S) > 0 { x = f(x, S) }`: on the path that skips the update S is empty, so x equals f(x, {}) there
	if len(cs) == 2 {
		g := flow.G(ph.Block().Parent())
		d := g.Idom(ph.Block())
		if d != nil {
			if ifi, ok := flow.LastIf(d); ok && len(d.Succs) == 2 {
				for pol := 0; pol < 2; pol++ {
					arg, pr, ok := flow.LenPred(ifi.Cond, pol == 0)
					if !ok || !pr.OnlyZero() {
						continue
					}
					// the successor taken when len(arg) == 0
					zeroSucc := d.Succs[pol]
					var bc *coll
					if _, isMap := arg.Type().Underlying().(*types.Map); isMap {
						bc = si.evalMap(arg, fr, ifi, false)
					} else {
						bc = si.eval(arg, fr)
					}
					if !bc.known() || bc.set.op != 'b' {
						continue
					}
					for z := 0; z < 2; z++ {
						pred := ph.Block().Preds[z]
						onZero := pred == d && zeroSucc == ph.Block() || (pred != d && (zeroSucc == pred || g.Dominates(zeroSucc, pred)) && len(g.Preds(zeroSucc)) == 1)
						if !onZero {
							continue
						}
						o := 1 - z
						if eq, _ := sxEqual(cs[o].set.subst(bc.set.name, sxEmpty), cs[z].set, nil); eq {
							return merge(cs[o].set)
						}
						// otherwise keep both worlds apart: the final comparison is made in each
						return merge(&sx{op: 'c', name: bc.set.name, a: cs[z].set, b: cs[o].set})
					}
				}
			}
		}
	}
	return unknownColl("a list joins different values (%s / %s) under a condition that is not `len(flag) == 0`", cs[0].set, cs[len(cs)-1].set)
}

// ---------------------------------------------------------------- loops

// projection of the loop's current element: "" (the element itself), a field name, "key", "val", "val.<field>"
func (si *setInterp) proj(v ssa.Value, l *setLoop) (string, bool) {
	if l.counted != nil {
		if f, ok := l.counted.ElementOf(v); ok {
			return f, true
		}
		// a field read of a whole-element load
		if fx, ok := v.(*ssa.Field); ok {
			if f, ok := l.counted.ElementOf(fx.X); ok && f == "" {
				return fx.X.Type().Underlying().(*types.Struct).Field(fx.Field).Name(), true
			}
		}
		return "", false
	}
	switch {
	case l.key != nil && v == l.key:
		return "key", true
	case l.val != nil && v == l.val:
		return "val", true
	}
	if fx, ok := v.(*ssa.Field); ok && l.val != nil && fx.X == l.val {
		return "val." + fx.X.Type().Underlying().(*types.Struct).Field(fx.Field).Name(), true
	}
	// the value copied into a local (`for _, s := range m` with s spilled): that local read whole, or a field of it
	if ld, ok := v.(*ssa.UnOp); ok && ld.Op == token.MUL {
		if al, ok := ld.X.(*ssa.Alloc); ok {
			if st := flow.OnlyStore(al); st != nil && l.contains(st.Block()) {
				if pj, ok := si.proj(st.Val, l); ok && (pj == "val" || pj == "key") {
					return pj, true
				}
			}
		}
		if fa, ok := ld.X.(*ssa.FieldAddr); ok {
			if al, ok := fa.X.(*ssa.Alloc); ok {
				var only *ssa.Store
				n := 0
				for _, ref := range *al.Referrers() {
					if st, ok := ref.(*ssa.Store); ok && st.Addr == ssa.Value(al) {
						only = st
						n++
					}
				}
				if n == 1 && l.val != nil && only.Val == l.val {
					return "val." + al.Type().Underlying().(*types.Pointer).Elem().Underlying().(*types.Struct).Field(fa.Field).Name(), true
				}
			}
		}
	}
	// lookup of the ranged map at the key: the value
	if lk, ok := v.(*ssa.Lookup); ok && !lk.CommaOk && l.key != nil && lk.Index == l.key && (lk.X == l.rng.X || sameLoadedValue(lk.X, l.rng.X)) {
		return "val", true
	}
	return "", false
}

// source: the collection a loop ranges over, projected.
func (si *setInterp) source(l *setLoop, proj string, fr *sframe) *coll {
	var base *coll
	if l.counted != nil {
		base = si.eval(l.counted.Over, fr)
	} else {
		m := si.evalMapBoth(l.rng.X, fr, l.header.Instrs[0])
		if m == nil || !m.keys.known() {
			if m != nil {
				return m.keys
			}
			return unknownColl("ranged map is not modelled")
		}
		switch {
		case proj == "key":
			return m.keys
		case strings.HasPrefix(proj, "val"):
			if m.vals == nil || !m.vals.known() {
				return unknownColl("the values of the ranged map are not modelled")
			}
			base = m.vals
			proj = strings.TrimPrefix(strings.TrimPrefix(proj, "val"), ".")
		}
	}
	if !base.known() {
		return base
	}
	switch {
	case proj == "":
		return base
	case base.elem == "sys" && proj == "Name":
		// names of a collection of syscalls: duplicate-free when the numbers are distinct (Name = table[Num], C16; tables injective, C12)
		return &coll{set: base.set, dupfree: base.uniqueNum, elem: "name"}
	case base.elem == "sys" && proj == "Num":
		return &coll{set: base.set, dupfree: base.uniqueNum, elem: "num"}
	}
	return unknownColl("projection %q of a %s collection is not modelled", proj, base.elem)
}

// pathLiterals enumerates the acyclic paths from the loop body's entry to block b inside the loop and returns, per
// path, the branch conditions taken.
func (si *setInterp) pathLiterals(l *setLoop, b *ssa.BasicBlock) [][]flow.Cond {
	g := flow.G(b.Parent())
	var out [][]flow.Cond
	var walk func(x *ssa.BasicBlock, acc []flow.Cond, seen map[*ssa.BasicBlock]bool)
	walk = func(x *ssa.BasicBlock, acc []flow.Cond, seen map[*ssa.BasicBlock]bool) {
		if len(out) > 64 {
			return
		}
		if x == b {
			out = append(out, append([]flow.Cond{}, acc...))
			return
		}
		if seen[x] || x == l.header || !l.contains(x) {
			return
		}
		seen[x] = true
		succs := g.Succs(x)
		if ifi, ok := flow.LastIf(x); ok && len(succs) == 2 && succs[0] != succs[1] {
			walk(succs[0], append(acc, flow.Cond{V: ifi.Cond, Pol: true, At: ifi}), seen)
			walk(succs[1], append(acc, flow.Cond{V: ifi.Cond, Pol: false, At: ifi}), seen)
		} else {
			for _, s := range succs {
				walk(s, acc, seen)
			}
		}
		delete(seen, x)
	}
	walk(l.body, nil, map[*ssa.BasicBlock]bool{})
	return out
}

// contribution: the set of projected elements that reach an insertion in block b with inserted value e.
// selfMap: a map that is being filled in this loop (membership in it is a no-op for its key set).
func (si *setInterp) contribution(l *setLoop, b *ssa.BasicBlock, e ssa.Value, fr *sframe, selfMap ssa.Value) (*coll, string) {
	pj, ok := si.proj(e, l)
	if !ok {
		return nil, fmt.Sprintf("the inserted value %s is not the loop's current element (or a field of it)", e.Name())
	}
	src := si.source(l, pj, fr)
	if !src.known() {
		return nil, src.why
	}
	paths := si.pathLiterals(l, b)
	if len(paths) == 0 {
		return nil, "insertion not reachable from the loop body"
	}
	total := sxEmpty
	for _, path := range paths {
		set := src.set
		infeasible := false
		for _, cd := range path {
			c := flow.Norm(cd)
			if k, isK := c.V.(*ssa.Const); isK && k.Value != nil && k.Value.Kind() == constant.Bool {
				if constant.BoolVal(k.Value) != c.Pol {
					infeasible = true
				}
				continue
			}
			if hc, isCall := c.V.(*ssa.Call); isCall {
				// a boolean helper that searches a list linearly: `x in set(list)`
				if li, ki, ok := linearSearch(flow.Callee(hc)); ok && li < len(hc.Call.Args) && ki < len(hc.Call.Args) {
					kp, ok := si.proj(hc.Call.Args[ki], l)
					if !ok || kp != pj {
						return nil, "a membership test on the way to the insertion looks up something other than the inserted element"
					}
					m := si.eval(hc.Call.Args[li], fr)
					if !m.known() {
						return nil, m.why
					}
					if c.Pol {
						set = sxI(set, m.set)
					} else {
						set = sxD(set, m.set)
					}
					continue
				}
			}
			ex, ok := c.V.(*ssa.Extract)
			if !ok || ex.Index != 1 {
				return nil, fmt.Sprintf("a condition on the way to the insertion is not a membership test (%s)", c.V.String())
			}
			lk, ok := ex.Tuple.(*ssa.Lookup)
			if !ok || !lk.CommaOk {
				return nil, "a condition on the way to the insertion is not a map membership test"
			}
			kp, ok := si.proj(lk.Index, l)
			if !ok || kp != pj {
				return nil, "a membership test on the way to the insertion looks up something other than the inserted element"
			}
			if (selfMap != nil && lk.X == selfMap) || si.filledInLoop(lk.X, l) {
				// membership in the set that is being filled (or in a set that this loop itself fills with the same elements):
				// `x not in T` guarding the insertion is a de-duplication guard and does not change which elements get in;
				// `x in T` guarding it means the path adds nothing that was not there already
				if c.Pol {
					infeasible = true
				}
				continue
			}
			m := si.evalMap(lk.X, fr, lk, false)
			if !m.known() {
				return nil, m.why
			}
			if c.Pol {
				set = sxI(set, m.set)
			} else {
				set = sxD(set, m.set)
			}
		}
		if !infeasible {
			total = sxU(total, set)
		}
	}
	return &coll{set: total, dupfree: src.dupfree, elem: src.elem, uniqueNum: src.uniqueNum}, ""
}

// filledInLoop: the map receives, inside loop l, the loop's own current elements.
func (si *setInterp) filledInLoop(mm ssa.Value, l *setLoop) bool {
	if mm.Referrers() == nil {
		return false
	}
	for _, ref := range *mm.Referrers() {
		if mu, ok := ref.(*ssa.MapUpdate); ok && l.contains(mu.Block()) && mu.Block() != l.header {
			return true
		}
	}
	return false
}

// accumulator: a slice that starts as init and grows by append inside loop l.
func (si *setInterp) accumulator(ph *ssa.Phi, l *setLoop, fr *sframe) *coll {
	var init *coll
	var back []ssa.Value
	for i, ed := range ph.Edges {
		pred := ph.Block().Preds[i]
		if l.contains(pred) {
			back = append(back, ed)
			continue
		}
		if init != nil {
			return unknownColl("loop accumulator with more than one initial value")
		}
		init = si.eval(ed, fr)
	}
	if init == nil || len(back) == 0 {
		return unknownColl("loop-carried list without an initial value")
	}
	if !init.known() {
		return init
	}
	// append sites feeding the back edge
	var sites []*ssa.Call
	seen := map[ssa.Value]bool{}
	bad := ""
	var walk func(x ssa.Value)
	walk = func(x ssa.Value) {
		if x == ssa.Value(ph) || seen[x] {
			return
		}
		seen[x] = true
		switch y := x.(type) {
		case *ssa.Phi:
			if !l.contains(y.Block()) {
				bad = "the accumulator is joined with a value from outside the loop"
				return
			}
			for _, e := range y.Edges {
				walk(e)
			}
		case *ssa.Call:
			if a := isAppend(y); a != nil && l.contains(a.Block()) {
				sites = append(sites, a)
				walk(a.Call.Args[0])
				return
			}
			bad = "the accumulator is changed by something other than append inside the loop"
		default:
			bad = fmt.Sprintf("the accumulator is changed by %T inside the loop", x)
		}
	}
	for _, b := range back {
		walk(b)
	}
	if bad != "" {
		return unknownColl("%s", bad)
	}
	out := &coll{set: init.set, dupfree: init.set.op == '0', elem: init.elem, uniqueNum: false}
	if len(sites) == 0 {
		return init
	}
	for _, a := range sites {
		vals := appendedValues(a)
		if len(vals) != 1 {
			return unknownColl("append of other than one element inside a loop")
		}
		c, why := si.contribution(l, a.Block(), vals[0], fr, nil)
		if c == nil {
			return unknownColl("%s", why)
		}
		out.set = sxU(out.set, c.set)
		out.dupfree = out.dupfree && c.dupfree
		out.elem = c.elem
	}
	// at most one append per iteration (else an element can be entered twice)
	if out.dupfree {
		_, max := outcomesPerIteration(ph.Block().Parent(), l.header, func(in ssa.Instruction) bool {
			c, ok := in.(*ssa.Call)
			if !ok {
				return false
			}
			for _, s := range sites {
				if s == c {
					return true
				}
			}
			return false
		})
		if max > 1 {
			out.dupfree = false
		}
	}
	return out
}

// ---------------------------------------------------------------- maps

type mapAbs struct {
	keys *coll
	vals *coll
}

// evalMap: the key set of a map value as seen by instruction `at`.
func (si *setInterp) evalMap(v ssa.Value, fr *sframe, at ssa.Instruction, _ bool) *coll {
	m := si.evalMapBoth(v, fr, at)
	if m == nil {
		return unknownColl("map %s is not modelled", v.Name())
	}
	return m.keys
}

func (si *setInterp) evalMapBoth(v ssa.Value, fr *sframe, at ssa.Instruction) *mapAbs {
	var init *mapAbs
	switch x := v.(type) {
	case *ssa.ChangeType:
		return si.evalMapBoth(x.X, fr, at)
	case *ssa.Parameter:
		if fr != nil && fr.call != nil {
			a, pf := si.up(x, fr)
			if a != ssa.Value(x) {
				init = si.evalMapBoth(a, pf, fr.call)
				break
			}
		}
		return &mapAbs{keys: unknownColl("map parameter %s has no known caller", x.Name())}
	case *ssa.UnOp:
		// archInfo.SyscallNames
		if x.Op == token.MUL {
			if fa, ok := x.X.(*ssa.FieldAddr); ok {
				st, ok := fa.X.Type().Underlying().(*types.Pointer).Elem().Underlying().(*types.Struct)
				if ok && st.Field(fa.Field).Name() == "SyscallNames" && isNamed(fa.X.Type().Underlying().(*types.Pointer).Elem(), load.PkgArch, "Info") {
					info, _ := si.up(fa.X, fr)
					name := "ARCH"
					if si.archVal != nil && info != si.archVal {
						name = "ARCH(other " + info.Name() + ")"
					}
					return &mapAbs{keys: &coll{set: sxBase(name), dupfree: true, elem: "name"}}
				}
			}
		}
		return &mapAbs{keys: unknownColl("map value %s is not modelled", v.String())}
	case *ssa.Extract:
		c, ok := x.Tuple.(*ssa.Call)
		if !ok {
			return &mapAbs{keys: unknownColl("map value %s is not modelled", v.String())}
		}
		init = &mapAbs{keys: si.callResult(c, x.Index, fr)}
	case *ssa.Call:
		init = &mapAbs{keys: si.callResult(x, 0, fr)}
	case *ssa.MakeMap:
		init = &mapAbs{keys: &coll{set: sxEmpty, dupfree: true, elem: "name"}}
	default:
		return &mapAbs{keys: unknownColl("map value %T is not modelled", v)}
	}
	if !init.keys.known() {
		return init
	}
	return si.withUpdates(v, init, fr, at)
}

// withUpdates: the content of a map object at instruction `at`: its initial content plus what the loops that have
// finished (or the loop `at` is in) put into it.
func (si *setInterp) withUpdates(mk ssa.Value, init *mapAbs, fr *sframe, at ssa.Instruction) *mapAbs {
	keys := &coll{set: init.keys.set, dupfree: true, elem: init.keys.elem}
	vals := init.vals
	if mk.Referrers() == nil {
		return init
	}
	var fn *ssa.Function
	if in, ok := mk.(ssa.Instruction); ok {
		fn = in.Parent()
	} else if pr, ok := mk.(*ssa.Parameter); ok {
		fn = pr.Parent()
	}
	g := flow.G(fn)
	for _, ref := range *mk.Referrers() {
		switch u := ref.(type) {
		case *ssa.MapUpdate:
			if u.Map != mk {
				return &mapAbs{keys: unknownColl("a map is stored into another map")}
			}
			l := si.loopOf(u.Block())
			if l == nil {
				return &mapAbs{keys: unknownColl("a map is updated outside an element-wise loop")}
			}
			same := at != nil && at.Parent() == fn && l.contains(at.Block())
			done := at != nil && at.Parent() == fn && !same && g.Dominates(l.exit, at.Block())
			if at != nil && at.Parent() != fn {
				done = true // read by a caller after this function returned
			}
			if !same && !done {
				// the update must not be able to run before `at`
				if at != nil && !instrReachesNoRepeat(u, at, nil) {
					continue
				}
				return &mapAbs{keys: unknownColl("a map update may or may not have happened when the map is read")}
			}
			c, why := si.contribution(l, u.Block(), u.Key, fr, mk)
			if c == nil {
				return &mapAbs{keys: unknownColl("%s", why)}
			}
			keys.set = sxU(keys.set, c.set)
			keys.elem = c.elem
			// values: the loop's own element stored under its number
			if vp, ok := si.proj(u.Value, l); ok {
				kp, _ := si.proj(u.Key, l)
				src := si.source(l, vp, fr)
				if src.known() && src.elem == "name" && (kp == "Num" && vp == "Name" || kp == "val.Num" && vp == "val.Name") {
					// the element's name stored under the element's number: one name per number, names distinct because the
					// numbers are (Name = table[Num], C16; tables injective, C12)
					v2 := &coll{set: c.set, elem: "name", dupfree: true}
					if vals == nil {
						vals = v2
					} else if vals.elem == "name" {
						vals = &coll{set: sxU(vals.set, v2.set), elem: "name", dupfree: false}
					}
				}
				if src.known() && src.elem == "sys" {
					v2 := &coll{set: c.set, elem: "sys", uniqueNum: kp == "Num" && vp == "" || kp == "val.Num" && vp == "val", dupfree: true}
					if vals == nil {
						vals = v2
					} else {
						vals = &coll{set: sxU(vals.set, v2.set), elem: "sys", uniqueNum: vals.uniqueNum && v2.uniqueNum, dupfree: true}
					}
				}
			}
		case *ssa.Lookup, *ssa.Range, *ssa.DebugRef, *ssa.Return:
		case *ssa.Call:
			if bi, ok := u.Call.Value.(*ssa.Builtin); ok {
				if bi.Name() == "len" {
					continue
				}
				return &mapAbs{keys: unknownColl("%s on a map is not modelled", bi.Name())}
			}
			if si.readerCall(u) {
				continue
			}
			// handed to a function of the package: it must not update it
			cal := flow.Callee(u)
			if cal != nil && cal.Pkg != nil && cal.Pkg.Pkg.Path() == si.pkg && len(cal.Blocks) > 0 {
				ro := true
				for k, a := range u.Call.Args {
					if a != mk || k >= len(cal.Params) {
						continue
					}
					for _, r2 := range *cal.Params[k].Referrers() {
						switch r2.(type) {
						case *ssa.Lookup, *ssa.Range, *ssa.DebugRef:
						case *ssa.Call:
							if c2 := r2.(*ssa.Call); !isLenCall(c2) {
								ro = false
							}
						default:
							ro = false
						}
					}
				}
				if ro {
					continue
				}
			}
			return &mapAbs{keys: unknownColl("a map is handed to %s", calleeName(u))}
		default:
			return &mapAbs{keys: unknownColl("a map value escapes (%T)", ref)}
		}
	}
	return &mapAbs{keys: keys, vals: vals}
}

func isLenCall(c *ssa.Call) bool {
	bi, ok := c.Call.Value.(*ssa.Builtin)
	return ok && bi.Name() == "len"
}

// frameOf builds the calling context of fn from its unique chain of call sites up to root.
func (si *setInterp) frameOf(fn, root *ssa.Function, depth int) (*sframe, bool) {
	if fn == root {
		return nil, true
	}
	if depth > 5 {
		return nil, false
	}
	var site *ssa.Call
	n := 0
	for _, f := range si.p.SrcFuncs(si.pkg) {
		for _, c := range flow.Calls(f) {
			if call, ok := c.(*ssa.Call); ok && flow.Callee(call) == fn {
				site = call
				n++
			}
		}
	}
	if n != 1 {
		return nil, false
	}
	parent, ok := si.frameOf(site.Parent(), root, depth+1)
	if !ok {
		return nil, false
	}
	return si.frame(parent, site, fn), true
}

// linearSearch recognises `func(list []string, x string) bool` (parameters in any order, also as a method) that returns
// true exactly when some element of list equals x: one loop over all indices of the list, `if list[i] == x { return true }`,
// false after the loop.  Returns the parameter indices of the list and of the key.
func linearSearch(h *ssa.Function) (listIdx, keyIdx int, ok bool) {
	if h == nil || len(h.Blocks) == 0 || h.Signature.Results().Len() != 1 {
		return 0, 0, false
	}
	if bt, isB := h.Signature.Results().At(0).Type().Underlying().(*types.Basic); !isB || bt.Kind() != types.Bool {
		return 0, 0, false
	}
	listIdx, keyIdx = -1, -1
	for k, p := range h.Params {
		if isStringSlice(p.Type()) {
			listIdx = k
		} else if bt, isB := p.Type().Underlying().(*types.Basic); isB && bt.Info()&types.IsString != 0 {
			keyIdx = k
		}
	}
	if listIdx < 0 || keyIdx < 0 || len(h.Params) != 2 {
		return 0, 0, false
	}
	loops := flow.CountedLoops(h)
	if len(loops) != 1 || loops[0].Over != ssa.Value(h.Params[listIdx]) {
		return 0, 0, false
	}
	l := loops[0]
	// no effects
	for _, b := range h.Blocks {
		for _, in := range b.Instrs {
			switch x := in.(type) {
			case *ssa.Store, *ssa.MapUpdate, *ssa.Go, *ssa.Defer, *ssa.Send:
				return 0, 0, false
			case *ssa.Call:
				if !isLenCall(x) {
					return 0, 0, false
				}
			}
		}
	}
	nTrue, nFalse := 0, 0
	for _, ret := range flow.Returns(h) {
		k, isK := flow.RetResults(ret)[0].(*ssa.Const)
		if !isK || k.Value == nil {
			return 0, 0, false
		}
		if constant.BoolVal(k.Value) {
			// leaves the loop body directly under `list[i] == x`
			if !flow.G(h).Dominates(l.Body, ret.Block()) {
				return 0, 0, false
			}
			good := false
			conds := flow.DomConds(ret.Block())
			inLoop := 0
			for _, cd := range conds {
				if cd.At == nil || !l.Contains(cd.At.Block()) || cd.At.Block() == l.Header {
					continue
				}
				inLoop++
				c := flow.Norm(cd)
				bo, isBo := c.V.(*ssa.BinOp)
				if !isBo || !((bo.Op == token.EQL && c.Pol) || (bo.Op == token.NEQ && !c.Pol)) {
					continue
				}
				for _, pair := range [][2]ssa.Value{{bo.X, bo.Y}, {bo.Y, bo.X}} {
					if f, isEl := l.ElementOf(pair[0]); isEl && f == "" && pair[1] == ssa.Value(h.Params[keyIdx]) {
						good = true
					}
				}
			}
			if !good || inLoop != 1 {
				return 0, 0, false
			}
			nTrue++
		} else {
			// after the loop has visited every element
			if flow.G(h).Dominates(l.Body, ret.Block()) || !flow.G(h).Dominates(l.Exit, ret.Block()) {
				return 0, 0, false
			}
			nFalse++
		}
	}
	// the loop body has no other exit
	if nTrue != 1 || nFalse != 1 {
		return 0, 0, false
	}
	return listIdx, keyIdx, true
}
