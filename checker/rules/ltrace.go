package rules

import (
	"fmt"
	"go/token"
	"go/types"
	"os"
	"strings"

	"golang.org/x/tools/go/ssa"

	"sbpfcheck/flow"
	"sbpfcheck/load"
	"sbpfcheck/origin"
)

// Engine E8 (ltrace): the loader as a set of event traces.  LoadFilter is explored path by path with the functions of the
// package it calls inlined (helpers, methods, closures handed to helpers), as far as they lead to an event; the events are
// the two compile steps, the two raw-system-call wrappers (atomic: their own contracts are separate obligations), thread
// pinning and unpinning (deferred unlocks run when their function returns) and the return of LoadFilter.  Every call that
// can fail forks the path into a success and a failure world, so the nil-ness of every error value on a path is known and
// `if err != nil` branches are followed, not guessed; a branch on filter.NoNewPrivs (directly, through a captured
// variable, or as a parameter that a caller filled with it) forks into two named assumptions; any other branch forks into
// two anonymous ones.  The loader's properties are then statements about this finite set of traces, independent of how the
// code is split into functions.  Values are followed the same way: the result of an inlined call is the operand of the
// return statement that the path took, a parameter is the caller's argument, a captured variable is the variable of the
// function that made the closure.  The engine is used when the rules that look at LoadFilter alone cannot be applied
// because the code was reorganised; both are sound for the same statement, so either may discharge it.

type bval struct {
	v  ssa.Value
	fr *lframe
	at ssa.Instruction
}

type lEvent struct {
	kind   string // compile1 compile2 prctl seccomp lock unlock <x>-raw call:<name>
	call   ssa.CallInstruction
	fr     *lframe
	ok     int // +1 succeeded, -1 failed, 0 no outcome
	assume []string
	bind   map[string]bval // result bindings of the path so far (system-call events only)
	frames []*lframe
	at     ssa.Instruction // generic mode: the marked instruction of a "mark" event
	deferd bool            // generic mode: executed by a deferred call
}

type lPath struct {
	events []lEvent
	assume []string
	ret    int // +1 nil, -1 non-nil, 0 unknown
	retPos token.Pos
	retIn  *ssa.Return
	noret  bool // ended in a call that does not return, or a panic
}

type lframe struct {
	fn       *ssa.Function
	parent   *lframe
	call     ssa.CallInstruction
	closure  *ssa.MakeClosure
	defFrame *lframe // for closures: the frame in which the closure was created
	id       string
	of       *origin.Frame
	retBlk   *ssa.BasicBlock // where the caller continues (nil: after the call instruction)
	retIdx   int
	deferred bool
}

type ldefer struct {
	in ssa.CallInstruction
	fr *lframe
}

func (f *lframe) isAncestorOrSelf(g *lframe) bool {
	for x := g; x != nil; x = x.parent {
		if x == f {
			return true
		}
	}
	return false
}

type lstate struct {
	fr     *lframe
	blk    *ssa.BasicBlock
	idx    int
	prev   map[string]*ssa.BasicBlock // frame id @ block -> block we came from
	nilOf  map[string]int8            // frame id | value name -> +1 nil, -1 non-nil
	defers map[string][]string        // frame id -> deferred event kinds
	bind   map[string]bval
	frames []*lframe
	assume []string
	events []lEvent
	steps  int
	gdefer map[string][]ldefer // generic mode: frame id -> deferred calls
	visits map[string]int      // generic mode: frame id @ block -> times entered
}

func (s *lstate) clone() *lstate {
	n := &lstate{fr: s.fr, blk: s.blk, idx: s.idx, prev: map[string]*ssa.BasicBlock{}, nilOf: map[string]int8{}, defers: map[string][]string{}, bind: map[string]bval{}, steps: s.steps}
	if s.gdefer != nil {
		n.gdefer = map[string][]ldefer{}
		for k, v := range s.gdefer {
			n.gdefer[k] = append([]ldefer{}, v...)
		}
		n.visits = map[string]int{}
		for k, v := range s.visits {
			n.visits[k] = v
		}
	}
	for k, v := range s.prev {
		n.prev[k] = v
	}
	for k, v := range s.nilOf {
		n.nilOf[k] = v
	}
	for k, v := range s.defers {
		n.defers[k] = append([]string{}, v...)
	}
	for k, v := range s.bind {
		n.bind[k] = v
	}
	n.frames = append([]*lframe{}, s.frames...)
	n.assume = append([]string{}, s.assume...)
	n.events = append([]lEvent{}, s.events...)
	return n
}

type ltrace struct {
	m        *loaderModel
	p        *load.Program
	paths    []*lPath
	problems []string
	inline   map[*ssa.Function]bool
	root     *ssa.Function
	nFrames  int
	convFn   *ssa.Function // the sock_filter conversion found by the chain rule
	// generic mode (engine E9, paths.go): any function, every call is an event, deferred closures are run, loops are
	// entered at most twice
	generic bool
	marks   map[ssa.Instruction]bool
	nCut    int
}

func (t *ltrace) problem(format string, a ...interface{}) {
	msg := fmt.Sprintf(format, a...)
	for _, p := range t.problems {
		if p == msg {
			return
		}
	}
	t.problems = append(t.problems, msg)
}

func (t *ltrace) eventKind(c ssa.CallInstruction) string {
	if t.generic {
		return ""
	}
	cal := flow.Callee(c)
	switch {
	case cal != nil && cal == t.m.seccompW:
		return "seccomp"
	case cal != nil && cal == t.m.prctlW:
		return "prctl"
	case flow.CalleeIs(c, load.PkgRoot, "Policy.Assemble"):
		return "compile1"
	case flow.CalleeIs(c, "golang.org/x/net/bpf", "Assemble"):
		return "compile2"
	case flow.CalleeIs(c, "runtime", "LockOSThread"):
		return "lock"
	case flow.CalleeIs(c, "runtime", "UnlockOSThread"):
		return "unlock"
	}
	// a raw system call outside the two wrappers
	for _, s := range t.m.sites {
		if ssa.CallInstruction(s.call) == c {
			if s.name != "" {
				return s.name + "-raw"
			}
			return "syscall-raw"
		}
	}
	return ""
}

func isSysEvent(kind string) bool {
	return kind == "prctl" || kind == "seccomp" || strings.HasSuffix(kind, "-raw")
}

// newLtrace explores the loader.
func newLtrace(m *loaderModel) *ltrace {
	t := &ltrace{m: m, p: m.p, inline: map[*ssa.Function]bool{}, root: m.loadF}
	if t.root == nil || len(t.root.Blocks) == 0 {
		t.problem("LoadFilter not found")
		return t
	}
	if t.root == m.seccompW || t.root == m.prctlW {
		t.problem("LoadFilter contains a raw system call itself: the wrappers cannot be treated as atomic events")
		return t
	}
	// functions of the package that lead to an event are inlined
	memo := map[*ssa.Function]int{}
	var leads func(f *ssa.Function) bool
	leads = func(f *ssa.Function) bool {
		if f == nil || len(f.Blocks) == 0 {
			return false
		}
		if v, ok := memo[f]; ok {
			return v == 1
		}
		memo[f] = 0
		found := false
		for _, c := range flow.Calls(f) {
			if t.eventKind(c) != "" {
				found = true
				continue
			}
			cal := flow.Callee(c)
			if cal != nil && cal.Pkg != nil && cal.Pkg.Pkg.Path() == load.PkgRoot {
				if leads(cal) {
					found = true
				}
			}
		}
		for _, a := range f.AnonFuncs {
			if leads(a) {
				found = true
			}
		}
		if found {
			memo[f] = 1
			t.inline[f] = true
		}
		return found
	}
	for _, f := range t.p.SrcFuncs(load.PkgRoot) {
		if f != m.seccompW && f != m.prctlW && !flow.FuncIs(f, load.PkgRoot, "Policy.Assemble") {
			leads(f)
		}
	}
	// functions that only build the kernel's program descriptor are looked through as well
	for _, f := range t.p.SrcFuncs(load.PkgRoot) {
		res := f.Signature.Results()
		for i := 0; i < res.Len(); i++ {
			rt := res.At(i).Type()
			if pt, ok := rt.Underlying().(*types.Pointer); ok {
				rt = pt.Elem()
			}
			if isNamed(rt, "syscall", "SockFprog") && len(f.Blocks) > 0 {
				t.inline[f] = true
			}
		}
	}
	delete(t.inline, m.seccompW)
	delete(t.inline, m.prctlW)
	rootFr := &lframe{fn: t.root, id: "root", of: &origin.Frame{Fn: t.root, Args: map[*ssa.Parameter]*origin.O{}, ID: "root"}}
	st := &lstate{fr: rootFr, blk: t.root.Blocks[0], prev: map[string]*ssa.BasicBlock{}, nilOf: map[string]int8{}, defers: map[string][]string{}, bind: map[string]bval{}, frames: []*lframe{rootFr}}
	t.nFrames = 1
	t.run(st)
	return t
}

func vkey(fr *lframe, v ssa.Value) string { return fr.id + "|" + v.Name() }

// resolver returns an origin resolver that sees through the frames of one path.
func (t *ltrace) resolver(bind map[string]bval, frames []*lframe) *origin.Resolver {
	r := origin.NewResolver()
	byOf := map[*origin.Frame]*lframe{}
	for _, f := range frames {
		byOf[f.of] = f
	}
	binding := func(fr *lframe, fv *ssa.FreeVar) (ssa.Value, *lframe) {
		for fr != nil && fr.closure != nil && fr.defFrame != nil {
			var b ssa.Value
			for i, f := range fr.fn.FreeVars {
				if f == fv && i < len(fr.closure.Bindings) {
					b = fr.closure.Bindings[i]
				}
			}
			if b == nil {
				return nil, nil
			}
			if outer, ok := b.(*ssa.FreeVar); ok {
				fv, fr = outer, fr.defFrame
				continue
			}
			return b, fr.defFrame
		}
		return nil, nil
	}
	r.Hook = func(v ssa.Value, of *origin.Frame) *origin.O {
		fr := byOf[of]
		if fr == nil {
			return nil
		}
		switch x := v.(type) {
		case *ssa.FreeVar:
			if b, df := binding(fr, x); b != nil {
				return r.Of(b, df.of, fr.closure)
			}
		case *ssa.UnOp:
			// the content of a captured variable that is assigned once, before the closure is made
			if fv, ok := x.X.(*ssa.FreeVar); ok && x.Op == token.MUL {
				if b, df := binding(fr, fv); b != nil {
					if cell, ok := b.(*ssa.Alloc); ok {
						if st := singleAssignment(cell); st != nil {
							return r.Of(st.Val, df.of, st)
						}
					}
				}
			}
		case *ssa.Call, *ssa.Extract:
			if b, ok := bind[vkey(fr, v)]; ok {
				return r.Of(b.v, b.fr.of, b.at)
			}
		}
		return nil
	}
	return r
}

// singleAssignment: the captured variable is stored exactly once in the function that declares it, and the closures that
// capture it only read it.
func singleAssignment(cell *ssa.Alloc) *ssa.Store {
	var st *ssa.Store
	for _, ref := range *cell.Referrers() {
		switch x := ref.(type) {
		case *ssa.Store:
			if x.Addr != ssa.Value(cell) || st != nil {
				return nil
			}
			st = x
		case *ssa.UnOp, *ssa.DebugRef:
		case *ssa.MakeClosure:
			fn, _ := x.Fn.(*ssa.Function)
			if fn == nil {
				return nil
			}
			for i, b := range x.Bindings {
				if b == ssa.Value(cell) && i < len(fn.FreeVars) {
					for _, r2 := range *fn.FreeVars[i].Referrers() {
						switch y := r2.(type) {
						case *ssa.UnOp, *ssa.DebugRef:
						case *ssa.FieldAddr:
							if storeThrough(y) {
								return nil
							}
						default:
							return nil
						}
					}
				}
			}
		case *ssa.FieldAddr:
			if storeThrough(x) {
				return nil
			}
		default:
			return nil
		}
	}
	return st
}

func storeThrough(v ssa.Value) bool {
	if v.Referrers() == nil {
		return false
	}
	for _, ref := range *v.Referrers() {
		switch y := ref.(type) {
		case *ssa.Store:
			if y.Addr == v {
				return true
			}
		case *ssa.FieldAddr:
			if storeThrough(y) {
				return true
			}
		case *ssa.IndexAddr:
			if storeThrough(y) {
				return true
			}
		case *ssa.UnOp, *ssa.DebugRef:
		default:
			return true
		}
	}
	return false
}

// rootField: o is <LoadFilter's argument>.<field>, unchanged.
func (t *ltrace) rootField(o *origin.O, field string) bool {
	if o == nil || o.Kind != origin.KField || o.Field.Name() != field || len(t.root.Params) == 0 {
		return false
	}
	prm := t.root.Params[0]
	b := o.Args[0]
	for b != nil && b.Kind == origin.KUn && b.Op == token.MUL {
		b = b.Args[0]
	}
	if b == nil {
		return false
	}
	if b.Kind == origin.KParam && b.Param == prm {
		return true
	}
	if b.Kind == origin.KAlloc {
		al, ok := b.Val.(*ssa.Alloc)
		return ok && al.Parent() == t.root && cleanSpillField(al, prm, o.Field)
	}
	return false
}

// cleanSpillField: al is the variable that holds parameter prm, and nothing but the entry store writes the field.
func cleanSpillField(al *ssa.Alloc, prm *ssa.Parameter, fld *types.Var) bool {
	n := 0
	var scan func(addr ssa.Value, top bool) bool
	scan = func(addr ssa.Value, top bool) bool {
		for _, ref := range *addr.Referrers() {
			switch x := ref.(type) {
			case *ssa.Store:
				if !top || x.Addr != addr || x.Val != ssa.Value(prm) {
					return false
				}
				n++
			case *ssa.UnOp, *ssa.DebugRef:
			case *ssa.FieldAddr:
				st := x.X.Type().Underlying().(*types.Pointer).Elem().Underlying().(*types.Struct)
				if st.Field(x.Field) != fld {
					continue
				}
				// the field is read, or (the policy) handed to its compile method; never written
				if !readOnlyPtr(x, 0) {
					return false
				}
			case *ssa.MakeClosure:
				fn, _ := x.Fn.(*ssa.Function)
				if fn == nil {
					return false
				}
				for i, b := range x.Bindings {
					if b == addr && i < len(fn.FreeVars) {
						if !scan(fn.FreeVars[i], false) {
							return false
						}
					}
				}
			default:
				return false
			}
		}
		return true
	}
	return scan(al, true) && n == 1
}

// readOnlyPtr: the pointer is only read through, handed to Policy.Assemble, or handed to functions of the module that do
// the same with it.
func readOnlyPtr(v ssa.Value, depth int) bool {
	if depth > 4 || v.Referrers() == nil {
		return depth <= 4
	}
	for _, ref := range *v.Referrers() {
		switch y := ref.(type) {
		case *ssa.UnOp, *ssa.DebugRef:
		case *ssa.FieldAddr:
			if storeThrough(y) {
				return false
			}
		case *ssa.IndexAddr:
			if storeThrough(y) {
				return false
			}
		case *ssa.Call:
			if flow.CalleeIs(y, load.PkgRoot, "Policy.Assemble") {
				continue
			}
			cal := flow.Callee(y)
			if cal == nil || len(cal.Blocks) == 0 || cal.Pkg == nil || !strings.HasPrefix(cal.Pkg.Pkg.Path(), load.Module) || len(cal.Params) != len(y.Call.Args) {
				return false
			}
			for i, a := range y.Call.Args {
				if a == v && !readOnlyPtr(cal.Params[i], depth+1) {
					return false
				}
			}
		default:
			return false
		}
	}
	return true
}

// alwaysNonNil: every return of f yields a provably non-nil error.
func alwaysNonNil(f *ssa.Function) bool {
	if f == nil || len(f.Blocks) == 0 || f.Signature.Results().Len() != 1 || !flow.IsErrorType(f.Signature.Results().At(0).Type()) {
		return false
	}
	rets := flow.Returns(f)
	for _, ret := range rets {
		if !flow.KnownNonNilError(flow.RetResults(ret)[0], ret.Block()) {
			return false
		}
	}
	return len(rets) > 0
}

func (t *ltrace) cellKey(addr ssa.Value, fr *lframe) (string, bool) {
	for i := 0; i < 6; i++ {
		switch x := addr.(type) {
		case *ssa.Alloc:
			return fr.id + "|cell:" + x.Name(), true
		case *ssa.FreeVar:
			if fr.closure == nil || fr.defFrame == nil {
				return "", false
			}
			found := false
			for k, f := range fr.fn.FreeVars {
				if f == x && k < len(fr.closure.Bindings) {
					addr, fr = fr.closure.Bindings[k], fr.defFrame
					found = true
					break
				}
			}
			if !found {
				return "", false
			}
		default:
			return "", false
		}
	}
	return "", false
}

func (t *ltrace) paramArg(p *ssa.Parameter, fr *lframe) (ssa.Value, *lframe) {
	if fr.call == nil || fr.parent == nil {
		return nil, nil
	}
	args := fr.call.Common().Args
	for i, q := range fr.fn.Params {
		if q == p && i < len(args) && len(args) == len(fr.fn.Params) {
			return args[i], fr.parent
		}
	}
	return nil, nil
}

// nilness of an error-like value in a frame.
func (t *ltrace) nilness(v ssa.Value, fr *lframe, s *lstate, depth int) int {
	if depth > 12 || v == nil {
		return 0
	}
	if k, ok := s.nilOf[vkey(fr, v)]; ok {
		return int(k)
	}
	switch x := v.(type) {
	case *ssa.Const:
		if x.IsNil() {
			return 1
		}
		return -1
	case *ssa.MakeInterface:
		return -1
	case *ssa.ChangeInterface:
		return t.nilness(x.X, fr, s, depth+1)
	case *ssa.Call:
		if flow.CalleeIs(x, "fmt", "Errorf") || flow.CalleeIs(x, "errors", "New") || alwaysNonNil(flow.Callee(x)) {
			return -1
		}
	case *ssa.Phi:
		if pb := s.prev[fr.id+"@"+fmt.Sprint(x.Block().Index)]; pb != nil {
			for i, p := range x.Block().Preds {
				if p == pb {
					return t.nilness(x.Edges[i], fr, s, depth+1)
				}
			}
		}
	case *ssa.Parameter:
		if a, pf := t.paramArg(x, fr); a != nil {
			return t.nilness(a, pf, s, depth+1)
		}
	case *ssa.UnOp:
		if x.Op == token.MUL {
			if key, ok := t.cellKey(x.X, fr); ok {
				if k, ok := s.nilOf[key]; ok {
					return int(k)
				}
				if t.generic {
					return 1 // never stored on this path: the zero value
				}
			}
		}
	case *ssa.Extract:
		if ta, ok := x.Tuple.(*ssa.TypeAssert); ok && x.Index == 0 {
			return t.nilness(ta.X, fr, s, depth+1)
		}
	}
	return 0
}

// isNoNewPrivs: the boolean is filter.NoNewPrivs of LoadFilter's argument (directly, through a captured variable, or as a
// parameter that callers fill with it).
func (t *ltrace) isNoNewPrivs(v ssa.Value, fr *lframe, s *lstate, at ssa.Instruction) bool {
	if bt, ok := v.Type().Underlying().(*types.Basic); !ok || bt.Info()&types.IsBoolean == 0 {
		return false
	}
	r := t.resolver(s.bind, s.frames)
	return t.rootField(r.Of(v, fr.of, at), "NoNewPrivs")
}

// cond evaluates a branch condition: +1 true, -1 false, 0 unknown; label: the assumption to record when it is forked on.
func (t *ltrace) cond(v ssa.Value, fr *lframe, s *lstate, at ssa.Instruction, depth int) (int, string) {
	if depth > 8 {
		return 0, fmt.Sprintf("cond@%s", t.p.Pos(v.Pos()))
	}
	switch x := v.(type) {
	case *ssa.Const:
		if x.Value != nil && x.Value.String() == "true" {
			return 1, ""
		}
		if x.Value != nil && x.Value.String() == "false" {
			return -1, ""
		}
	case *ssa.UnOp:
		if x.Op == token.NOT {
			r, l := t.cond(x.X, fr, s, at, depth+1)
			if l != "" {
				if strings.HasPrefix(l, "!") {
					l = l[1:]
				} else {
					l = "!" + l
				}
			}
			return -r, l
		}
	case *ssa.BinOp:
		if x.Op == token.EQL || x.Op == token.NEQ {
			nx, ny := t.nilness(x.X, fr, s, 0), t.nilness(x.Y, fr, s, 0)
			res := 0
			switch {
			case flow.IsNilConst(x.Y) && nx != 0:
				res = nx // +1: x is nil: x == nil true
			case flow.IsNilConst(x.X) && ny != 0:
				res = ny
			case nx == 1 && ny == -1, ny == 1 && nx == -1:
				res = -1 // nil == non-nil: false
			}
			if res != 0 {
				if x.Op == token.NEQ {
					res = -res
				}
				return res, ""
			}
		}
	case *ssa.Phi:
		if pb := s.prev[fr.id+"@"+fmt.Sprint(x.Block().Index)]; pb != nil {
			for i, p := range x.Block().Preds {
				if p == pb {
					return t.cond(x.Edges[i], fr, s, at, depth+1)
				}
			}
		}
	case *ssa.Parameter:
		if a, pf := t.paramArg(x, fr); a != nil {
			if _, isConst := a.(*ssa.Const); isConst {
				return t.cond(a, pf, s, at, depth+1)
			}
		}
	}
	if t.isNoNewPrivs(v, fr, s, at) {
		for _, a := range s.assume {
			if a == "NoNewPrivs=true" {
				return 1, ""
			}
			if a == "NoNewPrivs=false" {
				return -1, ""
			}
		}
		return 0, "NoNewPrivs"
	}
	return 0, fmt.Sprintf("cond@%s", t.p.Pos(v.Pos()))
}

func (t *ltrace) event(s *lstate, kind string, c ssa.CallInstruction, ok int) {
	ev := lEvent{kind: kind, call: c, fr: s.fr, ok: ok, assume: append([]string{}, s.assume...)}
	if isSysEvent(kind) {
		ev.bind = map[string]bval{}
		for k, v := range s.bind {
			ev.bind[k] = v
		}
		ev.frames = append([]*lframe{}, s.frames...)
	}
	s.events = append(s.events, ev)
}

// run explores from state s to the end of LoadFilter.
func (t *ltrace) run(s *lstate) {
	for {
		s.steps++
		if s.steps > 6000 || len(t.paths) > 3000 {
			t.problem("the loader's paths could not be enumerated (a loop, or too many paths)")
			return
		}
		if s.idx >= len(s.blk.Instrs) {
			return
		}
		in := s.blk.Instrs[s.idx]
		s.idx++
		if t.generic && s.idx == 1 {
			k := s.fr.id + "@" + fmt.Sprint(s.blk.Index)
			s.visits[k]++
			if s.visits[k] > 2 {
				t.nCut++
				return
			}
		}
		if t.marks[in] {
			s.events = append(s.events, lEvent{kind: "mark", fr: s.fr, at: in, deferd: s.fr.inDeferred()})
		}
		if t.generic {
			switch x := in.(type) {
			case *ssa.Defer:
				s.gdefer[s.fr.id] = append(s.gdefer[s.fr.id], ldefer{x, s.fr})
				continue
			case *ssa.RunDefers:
				ds := s.gdefer[s.fr.id]
				if len(ds) == 0 {
					continue
				}
				d := ds[len(ds)-1]
				s.gdefer[s.fr.id] = ds[:len(ds)-1]
				s.idx-- // come back for the next deferred call
				t.genericCall(s, d.in, true)
				continue
			case *ssa.Go:
				continue
			case *ssa.Panic:
				t.paths = append(t.paths, &lPath{events: s.events, assume: s.assume, noret: true, retPos: x.Pos()})
				return
			case *ssa.Call:
				if t.genericCall(s, x, false) {
					return
				}
				continue
			case *ssa.Return:
				if s.fr.parent == nil {
					ret := 0
					if n := len(x.Results); n > 0 && flow.IsErrorType(x.Results[n-1].Type()) {
						ret = t.nilness(x.Results[n-1], s.fr, s, 0)
					}
					t.paths = append(t.paths, &lPath{events: s.events, assume: s.assume, ret: ret, retPos: x.Pos(), retIn: x})
					return
				}
			}
		}
		switch x := in.(type) {
		case *ssa.Store:
			if key, ok := t.cellKey(x.Addr, s.fr); ok {
				if k := t.nilness(x.Val, s.fr, s, 0); k != 0 || t.generic {
					s.nilOf[key] = int8(k)
				} else {
					delete(s.nilOf, key)
				}
			}
		case *ssa.Defer:
			kind := t.eventKind(x)
			if kind == "" {
				if mc, ok := x.Call.Value.(*ssa.MakeClosure); ok {
					// a deferred closure: only one that does nothing but unpin the thread is understood
					fn, _ := mc.Fn.(*ssa.Function)
					only := fn != nil && t.inline[fn]
					if fn != nil {
						for _, c := range flow.Calls(fn) {
							if t.eventKind(c) != "unlock" {
								only = false
							}
						}
					}
					if only {
						kind = "unlock"
					} else if fn != nil && t.inline[fn] {
						t.problem("%s: a deferred closure that reaches a loader event is not modelled", load.FuncName(s.fr.fn))
					}
				} else if cal := flow.Callee(x); cal != nil && t.inline[cal] {
					t.problem("%s: a deferred call into code that reaches a loader event is not modelled", load.FuncName(s.fr.fn))
				}
			}
			if kind != "" {
				if kind != "unlock" {
					t.problem("%s: deferred %s is not modelled", load.FuncName(s.fr.fn), kind)
				}
				s.defers[s.fr.id] = append(s.defers[s.fr.id], kind)
			}
		case *ssa.RunDefers:
			ds := s.defers[s.fr.id]
			for i := len(ds) - 1; i >= 0; i-- {
				t.event(s, ds[i], nil, 0)
			}
			s.defers[s.fr.id] = nil
		case *ssa.Go:
			if cal := flow.Callee(x); cal == nil || t.inline[cal] {
				t.problem("%s: a goroutine may run code that reaches a loader event", load.FuncName(s.fr.fn))
			}
		case *ssa.Call:
			t.call(s, x)
		case *ssa.Jump:
			s.prev[s.fr.id+"@"+fmt.Sprint(s.blk.Succs[0].Index)] = s.blk
			s.blk, s.idx = s.blk.Succs[0], 0
		case *ssa.If:
			r, label := t.cond(x.Cond, s.fr, s, x, 0)
			take := func(st *lstate, k int) {
				st.prev[st.fr.id+"@"+fmt.Sprint(st.blk.Succs[k].Index)] = st.blk
				st.blk, st.idx = st.blk.Succs[k], 0
			}
			switch {
			case r > 0:
				take(s, 0)
			case r < 0:
				take(s, 1)
			default:
				neg := strings.HasPrefix(label, "!")
				label = strings.TrimPrefix(label, "!")
				s2 := s.clone()
				tv, fv := "true", "false"
				if neg {
					tv, fv = fv, tv
				}
				s.assume = append(s.assume, label+"="+tv)
				s2.assume = append(s2.assume, label+"="+fv)
				take(s, 0)
				take(s2, 1)
				t.run(s2)
			}
		case *ssa.Panic:
			return
		case *ssa.Return:
			if s.fr.parent == nil {
				rs := flow.RetResults(x)
				ret := 0
				if len(rs) > 0 {
					ret = t.nilness(rs[len(rs)-1], s.fr, s, 0)
				}
				t.paths = append(t.paths, &lPath{events: s.events, assume: s.assume, ret: ret, retPos: x.Pos()})
				return
			}
			// bind the call's results in the caller and continue there
			fr := s.fr
			rs := flow.RetResults(x)
			if call, ok := fr.call.(*ssa.Call); ok {
				if len(rs) == 1 {
					s.bind[vkey(fr.parent, call)] = bval{rs[0], fr, x}
					if k := t.nilness(rs[0], fr, s, 0); k != 0 {
						s.nilOf[vkey(fr.parent, call)] = int8(k)
					}
				} else if call.Referrers() != nil {
					for _, ref := range *call.Referrers() {
						if ex, ok := ref.(*ssa.Extract); ok && ex.Index < len(rs) {
							s.bind[vkey(fr.parent, ex)] = bval{rs[ex.Index], fr, x}
							if k := t.nilness(rs[ex.Index], fr, s, 0); k != 0 {
								s.nilOf[vkey(fr.parent, ex)] = int8(k)
							}
						}
					}
				}
			}
			s.fr = fr.parent
			if fr.retBlk != nil {
				s.blk, s.idx = fr.retBlk, fr.retIdx
			} else {
				s.blk = fr.call.Block()
				s.idx = flow.InstrIndex(fr.call) + 1
			}
		}
	}
}

func (f *lframe) inDeferred() bool {
	for x := f; x != nil; x = x.parent {
		if x.deferred {
			return true
		}
	}
	return false
}

// genericCall (generic mode): a call executed on the path, directly or by a deferred statement.  Closures of the function
// are entered; a call that does not return ends the path; a call that can fail forks it.  Reports whether the path ended.
func (t *ltrace) genericCall(s *lstate, x ssa.CallInstruction, deferred bool) bool {
	com := x.Common()
	inDef := deferred || s.fr.inDeferred()
	var target *ssa.Function
	var mc *ssa.MakeClosure
	if m, ok := com.Value.(*ssa.MakeClosure); ok {
		mc = m
		target, _ = m.Fn.(*ssa.Function)
	}
	if target != nil && len(target.Blocks) > 0 && len(com.Args) == len(target.Params) {
		d := 0
		for f := s.fr; f != nil; f = f.parent {
			d++
		}
		if d < 6 {
			id := fmt.Sprintf("%s>%s@%d.%d.%d", s.fr.id, target.Name(), x.Block().Index, flow.InstrIndex(x), len(s.frames))
			nf := &lframe{fn: target, parent: s.fr, call: x, closure: mc, defFrame: s.fr, id: id, deferred: deferred}
			nf.of = &origin.Frame{Fn: target, Args: map[*ssa.Parameter]*origin.O{}, Parent: s.fr.of, ID: id}
			if deferred {
				nf.retBlk, nf.retIdx = s.blk, s.idx
			}
			s.frames = append(s.frames, nf)
			t.nFrames++
			s.fr, s.blk, s.idx = nf, target.Blocks[0], 0
			return false
		}
	}
	call, _ := x.(*ssa.Call)
	if _, isBuiltin := com.Value.(*ssa.Builtin); isBuiltin {
		return false
	}
	if flow.IsNoReturn(x) {
		s.events = append(s.events, lEvent{kind: "call", call: x, fr: s.fr, deferd: inDef})
		t.paths = append(t.paths, &lPath{events: s.events, assume: s.assume, noret: true, retPos: x.Pos()})
		return true
	}
	if call == nil || !sigHasError(x) || pureFailCall(x) || alwaysNonNil(flow.Callee(x)) {
		s.events = append(s.events, lEvent{kind: "call", call: x, fr: s.fr, deferd: inDef})
		return false
	}
	setErr := func(st *lstate, k int8) {
		if ev := flow.ErrResult(call); ev != nil {
			st.nilOf[vkey(st.fr, ev)] = k
		}
	}
	s2 := s.clone()
	s.events = append(s.events, lEvent{kind: "call", call: x, fr: s.fr, ok: 1, deferd: inDef})
	setErr(s, 1)
	s2.events = append(s2.events, lEvent{kind: "call", call: x, fr: s2.fr, ok: -1, deferd: inDef})
	setErr(s2, -1)
	t.run(s2)
	return false
}

func sigHasError(c ssa.CallInstruction) bool {
	res := c.Common().Signature().Results()
	for i := 0; i < res.Len(); i++ {
		if flow.IsErrorType(res.At(i).Type()) {
			return true
		}
	}
	return false
}

// call handles a call instruction.
func (t *ltrace) call(s *lstate, x *ssa.Call) {
	kind := t.eventKind(x)
	setErr := func(st *lstate, k int8) {
		if ev := flow.ErrResult(x); ev != nil {
			st.nilOf[vkey(st.fr, ev)] = k
		}
	}
	switch {
	case kind == "lock" || kind == "unlock":
		t.event(s, kind, x, 0)
		return
	case kind != "":
		if !sigHasError(x) {
			t.event(s, kind, x, 0)
			return
		}
		s2 := s.clone()
		t.event(s, kind, x, 1)
		setErr(s, 1)
		t.event(s2, kind, x, -1)
		setErr(s2, -1)
		t.run(s2)
		return
	}
	// a function of the package that leads to an event, or a closure handed down that does
	var target *ssa.Function
	var mc *ssa.MakeClosure
	var defFrame *lframe
	_, isBuiltin := x.Call.Value.(*ssa.Builtin)
	if cal := x.Call.StaticCallee(); cal != nil {
		target = cal
		if m, ok := x.Call.Value.(*ssa.MakeClosure); ok {
			mc, defFrame = m, s.fr
		}
	} else if x.Call.IsInvoke() {
		for f := range t.inline {
			if f.Signature.Recv() != nil && f.Name() == x.Call.Method.Name() {
				t.problem("%s: an interface call that may reach a loader event (%s)", load.FuncName(s.fr.fn), f.Name())
			}
		}
	} else if !isBuiltin {
		// a function value: follow parameters (and once-assigned locals) to the closure the caller made
		v, fr := x.Call.Value, s.fr
	follow:
		for i := 0; i < 8 && target == nil; i++ {
			switch y := v.(type) {
			case *ssa.MakeClosure:
				mc, defFrame = y, fr
				target, _ = y.Fn.(*ssa.Function)
				break follow
			case *ssa.Function:
				target = y
			case *ssa.Parameter:
				a, pf := t.paramArg(y, fr)
				if a == nil {
					break follow
				}
				v, fr = a, pf
			case *ssa.UnOp:
				al, ok := y.X.(*ssa.Alloc)
				if !ok || y.Op != token.MUL {
					break follow
				}
				st := singleAssignment(al)
				if st == nil {
					break follow
				}
				v = st.Val
			case *ssa.ChangeType:
				v = y.X
			default:
				break follow
			}
		}
		if target == nil {
			t.problem("%s: a call through a function value that cannot be resolved to a closure", load.FuncName(s.fr.fn))
			return
		}
	}
	enter := target != nil && len(target.Blocks) > 0 && t.inline[target]
	if !enter && target != nil && len(target.Blocks) > 0 && target.Pkg != nil && target.Pkg.Pkg.Path() == load.PkgRoot && target != t.m.seccompW && target != t.m.prctlW {
		// a helper that receives a closure which leads to an event
		for _, a := range x.Call.Args {
			if m, ok := a.(*ssa.MakeClosure); ok {
				if fn, _ := m.Fn.(*ssa.Function); fn != nil && t.inline[fn] {
					enter = true
				}
			}
		}
	}
	if enter {
		d := 0
		for f := s.fr; f != nil; f = f.parent {
			d++
			if f.fn == target {
				t.problem("recursion through %s", target.Name())
				return
			}
		}
		if d > 10 {
			t.problem("call depth exceeded at %s", target.Name())
			return
		}
		id := fmt.Sprintf("%s>%s@%d.%d", s.fr.id, target.Name(), x.Block().Index, flow.InstrIndex(x))
		nf := &lframe{fn: target, parent: s.fr, call: x, closure: mc, defFrame: defFrame, id: id}
		nf.of = &origin.Frame{Fn: target, Args: map[*ssa.Parameter]*origin.O{}, Parent: s.fr.of, ID: id}
		r := t.resolver(s.bind, s.frames)
		if len(x.Call.Args) == len(target.Params) {
			for i, prm := range target.Params {
				nf.of.Args[prm] = r.Of(x.Call.Args[i], s.fr.of, x)
			}
		}
		s.frames = append(s.frames, nf)
		t.nFrames++
		s.fr, s.blk, s.idx = nf, target.Blocks[0], 0
		return
	}
	// any other fallible call: both outcomes
	if sigHasError(x) && !pureFailCall(x) && !alwaysNonNil(target) {
		s2 := s.clone()
		setErr(s, 1)
		s2.events = append(s2.events, lEvent{kind: "call:" + calleeName(x), call: x, fr: s2.fr, ok: -1, assume: append([]string{}, s2.assume...)})
		setErr(s2, -1)
		t.run(s2)
	}
}

// ---------------------------------------------------------------- trace properties

func hasAssume(as []string, a string) bool {
	for _, x := range as {
		if x == a {
			return true
		}
	}
	return false
}

// check decides one family of loader properties on the traces; it returns the problems found (empty = holds).
func (t *ltrace) check(e *Env, family string) []string {
	var out []string
	bad := func(format string, a ...interface{}) {
		msg := fmt.Sprintf(format, a...)
		for _, o := range out {
			if o == msg {
				return
			}
		}
		out = append(out, msg)
	}
	if len(t.problems) > 0 {
		return append(out, t.problems...)
	}
	if len(t.paths) == 0 {
		return []string{"no path through LoadFilter was found"}
	}
	nSec, nSecOK := 0, 0
	for _, p := range t.paths {
		c1, c2, lockDepth := false, false, 0
		var c1ev, c2ev *lEvent
		failed := ""
		var sawPrctlOK, sawSeccompOK, sawPrctl bool
		lockAtPrctl := -1
		lockGen := 0
		for i := range p.events {
			ev := &p.events[i]
			switch ev.kind {
			case "compile1":
				if ev.ok > 0 {
					c1, c1ev = true, ev
				}
			case "compile2":
				if ev.ok > 0 {
					c2, c2ev = true, ev
				}
			case "lock":
				lockDepth++
				lockGen++
			case "unlock":
				if lockDepth > 0 {
					lockDepth--
				} else if family == "pin" {
					bad("runtime.UnlockOSThread without a preceding LockOSThread")
				}
				lockGen++
			}
			if isSysEvent(ev.kind) {
				switch family {
				case "order":
					if !c1 || !c2 {
						bad("a raw system call (%s) can run although a compile step failed or has not run: an invalid policy could change process state", ev.kind)
					}
					if failed != "" {
						bad("%s runs after %s failed", ev.kind, failed)
					}
				case "nnp":
					if failed != "" {
						bad("%s runs after %s failed", ev.kind, failed)
					}
				case "pin":
					if lockDepth == 0 {
						bad("%s is not bracketed by runtime.LockOSThread: the goroutine can be moved to another OS thread", ev.kind)
					}
				}
				if ev.kind != "prctl" && ev.kind != "seccomp" {
					bad("a raw system call outside the two wrappers is reachable from LoadFilter (%s)", ev.kind)
				}
			}
			if ev.kind == "prctl" {
				if family == "nnp" {
					if !hasAssume(ev.assume, "NoNewPrivs=true") {
						bad("no_new_privs is set on a path that does not depend on filter.NoNewPrivs being true")
					}
					if sawSeccompOK {
						bad("the filter is installed before no_new_privs is set")
					}
				}
				sawPrctl = true
				if ev.ok > 0 {
					sawPrctlOK = true
				}
				lockAtPrctl = lockGen
			}
			if ev.kind == "seccomp" {
				nSec++
				if ev.ok > 0 {
					sawSeccompOK = true
					nSecOK++
				}
				switch family {
				case "nnp":
					want := hasAssume(ev.assume, "NoNewPrivs=true")
					decided := want || hasAssume(ev.assume, "NoNewPrivs=false")
					if !decided {
						bad("the filter can be installed on a path on which filter.NoNewPrivs was never consulted")
					} else if want && !sawPrctlOK {
						bad("filter.NoNewPrivs is set but the filter is installed without a preceding successful prctl(PR_SET_NO_NEW_PRIVS) on this thread")
					} else if !want && sawPrctl {
						bad("no_new_privs is set although filter.NoNewPrivs is false")
					}
				case "pin":
					if sawPrctl && lockAtPrctl != lockGen {
						bad("the thread is unpinned (or re-pinned) between prctl(PR_SET_NO_NEW_PRIVS) and seccomp(2)")
					}
				case "chain":
					for _, pr := range t.chainProblems(e, ev, c1ev, c2ev) {
						bad("%s", pr)
					}
				case "flags":
					call := ev.call.(*ssa.Call)
					if len(call.Call.Args) != 3 {
						bad("the seccomp wrapper does not take (op, flags, args)")
					} else {
						r := t.resolver(ev.bind, ev.frames)
						o := r.Of(call.Call.Args[1], ev.fr.of, call)
						if !t.rootField(o, "Flag") {
							bad("the flags argument of the seccomp call is %s, not filter.Flag unchanged", o.String())
						}
					}
				}
			}
			if ev.ok < 0 && failed == "" {
				failed = strings.TrimPrefix(ev.kind, "call:")
			}
		}
		switch family {
		case "errdisc":
			if failed != "" && p.ret >= 0 {
				bad("LoadFilter can return nil (or an error that is not provably non-nil) after %s failed (return at %s)", failed, t.p.Pos(p.retPos))
			}
			if p.ret >= 0 && !sawSeccompOK {
				bad("LoadFilter can return nil on a path without a successful seccomp(2) call (return at %s)", t.p.Pos(p.retPos))
			}
		case "pin":
			if lockDepth != 0 {
				bad("runtime.LockOSThread without a matching UnlockOSThread on some path: the goroutine stays wired to its thread")
			}
		}
	}
	if nSec == 0 || nSecOK == 0 {
		bad("no path reaches the seccomp wrapper")
	}
	return out
}

func callOfValue(v ssa.Value) *ssa.Call {
	switch x := v.(type) {
	case *ssa.Call:
		return x
	case *ssa.Extract:
		c, _ := x.Tuple.(*ssa.Call)
		return c
	}
	return nil
}

// chainProblems: the program that reaches the kernel at this seccomp event is the one compiled from filter.Policy.
func (t *ltrace) chainProblems(e *Env, ev, c1ev, c2ev *lEvent) []string {
	var out []string
	bad := func(format string, a ...interface{}) { out = append(out, fmt.Sprintf(format, a...)) }
	w, _ := ev.call.(*ssa.Call)
	if w == nil || len(w.Call.Args) != 3 {
		return []string{"the seccomp wrapper does not take (op, flags, args)"}
	}
	if c1ev == nil || c2ev == nil {
		return []string{"the filter is installed on a path without both compile steps"}
	}
	R := t.resolver(ev.bind, ev.frames)
	frameByID := map[string]*lframe{}
	for _, f := range ev.frames {
		frameByID[f.id] = f
	}
	if k, ok := R.Of(w.Call.Args[0], ev.fr.of, w).IsConstInt(); !ok || uint64(k) != e.Oracle().Consts["SECCOMP_SET_MODE_FILTER"] {
		bad("the seccomp operation is not the constant SECCOMP_SET_MODE_FILTER")
	}
	o2 := R.Of(w.Call.Args[2], ev.fr.of, w).StripConv()
	al, _ := o2.Val.(*ssa.Alloc)
	if o2.Kind != origin.KAlloc || al == nil || !isNamed(al.Type().Underlying().(*types.Pointer).Elem(), "syscall", "SockFprog") {
		return append(out, "argument 3 of the wrapper is not the address of a syscall.SockFprog built by the loader (origin "+o2.String()+")")
	}
	alFr := frameByID[o2.Ctx]
	if alFr == nil || alFr.fn != al.Parent() {
		return append(out, "the activation that built the SockFprog was not found on the path")
	}
	// the instruction of the building function by which the descriptor leaves it on this path
	var before ssa.Instruction
	if alFr.isAncestorOrSelf(ev.fr) {
		before = w
		for f := ev.fr; f != alFr; f = f.parent {
			before = f.call
		}
	} else {
		for _, b := range ev.bind {
			if b.fr == alFr {
				before = b.at
			}
		}
	}
	if before == nil {
		return append(out, "cannot tell where the SockFprog leaves the function that builds it")
	}
	var lenSt, filtSt []*ssa.Store
	var uses func(v ssa.Value, depth int)
	uses = func(v ssa.Value, depth int) {
		if depth > 6 || v.Referrers() == nil {
			return
		}
		for _, ref := range *v.Referrers() {
			switch x := ref.(type) {
			case *ssa.FieldAddr:
				name := x.X.Type().Underlying().(*types.Pointer).Elem().Underlying().(*types.Struct).Field(x.Field).Name()
				for _, r2 := range *x.Referrers() {
					switch y := r2.(type) {
					case *ssa.Store:
						if y.Addr != ssa.Value(x) {
							bad("the address of SockFprog.%s is stored", name)
							continue
						}
						if v != ssa.Value(al) {
							bad("SockFprog.%s is written outside the function that builds it", name)
							continue
						}
						if !flow.InstrDominates(y, before) {
							bad("SockFprog.%s is written on a path that does not precede the installation", name)
						}
						switch name {
						case "Len":
							lenSt = append(lenSt, y)
						case "Filter":
							filtSt = append(filtSt, y)
						}
					case *ssa.UnOp, *ssa.DebugRef:
					default:
						bad("SockFprog.%s is used by %T", name, r2)
					}
				}
			case *ssa.Convert:
				uses(x, depth+1)
			case *ssa.ChangeType:
				uses(x, depth+1)
			case *ssa.DebugRef:
			case *ssa.BinOp:
				if x.Op != token.EQL && x.Op != token.NEQ {
					bad("the SockFprog pointer is used by %s", x.Op)
				}
			case *ssa.Extract:
				uses(x, depth+1)
			case *ssa.Phi:
				uses(x, depth+1)
			case *ssa.Return:
				// the pointer leaves a helper: its uses are those of the helper's result at every call
				idx := -1
				for i, rv := range x.Results {
					if rv == v {
						idx = i
					}
				}
				for _, g := range t.p.SrcFuncs(load.PkgRoot) {
					for _, c := range callsToFn(g, x.Parent()) {
						if len(x.Results) == 1 {
							uses(c, depth+1)
						} else if c.Referrers() != nil {
							for _, r2 := range *c.Referrers() {
								if ex, ok := r2.(*ssa.Extract); ok && ex.Index == idx {
									uses(ex, depth+1)
								}
							}
						}
					}
				}
			case *ssa.UnOp:
				if x.Op != token.MUL {
					bad("the SockFprog is used by %s", x.Op)
				}
			case *ssa.Store:
				// kept in a local variable (captured by a closure)
				cell, ok := x.Addr.(*ssa.Alloc)
				if !ok || x.Val != v || singleAssignment(cell) == nil {
					bad("the SockFprog pointer is stored in memory")
					continue
				}
				// every read of that variable, here and in the closures that capture it
				for _, r2 := range *cell.Referrers() {
					switch y := r2.(type) {
					case *ssa.UnOp:
						uses(y, depth+1)
					case *ssa.MakeClosure:
						if fn, _ := y.Fn.(*ssa.Function); fn != nil {
							for i, b := range y.Bindings {
								if b == ssa.Value(cell) && i < len(fn.FreeVars) {
									for _, r3 := range *fn.FreeVars[i].Referrers() {
										if ld, ok := r3.(*ssa.UnOp); ok {
											uses(ld, depth+1)
										}
									}
								}
							}
						}
					}
				}
			case *ssa.Call:
				cal := flow.Callee(x)
				if cal == t.m.seccompW {
					continue
				}
				if cal != nil && t.inline[cal] && len(cal.Params) == len(x.Call.Args) {
					for i, a := range x.Call.Args {
						if a == v {
							uses(cal.Params[i], depth+1)
						}
					}
					continue
				}
				bad("the SockFprog is passed to %s before installation", calleeName(x))
			default:
				bad("the SockFprog is used by %T", ref)
			}
		}
	}
	uses(al, 0)
	if len(lenSt) != 1 || len(filtSt) != 1 {
		return append(out, fmt.Sprintf("SockFprog.Len / .Filter are not each written exactly once (%d, %d)", len(lenSt), len(filtSt)))
	}
	lo := R.Of(lenSt[0].Val, alFr.of, lenSt[0]).StripConv()
	if lo.Kind != origin.KLen {
		return append(out, "SockFprog.Len is not len() of the converted instruction slice (a shorter or longer program would be installed): "+lo.String())
	}
	S := lo.Args[0]
	if S.Kind != origin.KCall || S.Callee == nil || S.Callee.Pkg == nil || S.Callee.Pkg.Pkg.Path() != load.PkgRoot || len(S.Args) != 1 {
		return append(out, "SockFprog.Len is not len() of the result of the sock_filter conversion: "+S.String())
	}
	t.convFn = S.Callee
	fo := R.Of(filtSt[0].Val, alFr.of, filtSt[0])
	okF := fo.Kind == origin.KElem && fo.Name == "&" && origin.Equal(fo.Args[0], S) && fo.Args[0].Val == S.Val
	if okF {
		k, isK := fo.Args[1].IsConstInt()
		okF = isK && k == 0
	}
	if !okF {
		bad("SockFprog.Filter is not &S[0] of the same converted slice S as Len (%s)", fo.String())
	}
	// S = conversion(raw): raw is result 0 of the successful bpf.Assemble of this path
	raw := S.Args[0]
	if raw.Kind != origin.KCall || callOfValue(raw.Val) == nil || ssa.CallInstruction(callOfValue(raw.Val)) != c2ev.call || raw.Index > 0 {
		bad("the raw instructions returned by bpf.Assemble are not what the sock_filter conversion receives (%s)", raw.String())
	}
	c2 := c2ev.call.(*ssa.Call)
	R2 := t.resolver(ev.bind, ev.frames)
	io := R2.Of(c2.Call.Args[0], c2ev.fr.of, c2)
	if io.Kind != origin.KCall || callOfValue(io.Val) == nil || ssa.CallInstruction(callOfValue(io.Val)) != c1ev.call || io.Index > 0 {
		bad("bpf.Assemble does not receive the slice returned by Policy.Assemble (%s)", io.String())
	}
	c1 := c1ev.call.(*ssa.Call)
	ro := R2.Of(c1.Call.Args[0], c1ev.fr.of, c1)
	if !t.rootField(ro, "Policy") {
		bad("Policy.Assemble is not called on filter.Policy (origin %s)", ro.String())
	}
	// S is only measured and addressed at [0] between conversion and installation
	if sc := callOfValue(S.Val); sc != nil {
		for _, pr := range t.sliceUses(sc) {
			bad("%s", pr)
		}
	}
	return out
}

// sliceUses: forward uses of the converted slice, through the inlined functions: only len() and &S[0] (not stored through).
func (t *ltrace) sliceUses(v ssa.Value) []string {
	var out []string
	seen := map[ssa.Value]bool{}
	var uses func(v ssa.Value, depth int)
	uses = func(v ssa.Value, depth int) {
		if depth > 8 || seen[v] || v.Referrers() == nil {
			return
		}
		seen[v] = true
		for _, ref := range *v.Referrers() {
			switch x := ref.(type) {
			case *ssa.Call:
				if bi, ok := x.Call.Value.(*ssa.Builtin); ok && bi.Name() == "len" {
					continue
				}
				cal := flow.Callee(x)
				if cal != nil && t.inline[cal] && len(cal.Params) == len(x.Call.Args) {
					for i, a := range x.Call.Args {
						if a == v {
							uses(cal.Params[i], depth+1)
						}
					}
					continue
				}
				out = append(out, "the sock_filter slice is passed to "+calleeName(x)+" before installation")
			case *ssa.IndexAddr:
				if k, ok := flow.ConstInt(x.Index); !ok || k != 0 {
					out = append(out, "the sock_filter slice is addressed at an index other than 0")
				}
				for _, r2 := range *x.Referrers() {
					if st, ok := r2.(*ssa.Store); ok && st.Addr == ssa.Value(x) {
						out = append(out, "an element of the sock_filter slice is overwritten before installation")
					}
				}
			case *ssa.Extract:
				uses(x, depth+1)
			case *ssa.Return:
				// the value leaves an inlined helper: its uses are those of the helper's result at every call
				fn := x.Parent()
				idx := -1
				for i, r := range x.Results {
					if r == v {
						idx = i
					}
				}
				for _, g := range t.p.SrcFuncs(load.PkgRoot) {
					for _, c := range callsToFn(g, fn) {
						if len(x.Results) == 1 {
							uses(c, depth+1)
						} else if c.Referrers() != nil {
							for _, r2 := range *c.Referrers() {
								if ex, ok := r2.(*ssa.Extract); ok && ex.Index == idx {
									uses(ex, depth+1)
								}
							}
						}
					}
				}
			case *ssa.Phi:
				uses(x, depth+1)
			case *ssa.Store:
				cell, ok := x.Addr.(*ssa.Alloc)
				if !ok || x.Val != v {
					out = append(out, "the sock_filter slice is stored in memory before installation")
					continue
				}
				for _, r2 := range *cell.Referrers() {
					switch y := r2.(type) {
					case *ssa.UnOp:
						uses(y, depth+1)
					case *ssa.Store, *ssa.DebugRef:
					default:
						out = append(out, fmt.Sprintf("the variable that holds the sock_filter slice is used by %T", r2))
					}
				}
			case *ssa.DebugRef:
			default:
				out = append(out, fmt.Sprintf("the sock_filter slice is used by %T before installation", ref))
			}
		}
	}
	uses(v, 0)
	return out
}

// ---------------------------------------------------------------- integration

var traceFamilyText = map[string]string{
	"chain":   "on every path that reaches seccomp(2): op is SECCOMP_SET_MODE_FILTER, argument 3 is a SockFprog whose Len/Filter are len(S)/&S[0] of S = conversion(result of the path's successful bpf.Assemble), which received the result of the path's successful Policy.Assemble on filter.Policy; S is not touched in between",
	"errdisc": "every path on which a compile step, a helper or a system call failed returns a non-nil error; nil is returned only after a successful seccomp(2)",
	"order":   "no system call on a path where a compile step has not succeeded, and none after any failure",
	"flags":   "the flags argument of every seccomp(2) call is filter.Flag, unchanged",
	"nnp":     "prctl(PR_SET_NO_NEW_PRIVS) happens only under filter.NoNewPrivs = true; every installation with NoNewPrivs = true is preceded by a successful prctl on the path, every one with false by none; nothing runs after a failure",
	"pin":     "both system calls happen between runtime.LockOSThread and its unlock, with no unlock between them; every path ends unpinned",
}

// traceFallback: when the rules that read LoadFilter as one function left obligations of `rules` open (recorded since
// mark), decide the same statements on the loader's event traces; if all of them hold there, the open obligations are
// replaced by the trace obligations.
func traceFallback(e *Env, m *loaderModel, mark [2]int, families []string, rules ...string) *ltrace {
	r := e.R
	only := os.Getenv("SBPF_TRACE") == "only" // testing aid: let the trace engine alone decide
	if !only && !r.FailedSince(mark, rules...) {
		return nil
	}
	if m.loadF == nil || m.seccompW == nil {
		return nil
	}
	t := newLtrace(m)
	if only {
		r.Retract(mark, rules...)
		for _, fam := range families {
			prs := t.check(e, fam)
			r.Check(len(prs) == 0, "E8.trace", "LoadFilter/"+fam, m.p.Pos(m.loadF.Pos()), fmt.Sprintf("%s (%d traces, %d activations)", traceFamilyText[fam], len(t.paths), t.nFrames), strings.Join(prs, "; "))
		}
		return t
	}
	var all []string
	for _, fam := range families {
		for _, pr := range t.check(e, fam) {
			all = append(all, fam+": "+pr)
		}
	}
	if len(all) > 0 {
		for i, pr := range all {
			if i < 6 {
				r.Note("E8 (loader traces) does not discharge %s either: %s", strings.Join(rules, ","), pr)
			}
		}
		return nil
	}
	n := r.Retract(mark, rules...)
	for _, fam := range families {
		r.OK("E8.trace", "LoadFilter/"+fam, m.p.Pos(m.loadF.Pos()), fmt.Sprintf("%s (decided on %d event traces, %d activations inlined)", traceFamilyText[fam], len(t.paths), t.nFrames))
	}
	r.Count("loader event traces", len(t.paths))
	r.Note("the loader is not laid out as one function: %d obligations of %s were decided on its event traces instead (E8)", n, strings.Join(rules, ","))
	return t
}
