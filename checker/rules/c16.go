package rules

import (
	"fmt"
	"go/constant"
	"go/token"
	"go/types"
	"regexp"
	"sort"
	"strings"

	"golang.org/x/tools/go/ssa"

	"sbpfcheck/flow"
	"sbpfcheck/load"
	"sbpfcheck/nopanic"
	"sbpfcheck/origin"
)

func init() {
	Specs["C16"] = &Spec{
		Level: "other",
		Explanation: "Panic-site obligations over every function of the disasm package: each bounds check the Go compiler's prove pass could not eliminate must be implied by a dominating guard " +
			"(len comparison or strings.HasPrefix), every non-comma-ok type assertion, explicit panic, division, nil-map store, MustCompile of a non-constant or invalid pattern and dereference of a " +
			"possibly-nil call result is reported; every loop is a range loop, a counted loop with a monotone bounded index, or `for s.Scan()`, and the call graph has no recursion (termination); " +
			"after each bufio.Scanner loop s.Err() is inspected and its non-nil edge returns a non-nil error, and no `e != nil` branch returns a provably nil error; at a function marker the " +
			"instruction window is re-sliced to length 0 and only that window is searched; the result slice is append-only; the reported name is the table entry of the reported number under `found`.",
		Trusted:     []string{"go/ssa, dominators on the no-return-pruned CFG", "the gc compiler's prove pass (-d=ssa/check_bce/debug=1): a bounds check it does not list cannot fail", "strings.Fields, strconv.ParseInt, Regexp.FindStringSubmatch, Scanner.Scan/Text do not panic on any input (no custom split function is set: checked)"},
		Assumptions: []string{"pointer parameters of the API root ExtractSyscalls are non-nil (the statement quantifies over texts)"},
		Run:         runC16,
	}
}

func runC16(e *Env) {
	r := e.R
	p := e.Host()
	fns := p.SrcFuncs(load.PkgDisasm)
	if len(fns) == 0 {
		r.Unknown("E6.panic", "disasm", "", "package not loaded")
		return
	}
	r.Count("functions of package disasm", len(fns))
	r.Floor("E6.panic(functions)", len(fns), 3)
	// functions of other packages of the module that the extraction reaches (a line reader or a lookup helper moved to
	// arch/ or to an internal package is part of "extraction terminates without panicking" like the parser itself)
	{
		have := map[*ssa.Function]bool{}
		for _, f := range fns {
			have[f] = true
		}
		var reach func(f *ssa.Function)
		reach = func(f *ssa.Function) {
			for _, c := range flow.Calls(f) {
				cal := flow.Callee(c)
				if cal == nil || have[cal] || cal.Pkg == nil || len(cal.Blocks) == 0 || !strings.HasPrefix(cal.Pkg.Pkg.Path(), load.Module) {
					continue
				}
				// the initialisation of an imported package runs once at start-up, whatever the text: not part of the extraction
				if cal.Name() == "init" || strings.HasPrefix(cal.Name(), "init#") {
					continue
				}
				have[cal] = true
				fns = append(fns, cal)
				for _, a := range cal.AnonFuncs {
					if !have[a] {
						have[a] = true
						fns = append(fns, a)
					}
				}
				reach(cal)
			}
		}
		for _, f := range append([]*ssa.Function{}, fns...) {
			reach(f)
		}
	}
	pkgPats := map[string]bool{"./cmd/seccomp-profiler/disasm": true}
	for _, f := range fns {
		if f.Pkg != nil {
			pkgPats["./"+strings.TrimPrefix(strings.TrimPrefix(f.Pkg.Pkg.Path(), load.Module), "/")] = true
		}
	}
	var pats []string
	for pp := range pkgPats {
		pats = append(pats, pp)
	}
	sort.Strings(pats)
	r.Count("packages the extraction reaches (bounds-check listing)", len(pats))

	// ---- compiler BCE list
	var bces []nopanic.BCE
	for _, pp := range pats {
		bs, err := nopanic.CompilerBCE(p.Dir, pp)
		if err != nil {
			r.Unknown("E6.panic", "compiler-bce", "", err.Error())
		}
		bces = append(bces, bs...)
	}
	// a check in a function of another package that the extraction does not reach is not this property's
	{
		inFns := map[string]bool{}
		for _, f := range fns {
			if f.Pos().IsValid() {
				inFns[p.Fset.Position(f.Pos()).Filename] = true
			}
		}
		kept := bces[:0]
		for _, b := range bces {
			if strings.Contains(b.File, "/cmd/seccomp-profiler/disasm/") || nopanic.FindSite(p.Fset, fns, b) != nil {
				kept = append(kept, b)
			}
		}
		bces = kept
	}
	r.Count("unproven bounds checks listed by the compiler", len(bces))
	for _, b := range bces {
		site := nopanic.FindSite(p.Fset, fns, b)
		posStr := fmt.Sprintf("%s:%d:%d", b.File, b.Line, b.Col)
		if site == nil {
			// The compiler attributes a check inside an inlined callee to the outermost call site (the call's
			// left parenthesis): find that call.
			var inl *ssa.Call
			var inFn *ssa.Function
			for _, fn := range fns {
				for _, c := range flow.Calls(fn) {
					if call, ok := c.(*ssa.Call); ok {
						ps := p.Fset.Position(call.Pos())
						if ps.Filename == b.File && ps.Line == b.Line && ps.Column == b.Col {
							inl, inFn = call, fn
						}
					}
				}
			}
			if inl != nil && flow.Callee(inl) != nil {
				cal := flow.Callee(inl)
				key := fmt.Sprintf("%s/bounds/inlined/%s", load.FuncName(inFn), calleeName(inl))
				if cal.Pkg != nil && strings.HasPrefix(cal.Pkg.Pkg.Path(), load.Module) {
					r.OK("E6.panic", key, posStr, "bounds check inside an inlined copy of a function of this module; the same check is an obligation at the function's own definition")
				} else {
					r.OK("E6.panic", key, posStr, "bounds check inside the inlined body of "+calleeName(inl)+" (standard library, trusted not to panic on any string input)")
				}
				continue
			}
			r.Unknown("E6.panic", fmt.Sprintf("bounds/unmatched/%s", filepathBase(b.File)), posStr, "the compiler lists an unproven bounds check that could not be matched to an SSA index/slice instruction or an inlined call")
			continue
		}
		v, need, ok := nopanic.Need(site.Instr)
		key := fmt.Sprintf("%s/bounds/%s", load.FuncName(site.Fn), describeSite(site.Instr))
		if !ok {
			if why, good := indexInCountedLoop(site.Instr); good {
				r.OK("E6.panic", key, posStr, why)
				continue
			}
			symWhy, symOK := "", false
			withCallSites(fns, func() { symWhy, symOK = symbolicBound(site.Instr) })
			if symOK {
				r.OK("E6.panic", key, posStr, symWhy)
				continue
			}
			r.Bad("E6.panic", key, posStr, "unproven bounds check with a non-constant index and no recognisable guard: can panic on arbitrary text")
			continue
		}
		min, why := nopanic.MinLen(v, site.Instr.Block())
		r.Check(min >= need, "E6.panic", key, posStr,
			fmt.Sprintf("needs len >= %d; dominating guards give len >= %d (%s)", need, min, strings.Join(why, "; ")),
			fmt.Sprintf("the expression needs len >= %d but the dominating guards only give len >= %d (%s): a shorter line panics with `slice bounds out of range`", need, min, strings.Join(why, "; ")))
	}
	// ---- SSA scan for other panic sites
	nScan := 0
	for _, fn := range fns {
		for _, b := range fn.Blocks {
			for _, in := range b.Instrs {
				switch x := in.(type) {
				case *ssa.TypeAssert:
					nScan++
					if !x.CommaOk {
						r.Bad("E6.panic", load.FuncName(fn)+"/typeassert", p.Pos(x.Pos()), "non-comma-ok type assertion can panic")
					}
				case *ssa.Panic:
					nScan++
					r.Bad("E6.panic", load.FuncName(fn)+"/panic", p.Pos(x.Pos()), "explicit panic")
				case *ssa.BinOp:
					if x.Op == token.QUO || x.Op == token.REM {
						if bt, ok := x.X.Type().Underlying().(*types.Basic); ok && bt.Info()&types.IsInteger != 0 {
							nScan++
							if k, ok := flow.ConstInt(x.Y); !ok || k == 0 {
								r.Bad("E6.panic", load.FuncName(fn)+"/division", p.Pos(x.Pos()), "integer division by a non-constant")
							}
						}
					}
				case *ssa.MapUpdate:
					nScan++
					if _, ok := x.Map.(*ssa.MakeMap); !ok {
						r.Bad("E6.panic", load.FuncName(fn)+"/mapupdate", p.Pos(x.Pos()), "store into a map that is not freshly made (nil-map store panics)")
					}
				case *ssa.Call:
					if flow.CalleeIs(x, "regexp", "MustCompile") {
						nScan++
						s, ok := flow.ConstString(x.Call.Args[0])
						if !ok {
							r.Bad("E6.panic", load.FuncName(fn)+"/MustCompile", p.Pos(x.Pos()), "regexp.MustCompile of a non-constant pattern")
						} else if _, err := regexp.Compile(s); err != nil {
							r.Bad("E6.panic", load.FuncName(fn)+"/MustCompile", p.Pos(x.Pos()), fmt.Sprintf("pattern %q does not compile: %v", s, err))
						} else {
							r.OK("E6.panic", load.FuncName(fn)+"/MustCompile/"+s, p.Pos(x.Pos()), "constant pattern compiles")
						}
					}
					if flow.CalleeIs(x, "bufio", "Scanner.Buffer") {
						// Buffer keeps the default split function; it panics only when called after scanning has started: no
						// Scan call of this function may run before it
						nScan++
						early := true
						for _, c2 := range flow.Calls(fn) {
							if sc, ok := c2.(*ssa.Call); ok && flow.CalleeIs(sc, "bufio", "Scanner.Scan") && (instrReachesNoRepeat(sc, x, nil) || sc.Block() == x.Block() && flow.InstrIndex(sc) < flow.InstrIndex(x)) {
								early = false
							}
						}
						r.Check(early, "E6.panic", load.FuncName(fn)+"/scanner-buffer", p.Pos(x.Pos()), "Scanner.Buffer is called before the first Scan (it panics afterwards); the split function stays the default",
							"Scanner.Buffer can run after scanning has started: it panics")
					}
					if flow.CalleeIs(x, "bufio", "Scanner.Split") {
						r.Unknown("E6.panic", load.FuncName(fn)+"/scanner-config", p.Pos(x.Pos()), "custom scanner configuration: Scan's no-panic guarantee needs the default split function")
					}
				case *ssa.Go:
					r.Unknown("E6.panic", load.FuncName(fn)+"/go", p.Pos(x.Pos()), "goroutine started in the extraction path")
				case *ssa.IndexAddr, *ssa.Index, *ssa.Slice:
					// checks the compiler proved to fail are not in its listing of undecided checks: find them by the upper bound
					if v, need, ok := nopanic.Need(in); ok && need > 0 {
						nScan++
						if ub, have := nopanic.MaxLen(v, b); have && ub < need {
							r.Bad("E6.panic", load.FuncName(fn)+"/bounds-always-fail/"+describeSite(in), p.Pos(in.Pos()),
								fmt.Sprintf("the expression needs len >= %d but the dominating conditions say len <= %d: it panics whenever it is reached", need, ub))
						}
					}
				}
			}
		}
	}
	r.Count("other potential panic sites scanned", nScan)
	r.OK("E6.panic", "ssa-scan", "", fmt.Sprintf("%d functions scanned for type assertions, panics, divisions, map stores, MustCompile", len(fns)))
	checkArgPanics(e, p, fns, "E6.panic", nil, false)
	checkNilDeref(e, p, fns)
	checkTermination(e, p, fns, "disasm")
	checkScanErr(e, p, fns)
	checkErrBranch(e, p, fns, "disasm")
	checkWindow(e, p)
}

func filepathBase(f string) string {
	if i := strings.LastIndex(f, "/"); i >= 0 {
		return f[i+1:]
	}
	return f
}

func describeSite(in ssa.Instruction) string {
	switch x := in.(type) {
	case *ssa.Slice:
		d := valName(x.X) + "["
		if x.Low != nil {
			d += constOrName(x.Low)
		}
		d += ":"
		if x.High != nil {
			d += constOrName(x.High)
		}
		return d + "]"
	case *ssa.IndexAddr:
		return valName(x.X) + "[" + constOrName(x.Index) + "]"
	case *ssa.Index:
		return valName(x.X) + "[" + constOrName(x.Index) + "]"
	}
	return fmt.Sprintf("%T", in)
}

func constOrName(v ssa.Value) string {
	if k, ok := flow.ConstInt(v); ok {
		return fmt.Sprint(k)
	}
	return valName(v)
}

// valName gives a stable, line-free description of a value.
func valName(v ssa.Value) string {
	switch x := v.(type) {
	case *ssa.Parameter:
		return x.Name()
	case *ssa.Call:
		if f := x.Call.StaticCallee(); f != nil {
			return f.Name() + "()"
		}
		return "call()"
	case *ssa.Phi:
		if x.Comment != "" {
			return x.Comment
		}
	case *ssa.Alloc:
		return x.Comment
	}
	return strings.TrimPrefix(fmt.Sprintf("%T", v), "*ssa.")
}

// mayReturnNilAt: can function f return the nil constant as result i?
func mayReturnNilAt(f *ssa.Function, i int) bool {
	for _, ret := range flow.Returns(f) {
		rs := flow.RetResults(ret)
		if i < len(rs) && flow.IsNilConst(rs[i]) {
			return true
		}
	}
	return false
}

// nilOnlyWithError: wherever f returns nil as result i, its error result is provably non-nil (the usual (value, error)
// contract), so a caller behind the `err == nil` edge of the call holds a non-nil pointer.
func nilOnlyWithError(f *ssa.Function, i int) bool {
	res := f.Signature.Results()
	if res.Len() < 2 || !flow.IsErrorType(res.At(res.Len()-1).Type()) {
		return false
	}
	for _, ret := range flow.Returns(f) {
		rs := flow.RetResults(ret)
		if i < len(rs) && flow.IsNilConst(rs[i]) && !flow.KnownNonNilError(rs[len(rs)-1], ret.Block()) {
			return false
		}
	}
	return true
}

// checkNilDeref: a pointer result of a call whose callee can return nil must not be
// dereferenced unless a dominating `!= nil` guard holds.
func checkNilDeref(e *Env, p *load.Program, fns []*ssa.Function) {
	r := e.R
	n := 0
	for _, fn := range fns {
		for _, c := range flow.Calls(fn) {
			call, ok := c.(*ssa.Call)
			if !ok {
				continue
			}
			sig := call.Call.Signature()
			var callees []*ssa.Function
			if f := flow.Callee(call); f != nil {
				callees = []*ssa.Function{f}
			} else if !call.Call.IsInvoke() {
				// dynamic call through a func value: every package function with the same signature
				for _, g := range fns {
					if types.Identical(g.Signature, sig) {
						callees = append(callees, g)
					}
				}
			}
			for i := 0; i < sig.Results().Len(); i++ {
				if _, isPtr := sig.Results().At(i).Type().Underlying().(*types.Pointer); !isPtr {
					continue
				}
				may, withErr := false, true
				for _, g := range callees {
					if g.Pkg != nil && g.Pkg.Pkg.Path() == load.PkgDisasm && mayReturnNilAt(g, i) {
						may = true
						if !nilOnlyWithError(g, i) {
							withErr = false
						}
					}
				}
				if !may {
					continue
				}
				res := flow.ResultN(call, i)
				if res == nil || res.Referrers() == nil {
					continue
				}
				for _, ref := range *res.Referrers() {
					deref := false
					switch x := ref.(type) {
					case *ssa.FieldAddr:
						deref = x.X == res
					case *ssa.UnOp:
						deref = x.Op == token.MUL && x.X == res
					case *ssa.Store:
						deref = x.Addr == res
					}
					if !deref {
						continue
					}
					n++
					guarded := false
					for _, cd := range flow.DomConds(ref.Block()) {
						bo, ok := cd.V.(*ssa.BinOp)
						if !ok || (bo.X != res && bo.Y != res) {
							continue
						}
						other := bo.Y
						if bo.Y == res {
							other = bo.X
						}
						if !flow.IsNilConst(other) {
							continue
						}
						if (bo.Op == token.NEQ && cd.Pol) || (bo.Op == token.EQL && !cd.Pol) {
							guarded = true
						}
					}
					if !guarded && withErr {
						// nil only together with an error, and this use lies behind the checked success of the call
						if errv := flow.ErrResult(call); errv != nil {
							if in, ok := ref.(ssa.Instruction); ok {
								nn, known := flow.ErrKnownAt(errv, in)
								guarded = known && !nn
							}
						}
					}
					r.Check(guarded, "E6.nilderef", load.FuncName(fn)+"/"+calleeName(call)+fmt.Sprintf("#%d", i), p.Pos(ref.Pos()),
						"dereference behind a `!= nil` guard", "a result that the callee can return as nil is dereferenced without a dominating `!= nil` guard: nil pointer dereference on a line that is not a syscall")
				}
			}
		}
	}
	r.Floor("E6.nilderef(dereferences of nilable results)", n, 1)
	checkNilReceivers(e, p, fns)
}

// checkNilReceivers (E6.nilrecv): a nil constant never flows, unguarded, into the receiver of a method call on a pointer
// type of another package (a nil *regexp.Regexp, *os.File ... panics inside the method).  The flow is followed through
// phis, parameters of package functions (all call sites) and the elements of variadic arguments; values of unknown
// provenance (fields, results of library constructors) are trusted to be non-nil.
func checkNilReceivers(e *Env, p *load.Program, fns []*ssa.Function) {
	r := e.R
	inPkg := map[*ssa.Function]bool{}
	for _, f := range fns {
		inPkg[f] = true
	}
	guardedAt := func(v ssa.Value, b *ssa.BasicBlock) bool {
		for _, cd := range flow.DomConds(b) {
			c := flow.Norm(cd)
			bo, ok := c.V.(*ssa.BinOp)
			if !ok || (bo.X != v && bo.Y != v) {
				continue
			}
			other := bo.Y
			if bo.Y == v {
				other = bo.X
			}
			if flow.IsNilConst(other) && ((bo.Op == token.NEQ && c.Pol) || (bo.Op == token.EQL && !c.Pol)) {
				return true
			}
		}
		return false
	}
	var mayBeNil func(v ssa.Value, at *ssa.BasicBlock, depth int, seen map[ssa.Value]bool) (bool, string)
	mayBeNil = func(v ssa.Value, at *ssa.BasicBlock, depth int, seen map[ssa.Value]bool) (bool, string) {
		if depth > 6 || seen[v] {
			return false, ""
		}
		seen[v] = true
		if at != nil && guardedAt(v, at) {
			return false, ""
		}
		switch x := v.(type) {
		case *ssa.Const:
			if x.IsNil() {
				return true, "the nil constant"
			}
		case *ssa.Phi:
			for i, ed := range x.Edges {
				if may, why := mayBeNil(ed, x.Block().Preds[i], depth+1, seen); may {
					return true, why
				}
			}
		case *ssa.ChangeType:
			return mayBeNil(x.X, at, depth+1, seen)
		case *ssa.Parameter:
			fn := x.Parent()
			if !inPkg[fn] {
				return false, ""
			}
			idx := -1
			for k, q := range fn.Params {
				if q == x {
					idx = k
				}
			}
			for _, g := range fns {
				for _, c := range flow.Calls(g) {
					match := flow.Callee(c) == fn
					if !match && flow.Callee(c) == nil && !c.Common().IsInvoke() && types.Identical(c.Common().Signature(), fn.Signature) {
						match = true // through a function value of the same signature
					}
					if !match || idx >= len(c.Common().Args) {
						continue
					}
					if may, why := mayBeNil(c.Common().Args[idx], c.Block(), depth+1, seen); may {
						return true, why + " passed by " + load.FuncName(g)
					}
				}
			}
		case *ssa.UnOp:
			// an element of a slice: for a variadic parameter, the elements the callers put in
			if x.Op != token.MUL {
				return false, ""
			}
			ia, ok := x.X.(*ssa.IndexAddr)
			if !ok {
				return false, ""
			}
			prm, ok := ia.X.(*ssa.Parameter)
			if !ok || !inPkg[prm.Parent()] {
				return false, ""
			}
			fn := prm.Parent()
			idx := -1
			for k, q := range fn.Params {
				if q == prm {
					idx = k
				}
			}
			for _, g := range fns {
				for _, c := range flow.Calls(g) {
					if flow.Callee(c) != fn || idx >= len(c.Common().Args) {
						continue
					}
					sl, ok := c.Common().Args[idx].(*ssa.Slice)
					if !ok {
						continue
					}
					al, ok := sl.X.(*ssa.Alloc)
					if !ok {
						continue
					}
					for _, ref := range *al.Referrers() {
						if ea, ok := ref.(*ssa.IndexAddr); ok {
							for _, r2 := range *ea.Referrers() {
								if st, ok := r2.(*ssa.Store); ok && st.Addr == ssa.Value(ea) {
									if may, why := mayBeNil(st.Val, c.Block(), depth+1, seen); may {
										return true, why + " passed by " + load.FuncName(g)
									}
								}
							}
						}
					}
				}
			}
		}
		return false, ""
	}
	n := 0
	for _, fn := range fns {
		for _, c := range flow.Calls(fn) {
			cal := flow.Callee(c)
			if cal == nil || cal.Signature.Recv() == nil || inPkg[cal] || len(c.Common().Args) == 0 {
				continue
			}
			if _, isPtr := cal.Signature.Recv().Type().Underlying().(*types.Pointer); !isPtr {
				continue
			}
			n++
			recv := c.Common().Args[0]
			if may, why := mayBeNil(recv, c.Block(), 0, map[ssa.Value]bool{}); may {
				r.Bad("E6.nilrecv", load.FuncName(fn)+"/"+calleeNameCI(c), p.Pos(c.Pos()),
					"the receiver of "+calleeNameCI(c)+" can be "+why+" without a dominating `!= nil` guard: the method dereferences it and panics")
			}
		}
	}
	r.Count("method calls on foreign pointer receivers examined (E6.nilrecv)", n)
	if !r.HasBad("E6.nilrecv") {
		r.OK("E6.nilrecv", "no-nil-constant-reaches-a-receiver", "", fmt.Sprintf("%d method calls on pointer receivers of other packages: no nil constant reaches a receiver unguarded", n))
	}
}

// checkTermination: loop forms and absence of recursion.
func checkTermination(e *Env, p *load.Program, fns []*ssa.Function, label string) {
	r := e.R
	inPkg := map[*ssa.Function]bool{}
	for _, f := range fns {
		inPkg[f] = true
	}
	// recursion: DFS over static + signature-matched dynamic calls
	succ := func(f *ssa.Function) []*ssa.Function {
		var out []*ssa.Function
		for _, c := range flow.Calls(f) {
			if g := flow.Callee(c); g != nil {
				if inPkg[g] {
					out = append(out, g)
				}
			} else if !c.Common().IsInvoke() {
				for _, g := range fns {
					if types.Identical(g.Signature, c.Common().Signature()) {
						out = append(out, g)
					}
				}
			}
		}
		return out
	}
	state := map[*ssa.Function]int{}
	var cyc []string
	var dfs func(f *ssa.Function)
	dfs = func(f *ssa.Function) {
		state[f] = 1
		for _, g := range succ(f) {
			if state[g] == 1 {
				cyc = append(cyc, load.FuncName(f)+"->"+load.FuncName(g))
			} else if state[g] == 0 {
				dfs(g)
			}
		}
		state[f] = 2
	}
	for _, f := range fns {
		if state[f] == 0 {
			dfs(f)
		}
	}
	r.Check(len(cyc) == 0, "E3.term", label+"/no-recursion", "", "the call graph of the package is acyclic", fmt.Sprintf("recursion: %v", cyc))
	nLoops := 0
	for _, fn := range fns {
		g := flow.G(fn)
		headers := map[*ssa.BasicBlock]bool{}
		for _, b := range fn.Blocks {
			for _, s := range g.Succs(b) {
				if g.Dominates(s, b) {
					headers[s] = true
				}
			}
		}
		for h := range headers {
			nLoops++
			kind := classifyLoop(h)
			key := fmt.Sprintf("%s/loop/%s", load.FuncName(fn), kind)
			pos := ""
			if len(h.Instrs) > 0 {
				pos = p.Pos(h.Instrs[len(h.Instrs)-1].Pos())
				for _, in := range h.Instrs {
					if in.Pos().IsValid() {
						pos = p.Pos(in.Pos())
						break
					}
				}
			}
			r.Check(kind != "unknown", "E3.term", key, pos, "terminating loop form: "+kind, "loop form not recognised as terminating (not a range loop, a counted loop with a monotone bounded index, or `for s.Scan()`)")
		}
	}
	r.Count("loops classified ("+label+")", nLoops)
}

func classifyLoop(h *ssa.BasicBlock) string {
	for _, in := range h.Instrs {
		switch x := in.(type) {
		case *ssa.Phi:
			if x.Comment == "rangeindex" {
				return "range-index"
			}
		case *ssa.Next:
			return "range-iter"
		}
	}
	ifi, ok := flow.LastIf(h)
	if !ok {
		return "unknown"
	}
	if c, ok := ifi.Cond.(*ssa.Call); ok && flow.CalleeIs(c, "bufio", "Scanner.Scan") {
		return "scanner"
	}
	// counted: cond compares a phi (init, phi±const) with a loop-invariant bound
	if bo, ok := ifi.Cond.(*ssa.BinOp); ok {
		for _, side := range []ssa.Value{bo.X, bo.Y} {
			ph, ok := side.(*ssa.Phi)
			if !ok || ph.Block() != h {
				continue
			}
			step := int64(0)
			okStep := true
			for i, ed := range ph.Edges {
				pred := h.Preds[i]
				if !flow.Dominates(h, pred) {
					continue // entry edge
				}
				b2, ok := ed.(*ssa.BinOp)
				if !ok || b2.X != ssa.Value(ph) || (b2.Op != token.ADD && b2.Op != token.SUB) {
					okStep = false
					break
				}
				k, isK := flow.ConstInt(b2.Y)
				if !isK || k == 0 {
					okStep = false
					break
				}
				if b2.Op == token.SUB {
					k = -k
				}
				if step != 0 && (step > 0) != (k > 0) {
					okStep = false
				}
				step = k
			}
			if !okStep || step == 0 {
				continue
			}
			other := bo.Y
			if side == bo.Y {
				other = bo.X
			}
			// bound must be loop-invariant: a constant, or defined outside the loop (dominates h strictly)
			inv := false
			if _, isC := other.(*ssa.Const); isC {
				inv = true
			} else if in, ok := other.(ssa.Instruction); ok && in.Block() != h && flow.Dominates(in.Block(), h) {
				inv = true
			} else if _, isP := other.(*ssa.Parameter); isP {
				inv = true
			}
			if !inv {
				continue
			}
			// direction must approach the bound
			op := bo.Op
			if side == bo.Y {
				switch op {
				case token.LSS:
					op = token.GTR
				case token.GTR:
					op = token.LSS
				case token.LEQ:
					op = token.GEQ
				case token.GEQ:
					op = token.LEQ
				}
			}
			if (step > 0 && (op == token.LSS || op == token.LEQ)) || (step < 0 && (op == token.GTR || op == token.GEQ)) {
				return "counted"
			}
		}
	}
	return "unknown"
}

// checkScanErr: after every bufio.Scanner loop the scanner's Err() is inspected and
// its non-nil edge returns a non-nil error.
func checkScanErr(e *Env, p *load.Program, fns []*ssa.Function) {
	r := e.R
	nLoops := 0
	for _, fn := range fns {
		for _, c := range flow.Calls(fn) {
			scan, ok := c.(*ssa.Call)
			if !ok || !flow.CalleeIs(scan, "bufio", "Scanner.Scan") {
				continue
			}
			nLoops++
			sc := scan.Call.Args[0]
			key := load.FuncName(fn) + "/scanner"
			// loop exit: the false successor of the If on scan
			var exit *ssa.BasicBlock
			for _, ref := range *scan.Referrers() {
				if ifi, ok := ref.(*ssa.If); ok {
					exit = ifi.Block().Succs[1]
				}
			}
			if exit == nil {
				r.Unknown("E3.scanerr", key, p.Pos(scan.Pos()), "Scan() is not used as a loop condition")
				continue
			}
			// the loop in a helper that receives the scanner and returns no error (`syscalls := p.scan(s)`): the obligation
			// is the caller's - after the call, on the scanner it handed in
			if prm, isParam := sc.(*ssa.Parameter); isParam && !returnsError(fn) {
				idx := -1
				for i, q := range fn.Params {
					if q == prm {
						idx = i
					}
				}
				moved := 0
				for _, cf := range fns {
					for _, cc := range flow.Calls(cf) {
						hc, ok := cc.(*ssa.Call)
						if !ok || hc.Call.StaticCallee() != fn || idx < 0 || idx >= len(hc.Call.Args) {
							continue
						}
						moved++
						judgeScanErr(e, p, cf, hc.Call.Args[idx], hc.Block(), hc, load.FuncName(cf)+"/scanner-via-"+fn.Name())
					}
				}
				if moved > 0 {
					continue
				}
			}
			judgeScanErr(e, p, fn, sc, exit, scan, key)
			continue
		}
	}
	r.Floor("E3.scanerr(scanner loops)", nLoops, 1)
}

// checkErrBranch (general): inside the true branch of `e != nil` a return must not return
// a nil error constant nor a value the dominating conditions prove nil.
func checkErrBranch(e *Env, p *load.Program, fns []*ssa.Function, label string) {
	r := e.R
	n := 0
	for _, fn := range fns {
		for _, ret := range flow.Returns(fn) {
			rs := flow.RetResults(ret)
			if len(rs) == 0 || !flow.IsErrorType(ret.Parent().Signature.Results().At(len(rs)-1).Type()) {
				continue
			}
			errRes := rs[len(rs)-1]
			conds := flow.DomConds(ret.Block())
			// is some error value known non-nil here?
			inFail := false
			for _, cd := range conds {
				bo, ok := cd.V.(*ssa.BinOp)
				if !ok || (bo.Op != token.NEQ && bo.Op != token.EQL) {
					continue
				}
				var ev ssa.Value
				if flow.IsNilConst(bo.Y) {
					ev = bo.X
				} else if flow.IsNilConst(bo.X) {
					ev = bo.Y
				}
				if ev == nil || !flow.IsErrorType(ev.Type()) {
					continue
				}
				if (bo.Op == token.NEQ && cd.Pol) || (bo.Op == token.EQL && !cd.Pol) {
					inFail = true
				}
			}
			if !inFail {
				continue
			}
			n++
			bad := flow.KnownNilError(errRes, ret.Block())
			r.Check(!bad, "E3.errbranch", load.FuncName(fn)+"/return-in-error-branch", p.Pos(ret.Pos()), "the error branch returns a value that is not provably nil",
				"inside a branch where an error is known to be non-nil the function returns an error value that the dominating conditions prove nil")
		}
	}
	r.Count("returns inside error branches ("+label+")", n)
}

// checkWindow: window reset at the function marker, window-only search, append-only result, name from table.
func checkWindow(e *Env, p *load.Program) {
	r := e.R
	fn := p.Func(load.PkgDisasm, "parser.Parse")
	if fn == nil {
		r.Unknown("E3.window", "parser.Parse", "", "not found")
		return
	}
	// the scan loop is in Parse itself, or in the one function of the package that Parse hands the opened file to
	entry := fn
	if len(callsTo(fn, "bufio", "Scanner.Text")) == 0 {
		var loopFns []*ssa.Function
		var via *ssa.Call
		for _, c := range flow.Calls(fn) {
			call, ok := c.(*ssa.Call)
			if !ok {
				continue
			}
			if g := flow.Callee(call); g != nil && g.Pkg != nil && g.Pkg.Pkg.Path() == load.PkgDisasm && len(g.Blocks) > 0 && len(callsTo(g, "bufio", "Scanner.Text")) > 0 {
				loopFns = append(loopFns, g)
				via = call
			}
		}
		if len(loopFns) != 1 {
			r.Unknown("E3.window", "parser.Parse/scan-loop", p.Pos(fn.Pos()), fmt.Sprintf("the loop over the scanned lines was not found in Parse or in exactly one function it calls (%d candidates)", len(loopFns)))
			return
		}
		fn = loopFns[0]
		// Parse returns what the loop function returned, or nothing
		for _, ret := range flow.Returns(entry) {
			rs := flow.RetResults(ret)
			if flow.IsNilConst(rs[0]) {
				continue
			}
			r.Check(rs[0] == flow.ResultN(via, 0), "E3.appendonly", "parser.Parse/returns-loop-result", p.Pos(ret.Pos()), "Parse returns the result of the scan loop unmodified", "Parse returns something other than the result of the scan loop")
		}
	}
	res := origin.NewResolver()
	// the marker test: strings.HasPrefix(line, "TEXT") where line = Scanner.Text(), inline or in a helper of the package
	// whose boolean result is true exactly when its argument has the prefix
	isMarkerPrefix := func(call *ssa.Call, arg ssa.Value) bool {
		if !flow.CalleeIs(call, "strings", "HasPrefix") || call.Call.Args[0] != arg {
			return false
		}
		s, ok := flow.ConstString(call.Call.Args[1])
		return ok && s == "TEXT"
	}
	var marker ssa.Value // the boolean "line is a function marker"
	var line ssa.Value
	for _, c := range flow.Calls(fn) {
		call, ok := c.(*ssa.Call)
		if !ok || len(call.Call.Args) == 0 {
			continue
		}
		tc, ok := call.Call.Args[0].(*ssa.Call)
		if !ok || !flow.CalleeIs(tc, "bufio", "Scanner.Text") {
			continue
		}
		if isMarkerPrefix(call, tc) {
			marker, line = call, tc
			continue
		}
		h := flow.Callee(call)
		if h == nil || h.Pkg == nil || h.Pkg.Pkg.Path() != load.PkgDisasm || len(h.Blocks) == 0 || len(h.Params) != 1 {
			continue
		}
		// which result is the boolean
		bi := -1
		for k := 0; k < h.Signature.Results().Len(); k++ {
			if bt, ok := h.Signature.Results().At(k).Type().Underlying().(*types.Basic); ok && bt.Kind() == types.Bool {
				bi = k
			}
		}
		if bi < 0 {
			continue
		}
		equiv := true
		n := 0
		for _, ret := range flow.Returns(h) {
			rs := flow.RetResults(ret)
			v := rs[bi]
			if pc, ok := v.(*ssa.Call); ok && isMarkerPrefix(pc, h.Params[0]) {
				n++
				continue
			}
			k, isK := v.(*ssa.Const)
			if !isK || k.Value == nil {
				equiv = false
				continue
			}
			want := constant.BoolVal(k.Value)
			okc := false
			for _, cd := range flow.DomConds(ret.Block()) {
				cn := flow.Norm(cd)
				if pc, ok := cn.V.(*ssa.Call); ok && isMarkerPrefix(pc, h.Params[0]) && cn.Pol == want {
					okc = true
				}
			}
			if !okc {
				equiv = false
			}
			n++
		}
		if equiv && n > 0 {
			line = tc
			if h.Signature.Results().Len() == 1 {
				marker = call
			} else {
				marker = flow.ResultN(call, bi)
			}
		}
	}
	if marker == nil {
		r.Bad("E3.window", "parser.Parse/marker-test", p.Pos(fn.Pos()), "no test `strings.HasPrefix(line, \"TEXT\")` on the scanned line (inline or in a helper that is true exactly for such lines): function boundaries are not recognised")
		return
	}
	var markerIf *ssa.If
	if marker.Referrers() != nil {
		for _, ref := range *marker.Referrers() {
			if ifi, ok := ref.(*ssa.If); ok {
				markerIf = ifi
			}
		}
	}
	if markerIf == nil {
		r.Unknown("E3.window", "parser.Parse/marker-test", p.Pos(marker.Pos()), "marker test is not a branch condition")
		return
	}
	// every scanned line reaches the marker test: nothing but the loop's own Scan() condition decides whether it runs (a
	// line that is skipped earlier - too short, blank, a comment - could be a function header)
	{
		bypass := ""
		for _, cd := range flow.DomConds(markerIf.Block()) {
			c := flow.Norm(cd)
			if call, ok := c.V.(*ssa.Call); ok && flow.CalleeIs(call, "bufio", "Scanner.Scan") && c.Pol {
				continue
			}
			// a condition established before the loop (file opened, no error) is not about the line
			if cd.At != nil && !flow.Reachable(markerIf.Block(), nil)[cd.At.Block()] {
				continue
			}
			bypass = p.Pos(cd.V.Pos())
		}
		r.Check(bypass == "", "E3.window", "parser.Parse/marker-test-for-every-line", p.Pos(markerIf.Pos()),
			"the function-marker test runs for every scanned line",
			"a scanned line can bypass the function-marker test (condition at "+bypass+"): a function header on such a line is missed, the window is not reset and a syscall number can be taken from the previous function")
	}
	// the dynamic parse call and its window argument
	var parseCall *ssa.Call
	for _, c := range flow.Calls(fn) {
		call, ok := c.(*ssa.Call)
		if !ok || flow.Callee(call) != nil || call.Call.IsInvoke() {
			continue
		}
		if len(call.Call.Args) == 4 {
			parseCall = call
		}
	}
	if parseCall == nil {
		r.Unknown("E3.window", "parser.Parse/parse-call", p.Pos(fn.Pos()), "call through the parse function value not found")
		return
	}
	win := parseCall.Call.Args[3]
	// win = append(phiW, line)
	app, ok := win.(*ssa.Call)
	var phiW *ssa.Phi
	if ok {
		if bi, isB := app.Call.Value.(*ssa.Builtin); isB && bi.Name() == "append" {
			phiW, _ = app.Call.Args[0].(*ssa.Phi)
		}
	}
	if phiW == nil {
		r.Unknown("E3.window", "parser.Parse/window", p.Pos(parseCall.Pos()), "the window passed to parse is not append(window, line)")
		return
	}
	r.Check(parseCall.Call.Args[1] == line, "E3.window", "parser.Parse/parse-line", p.Pos(parseCall.Pos()), "parse receives the scanned line", "parse does not receive the scanned line")
	// function name argument is the loop-carried `function`
	phiF, _ := parseCall.Call.Args[2].(*ssa.Phi)
	// edges of phiW coming from the marker-true region must be window[:0]
	g := flow.G(fn)
	H := phiW.Block()
	nMarkerEdges := 0
	for i, pred := range H.Preds {
		if !g.EdgeDominates(markerIf.Block(), markerIf.Block().Succs[0], pred) {
			continue
		}
		nMarkerEdges++
		ed := phiW.Edges[i]
		sl, ok := ed.(*ssa.Slice)
		good := ok
		if good {
			hi, isK := int64(-1), false
			if sl.High != nil {
				hi, isK = flow.ConstInt(sl.High)
			}
			good = isK && hi == 0 && sl.Low == nil
		}
		r.Check(good, "E3.window", "parser.Parse/reset-at-marker", p.Pos(markerIf.Pos()),
			"on the function-marker edge the instruction window continues with length 0",
			"on the function-marker edge the instruction window is not re-sliced to length 0: instructions of the previous function stay searchable, so a syscall number can be attributed from another function")
		if phiF != nil && phiF.Block() == H {
			fe := phiF.Edges[i]
			o := res.Of(fe, nil, nil)
			derived := strings.Contains(o.String(), "Text(")
			r.Check(derived && fe != ssa.Value(phiF), "E3.window", "parser.Parse/function-at-marker", p.Pos(markerIf.Pos()), "the current function name is updated from the marker line", "the function name is not updated from the marker line at a function marker")
		}
	}
	r.Floor("E3.window(marker back edges)", nMarkerEdges, 1)
	// no other edge may grow the window except by append(window, line) / reset
	for i := range H.Preds {
		ed := phiW.Edges[i]
		switch x := ed.(type) {
		case *ssa.Const:
			if !x.IsNil() {
				r.Unknown("E3.window", "parser.Parse/window-edge", p.Pos(phiW.Pos()), "unexpected constant")
			}
		case *ssa.Slice:
			// any sub-slice of the current window keeps the window inside the current function
			if x.X != ssa.Value(app) && x.X != ssa.Value(phiW) {
				r.Bad("E3.window", "parser.Parse/window-edge", p.Pos(x.Pos()), "the window continues as a slice of something other than the current window")
			}
		case *ssa.Call:
			if x != app {
				r.Bad("E3.window", "parser.Parse/window-edge", p.Pos(x.Pos()), "the window is extended by something other than the scanned line")
			}
		case *ssa.Phi:
			if x != phiW {
				r.Unknown("E3.window", "parser.Parse/window-edge", p.Pos(phiW.Pos()), "window joins another value")
			}
		default:
			r.Unknown("E3.window", "parser.Parse/window-edge", p.Pos(phiW.Pos()), fmt.Sprintf("unexpected window update %T", ed))
		}
	}
	// the appended element is the scanned line of this iteration
	okApp := false
	if sl, ok := app.Call.Args[1].(*ssa.Slice); ok {
		if al, ok := sl.X.(*ssa.Alloc); ok {
			for _, ref := range *al.Referrers() {
				if ia, ok := ref.(*ssa.IndexAddr); ok {
					for _, r2 := range *ia.Referrers() {
						if st, ok := r2.(*ssa.Store); ok && st.Val == line {
							okApp = true
						}
					}
				}
			}
		}
	}
	r.Check(okApp, "E3.window", "parser.Parse/window-append", p.Pos(app.Pos()), "each scanned line is appended to the window", "the window is not extended by the scanned line")

	// in the callees: the number search only looks at the window parameter
	for _, g2 := range p.SrcFuncs(load.PkgDisasm) {
		if !types.Identical(g2.Signature, parseCall.Call.Signature()) {
			continue
		}
		winParam := g2.Params[3]
		for _, c := range flow.Calls(g2) {
			call, ok := c.(*ssa.Call)
			if !ok {
				continue
			}
			cal := flow.Callee(call)
			if cal == nil || cal.Pkg == nil || cal.Pkg.Pkg.Path() != load.PkgDisasm {
				continue
			}
			for i, a := range call.Call.Args {
				st, isSlice := a.Type().Underlying().(*types.Slice)
				if !isSlice {
					continue
				}
				if bt, ok := st.Elem().Underlying().(*types.Basic); !ok || bt.Kind() != types.String {
					continue
				}
				r.Check(a == ssa.Value(winParam), "E3.window", load.FuncName(g2)+"/"+load.FuncName(cal)+fmt.Sprintf("/arg%d", i), p.Pos(call.Pos()),
					"the searched instruction list is the window parameter", "a list other than the current window is searched for the syscall number")
			}
		}
	}

	// ---- append-only result
	var phiR *ssa.Phi
	for _, in := range H.Instrs {
		if ph, ok := in.(*ssa.Phi); ok {
			if st, ok := ph.Type().Underlying().(*types.Slice); ok && isNamed(st.Elem(), load.PkgDisasm, "Syscall") {
				phiR = ph
			}
		}
	}
	if phiR == nil {
		r.Unknown("E3.appendonly", "parser.Parse/result", p.Pos(fn.Pos()), "loop-carried result slice not found")
		return
	}
	var resApp *ssa.Call
	okRes := true
	for _, ed := range phiR.Edges {
		switch x := ed.(type) {
		case *ssa.Const:
			okRes = okRes && x.IsNil()
		case *ssa.Phi:
			okRes = okRes && x == phiR
		case *ssa.Call:
			bi, isB := x.Call.Value.(*ssa.Builtin)
			if isB && bi.Name() == "append" && x.Call.Args[0] == ssa.Value(phiR) {
				resApp = x
			} else {
				okRes = false
			}
		default:
			okRes = false
		}
	}
	// other uses of the result: only the success return
	for _, ref := range *phiR.Referrers() {
		switch x := ref.(type) {
		case *ssa.Phi, *ssa.DebugRef:
		case *ssa.Call:
			if x != resApp {
				okRes = false
			}
		case *ssa.Store, *ssa.Return:
		default:
			okRes = false
		}
	}
	r.Check(okRes && resApp != nil, "E3.appendonly", "parser.Parse/result", p.Pos(phiR.Pos()), "the result is only ever extended by append(result, x) and returned: appending functions to a listing cannot remove earlier results",
		"the result slice is modified other than by append(result, x)")
	for _, ret := range flow.Returns(fn) {
		rs := flow.RetResults(ret)
		if flow.IsNilConst(rs[len(rs)-1]) || !flow.IsNilConst(rs[0]) {
			r.Check(rs[0] == ssa.Value(phiR), "E3.appendonly", "parser.Parse/success-return", p.Pos(ret.Pos()), "the success return returns the accumulated result unmodified", "the success return does not return the accumulated result")
		}
	}
	// ---- name from the table under found
	if resApp != nil {
		// the appended element: *t36 where t36 is the parse result; Name store must be lookup value under found
		var nameStore *ssa.Store
		ptr := flow.ResultN(parseCall, 0)
		for _, ref := range *ptr.Referrers() {
			fa, ok := ref.(*ssa.FieldAddr)
			if !ok {
				continue
			}
			fname := ptr.Type().Underlying().(*types.Pointer).Elem().Underlying().(*types.Struct).Field(fa.Field).Name()
			if fname != "Name" {
				continue
			}
			for _, r2 := range *fa.Referrers() {
				if st, ok := r2.(*ssa.Store); ok && st.Addr == fa {
					nameStore = st
				}
			}
		}
		good := false
		detail := "the Name of a reported syscall is not assigned from the number->name table"
		if nameStore != nil {
			if ex, ok := nameStore.Val.(*ssa.Extract); ok && ex.Index == 0 {
				if lk, ok := ex.Tuple.(*ssa.Lookup); ok && lk.CommaOk {
					mo := res.Of(lk.X, nil, lk)
					ko := res.Of(lk.Index, nil, lk)
					tableOK := mo.Kind == origin.KField && mo.Field.Name() == "SyscallNumbers"
					keyOK := ko.Kind == origin.KField && ko.Field.Name() == "Num" && strings.Contains(ko.String(), "dynamic(")
					var found ssa.Value
					for _, ref := range *lk.Referrers() {
						if ex2, ok := ref.(*ssa.Extract); ok && ex2.Index == 1 {
							found = ex2
						}
					}
					pol, known := flow.CondHolds(flow.DomConds(resApp.Block()), found)
					good = tableOK && keyOK && known && pol && flow.InstrDominates(nameStore, resApp)
					if !good {
						detail = fmt.Sprintf("Name comes from %s[%s] (table ok=%v, key is the element's Num=%v, append behind found=%v)", mo, ko, tableOK, keyOK, known && pol)
					}
				}
			}
		}
		r.Check(good, "E3.named", "parser.Parse/name", p.Pos(resApp.Pos()), "Name = SyscallNumbers[Num] of the same element, appended only on the `found` edge", detail)
		// ... and the number that is reported is the number the name was looked up under: the loop itself never writes the
		// element's Num (or the whole element) and hands the element to nobody who could
		numOK, why := true, ""
		for _, ref := range *ptr.Referrers() {
			switch x := ref.(type) {
			case *ssa.FieldAddr:
				fname := ptr.Type().Underlying().(*types.Pointer).Elem().Underlying().(*types.Struct).Field(x.Field).Name()
				if fname != "Num" {
					continue
				}
				for _, r2 := range *x.Referrers() {
					switch y := r2.(type) {
					case *ssa.Store:
						if y.Addr == ssa.Value(x) {
							numOK, why = false, "the element's Num is overwritten at "+p.Pos(y.Pos())
						}
					case *ssa.UnOp, *ssa.DebugRef:
					default:
						numOK, why = false, "the address of the element's Num escapes at "+p.Pos(r2.Pos())
					}
				}
			case *ssa.Store:
				if x.Addr == ptr {
					numOK, why = false, "the element is overwritten at "+p.Pos(x.Pos())
				}
			case ssa.CallInstruction:
				if x != ssa.CallInstruction(parseCall) {
					for _, a := range x.Common().Args {
						if a == ptr {
							numOK, why = false, "the element is handed to "+calleeNameCI(x)+", which may change its Num"
						}
					}
				}
			}
		}
		r.Check(numOK, "E3.named", "parser.Parse/num-unchanged", p.Pos(resApp.Pos()), "the reported Num is the value the name was looked up under (the loop never writes it)",
			"the reported number is not the number the name was looked up under: "+why+"; the reported syscall need not exist in the table under the reported name")
	}
}

// sameStableField: a (read inside the loop) and b (the sequence the loop ranges over) are loads of the same field of the
// same object (`p.Syscalls` spelled twice; go/ssa does not share the loads), the function never stores to that field, and
// nothing in the loop receives the object, so both loads yield the same slice header.
func sameStableField(a, b ssa.Value, l *flow.CountedLoop) bool {
	la, ok1 := a.(*ssa.UnOp)
	lb, ok2 := b.(*ssa.UnOp)
	if !ok1 || !ok2 || la.Op != token.MUL || lb.Op != token.MUL {
		return false
	}
	fa, ok1 := la.X.(*ssa.FieldAddr)
	fb, ok2 := lb.X.(*ssa.FieldAddr)
	if !ok1 || !ok2 || fa.Field != fb.Field || fa.X != fb.X {
		return false
	}
	base := fa.X
	fn := la.Parent()
	for _, blk := range fn.Blocks {
		for _, in := range blk.Instrs {
			switch x := in.(type) {
			case *ssa.Store:
				if f2, ok := x.Addr.(*ssa.FieldAddr); ok && f2.X == base && f2.Field == fa.Field {
					return false
				}
				if x.Addr == base {
					return false
				}
			case ssa.CallInstruction:
				if !l.Contains(blk) {
					continue
				}
				for _, arg := range x.Common().Args {
					if arg == base {
						return false
					}
				}
				if x.Common().IsInvoke() && x.Common().Value == base {
					return false
				}
			case *ssa.MakeClosure:
				for _, bnd := range x.Bindings {
					if bnd == base {
						return false
					}
				}
			}
		}
	}
	return true
}

// indexInCountedLoop: the instruction indexes the slice a counted loop ranges over with an expression that stays in
// range for every iteration: i (0 <= i < len) or len-1-i.
func indexInCountedLoop(in ssa.Instruction) (string, bool) {
	ia, ok := in.(*ssa.IndexAddr)
	var x, idx ssa.Value
	if ok {
		x, idx = ia.X, ia.Index
	} else if ix, ok := in.(*ssa.Index); ok {
		x, idx = ix.X, ix.Index
	} else {
		return "", false
	}
	for _, l := range flow.CountedLoops(in.Parent()) {
		if !l.Contains(in.Block()) || in.Block() == l.Header {
			continue
		}
		if x != l.Over && !sameStableField(x, l.Over, l) {
			continue
		}
		// the slice must not be re-assigned: l.Over is one SSA value (a parameter or a value defined before the loop)
		if def, ok := l.Over.(ssa.Instruction); ok && l.Contains(def.Block()) {
			continue
		}
		isLen := func(v ssa.Value) bool {
			c, ok := v.(*ssa.Call)
			if !ok {
				return false
			}
			bi, ok := c.Call.Value.(*ssa.Builtin)
			return ok && bi.Name() == "len" && c.Call.Args[0] == l.Over
		}
		a := affineOf(idx, l.Phi, isLen, 0)
		if !a.ok {
			continue
		}
		// the visited index is i = phi + D, 0 <= i <= len-1
		switch {
		case a.a == 1 && a.l == 0 && a.c == l.D:
			return "index is the loop's own index over the same slice (0 <= i < len)", true
		case a.a == -1 && a.l == 1 && a.c == -1-l.D:
			// len - 1 - i with i = phi + D:  -phi + len - 1 - D
			return "index is len-1-i for the loop's own index i over the same slice (0 <= len-1-i < len)", true
		}
	}
	return "", false
}

func returnsError(f *ssa.Function) bool {
	res := f.Signature.Results()
	return res.Len() > 0 && flow.IsErrorType(res.At(res.Len()-1).Type())
}

// judgeScanErr: on every path from `exit` (the loop's exit, or the block of the call that ran the loop) to a return of fn,
// the error of scanner sc has been inspected and its non-nil edge returns (nil, non-nil error).
func judgeScanErr(e *Env, p *load.Program, fn *ssa.Function, sc ssa.Value, exit *ssa.BasicBlock, scan *ssa.Call, key string) {
	r := e.R
	for once := true; once; once = false {
		// an Err() call on the same scanner that is executed on every path from the loop exit to a success return
		var errCalls []*ssa.Call
		for _, c2 := range flow.Calls(fn) {
			if ec, ok := c2.(*ssa.Call); ok && flow.CalleeIs(ec, "bufio", "Scanner.Err") && ec.Call.Args[0] == sc {
				errCalls = append(errCalls, ec)
			}
		}
		if len(errCalls) == 0 {
			r.Bad("E3.scanerr", key, p.Pos(scan.Pos()), "the scanner's Err() is never inspected: a read error or an over-long line ends the loop silently and a partial result is returned")
			continue
		}
		// every return reachable from the loop exit with a nil error must be behind `Err() == nil`
		okAll := true
		g := flow.G(fn)
		for b := range g.Reachable(exit) {
			ret, ok := b.Instrs[len(b.Instrs)-1].(*ssa.Return)
			if !ok || b == fn.Recover {
				continue
			}
			rs := flow.RetResults(ret)
			errRes := rs[len(rs)-1]
			conds := flow.DomConds(b)
			var errKnown, errNonNil bool
			for _, ec := range errCalls {
				if nn, known := flow.ErrNonNil(conds, ec); known {
					errKnown, errNonNil = true, nn
				}
			}
			switch {
			case !errKnown:
				// returning the scanner error itself is fine
				if c3, ok := errRes.(*ssa.Call); ok && flow.CalleeIs(c3, "bufio", "Scanner.Err") && c3.Call.Args[0] == sc {
					continue
				}
				r.Bad("E3.scanerr", key+"/return-without-check", p.Pos(ret.Pos()), "a return after the scan loop is reached without the scanner's error having been inspected")
				okAll = false
			case errNonNil:
				good := flow.KnownNonNilError(errRes, b)
				if c3, ok := errRes.(*ssa.Call); ok && flow.CalleeIs(c3, "bufio", "Scanner.Err") && c3.Call.Args[0] == sc {
					good = true
				}
				for _, ec := range errCalls {
					if errRes == ssa.Value(ec) {
						good = true
					}
				}
				if !good {
					r.Bad("E3.scanerr", key+"/error-edge", p.Pos(ret.Pos()), "on the edge where the scanner reports an error the function returns an error value that is not provably non-nil (e.g. the stale nil error of an earlier call): the failure is swallowed and the result lost")
					okAll = false
				}
				if !flow.IsNilConst(rs[0]) && len(rs) > 1 {
					r.Bad("E3.scanerr", key+"/error-edge-result", p.Pos(ret.Pos()), "a partial result is returned together with the scanner error")
					okAll = false
				}
			}
		}
		if okAll {
			r.OK("E3.scanerr", key, p.Pos(scan.Pos()), "Err() is inspected after the loop; its non-nil edge returns (nil, non-nil error)")
		}
	}
}
