package rules

import (
	"fmt"

	"golang.org/x/tools/go/ssa"

	"sbpfcheck/load"
	"sbpfcheck/origin"
)

// Engine E9 (paths): error-discipline statements decided on the enumerated paths of one function instead of on its
// dominator tree.  It is the explorer of E8 in its generic mode: every call of the function is an event, every call that
// can fail forks the path into a success and a failure world (so the nil-ness of each error value is known on the path,
// also when several calls share one error variable, when the check sits behind a join, or when a deferred closure
// rewrites a named result), any other branch forks into both directions, deferred calls run at the return (closures of
// the function are entered), a call that does not return ends the path, and a block is entered at most twice per path.
// The dominance rules (E3) remain the first choice; a statement they cannot establish is decided here, and either suffices
// because both are sound for it.  Limits: loops are unrolled twice; other functions are not entered.

type pathSet struct {
	p      *load.Program
	fn     *ssa.Function
	paths  []*lPath
	t      *ltrace
	usable bool
	why    string
}

// pathsOf enumerates the paths of fn; marks are instructions whose execution is recorded as an event.
func pathsOf(p *load.Program, fn *ssa.Function, marks ...ssa.Instruction) *pathSet {
	ps := &pathSet{p: p, fn: fn}
	if fn == nil || len(fn.Blocks) == 0 {
		ps.why = "no body"
		return ps
	}
	t := &ltrace{p: p, inline: map[*ssa.Function]bool{}, root: fn, generic: true, marks: map[ssa.Instruction]bool{}}
	for _, m := range marks {
		if m != nil {
			t.marks[m] = true
		}
	}
	rootFr := &lframe{fn: fn, id: "root", of: &origin.Frame{Fn: fn, Args: map[*ssa.Parameter]*origin.O{}, ID: "root"}}
	st := &lstate{fr: rootFr, blk: fn.Blocks[0], prev: map[string]*ssa.BasicBlock{}, nilOf: map[string]int8{}, defers: map[string][]string{}, bind: map[string]bval{},
		frames: []*lframe{rootFr}, gdefer: map[string][]ldefer{}, visits: map[string]int{}}
	t.run(st)
	ps.t = t
	ps.paths = t.paths
	ps.usable = len(t.problems) == 0 && len(t.paths) > 0
	if len(t.problems) > 0 {
		ps.why = t.problems[0]
	}
	return ps
}

func (ps *pathSet) describe() string {
	return fmt.Sprintf("%d paths of %s enumerated (E9)", len(ps.paths), load.FuncName(ps.fn))
}

// failReturns: on every path on which `call` failed, nothing but pure or allowed calls (and deferred ones) happen
// afterwards and the function returns a provably non-nil error.
func (ps *pathSet) failReturns(call *ssa.Call, allow func(ssa.CallInstruction) bool) (bool, string) {
	if !ps.usable {
		return false, ps.why
	}
	n := 0
	for _, p := range ps.paths {
		at := -1
		for i, ev := range p.events {
			if ev.call == ssa.CallInstruction(call) && ev.ok < 0 {
				at = i
				break
			}
		}
		if at < 0 {
			continue
		}
		n++
		for _, ev := range p.events[at+1:] {
			if ev.kind != "call" || ev.deferd || ev.call == nil {
				continue
			}
			if pureFailCall(ev.call) || (allow != nil && allow(ev.call)) {
				continue
			}
			return false, fmt.Sprintf("after %s failed, %s is called", calleeName(call), calleeNameCI(ev.call))
		}
		if p.noret {
			return false, "the path ends in a call that does not return"
		}
		if p.ret >= 0 {
			return false, fmt.Sprintf("after %s failed, a return is reached whose error is not provably non-nil (%s)", calleeName(call), ps.p.Pos(p.retPos))
		}
	}
	if n == 0 {
		return false, "no path on which the call fails"
	}
	return true, ""
}

// successBefore: on every path that executes `at`, a call satisfying is has run before and succeeded.
func (ps *pathSet) successBefore(at ssa.Instruction, is func(*ssa.Call) bool) (bool, string) {
	if !ps.usable {
		return false, ps.why
	}
	n := 0
	for _, p := range ps.paths {
		seen := false
		for _, ev := range p.events {
			if c, ok := ev.call.(*ssa.Call); ok && ev.kind == "call" && ev.ok > 0 && is(c) {
				seen = true
			}
			hit := (ev.kind == "mark" && ev.at == at)
			if ci, ok := at.(ssa.CallInstruction); ok && ev.call == ci {
				hit = true
			}
			if hit {
				n++
				if !seen {
					return false, "a path reaches the instruction without the successful call"
				}
			}
		}
		if ret, ok := at.(*ssa.Return); ok && p.retIn == ret {
			n++
			if !seen {
				return false, "a path reaches the return without the successful call"
			}
		}
	}
	if n == 0 {
		return false, "no path reaches the instruction"
	}
	return true, ""
}

// nilOnlyAfter: every path that can return a nil error has executed a successful call satisfying is.
func (ps *pathSet) nilOnlyAfter(is func(*ssa.Call) bool) (bool, string) {
	if !ps.usable {
		return false, ps.why
	}
	n := 0
	for _, p := range ps.paths {
		if p.noret || p.ret < 0 {
			continue
		}
		n++
		seen := false
		for _, ev := range p.events {
			if c, ok := ev.call.(*ssa.Call); ok && ev.kind == "call" && ev.ok > 0 && is(c) {
				seen = true
			}
		}
		if !seen {
			return false, fmt.Sprintf("the return at %s can yield nil without the successful call", ps.p.Pos(p.retPos))
		}
	}
	return n > 0, "no path returns nil"
}

// failTerminates: every path on which `call` failed ends in a call that does not return, with a non-zero exit status.
func (ps *pathSet) failTerminates(call *ssa.Call) (bool, string) {
	if !ps.usable {
		return false, ps.why
	}
	n := 0
	for _, p := range ps.paths {
		failed := false
		for _, ev := range p.events {
			if ev.call == ssa.CallInstruction(call) && ev.ok < 0 {
				failed = true
			}
		}
		if !failed {
			continue
		}
		n++
		if !p.noret || len(p.events) == 0 {
			return false, fmt.Sprintf("after %s failed the function goes on to %s", calleeName(call), ps.p.Pos(p.retPos))
		}
		last := p.events[len(p.events)-1]
		if last.call == nil {
			return false, "the path ends in a panic"
		}
		if bad := zeroExit(last.call, 0); bad != nil {
			return false, "the command exits with status 0"
		}
	}
	if n == 0 {
		return false, "no path on which the call fails"
	}
	return true, ""
}
