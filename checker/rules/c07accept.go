package rules

// C07, last clause: "conversely, every policy free of these defects whose conditional entries each carry at least one
// condition, and which fits the kernel's 4096-instruction limit, is accepted".
//
// E3.accept-closed: the set of places where the compile call graph *originates* an error (a fresh error value that is
// returned, or a problem string that is recorded) is closed under the defect classes the statement lists. A site is a
// block; the conditions that decide whether the block runs (the nearest branch on every way into it - loop headers are
// looked through) must each be the rejecting side of one of the listed classes. An error source whose deciding condition
// is anything else ("more than 300 names", "group action equals the default", "more than 8 alternatives") can refuse a
// policy that has none of the listed defects.

import (
	"fmt"
	"go/token"
	"go/types"
	"sort"
	"strings"

	"golang.org/x/tools/go/ssa"

	"sbpfcheck/flow"
	"sbpfcheck/load"
	"sbpfcheck/origin"
)

type acceptSite struct {
	fn   *ssa.Function
	blk  *ssa.BasicBlock
	pos  token.Pos
	what string
}

type decidingEdge struct {
	ifb *ssa.BasicBlock
	arm bool // the site is reached over the true arm
}

func checkAcceptClosed(e *Env, m *e1Model, cfns []*ssa.Function) {
	r := e.R
	p := m.p
	const rule = "E3.accept-closed"
	// functions of the compile call graph plus their closures
	var fns []*ssa.Function
	seenFn := map[*ssa.Function]bool{}
	var addFn func(f *ssa.Function)
	addFn = func(f *ssa.Function) {
		if f == nil || seenFn[f] {
			return
		}
		seenFn[f] = true
		fns = append(fns, f)
		for _, a := range f.AnonFuncs {
			addFn(a)
		}
	}
	for _, f := range cfns {
		addFn(f)
	}
	inModule := func(f *ssa.Function) bool {
		return f != nil && f.Pkg != nil && strings.HasPrefix(f.Pkg.Pkg.Path(), load.Module)
	}
	patcherSet := map[*ssa.Function]bool{}
	if asm := p.Func(load.PkgRoot, "Program.Assemble"); asm != nil {
		var markP func(f *ssa.Function)
		markP = func(f *ssa.Function) {
			if f == nil || patcherSet[f] || f.Pkg == nil || f.Pkg.Pkg.Path() != load.PkgRoot {
				return
			}
			patcherSet[f] = true
			for _, c := range flow.Calls(f) {
				markP(flow.Callee(c))
			}
			for _, a := range f.AnonFuncs {
				markP(a)
			}
		}
		markP(asm)
	}
	isPatcher := func(f *ssa.Function) bool {
		for f != nil && f.Parent() != nil {
			f = f.Parent()
		}
		if f == nil {
			return false
		}
		if patcherSet[f] {
			return true
		}
		if f.Signature.Recv() == nil {
			return false
		}
		t := f.Signature.Recv().Type()
		if pt, ok := t.(*types.Pointer); ok {
			t = pt.Elem()
		}
		n, ok := t.(*types.Named)
		return ok && n.Obj().Name() == "Program" && n.Obj().Pkg() != nil && n.Obj().Pkg().Path() == load.PkgRoot
	}
	res := origin.NewResolver()

	// ---- origination sites
	var sites []acceptSite
	unclassified := 0
	var originate func(f *ssa.Function, v ssa.Value, at *ssa.BasicBlock, pos token.Pos, seen map[ssa.Value]bool)
	originate = func(f *ssa.Function, v ssa.Value, at *ssa.BasicBlock, pos token.Pos, seen map[ssa.Value]bool) {
		if v == nil || seen[v] {
			return
		}
		seen[v] = true
		if flow.IsNilConst(v) {
			return
		}
		switch x := v.(type) {
		case *ssa.Const:
			return
		case *ssa.Parameter, *ssa.FreeVar:
			return // the caller's error: propagated
		case *ssa.Extract:
			originate(f, x.Tuple, at, pos, seen)
		case *ssa.Call:
			cal := flow.Callee(x)
			if inModule(cal) || cal == nil && x.Call.StaticCallee() == nil && x.Call.IsInvoke() {
				return // propagated: the callee's own sites are examined (it is in the call graph)
			}
			if cal == nil {
				// a function value: a closure of the compile graph is examined itself
				return
			}
			sites = append(sites, acceptSite{f, x.Block(), x.Pos(), "error made by " + cal.String()})
		case *ssa.MakeInterface:
			if _, isCall := x.X.(*ssa.Call); isCall {
				originate(f, x.X, at, pos, seen)
				return
			}
			sites = append(sites, acceptSite{f, x.Block(), x.Pos(), "error value of type " + x.X.Type().String()})
		case *ssa.Phi:
			for i, ed := range x.Edges {
				if i < len(x.Block().Preds) {
					originate(f, ed, x.Block().Preds[i], pos, seen)
				}
			}
		case *ssa.UnOp:
			if x.Op != token.MUL {
				unclassified++
				return
			}
			switch a := x.X.(type) {
			case *ssa.Global:
				sites = append(sites, acceptSite{f, at, pos, "sentinel error " + a.Name()})
			case *ssa.Alloc:
				for _, ref := range *a.Referrers() {
					if st, ok := ref.(*ssa.Store); ok && st.Addr == a {
						originate(f, st.Val, st.Block(), st.Pos(), seen)
					}
				}
			default:
				unclassified++
			}
		default:
			unclassified++
		}
	}
	for _, f := range fns {
		for _, ret := range flow.Returns(f) {
			for _, rv := range flow.RetResults(ret) {
				if !flow.IsErrorType(rv.Type()) {
					continue
				}
				if flow.KnownNilError(rv, ret.Block()) {
					continue
				}
				originate(f, rv, ret.Block(), ret.Pos(), map[ssa.Value]bool{})
			}
		}
		for _, b := range f.Blocks {
			for _, in := range b.Instrs {
				c, ok := in.(*ssa.Call)
				if !ok {
					continue
				}
				a := isAppend(c)
				if a == nil || len(a.Call.Args) != 2 {
					continue
				}
				st, ok := a.Type().Underlying().(*types.Slice)
				if !ok || !isProblemElem(st.Elem()) {
					continue
				}
				// append(problems, "text") builds a fresh one-element array; append(problems, other...) hands on what
				// another site recorded
				if sl, ok := a.Call.Args[1].(*ssa.Slice); ok {
					if _, ok := sl.X.(*ssa.Alloc); ok {
						sites = append(sites, acceptSite{f, b, c.Pos(), "problem recorded"})
					}
				}
			}
		}
	}

	// ---- deciding edges of a block: the nearest branch on every way into it; loop headers are transparent
	type edgeResult struct {
		edges []decidingEdge
		entry bool
	}
	deciding := func(f *ssa.Function, s *ssa.BasicBlock) edgeResult {
		g := flow.G(f)
		var out edgeResult
		seen := map[*ssa.BasicBlock]bool{}
		isHeader := func(b *ssa.BasicBlock) bool {
			for _, q := range g.Preds(b) {
				if g.Dominates(b, q) {
					return true
				}
			}
			return false
		}
		var walk func(b *ssa.BasicBlock, skipBack bool)
		walk = func(b *ssa.BasicBlock, skipBack bool) {
			if seen[b] {
				return
			}
			seen[b] = true
			preds := g.Preds(b)
			if len(preds) == 0 {
				out.entry = true
				return
			}
			for _, q := range preds {
				if skipBack && g.Dominates(b, q) {
					continue // back edge of the loop whose header b is
				}
				if _, ok := flow.LastIf(q); ok && len(q.Succs) == 2 {
					if isHeader(q) {
						walk(q, true)
						continue
					}
					out.edges = append(out.edges, decidingEdge{q, q.Succs[0] == b})
					continue
				}
				walk(q, false)
			}
		}
		walk(s, isHeader(s))
		return out
	}

	isOperationType := func(t types.Type) bool {
		n, ok := t.(*types.Named)
		return ok && n.Obj().Name() == "Operation" && n.Obj().Pkg() != nil && n.Obj().Pkg().Path() == load.PkgRoot
	}
	namedIs := func(t types.Type, pkgSuffix, name string) bool {
		n, ok := t.(*types.Named)
		return ok && n.Obj().Name() == name && n.Obj().Pkg() != nil && strings.HasSuffix(n.Obj().Pkg().Path(), pkgSuffix)
	}
	localMap := func(v ssa.Value) bool {
		switch x := v.(type) {
		case *ssa.MakeMap:
			return true
		case *ssa.UnOp:
			if al, ok := x.X.(*ssa.Alloc); ok {
				for _, ref := range *al.Referrers() {
					if st, ok := ref.(*ssa.Store); ok && st.Addr == al {
						if _, ok := st.Val.(*ssa.MakeMap); ok {
							return true
						}
					}
				}
			}
		case *ssa.Phi:
			return true
		}
		return false
	}
	// errFromModule: the error value tested comes from a call of a module function (or is the caller's)
	var errFromModule func(v ssa.Value, depth int) bool
	errFromModule = func(v ssa.Value, depth int) bool {
		if depth > 6 {
			return false
		}
		switch x := v.(type) {
		case *ssa.Extract:
			return errFromModule(x.Tuple, depth+1)
		case *ssa.Call:
			cal := flow.Callee(x)
			return inModule(cal) || cal == nil
		case *ssa.Parameter, *ssa.FreeVar:
			return true
		case *ssa.Phi:
			for _, ed := range x.Edges {
				if !flow.IsNilConst(ed) && !errFromModule(ed, depth+1) {
					return false
				}
			}
			return true
		case *ssa.UnOp:
			if al, ok := x.X.(*ssa.Alloc); ok && x.Op == token.MUL {
				for _, ref := range *al.Referrers() {
					if st, ok := ref.(*ssa.Store); ok && st.Addr == al && !flow.IsNilConst(st.Val) && !errFromModule(st.Val, depth+1) {
						return false
					}
				}
				return true
			}
		}
		return false
	}

	// isLookupFound: the boolean is the `found` of a comma-ok lookup in a table that is not a local of the function - directly,
	// joined over several lookups (the name as given, then lower-cased), or handed out by a helper of the module
	var isLookupFound func(v ssa.Value, depth int) bool
	isLookupFound = func(v ssa.Value, depth int) bool {
		if depth > 5 {
			return false
		}
		switch x := v.(type) {
		case *ssa.Extract:
			switch t := x.Tuple.(type) {
			case *ssa.Lookup:
				return x.Index == 1 && t.CommaOk && !localMap(t.X)
			case *ssa.Call:
				cal := flow.Callee(t)
				if !inModule(cal) || len(cal.Blocks) == 0 {
					return false
				}
				n, lookups := 0, 0
				for _, ret := range flow.Returns(cal) {
					rs := flow.RetResults(ret)
					if x.Index >= len(rs) {
						return false
					}
					n++
					if k, isConst := rs[x.Index].(*ssa.Const); isConst {
						if k.Value != nil && k.Value.String() == "true" {
							continue
						}
						// `return 0, false`: only where the lookup missed
						miss := false
						for _, cd := range flow.DomConds(ret.Block()) {
							cn := flow.Norm(cd)
							if !cn.Pol && isLookupFound(cn.V, depth+1) {
								miss = true
							}
						}
						if !miss {
							return false
						}
						lookups++
						continue
					}
					if !isLookupFound(rs[x.Index], depth+1) {
						return false
					}
					lookups++
				}
				return n > 0 && lookups > 0
			}
		case *ssa.Phi:
			if !types.Identical(x.Type().Underlying(), types.Typ[types.Bool]) {
				return false
			}
			lookups := 0
			for _, ed := range x.Edges {
				if _, isConst := ed.(*ssa.Const); isConst {
					continue
				}
				if !isLookupFound(ed, depth+1) {
					return false
				}
				lookups++
			}
			return lookups > 0
		}
		return false
	}

	// localProblemList: the []string is accumulated locally (not a field of the policy); a parameter is judged at the call sites
	var localProblemList func(f *ssa.Function, v ssa.Value, at ssa.Instruction, depth int) bool
	localProblemList = func(f *ssa.Function, v ssa.Value, at ssa.Instruction, depth int) bool {
		if depth > 3 {
			return false
		}
		o := res.Of(v, nil, at)
		switch o.Kind {
		case origin.KField:
			return false
		case origin.KParam:
			prm, ok := flow.StripConv(v).(*ssa.Parameter)
			if !ok {
				if ld, isLoad := flow.StripConv(v).(*ssa.UnOp); isLoad {
					prm, ok = ld.X.(*ssa.Parameter)
				}
			}
			if !ok {
				return false
			}
			idx := -1
			for i, q := range f.Params {
				if q == prm {
					idx = i
				}
			}
			if idx < 0 {
				return false
			}
			n := 0
			for _, cf := range fns {
				for _, ci := range flow.Calls(cf) {
					call, isCall := ci.(*ssa.Call)
					if !isCall || call.Call.StaticCallee() == nil {
						continue
					}
					cal := call.Call.StaticCallee()
					if cal != f && cal.Origin() != f {
						continue
					}
					if idx >= len(call.Call.Args) {
						return false
					}
					n++
					if !localProblemList(cf, call.Call.Args[idx], call, depth+1) {
						return false
					}
				}
			}
			return n > 0
		}
		return true
	}

	// classify: is this edge the rejecting side of a listed defect class?  returns the class name or "".
	var classifyCond func(f *ssa.Function, cond ssa.Value, pol bool, ifi ssa.Instruction, depth int) string
	classify := func(f *ssa.Function, ed decidingEdge) string {
		ifi, _ := flow.LastIf(ed.ifb)
		return classifyCond(f, ifi.Cond, ed.arm, ifi, 0)
	}
	classifyCond = func(f *ssa.Function, cond ssa.Value, pol bool, ifi ssa.Instruction, depth int) string {
		c := flow.Norm(flow.Cond{V: cond, Pol: pol})
		patcher := isPatcher(f)
		// a boolean helper of the module with one return (`info.implemented()`, `len(i.SyscallNames) > 0`): the class of the
		// expression it returns, read in the helper
		if hc, ok := c.V.(*ssa.Call); ok && depth < 3 {
			if h := hc.Call.StaticCallee(); inModule(h) && len(h.Blocks) == 1 && h.Signature.Results().Len() == 1 &&
				types.Identical(h.Signature.Results().At(0).Type().Underlying(), types.Typ[types.Bool]) {
				if rets := flow.Returns(h); len(rets) == 1 {
					if cl := classifyCond(h, flow.RetResults(rets[0])[0], c.Pol, rets[0], depth+1); cl != "" {
						return cl
					}
				}
			}
		}
		// len(x) <op> k
		if arg, pr, ok := flow.LenPred(cond, pol); ok {
			t := arg.Type()
			switch u := t.Underlying().(type) {
			case *types.Slice:
				el := u.Elem()
				switch {
				case isProblemElem(el) && pr.NonZero():
					// problems recorded elsewhere make the call fail - the list is a local accumulation, not one of the
					// policy's own string lists (`len(g.Names) > 0` would be a rejection of its own)
					if localProblemList(f, arg, ifi, 0) {
						return "recorded-problems"
					}
				case namedIs(el, "go-seccomp-bpf", "SyscallGroup") && pr.OnlyZero():
					return "no-groups"
				case namedIs(el, "go-seccomp-bpf", "Condition") && pr.OnlyZero():
					return "empty-condition-list"
				case namedIs(el, "go-seccomp-bpf", "ArgumentConditions") && pr.OnlyZero():
					return "conditional-and-unconditional"
				case namedIs(el, "x/net/bpf", "Instruction") && pr.AtLeast(4097):
					return "above-the-kernel-limit"
				case patcher && namedIs(el, "go-seccomp-bpf", "Index"):
					return "patcher/backward-jump"
				}
			case *types.Map:
				if o := res.Of(arg, nil, ifi); o.Kind == origin.KField && o.Field.Name() == "SyscallNames" && pr.OnlyZero() {
					return "architecture-without-table"
				}
			}
			return ""
		}
		if !c.Pol && isLookupFound(c.V, 0) {
			return "not-in-table"
		}
		switch x := c.V.(type) {
		case *ssa.Extract:
			if x.Index == 1 && !c.Pol {
				switch t := x.Tuple.(type) {
				case *ssa.Lookup:
					if t.CommaOk && !localMap(t.X) {
						return "not-in-table"
					}
				case *ssa.TypeAssert:
					if t.CommaOk && patcher {
						return "patcher/type-assertion"
					}
				}
			}
		case *ssa.Call:
			cal := flow.Callee(x)
			if inModule(cal) && !c.Pol && len(x.Call.Args) >= 1 {
				sig := cal.Signature
				if sig.Results().Len() == 1 && types.Identical(sig.Results().At(0).Type(), types.Typ[types.Bool]) {
					np, tot := 0, sig.Params().Len()
					for i := 0; i < sig.Params().Len(); i++ {
						if isOperationType(sig.Params().At(i).Type()) {
							np++
						}
					}
					if rv := sig.Recv(); rv != nil {
						tot++
						rt := rv.Type()
						if pt, ok := rt.(*types.Pointer); ok {
							rt = pt.Elem()
						}
						if isOperationType(rt) {
							np++
						}
					}
					if np == 1 && tot == 1 {
						return "unknown-operation"
					}
				}
			}
		case *ssa.BinOp:
			// nil tests
			if (x.Op == token.EQL || x.Op == token.NEQ) && (flow.IsNilConst(x.X) || flow.IsNilConst(x.Y)) {
				v := x.X
				if flow.IsNilConst(x.X) {
					v = x.Y
				}
				if flow.IsErrorType(v.Type()) {
					nonNil := (x.Op == token.NEQ) == c.Pol
					if nonNil && errFromModule(v, 0) {
						return "propagated-error"
					}
					return ""
				}
				switch v.Type().Underlying().(type) {
				case *types.Pointer, *types.Map, *types.Interface, *types.Signature:
					return "nil-guard"
				}
				return ""
			}
			// operation == "Name" (the default of a switch over the operation)
			if x.Op == token.EQL || x.Op == token.NEQ {
				if isOperationType(x.X.Type()) || isOperationType(x.Y.Type()) {
					equal := (x.Op == token.EQL) == c.Pol
					if !equal {
						return "unknown-operation"
					}
					return ""
				}
			}
			// integer comparisons with a constant
			if pr, ok := flow.AsIntPred(cond, pol); ok {
				o := res.Of(flow.StripConv(pr.X), nil, ifi)
				if o.Kind == origin.KField && o.Field.Name() == "Argument" {
					return "argument-index" // the exact bound is E3.reject-inventory …/argument-index
				}
				if patcher {
					if b, ok := flow.StripConv(pr.X).Type().Underlying().(*types.Basic); ok && b.Info()&types.IsInteger != 0 {
						if pr.K == 0 || pr.K == 255 || pr.K == 256 || pr.K == -1 {
							return "patcher/skip-range"
						}
					}
				}
			}
		}
		return ""
	}

	describeCond := func(ed decidingEdge) string {
		ifi, _ := flow.LastIf(ed.ifb)
		s := ifi.Cond.String()
		if in, ok := ifi.Cond.(ssa.Instruction); ok {
			s = in.String()
		}
		if len(s) > 90 {
			s = s[:90] + "…"
		}
		pos := ifi.Pos()
		if in, ok := ifi.Cond.(ssa.Instruction); ok && in.Pos().IsValid() {
			pos = in.Pos()
		}
		return fmt.Sprintf("`%s` is %v (%s)", s, ed.arm, p.Pos(pos))
	}

	// callers of a function that makes an error on every call
	callersOf := func(fn *ssa.Function) []acceptSite {
		var out []acceptSite
		for _, f := range fns {
			for _, ci := range flow.Calls(f) {
				call, ok := ci.(*ssa.Call)
				if !ok {
					continue
				}
				hit := flow.Callee(call) == fn
				if !hit {
					v := call.Call.Value
					if u, ok := v.(*ssa.UnOp); ok {
						if al, ok := u.X.(*ssa.Alloc); ok {
							if st := flow.OnlyStore(al); st != nil {
								v = st.Val
							}
						}
					}
					if mc, ok := v.(*ssa.MakeClosure); ok && mc.Fn == fn {
						hit = true
					}
				}
				if hit {
					out = append(out, acceptSite{f, call.Block(), call.Pos(), "call of " + load.FuncName(fn)})
				}
			}
		}
		return out
	}

	sort.SliceStable(sites, func(i, j int) bool { return sites[i].pos < sites[j].pos })
	nSites, nClasses := 0, map[string]int{}
	type key struct {
		b    *ssa.BasicBlock
		what string
	}
	done := map[key]bool{}
	var judge func(s acceptSite, depth int)
	judge = func(s acceptSite, depth int) {
		k := key{s.blk, s.what}
		if done[k] {
			return
		}
		done[k] = true
		dr := deciding(s.fn, s.blk)
		fname := load.FuncName(s.fn)
		if dr.entry {
			// the function makes an error whenever it is called: the decision is the caller's
			cs := callersOf(s.fn)
			if len(cs) == 0 || depth > 3 {
				if s.fn == m.polFn || len(cs) == 0 && s.fn.Parent() == nil {
					r.Bad(rule, fname+"/unconditional", p.Pos(s.pos), "an error is made on a path that no condition guards: "+s.what)
				} else {
					unclassified++
				}
			}
			for _, c := range cs {
				judge(c, depth+1)
			}
			if len(dr.edges) == 0 {
				return
			}
		}
		nSites++
		var bad []string
		var cls []string
		for _, ed := range dr.edges {
			if cl := classify(s.fn, ed); cl != "" {
				cls = append(cls, cl)
				nClasses[cl]++
			} else {
				bad = append(bad, describeCond(ed))
			}
		}
		sort.Strings(cls)
		keyName := fname + "/" + strings.Join(uniqStrings(cls), "+")
		if len(bad) == 0 {
			r.OK(rule, keyName, p.Pos(s.pos), s.what+": decided by "+strings.Join(uniqStrings(cls), ", "))
			return
		}
		r.Bad(rule, fname+"/unlisted-rejection", p.Pos(s.pos), s.what+" under a condition that is none of the defect classes the statement lists (unknown default action, no groups, unknown name, duplicate, conditional and unconditional, argument index, unknown operation, empty condition list, unsupported architecture, above 4096 instructions): "+
			strings.Join(bad, "; ")+" - a policy free of the listed defects can be refused")
	}
	for _, s := range sites {
		judge(s, 0)
	}
	r.Floor(rule+"(error sources on the compile path)", nSites, 10)
	r.Count("error sources on the compile path", nSites)
	if unclassified > 0 {
		r.Note("E3.accept-closed: %d error values of a form the rule does not trace (not judged)", unclassified)
	}
}

func uniqStrings(in []string) []string {
	var out []string
	for i, s := range in {
		if i == 0 || s != in[i-1] {
			out = append(out, s)
		}
	}
	return out
}
