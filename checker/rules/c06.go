package rules

import (
	"fmt"
	"go/constant"
	"go/token"
	"go/types"
	"regexp"
	"strings"

	"golang.org/x/tools/go/ssa"

	"sbpfcheck/flow"
	"sbpfcheck/load"
	"sbpfcheck/origin"
)

func init() {
	Specs["C06"] = &Spec{
		Level: "other",
		Explanation: "Necessary conditions of the builder's correctness, each decided on the SSA of assembler.go (full input/output equivalence of the patcher is an inductive invariant over its mutable state and is not claimed): " +
			"(dim) affine-dimension typing of Index arithmetic - stored Index cells are points, lengths and constants are vectors; every value written to SkipTrue/SkipFalse/Jump.Skip is a vector (translation-invariant), " +
			"every index into the instruction list is a point, comparisons relate equal dimensions; (cover) updateIndices shifts every storage cell of Program whose type contains Index, by exactly 1, under `>= after`, and " +
			"insertAfter inserts exactly one instruction at index+1 before calling it; (order) bridges are inserted only directly behind the jump being resolved, the jump list is ascending and resolved from the last jump to the " +
			"first, so an insertion moves only finalised jumps together with their targets; (final) both skips of a jump are read by computeSkipN for the matching label only after a pass of both label resolutions that inserted " +
			"nothing, and no layout mutation lies between reading them and storing the instruction back; (bridge) a bridge is a copy of the destination under a successful RetConstant assertion or a Jump whose Skip is exactly the " +
			"pre-insertion distance, and its index is prepended to the label's candidate list.",
		Trusted:     []string{"go/ssa, dominators", "cBPF jump semantics: target = pc + 1 + skip"},
		Assumptions: []string{"behavioural equivalence of the patcher for all label programs is not proved; these are necessary conditions (a sufficient discipline is recognised for the order rule, so a differently organised correct patcher could be reported)"},
		Run:         runC06,
	}
}

// ---------------------------------------------------------------- dimension typing

type dimCtx struct {
	p       *load.Program
	e       *Env
	memo    map[ssa.Value]int
	busy    map[ssa.Value]bool
	retMemo map[*ssa.Function]int
	retBusy map[*ssa.Function]bool
	bad     map[ssa.Value]string
	nArith  int
}

const dimUnknown = -99

func isIndexType(t types.Type) bool {
	n, ok := t.(*types.Named)
	return ok && n.Obj().Name() == "Index" && n.Obj().Pkg() != nil && n.Obj().Pkg().Path() == load.PkgRoot
}

func isInstrSlice(t types.Type) bool {
	s, ok := t.Underlying().(*types.Slice)
	if !ok {
		return false
	}
	return isNamed(s.Elem(), "golang.org/x/net/bpf", "Instruction")
}

func (d *dimCtx) dim(v ssa.Value) int {
	if x, ok := d.memo[v]; ok {
		return x
	}
	if d.busy[v] {
		return dimUnknown
	}
	d.busy[v] = true
	r := d.dim1(v)
	delete(d.busy, v)
	d.memo[v] = r
	return r
}

func (d *dimCtx) dim1(v ssa.Value) int {
	switch x := v.(type) {
	case *ssa.Const:
		return 0
	case *ssa.Parameter:
		if isIndexType(x.Type()) {
			return 1
		}
		return 0
	case *ssa.UnOp:
		if x.Op == token.MUL {
			if isIndexType(x.Type()) {
				return 1 // a stored Index cell
			}
			// spilled int local: dimension of what was stored
			if al, ok := x.X.(*ssa.Alloc); ok {
				r := dimUnknown
				for _, ref := range *al.Referrers() {
					if st, ok := ref.(*ssa.Store); ok && st.Addr == al {
						dd := d.dim(st.Val)
						if r == dimUnknown {
							r = dd
						} else if dd != r && dd != dimUnknown {
							d.bad[v] = "a local holds values of different dimensions"
						}
					}
				}
				if r == dimUnknown {
					return 0
				}
				return r
			}
			return 0
		}
		return d.dim(x.X)
	case *ssa.Convert:
		return d.conv(v, x.X, x.Type())
	case *ssa.ChangeType:
		return d.conv(v, x.X, x.Type())
	case *ssa.BinOp:
		a, b := d.dim(x.X), d.dim(x.Y)
		if a == dimUnknown {
			a = b
		}
		if b == dimUnknown {
			b = a
		}
		if a == dimUnknown {
			return 0
		}
		switch x.Op {
		case token.ADD:
			d.nArith++
			if a+b > 1 {
				d.bad[v] = "point + point"
			}
			return a + b
		case token.SUB:
			d.nArith++
			if a-b < 0 {
				d.bad[v] = "vector - point: the result depends on the absolute position of the jump (correct only when that position is 0)"
			}
			return a - b
		case token.LSS, token.LEQ, token.GTR, token.GEQ, token.EQL, token.NEQ:
			if bt, ok := x.X.Type().Underlying().(*types.Basic); ok && bt.Info()&types.IsInteger != 0 {
				d.nArith++
				if a != b {
					d.bad[v] = fmt.Sprintf("comparison of a %s with a %s", dimName(a), dimName(b))
				}
			}
			return 0
		default:
			if a != 0 || b != 0 {
				d.bad[v] = "non-affine operation on an instruction position"
			}
			return 0
		}
	case *ssa.Phi:
		r := dimUnknown
		for _, e := range x.Edges {
			dd := d.dim(e)
			if dd == dimUnknown {
				continue
			}
			if r == dimUnknown {
				r = dd
			} else if r != dd {
				d.bad[v] = "a variable joins a point and a vector"
			}
		}
		if r == dimUnknown {
			return 0
		}
		return r
	case *ssa.Call:
		if bi, ok := x.Call.Value.(*ssa.Builtin); ok {
			_ = bi
			return 0
		}
		if f := x.Call.StaticCallee(); f != nil && f.Pkg != nil && f.Pkg.Pkg.Path() == load.PkgRoot {
			return d.retDim(f)
		}
		return 0
	case *ssa.Extract:
		if c, ok := x.Tuple.(*ssa.Call); ok && x.Index == 0 {
			return d.dim(c)
		}
		if isIndexType(x.Type()) {
			return 1
		}
		return 0
	case *ssa.Field:
		if isIndexType(x.Type()) {
			return 1
		}
		return 0
	case *ssa.Lookup, *ssa.Index:
		if isIndexType(v.Type()) {
			return 1
		}
		return 0
	}
	return 0
}

func dimName(d int) string {
	switch d {
	case 0:
		return "vector (distance/length)"
	case 1:
		return "point (instruction position)"
	}
	return fmt.Sprintf("dimension %d", d)
}

func (d *dimCtx) conv(v, x ssa.Value, t types.Type) int {
	dx := d.dim(x)
	if isIndexType(t) && !isIndexType(x.Type()) {
		// int -> Index: only the "position at the end" idiom Index(len(instructions)) makes a point out of a vector
		if dx == 0 {
			if c, ok := x.(*ssa.Call); ok {
				if bi, ok := c.Call.Value.(*ssa.Builtin); ok && bi.Name() == "len" && isInstrSlice(c.Call.Args[0].Type()) {
					return 1
				}
			}
			if _, isConst := x.(*ssa.Const); isConst {
				return 0
			}
			d.bad[v] = "a length or distance is converted to Index (position)"
			return 1
		}
	}
	return dx
}

func (d *dimCtx) retDim(f *ssa.Function) int {
	if x, ok := d.retMemo[f]; ok {
		return x
	}
	if d.retBusy[f] {
		return dimUnknown
	}
	d.retBusy[f] = true
	r := dimUnknown
	for _, ret := range flow.Returns(f) {
		rs := flow.RetResults(ret)
		if len(rs) == 0 {
			continue
		}
		dd := d.dim(rs[0])
		if dd == dimUnknown {
			continue
		}
		if r == dimUnknown {
			r = dd
		} else if r != dd {
			d.bad[rs[0]] = "a function returns both points and vectors"
		}
	}
	delete(d.retBusy, f)
	if r == dimUnknown {
		r = 0
	}
	d.retMemo[f] = r
	return r
}

// skipFieldStore: st stores into SkipTrue/SkipFalse of a bpf.JumpIf or Skip of a bpf.Jump.
func skipFieldStore(st *ssa.Store) (string, bool) {
	fa, ok := st.Addr.(*ssa.FieldAddr)
	if !ok {
		return "", false
	}
	pt, ok := fa.X.Type().Underlying().(*types.Pointer)
	if !ok {
		return "", false
	}
	named, ok := pt.Elem().(*types.Named)
	if !ok || named.Obj().Pkg() == nil || named.Obj().Pkg().Path() != "golang.org/x/net/bpf" {
		return "", false
	}
	fname := named.Underlying().(*types.Struct).Field(fa.Field).Name()
	switch named.Obj().Name() + "." + fname {
	case "JumpIf.SkipTrue", "JumpIf.SkipFalse", "Jump.Skip", "JumpIfX.SkipTrue", "JumpIfX.SkipFalse":
		return named.Obj().Name() + "." + fname, true
	}
	return "", false
}

func runC06(e *Env) {
	r := e.R
	p := e.Host()
	var fns []*ssa.Function
	for _, f := range p.SrcFuncs(load.PkgRoot) {
		pos := p.Fset.Position(f.Pos())
		if strings.HasSuffix(pos.Filename, "assembler.go") || load.FuncName(f) == "Policy.Assemble" {
			fns = append(fns, f)
		}
	}
	r.Count("functions analysed (assembler.go + Policy.Assemble)", len(fns))
	// E2.types: positions and label numbers are computed in the exported types Index and Label. "However far away" and "does
	// not depend on its size" need types that do not wrap for programs the builder accepts: at least 32 bits. (An unsigned
	// Index only changes what happens for backward jumps, which the property excludes.)
	if rp := p.Pkgs[load.PkgRoot]; rp != nil {
		for _, tn := range []string{"Index", "Label"} {
			o, _ := rp.Types.Scope().Lookup(tn).(*types.TypeName)
			if o == nil {
				continue
			}
			b, _ := o.Type().Underlying().(*types.Basic)
			good, why := false, "not an integer type"
			if b != nil && b.Info()&types.IsInteger != 0 {
				wide := b.Kind() != types.Int8 && b.Kind() != types.Uint8 && b.Kind() != types.Int16 && b.Kind() != types.Uint16
				if wide {
					good = true
				} else {
					why = "narrower than 32 bits: positions wrap in programs the builder accepts"
				}
			}
			r.Check(good, "E2.types", tn, p.Pos(o.Pos()), fmt.Sprintf("%s is %s", tn, o.Type().Underlying()), fmt.Sprintf("type %s is %s: %s", tn, o.Type().Underlying(), why))
		}
	}
	r.Floor("E2(functions)", len(fns), 5)
	d := &dimCtx{p: p, e: e, memo: map[ssa.Value]int{}, busy: map[ssa.Value]bool{}, retMemo: map[*ssa.Function]int{}, retBusy: map[*ssa.Function]bool{}, bad: map[ssa.Value]string{}}
	nSinks, nIdx := 0, 0
	for _, f := range fns {
		fname := load.FuncName(f)
		for _, b := range f.Blocks {
			for _, in := range b.Instrs {
				switch x := in.(type) {
				case *ssa.Store:
					if sf, ok := skipFieldStore(x); ok {
						nSinks++
						if _, isConst := flow.StripConv(x.Val).(*ssa.Const); isConst {
							r.OK("E2.dim", fname+"/sink/"+sf+"/const", p.Pos(x.Pos()), "constant skip")
							continue
						}
						dd := d.dim(x.Val)
						r.Check(dd == 0, "E2.dim", fname+"/sink/"+sf, p.Pos(x.Pos()), "the skip is a vector (translation-invariant)",
							fmt.Sprintf("the value stored into %s is a %s: a skip must be a distance, independent of where the jump sits", sf, dimName(dd)))
					}
				case *ssa.IndexAddr:
					if isInstrSlice(x.X.Type()) {
						nIdx++
						if _, isConst := x.Index.(*ssa.Const); isConst {
							continue
						}
						dd := d.dim(x.Index)
						r.Check(dd == 1, "E2.dim", fname+"/index-into-instructions", p.Pos(x.Pos()), "indexed by a point", "the instruction list is indexed by a "+dimName(dd))
					}
				case *ssa.Slice:
					if isInstrSlice(x.X.Type()) {
						for _, bnd := range []ssa.Value{x.Low, x.High} {
							if bnd == nil {
								continue
							}
							if _, isConst := bnd.(*ssa.Const); isConst {
								continue
							}
							nIdx++
							dd := d.dim(bnd)
							r.Check(dd == 1, "E2.dim", fname+"/slice-of-instructions", p.Pos(x.Pos()), "sliced at a point", "the instruction list is sliced at a "+dimName(dd))
						}
					}
				case ssa.Value:
					if bo, ok := x.(*ssa.BinOp); ok {
						d.dim(bo)
					}
				}
			}
		}
	}
	// report ill-typed expressions
	nBad := 0
	for v, why := range d.bad {
		in, ok := v.(ssa.Instruction)
		pos := ""
		fname := "?"
		if ok {
			pos = p.Pos(in.Pos())
			fname = load.FuncName(in.Parent())
		}
		if !ok || !in.Pos().IsValid() {
			// position of a referrer
			if refs := v.Referrers(); refs != nil {
				for _, ref := range *refs {
					if ref.Pos().IsValid() {
						pos = p.Pos(ref.Pos())
						break
					}
				}
			}
		}
		nBad++
		r.Bad("E2.dim", fname+"/ill-typed/"+describeExpr(v), pos, "ill-typed position arithmetic: "+why)
	}
	if nBad == 0 {
		r.OK("E2.dim", "index-arithmetic", "", fmt.Sprintf("%d additions/subtractions/comparisons are well-typed (point/vector)", d.nArith))
	}
	r.Count("Index arithmetic sites typed", d.nArith)
	r.Count("skip sinks", nSinks)
	r.Floor("E2.dim(arithmetic sites)", d.nArith, 4)
	r.Floor("E2.dim(skip sinks)", nSinks, 2)
	r.Floor("E2.dim(indexings of the instruction list)", nIdx, 2)

	checkCover(e, p)
	checkPatcherDiscipline(e, p)
}

func describeExpr(v ssa.Value) string {
	if bo, ok := v.(*ssa.BinOp); ok {
		return valDesc(bo.X) + bo.Op.String() + valDesc(bo.Y)
	}
	return valDesc(v)
}

func valDesc(v ssa.Value) string {
	switch x := v.(type) {
	case *ssa.Const:
		return x.Value.String()
	case *ssa.Parameter:
		return x.Name()
	case *ssa.Phi:
		return x.Comment
	case *ssa.Convert:
		return types.TypeString(x.Type(), func(*types.Package) string { return "" }) + "(" + valDesc(x.X) + ")"
	case *ssa.ChangeType:
		return types.TypeString(x.Type(), func(*types.Package) string { return "" }) + "(" + valDesc(x.X) + ")"
	case *ssa.UnOp:
		if fa, ok := x.X.(*ssa.FieldAddr); ok {
			st := fa.X.Type().Underlying().(*types.Pointer).Elem().Underlying().(*types.Struct)
			return valDesc(fa.X) + "." + st.Field(fa.Field).Name()
		}
		return "*" + valDesc(x.X)
	case *ssa.Alloc:
		return x.Comment
	case *ssa.Call:
		if f := x.Call.StaticCallee(); f != nil {
			return f.Name() + "()"
		}
	case *ssa.BinOp:
		return "(" + valDesc(x.X) + x.Op.String() + valDesc(x.Y) + ")"
	}
	return "expr"
}

// ---------------------------------------------------------------- cover

// indexCells lists the storage paths of a struct type that contain Index.
func indexCells(t types.Type, path string, seen map[types.Type]bool, out *[]string) {
	if seen[t] {
		return
	}
	seen[t] = true
	defer delete(seen, t)
	if isIndexType(t) {
		*out = append(*out, path)
		return
	}
	switch x := t.Underlying().(type) {
	case *types.Struct:
		for i := 0; i < x.NumFields(); i++ {
			indexCells(x.Field(i).Type(), path+"."+x.Field(i).Name(), seen, out)
		}
	case *types.Slice:
		indexCells(x.Elem(), path+"[]", seen, out)
	case *types.Array:
		indexCells(x.Elem(), path+"[]", seen, out)
	case *types.Map:
		indexCells(x.Key(), path+"[key]", seen, out)
		indexCells(x.Elem(), path+"[*]", seen, out)
	case *types.Pointer:
		indexCells(x.Elem(), path+"*", seen, out)
	}
}

// storePath renders the address of a store as a path from the receiver: ".jumps[].index".
func storePath(addr ssa.Value, recv *ssa.Parameter) (string, bool) {
	switch x := addr.(type) {
	case *ssa.FieldAddr:
		st := x.X.Type().Underlying().(*types.Pointer).Elem().Underlying().(*types.Struct)
		base, ok := storePath(x.X, recv)
		return base + "." + st.Field(x.Field).Name(), ok
	case *ssa.IndexAddr:
		base, ok := valuePath(x.X, recv)
		return base + "[]", ok
	case *ssa.Parameter:
		return "", x == recv
	}
	return "", false
}

func valuePath(v ssa.Value, recv *ssa.Parameter) (string, bool) {
	switch x := v.(type) {
	case *ssa.UnOp:
		if x.Op == token.MUL {
			return storePath(x.X, recv)
		}
	case *ssa.Extract:
		// value of a range over a map field
		if nx, ok := x.Tuple.(*ssa.Next); ok && x.Index == 2 {
			if rg, ok := nx.Iter.(*ssa.Range); ok {
				base, ok := valuePath(rg.X, recv)
				return base + "[*]", ok
			}
		}
	case *ssa.Lookup:
		base, ok := valuePath(x.X, recv)
		return base + "[*]", ok
	}
	return "", false
}

func checkCover(e *Env, p *load.Program) {
	r := e.R
	ui := p.Func(load.PkgRoot, "Program.updateIndices")
	ia := p.Func(load.PkgRoot, "Program.insertAfter")
	if ui == nil || ia == nil {
		r.Unknown("E2.cover", "Program.updateIndices", "", "updateIndices or insertAfter not found")
		return
	}
	progT := p.Pkgs[load.PkgRoot].Types.Scope().Lookup("Program").Type()
	var cells []string
	indexCells(progT, "", map[types.Type]bool{}, &cells)
	r.Count("Index-typed storage cells of Program", len(cells))
	r.Floor("E2.cover(cells)", len(cells), 2)
	after := ui.Params[1]
	covered := map[string]bool{}
	for _, b := range ui.Blocks {
		for _, in := range b.Instrs {
			st, ok := in.(*ssa.Store)
			if !ok {
				continue
			}
			path, ok := storePath(st.Addr, ui.Params[0])
			if !ok || !isIndexType(st.Val.Type()) {
				continue
			}
			key := "Program.updateIndices/shift" + path
			// value = old + 1 where old is a load of the same path
			bo, okb := st.Val.(*ssa.BinOp)
			good := okb && bo.Op == token.ADD
			if good {
				k, isK := flow.ConstInt(bo.Y)
				good = isK && k == 1
			}
			if good {
				ld, okl := bo.X.(*ssa.UnOp)
				good = okl
				if good {
					p2, ok2 := storePath(ld.X, ui.Params[0])
					good = ok2 && p2 == path && sameCell(ld.X, st.Addr)
				}
			}
			// guard: cell >= after (polarity true), cell = load of the same path in this iteration
			guard := false
			for _, cd := range flow.DomConds(b) {
				cb, ok := cd.V.(*ssa.BinOp)
				if !ok {
					continue
				}
				var cell ssa.Value
				ok2 := false
				switch {
				case cb.Op == token.GEQ && cd.Pol && cb.Y == ssa.Value(after):
					cell, ok2 = cb.X, true
				case cb.Op == token.LEQ && cd.Pol && cb.X == ssa.Value(after):
					cell, ok2 = cb.Y, true
				case cb.Op == token.LSS && !cd.Pol && cb.Y == ssa.Value(after):
					cell, ok2 = cb.X, true
				case cb.Op == token.GTR && !cd.Pol && cb.X == ssa.Value(after):
					cell, ok2 = cb.Y, true
				}
				if !ok2 {
					continue
				}
				if ld, ok := cell.(*ssa.UnOp); ok {
					if p2, ok3 := storePath(ld.X, ui.Params[0]); ok3 && p2 == path && sameCell(ld.X, st.Addr) {
						guard = true
					}
				}
			}
			if r.Check(good && guard, "E2.cover", key, p.Pos(st.Pos()), "cell := cell + 1 exactly when cell >= after",
				fmt.Sprintf("the shift of %s is not `cell + 1 under cell >= after` (increment ok=%v, guard `>= after` on the same cell=%v): an index at the insertion point, or every index, would be moved wrongly", path, good, guard)) {
				covered[path] = true
			}
			// every element visited: the enclosing loops are plain range loops without other conditions
			for _, cd := range flow.DomConds(b) {
				if cb, ok := cd.V.(*ssa.BinOp); ok {
					if cb.Y == ssa.Value(after) || cb.X == ssa.Value(after) {
						continue
					}
					if add, ok := cb.X.(*ssa.BinOp); ok {
						if ph, ok := add.X.(*ssa.Phi); ok && ph.Comment == "rangeindex" {
							continue
						}
					}
					r.Bad("E2.cover", key+"/all-elements", p.Pos(st.Pos()), "the shift is applied only under an additional condition: not every cell is visited")
				}
			}
		}
	}
	for _, c := range cells {
		if !covered[c] {
			r.Bad("E2.cover", "Program.updateIndices/covers"+c, p.Pos(ui.Pos()), fmt.Sprintf("storage cell Program%s holds instruction positions but updateIndices does not shift it: after an insertion it points one instruction short", c))
		} else {
			r.OK("E2.cover", "Program.updateIndices/covers"+c, p.Pos(ui.Pos()), "shifted")
		}
	}
	// insertAfter: one insertion at index+1, then updateIndices(index+1), returns index+1
	res := origin.NewResolver()
	idxParam := ia.Params[1]
	// offset of a position expression from the index parameter: index + k (any nesting of +/- constants)
	offset := func(v ssa.Value) (int64, bool) {
		a := affineOf(v, nil, func(x ssa.Value) bool { return x == ssa.Value(idxParam) }, 0)
		return a.c, a.ok && a.a == 0 && a.l == 1
	}
	isPlus1 := func(v ssa.Value) bool {
		k, ok := offset(v)
		return ok && k == 1
	}
	var pos1 ssa.Value
	calls := callsToFn(ia, ui)
	if len(calls) != 1 {
		r.Bad("E2.cover", "Program.insertAfter/calls-updateIndices", p.Pos(ia.Pos()), fmt.Sprintf("insertAfter calls updateIndices %d times, want exactly once per insertion", len(calls)))
	} else {
		pos1 = calls[0].Call.Args[1]
		r.Check(isPlus1(pos1), "E2.cover", "Program.insertAfter/updateIndices-arg", p.Pos(calls[0].Pos()), "updateIndices(index+1): everything at or behind the new instruction moves", "updateIndices is not called with the insertion position index+1")
	}
	// the insertion: p.instructions = append(p.instructions[:X+1], p.instructions[X:]...) ; p.instructions[X] = inst, X = index+1
	var grow *ssa.Call
	var put *ssa.Store
	for _, b := range ia.Blocks {
		for _, in := range b.Instrs {
			if st, ok := in.(*ssa.Store); ok {
				if path, ok := storePath(st.Addr, ia.Params[0]); ok {
					switch path {
					case ".instructions":
						if a := isAppend(st.Val); a != nil {
							grow = a
						}
					case ".instructions[]":
						if st.Val == ssa.Value(ia.Params[2]) {
							put = st
						}
					}
				}
			}
		}
	}
	// recognised ways to open one slot at X = index+1 (each leaves list[0:X] in place, moves list[X:] up by one, and
	// leaves position X to be overwritten by the put):
	//   A  list = append(list[:X+1], list[X:]...)
	//   B  list = append(list, <zero>); copy(list[X+1:], list[X:])
	isList := func(v ssa.Value, at ssa.Instruction) bool {
		return strings.HasSuffix(res.Of(v, nil, at).String(), ".instructions")
	}
	okGrow := false
	var opened ssa.Instruction // the instruction after which the slot exists
	if grow != nil {
		s1, ok1 := grow.Call.Args[0].(*ssa.Slice)
		s2, ok2 := grow.Call.Args[1].(*ssa.Slice)
		if ok1 && ok2 && s1.Low == nil && s1.High != nil && s2.Low != nil && s2.High == nil && s1.Max == nil && s2.Max == nil {
			// idiom A
			h, okh := offset(s1.High)
			l, okl := offset(s2.Low)
			if okh && okl && l == 1 && h == 2 && isList(s1.X, grow) && isList(s2.X, grow) {
				okGrow, opened = true, grow
			}
		} else if ld, ok := grow.Call.Args[0].(*ssa.UnOp); ok && isList(ld, grow) {
			// idiom B: one zero element appended, then the tail moved up by copy
			if vals := appendedValues(grow); len(vals) == 1 {
				if k, isK := vals[0].(*ssa.Const); isK && k.Value == nil {
					var growStore ssa.Instruction
					for _, ref := range *grow.Referrers() {
						if st, ok := ref.(*ssa.Store); ok {
							growStore = st
						}
					}
					for _, c := range flow.Calls(ia) {
						cp, ok := c.(*ssa.Call)
						if !ok || growStore == nil {
							continue
						}
						if bi, ok := cp.Call.Value.(*ssa.Builtin); !ok || bi.Name() != "copy" {
							continue
						}
						d, okd := cp.Call.Args[0].(*ssa.Slice)
						sr, oks := cp.Call.Args[1].(*ssa.Slice)
						if !okd || !oks || d.Low == nil || sr.Low == nil || d.High != nil || sr.High != nil || d.Max != nil || sr.Max != nil {
							continue
						}
						dl, ok1 := offset(d.Low)
						sl, ok2 := offset(sr.Low)
						dx, _ := d.X.(ssa.Instruction)
						sx, _ := sr.X.(ssa.Instruction)
						if ok1 && ok2 && dl == 2 && sl == 1 && isList(d.X, cp) && isList(sr.X, cp) && dx != nil && sx != nil &&
							flow.InstrDominates(growStore, dx) && flow.InstrDominates(growStore, sx) {
							okGrow, opened = true, cp
						}
					}
				}
			}
		}
	}
	r.Check(okGrow, "E2.cover", "Program.insertAfter/one-slot", p.Pos(ia.Pos()), "the list grows by exactly one slot at index+1 (append(list[:X+1], list[X:]...), X = index+1)", "insertAfter does not open exactly one slot at index+1")
	okPut := false
	if put != nil && grow != nil {
		if iaddr, ok := put.Addr.(*ssa.IndexAddr); ok && isPlus1(iaddr.Index) && opened != nil && flow.InstrDominates(opened, put) {
			okPut = true
		}
	}
	r.Check(okPut, "E2.cover", "Program.insertAfter/put", p.Pos(ia.Pos()), "the new instruction is stored at index+1 after the slot was opened", "the new instruction is not stored at index+1")
	if len(calls) == 1 && put != nil {
		r.Check(flow.InstrDominates(put, calls[0]), "E2.cover", "Program.insertAfter/update-after-insert", p.Pos(calls[0].Pos()), "indices are shifted after the insertion", "updateIndices runs before the insertion")
	}
	for _, ret := range flow.Returns(ia) {
		r.Check(isPlus1(flow.RetResults(ret)[0]), "E2.cover", "Program.insertAfter/returns", p.Pos(ret.Pos()), "returns the position of the new instruction (index+1)", "insertAfter does not return index+1")
	}
}

// sameCell: two addresses denote the same element in the same loop iteration (same base value and index value).
func sameCell(a, b ssa.Value) bool {
	if a == b {
		return true
	}
	switch x := a.(type) {
	case *ssa.FieldAddr:
		y, ok := b.(*ssa.FieldAddr)
		return ok && x.Field == y.Field && sameCell(x.X, y.X)
	case *ssa.IndexAddr:
		y, ok := b.(*ssa.IndexAddr)
		return ok && x.Index == y.Index && sameValue(x.X, y.X)
	}
	return false
}

func sameValue(a, b ssa.Value) bool {
	if a == b {
		return true
	}
	la, ok1 := a.(*ssa.UnOp)
	lb, ok2 := b.(*ssa.UnOp)
	if ok1 && ok2 && la.Op == token.MUL && lb.Op == token.MUL {
		return sameCell(la.X, lb.X)
	}
	return false
}

// ---------------------------------------------------------------- order / final / bridge

func checkPatcherDiscipline(e *Env, p *load.Program) {
	r := e.R
	asm := p.Func(load.PkgRoot, "Program.Assemble")
	rl := p.Func(load.PkgRoot, "Program.resolveLabel")
	ia := p.Func(load.PkgRoot, "Program.insertAfter")
	cs := p.Func(load.PkgRoot, "Program.computeSkipN")
	ui := p.Func(load.PkgRoot, "Program.updateIndices")
	ci := p.Func(load.PkgRoot, "Program.currentIndex")
	if asm == nil || ia == nil || cs == nil {
		r.Unknown("E2.order", "Program.Assemble", "", "patcher functions not found")
		return
	}
	res := origin.NewResolver()
	// mutators: functions of the package that can reach insertAfter
	isMutator := func(f *ssa.Function) bool { return f != nil && reachesFn(f, ia, map[*ssa.Function]bool{}) }

	// ---- anchor: every insertAfter call inserts behind the index of a JumpIf-typed parameter or loop element ("the current jump")
	nAnchor := 0
	for _, f := range p.SrcFuncs(load.PkgRoot) {
		for _, c := range callsToFn(f, ia) {
			nAnchor++
			o := res.Of(c.Call.Args[1], nil, c)
			isJumpIndex := func(o *origin.O) bool {
				o = o.StripConv()
				if o.Kind != origin.KField || o.Field.Name() != "index" {
					return false
				}
				b := o.Args[0]
				return (b.Kind == origin.KParam || b.Kind == origin.KElem) && isNamed(b.Type, load.PkgRoot, "JumpIf")
			}
			good := isJumpIndex(o)
			if !good {
				// the anchor arrives as a position parameter: every caller passes the index of the jump it resolves
				if alts := argsOfParam(p, c.Call.Args[1], 0); len(alts) > 0 {
					good = true
					for _, a := range alts {
						if !isJumpIndex(res.Of(a.v, nil, a.at)) {
							good = false
						}
					}
				}
			}
			r.Check(good, "E2.order", load.FuncName(f)+"/bridge-directly-behind-current-jump", p.Pos(c.Pos()),
				"the bridge is inserted directly behind the jump being resolved (anchor = the current jump's own index)",
				"a bridge is inserted behind "+o.String()+", not directly behind the jump being resolved: jumps between the anchor and the current jump, or already finalised ones, are moved relative to their targets")
		}
	}
	r.Floor("E2.order(insertAfter call sites)", nAnchor, 1)

	// ---- the loop over the jump list in Program.Assemble runs from the last record to the first.
	// Any spelling is accepted: the accessed index idx(i) = a*i + l*len(jumps) + c of the loop variable i must start
	// at len(jumps)-1, go down by one per iteration, and the loop must continue exactly while idx >= 0.
	var loopPhi *ssa.Phi
	var curIdx ssa.Value
	isLenJumps := func(v ssa.Value) bool {
		c, ok := v.(*ssa.Call)
		if !ok {
			return false
		}
		if bi, ok := c.Call.Value.(*ssa.Builtin); !ok || bi.Name() != "len" {
			return false
		}
		return strings.HasSuffix(res.Of(c.Call.Args[0], nil, c).String(), ".jumps")
	}
	for _, b := range asm.Blocks {
		for _, in := range b.Instrs {
			iaddr, ok := in.(*ssa.IndexAddr)
			if !ok || !strings.HasSuffix(res.Of(iaddr.X, nil, iaddr).String(), ".jumps") {
				continue
			}
			if ph := findIntPhi(iaddr.Index, 0); ph != nil && loopPhi == nil {
				loopPhi, curIdx = ph, iaddr.Index
			}
		}
	}
	if loopPhi == nil {
		// a `for _, jump := range p.jumps` loop (ascending) or something else
		r.Bad("E2.order", "Program.Assemble/back-to-front", p.Pos(asm.Pos()),
			"the jump list is not resolved by an index loop running from the last record to the first: with bridges inserted behind the current jump, a front-to-back order moves the targets of jumps that were finalised earlier")
	} else {
		idx := affineOf(curIdx, loopPhi, isLenJumps, 0)
		var first, step affine
		H := loopPhi.Block()
		for i, ed := range loopPhi.Edges {
			if flow.Dominates(H, H.Preds[i]) {
				step = affineOf(ed, loopPhi, isLenJumps, 0) // phi + s
			} else {
				first = affineOf(ed, loopPhi, isLenJumps, 0) // no phi term
			}
		}
		desc := idx.ok && step.ok && step.a == 1 && step.l == 0 && idx.a*step.c == -1
		// idx at the first iteration: substitute the initial value for the loop variable
		initOK := idx.ok && first.ok && first.a == 0 && idx.a*first.l+idx.l == 1 && idx.a*first.c+idx.c == -1
		condOK := false
		if ifi, ok := flow.LastIf(H); ok && idx.ok {
			// F >= 0 is the condition for staying in the loop
			if F, ok := stayCondition(ifi, H, loopPhi, isLenJumps); ok {
				condOK = F == idx
			}
		}
		r.Check(desc && initOK && condOK, "E2.order", "Program.Assemble/back-to-front", p.Pos(loopPhi.Pos()),
			"the jump records are resolved at indices len(jumps)-1, len(jumps)-2, ..., 0: every jump is resolved, last first", fmt.Sprintf("the loop over the jump list does not visit the records len(jumps)-1 down to 0 (start=%v step=%v bound=%v)", initOK, desc, condOK))
		// the jump list itself is not changed while it is being resolved
		for _, f := range p.SrcFuncs(load.PkgRoot) {
			if f != asm && !reachesFnFrom(asm, f) {
				continue
			}
			if len(f.Params) == 0 {
				continue
			}
			for _, b := range f.Blocks {
				for _, in := range b.Instrs {
					if st, ok := in.(*ssa.Store); ok {
						if path, ok := storePath(st.Addr, f.Params[0]); ok && path == ".jumps" {
							r.Bad("E2.order", load.FuncName(f)+"/jump-list-changed-during-resolution", p.Pos(st.Pos()), "the jump list is replaced while Program.Assemble iterates over it")
						}
					}
				}
			}
		}
		// every mutator call in Assemble gets the loop's current element
		nMut := 0
		for _, c := range flow.Calls(asm) {
			call, ok := c.(*ssa.Call)
			if !ok || !isMutator(flow.Callee(call)) {
				continue
			}
			nMut++
			good := false
			isCur := func(o *origin.O) bool {
				return o != nil && o.Kind == origin.KElem && strings.HasSuffix(o.Args[0].String(), ".jumps") && (o.Args[1].Val == curIdx || affineOf(o.Args[1].Val, loopPhi, isLenJumps, 0) == affineOf(curIdx, loopPhi, isLenJumps, 0))
			}
			for _, a := range call.Call.Args {
				if isNamed(a.Type(), load.PkgRoot, "JumpIf") {
					good = isCur(res.Of(a, nil, call))
				}
				// or just the position of the current record (`jump.index`)
				if isNamed(a.Type(), load.PkgRoot, "Index") {
					if o := res.Of(a, nil, call); o.Kind == origin.KField && o.Field.Name() == "index" && isCur(o.Args[0]) {
						good = true
					}
				}
			}
			r.Check(good, "E2.order", "Program.Assemble/mutator-gets-current-jump/"+calleeName(call), p.Pos(call.Pos()), "the layout mutator works on the loop's current jump", "a layout mutator is called with something other than the loop's current jump record")
		}
		r.Floor("E2.order(mutator calls in Program.Assemble)", nMut, 1)
	}
	// ---- ascending premise: jump records are appended with currentIndex() and only shifted uniformly
	nRec := 0
	for _, f := range p.SrcFuncs(load.PkgRoot) {
		if len(f.Params) == 0 {
			continue
		}
		recv := f.Params[0]
		for _, b := range f.Blocks {
			for _, in := range b.Instrs {
				st, ok := in.(*ssa.Store)
				if !ok {
					continue
				}
				path, ok := storePath(st.Addr, recv)
				if !ok {
					continue
				}
				switch path {
				case ".jumps":
					nRec++
					app := isAppend(st.Val)
					good := app != nil
					if good {
						vals := appendedValues(app)
						good = len(vals) == 1
						if good {
							o := res.Of(vals[0], nil, app)
							// the record literal: field index = currentIndex()
							io := fieldOfLiteral(res, vals[0], "index", app)
							// index = currentIndex() or Index(len(p.instructions)): the end of the list when the record is made
							good = io != nil && ((io.Kind == origin.KCall && io.Callee != nil && io.Callee == ci) || isEndOfList(io))
							_ = o
						}
					}
					r.Check(good, "E2.order", load.FuncName(f)+"/record-appended-at-end", p.Pos(st.Pos()), "a jump record is appended with index = currentIndex(): the list is ascending", "a jump record is added other than by append with index = currentIndex(): the jump list may not be ascending")
				case ".jumps[].index":
					if f != ui {
						r.Bad("E2.order", load.FuncName(f)+"/index-rewritten", p.Pos(st.Pos()), "a jump record's index is rewritten outside updateIndices")
					}
				}
			}
		}
	}
	r.Floor("E2.order(record appends)", nRec, 1)
	// currentIndex = Index(len(p.instructions))
	if ci := p.Func(load.PkgRoot, "Program.currentIndex"); ci != nil {
		for _, ret := range flow.Returns(ci) {
			o := res.Of(flow.RetResults(ret)[0], nil, ret)
			good := o.StripConv().Kind == origin.KLen && strings.HasSuffix(o.StripConv().Args[0].String(), ".instructions")
			r.Check(good, "E2.order", "Program.currentIndex", p.Pos(ret.Pos()), "currentIndex = len(instructions): the position of the next instruction", "currentIndex is not len(instructions)")
		}
	}

	// ---- the patcher works on the builder it was called on: a copy (`p = p.clone()`) is another object whose index arrays
	// (the []Index values of the label map are updated in place) may be shared with the receiver; the rules below follow the
	// receiver, so say so instead of reporting a consequence
	if len(asm.Params) > 0 {
		for _, b := range asm.Blocks {
			for _, in := range b.Instrs {
				fa, ok := in.(*ssa.FieldAddr)
				if !ok {
					continue
				}
				if pt, ok := fa.X.Type().Underlying().(*types.Pointer); !ok || !isNamed(pt.Elem(), load.PkgRoot, "Program") {
					continue
				}
				if c, ok := fa.X.(*ssa.Call); ok {
					r.Unknown("E2.self", "Program.Assemble/works-on-its-receiver", p.Pos(c.Pos()), fmt.Sprintf("Assemble resolves the jumps of the Program returned by %s, not of its receiver: whether that object shares index storage with the receiver (label destinations are moved in place by every insertion, so a second Assemble of the receiver would start from moved labels and unmoved instructions) is not analysed", calleeName(c)))
					goto selfDone
				}
			}
		}
		r.OK("E2.self", "Program.Assemble/works-on-its-receiver", "", "every field access of Assemble goes through its receiver")
	}
selfDone:
	// ---- final: skips are read for the matching label after a quiescent pass, no mutation before the store back
	nFinal := 0
	var jumpInst *ssa.Alloc
	// the function that finalises a jump: the patcher function that stores JumpIf.SkipTrue / SkipFalse (Program.Assemble
	// itself, or a per-jump helper it calls)
	fin := asm
	for _, f := range p.SrcFuncs(load.PkgRoot) {
		if f != asm && !reachesFnFrom(asm, f) {
			continue
		}
		for _, b := range f.Blocks {
			for _, in := range b.Instrs {
				if st, ok := in.(*ssa.Store); ok {
					if sf, ok := skipFieldStore(st); ok && strings.HasPrefix(sf, "JumpIf.") {
						fin = f
					}
				}
			}
		}
	}
	for _, b := range fin.Blocks {
		for _, in := range b.Instrs {
			st, ok := in.(*ssa.Store)
			if !ok {
				continue
			}
			sf, ok := skipFieldStore(st)
			if !ok || !strings.HasPrefix(sf, "JumpIf.") {
				continue
			}
			nFinal++
			jumpInst, _ = st.Addr.(*ssa.FieldAddr).X.(*ssa.Alloc)
			want := "trueLabel"
			if sf == "JumpIf.SkipFalse" {
				want = "falseLabel"
			}
			key := "Program.Assemble/final/" + sf
			v := flow.StripConv(st.Val)
			call, okc := v.(*ssa.Call)
			if ex, isEx := v.(*ssa.Extract); isEx {
				call, okc = ex.Tuple.(*ssa.Call)
			}
			// a range-checked narrowing helper (`shortJumpOffset(n) (uint8, error)`: uint8(n) behind 0 <= n <= 255) is looked
			// through: the skip is its argument
			if okc && narrowingHelper(flow.Callee(call)) && len(call.Call.Args) == 1 {
				inner := flow.StripConv(call.Call.Args[0])
				if c2, ok := inner.(*ssa.Call); ok {
					call = c2
				} else if ex2, ok := inner.(*ssa.Extract); ok {
					call, okc = ex2.Tuple.(*ssa.Call)
				}
			}
			if !okc || call == nil || flow.Callee(call) == nil {
				r.Bad("E2.final", key, p.Pos(st.Pos()), "the skip does not come from a skip computation")
				continue
			}
			if isMutator(flow.Callee(call)) {
				// value returned by a mutator: it must be the last mutator call before the store-back, and no other
				// mutator call may follow: checked below by the "no mutation between read and store" rule
			}
			// label argument = <current jump>.<want>
			lo := res.Of(call.Call.Args[len(call.Call.Args)-1], nil, call)
			goodLabel := lo.Kind == origin.KField && lo.Field.Name() == want
			r.Check(goodLabel, "E2.final", key+"/label", p.Pos(call.Pos()), sf+" is the distance to the jump's "+want, fmt.Sprintf("%s is computed for label %s, want the jump's %s: the branches are exchanged", sf, lo, want))
			// ... measured from the jump itself: the record of the jump list (or its index), no arithmetic on it
			if len(call.Call.Args) >= 2 {
				jo := res.Of(call.Call.Args[len(call.Call.Args)-2], nil, call).StripConv()
				fromJump := false
				switch {
				case jo.Kind == origin.KElem && strings.HasSuffix(jo.Args[0].String(), ".jumps"):
					fromJump = true
				case jo.Kind == origin.KField && jo.Field.Name() == "index" && jo.Args[0].Kind == origin.KElem && strings.HasSuffix(jo.Args[0].Args[0].String(), ".jumps"):
					fromJump = true
				case jo.Kind == origin.KParam || (jo.Kind == origin.KField && jo.Field.Name() == "index" && jo.Args[0].Kind == origin.KParam):
					fromJump = true // inside a per-jump helper: its own jump parameter
				}
				// the label must belong to the same record
				r.Check(fromJump, "E2.final", key+"/from-the-jump", p.Pos(call.Pos()), sf+" is measured from the jump's own position", fmt.Sprintf("%s is measured from %s, not from the jump's own position: the target is missed by the difference", sf, jo))
			}
			// no mutator call can execute between this read and the store of the instruction back into the list
			var back *ssa.Store
			for _, b2 := range fin.Blocks {
				for _, in2 := range b2.Instrs {
					if s2, ok := in2.(*ssa.Store); ok {
						if path, ok := storePath(s2.Addr, fin.Params[0]); ok && path == ".instructions[]" {
							back = s2
						}
					}
				}
			}
			if back == nil {
				r.Bad("E2.final", key+"/store-back", p.Pos(st.Pos()), "the patched instruction is never stored back into the list")
				continue
			}
			clean := true
			for _, c2 := range flow.Calls(fin) {
				m, ok := c2.(*ssa.Call)
				if !ok || !isMutator(flow.Callee(m)) || m == call {
					continue
				}
				if pathBetween(call, m, back) {
					clean = false
					r.Bad("E2.final", key+"/stale", p.Pos(m.Pos()), fmt.Sprintf("%s is read, then %s can insert an instruction, then the stale value is stored: the jump lands one instruction short", sf, calleeName(m)))
				}
			}
			if clean {
				r.OK("E2.final", key+"/stale", p.Pos(st.Pos()), "no layout mutation between reading the skip and storing the instruction back")
			}
			// quiescence: the read is dominated by the exit of a loop whose continuation condition is "the list grew during the pass",
			// or the value is 8-bit by construction (returned by resolveLabel after its own range handling and no later insertion)
			q := quiescent(fin, call, rl, res, isMutator)
			r.Check(q, "E2.final", key+"/after-quiescent-pass", p.Pos(call.Pos()),
				"the skip is read after a pass of both label resolutions that inserted nothing (both targets within 8-bit reach)",
				"the skip is converted to 8 bits without a preceding pass of both label resolutions that left the layout unchanged: a bridge inserted for the other branch can push this target out of reach (silent truncation)")
		}
	}
	r.Floor("E2.final(skip stores in Program.Assemble)", nFinal, 2)
	// the instruction stored back is the one read from the same position (Cond and Val preserved)
	if jumpInst != nil {
		okInit := false
		for _, ref := range *jumpInst.Referrers() {
			if st, ok := ref.(*ssa.Store); ok && st.Addr == ssa.Value(jumpInst) {
				ta, ok := st.Val.(*ssa.TypeAssert)
				if ex, isEx := st.Val.(*ssa.Extract); isEx && ex.Index == 0 {
					ta, ok = ex.Tuple.(*ssa.TypeAssert) // the checked form `x, ok := v.(T)`
				}
				if ok && ta != nil {
					o := res.Of(ta.X, nil, ta)
					okInit = o.Kind == origin.KElem && strings.HasSuffix(o.Args[0].String(), ".instructions") && strings.HasSuffix(o.Args[1].String(), ".index")
				}
			}
		}
		r.Check(okInit, "E2.final", "Program.Assemble/patched-instruction-origin", p.Pos(jumpInst.Pos()), "the instruction being patched is the one at the jump's own index", "the instruction being patched is not read from the jump's own index")
	}

	// ---- stale positions: a position (Index value) obtained before a call that can insert an instruction is not used
	// after it.  Exempt: the index of the jump being resolved (insertions happen behind it: E2.order anchor rule, and
	// E2.cover: only cells >= index+1 are shifted), and slices of positions (updated in place by updateIndices).
	nStale := 0
	for _, f := range p.SrcFuncs(load.PkgRoot) {
		if f == ia || (f != asm && !reachesFnFrom(asm, f)) {
			continue
		}
		var muts []*ssa.Call
		for _, c := range flow.Calls(f) {
			if m, ok := c.(*ssa.Call); ok && (flow.Callee(m) == ia || isMutator(flow.Callee(m))) {
				muts = append(muts, m)
			}
		}
		if len(muts) == 0 {
			continue
		}
		// position-valued SSA values: type Index, and integer arithmetic / conversions on them
		pts := map[ssa.Value]ssa.Instruction{}
		for _, b := range f.Blocks {
			for _, in := range b.Instrs {
				v, ok := in.(ssa.Value)
				if !ok {
					continue
				}
				if _, isPhi := in.(*ssa.Phi); isPhi {
					continue
				}
				if isIndexType(v.Type()) {
					pts[v] = in
				}
			}
		}
		for changed := true; changed; {
			changed = false
			for _, b := range f.Blocks {
				for _, in := range b.Instrs {
					v, ok := in.(ssa.Value)
					if !ok || pts[v] != nil {
						continue
					}
					switch x := in.(type) {
					case *ssa.Convert:
						if pts[x.X] != nil {
							pts[v] = in
							changed = true
						}
					case *ssa.BinOp:
						if (x.Op == token.ADD || x.Op == token.SUB) && (pts[x.X] != nil) != (pts[x.Y] != nil) {
							pts[v] = in // point +- vector (point - point is a distance, not a position)
							changed = true
						}
					}
				}
			}
		}
		for v, def := range pts {
			o := res.Of(v, nil, def).StripConv()
			if o.Kind == origin.KField && o.Field.Name() == "index" && isNamed(o.Args[0].Type, load.PkgRoot, "JumpIf") {
				continue // the current jump's own index
			}
			for _, m := range muts {
				if def == ssa.Instruction(m) || !instrReachesNoRepeat(def, m, nil) {
					continue
				}
				if ex, ok := def.(*ssa.Extract); ok && ex.Tuple == ssa.Value(m) {
					continue
				}
				for _, u := range *v.Referrers() {
					if _, isDbg := u.(*ssa.DebugRef); isDbg || u == ssa.Instruction(m) {
						continue
					}
					if uv, ok := u.(ssa.Value); ok && pts[uv] != nil {
						continue // a derived position: judged at its own uses
					}
					nStale++
					if instrReachesNoRepeat(m, u, def) {
						r.Bad("E2.stale", load.FuncName(f)+"/position-used-after-insertion/"+regName.ReplaceAllString(o.String(), "?"), p.Pos(u.Pos()),
							fmt.Sprintf("the position %s is read before %s (which can insert an instruction and shift everything behind the jump) and used after it: it names the instruction in front of the intended one", o, calleeName(m)))
					}
				}
			}
		}
	}
	r.Count("uses of positions examined against insertions (E2.stale)", nStale)
	if !r.HasBad("E2.stale") {
		r.OK("E2.stale", "patcher/no-position-survives-an-insertion", p.Pos(asm.Pos()), "no position other than the current jump's own index is carried across a call that can insert an instruction")
	}

	// ---- bridge
	if rl != nil {
		for _, c := range callsToFn(rl, ia) {
			arg := c.Call.Args[2]
			alts := []ssa.Value{arg}
			if ph, ok := arg.(*ssa.Phi); ok {
				alts = ph.Edges
			}
			for _, a := range alts {
				switch x := a.(type) {
				case *ssa.MakeInterface:
					// bpf.Jump literal
					ld, _ := x.X.(*ssa.UnOp)
					var lit *ssa.Alloc
					if ld != nil {
						lit, _ = ld.X.(*ssa.Alloc)
					}
					if lit == nil || !isNamed(lit.Type().Underlying().(*types.Pointer).Elem(), "golang.org/x/net/bpf", "Jump") {
						r.Bad("E2.bridge", "Program.resolveLabel/bridge-kind", p.Pos(c.Pos()), "a bridge is neither a bpf.Jump nor a copied return")
						continue
					}
					so := fieldOfLiteral(res, ld, "Skip", c)
					// the pre-insertion distance: computeSkipN(jump, label) of this activation
					good := so != nil
					if good {
						s := so.StripConv()
						good = skipCallOfCurrentJump(s, cs) || (s.Kind == origin.KPhi && allComputeSkip(s, cs)) || (s.Kind == origin.KUnknown && strings.HasPrefix(s.Name, "loop:") && loopSkipEdgesGood(s.Val, res, cs))
					}
					r.Check(good, "E2.bridge", "Program.resolveLabel/jump-bridge-skip", p.Pos(c.Pos()),
						"a Jump bridge placed directly behind the jump skips exactly the pre-insertion distance (lands on the shifted destination)",
						"the Skip of a Jump bridge is "+fmt.Sprint(so)+", not exactly the distance computed before the insertion")
				case *ssa.UnOp:
					// copy of the destination: must be under ok of .(bpf.RetConstant)
					okRet := false
					for _, cd := range flow.DomConds(c.Block()) {
						_ = cd
					}
					// the phi edge from the block where ok holds
					if ph, ok := arg.(*ssa.Phi); ok {
						for i, ed := range ph.Edges {
							if ed != a {
								continue
							}
							pred := ph.Block().Preds[i]
							if ifi, ok := flow.LastIf(pred); ok {
								if pol, ok := isRetPredicate(ifi.Cond, x, 0); ok && len(pred.Succs) == 2 {
									// the edge taken when the destination is a return leads to the copy
									succ := pred.Succs[1]
									if pol {
										succ = pred.Succs[0]
									}
									if succ == ph.Block() {
										okRet = true
									}
								}
							}
						}
					}
					o := res.Of(x, nil, c)
					destOK := o.Kind == origin.KElem && strings.HasSuffix(o.Args[0].String(), ".instructions")
					if destOK {
						// ... at the label's current first candidate (dest[0]), not at some other position
						io := o.Args[1].StripConv()
						k, isK := int64(-1), false
						if io.Kind == origin.KElem && len(io.Args) == 2 {
							k, isK = io.Args[1].IsConstInt()
						}
						destOK = io.Kind == origin.KElem && isK && k == 0 && strings.Contains(io.Args[0].String(), ".labels[")
					}
					r.Check(okRet && destOK, "E2.bridge", "Program.resolveLabel/return-bridge", p.Pos(c.Pos()),
						"an early return is a copy of the destination instruction, used only when that instruction is a RetConstant",
						"an instruction is copied as a bridge without the successful RetConstant assertion (copying a load or jump changes the meaning of the path)")
				default:
					r.Unknown("E2.bridge", "Program.resolveLabel/bridge-kind", p.Pos(c.Pos()), fmt.Sprintf("unrecognised bridge value %T", a))
				}
			}
			// prepend: labels[label] = append([]Index{insertIndex}, dest...)
			pre := false
			for _, b := range rl.Blocks {
				for _, in := range b.Instrs {
					mu, ok := in.(*ssa.MapUpdate)
					if !ok || !flow.InstrDominates(c, mu) {
						continue
					}
					// the stored candidate list is [bridge index] ++ (old candidates), however it is put together
					pieces, ok := expandSlice(mu.Value, 0)
					if ok && len(pieces) == 2 && pieces[0].elem && pieces[0].v == ssa.Value(c) && !pieces[1].elem {
						if o := res.Of(pieces[1].v, nil, mu); strings.Contains(o.String(), ".labels[") {
							pre = true
						}
					}
				}
			}
			r.Check(pre, "E2.bridge", "Program.resolveLabel/bridge-prepended", p.Pos(c.Pos()), "the bridge's index becomes the first candidate of the label", "the bridge index is not prepended to the label's candidate list (the jump would still aim at the far destination)")
		}
		// the long branch is taken exactly above 255
		thr := false
		for _, b := range rl.Blocks {
			ifi, ok := flow.LastIf(b)
			if !ok || len(b.Succs) != 2 {
				continue
			}
			for k, pol := range []bool{true, false} {
				pr, ok := flow.AsIntPred(ifi.Cond, pol)
				if !ok {
					continue
				}
				// this edge is taken for every distance above 255 (bridging earlier is harmless, later is not) and not for 0
				if !(pr.Holds(256) && pr.Holds(257) && pr.Holds(1<<20) && pr.Holds(1<<31-1)) || pr.Holds(0) {
					continue
				}
				for _, c := range callsToFn(rl, ia) {
					if flow.EdgeDominates(b, b.Succs[k], c.Block()) {
						thr = true
					}
				}
			}
		}
		r.Check(thr, "E2.bridge", "Program.resolveLabel/threshold", p.Pos(rl.Pos()), "a bridge is inserted whenever the distance exceeds 255", "no branch of the form `distance > K` with K <= 255 leads to the bridge insertion: distances above 255 are not bridged")
	}
}

// loopSkipEdgesGood: the loop-carried skip variable: every value it takes is the skip computation for the activation's
// own jump and label.
func loopSkipEdgesGood(v ssa.Value, res *origin.Resolver, cs *ssa.Function) bool {
	ph, ok := v.(*ssa.Phi)
	if !ok {
		return false
	}
	seen := map[*ssa.Phi]bool{}
	var walk func(ph *ssa.Phi) bool
	walk = func(ph *ssa.Phi) bool {
		if seen[ph] {
			return true
		}
		seen[ph] = true
		for _, e := range ph.Edges {
			x := flow.StripConv(e)
			if p2, ok := x.(*ssa.Phi); ok {
				if !walk(p2) {
					return false
				}
				continue
			}
			c, ok := x.(*ssa.Call)
			if !ok || flow.Callee(c) != cs {
				return false
			}
			if !skipCallOfCurrentJump(res.Of(c, nil, c), cs) {
				return false
			}
		}
		return true
	}
	return walk(ph)
}

// skipCallOfCurrentJump: a call of the skip computation whose arguments are the activation's own jump (the JumpIf
// parameter, its index, or an Index parameter - unchanged, no arithmetic) and its own label parameter.  The bridge sits
// directly behind the jump and the insertion shifts the destination along with it, so the bridge's skip is exactly the
// jump's pre-insertion distance; a distance computed from any other position (`index+1`) is off by one.
func skipCallOfCurrentJump(s *origin.O, cs *ssa.Function) bool {
	if s == nil || s.Kind != origin.KCall || s.Callee != cs {
		return false
	}
	args := s.Args
	if cs.Signature.Recv() != nil && len(args) > 0 {
		args = args[1:]
	}
	if len(args) != 2 {
		return false
	}
	j := args[0].StripConv()
	okJump := j.Kind == origin.KParam || (j.Kind == origin.KField && j.Field.Name() == "index" && j.Args[0].Kind == origin.KParam)
	l := args[1].StripConv()
	okLabel := l.Kind == origin.KParam
	return okJump && okLabel
}

func allComputeSkip(o *origin.O, cs *ssa.Function) bool {
	for _, a := range o.Args {
		s := a.StripConv()
		if s.Kind == origin.KCall && s.Callee == cs {
			if !skipCallOfCurrentJump(s, cs) {
				return false
			}
			continue
		}
		if s.Kind == origin.KUnknown && strings.HasPrefix(s.Name, "loop:") {
			continue
		}
		return false
	}
	return len(o.Args) > 0
}

// appendedValuesOfFirst: for append(S, rest...) where S is a fresh one-element literal slice, the element.
func appendedValuesOfFirst(app *ssa.Call) []ssa.Value {
	sl, ok := app.Call.Args[0].(*ssa.Slice)
	if !ok {
		return nil
	}
	al, ok := sl.X.(*ssa.Alloc)
	if !ok {
		return nil
	}
	var out []ssa.Value
	for _, ref := range *al.Referrers() {
		if ia, ok := ref.(*ssa.IndexAddr); ok {
			for _, r2 := range *ia.Referrers() {
				if st, ok := r2.(*ssa.Store); ok && st.Addr == ia {
					out = append(out, st.Val)
				}
			}
		}
	}
	return out
}

// fieldOfLiteral: v is a load of a composite-literal alloc; returns the origin stored into its field.
func fieldOfLiteral(res *origin.Resolver, v ssa.Value, field string, at ssa.Instruction) *origin.O {
	ld, ok := v.(*ssa.UnOp)
	if !ok {
		return nil
	}
	al, ok := ld.X.(*ssa.Alloc)
	if !ok {
		return nil
	}
	st, ok := al.Type().Underlying().(*types.Pointer).Elem().Underlying().(*types.Struct)
	if !ok {
		return nil
	}
	for _, ref := range *al.Referrers() {
		fa, ok := ref.(*ssa.FieldAddr)
		if !ok || st.Field(fa.Field).Name() != field {
			continue
		}
		for _, r2 := range *fa.Referrers() {
			if s, ok := r2.(*ssa.Store); ok && s.Addr == fa {
				return res.Of(s.Val, nil, s)
			}
		}
	}
	return nil
}

// pathBetween: can control flow go a -> m -> b (m executed after a and before b)?
func pathBetween(a, m, b ssa.Instruction) bool {
	return instrReachesNoRepeat(a, m, nil) && instrReachesNoRepeat(m, b, a)
}

// instrReachesNoRepeat: from -> to reachable without executing `avoid` again.
func instrReachesNoRepeat(from, to, avoid ssa.Instruction) bool {
	g := flow.G(from.Parent())
	seen := map[*ssa.BasicBlock]bool{}
	var walk func(b *ssa.BasicBlock, idx int) bool
	walk = func(b *ssa.BasicBlock, idx int) bool {
		for i := idx; i < len(b.Instrs); i++ {
			if b.Instrs[i] == to {
				return true
			}
			if avoid != nil && b.Instrs[i] == avoid {
				return false
			}
		}
		for _, s := range g.Succs(b) {
			if seen[s] {
				continue
			}
			seen[s] = true
			if walk(s, 0) {
				return true
			}
		}
		return false
	}
	return walk(from.Block(), flow.InstrIndex(from)+1)
}

// quiescent: the skip read `call` is dominated by the fact `size == len(instructions)` (as a branch condition, or as the
// loop-carried flag of the enclosing retry loop), with size read before resolveLabel(jump, trueLabel) and
// resolveLabel(jump, falseLabel), and no layout mutation between the second length read and the skip read.
func quiescent(asm *ssa.Function, call *ssa.Call, rl *ssa.Function, res *origin.Resolver, isMutator func(*ssa.Function) bool) bool {
	if rl == nil {
		return false
	}
	// equalities known to hold at the read
	var eqs []*ssa.BinOp
	for _, cd := range flow.DomConds(call.Block()) {
		c := flow.Norm(cd)
		switch x := c.V.(type) {
		case *ssa.BinOp:
			if (x.Op == token.EQL && c.Pol) || (x.Op == token.NEQ && !c.Pol) {
				eqs = append(eqs, x)
			}
		case *ssa.Phi:
			// a flag: every incoming value is the constant that keeps the loop going, or the equality itself
			var cand []*ssa.BinOp
			good := true
			for _, ed := range x.Edges {
				if k, ok := ed.(*ssa.Const); ok && k.Value != nil && k.Value.Kind() == constant.Bool {
					if constant.BoolVal(k.Value) == c.Pol {
						good = false // the flag can have the exit value without the equality having been tested
					}
					continue
				}
				bo, ok := ed.(*ssa.BinOp)
				if ok && ((bo.Op == token.EQL && c.Pol) || (bo.Op == token.NEQ && !c.Pol)) {
					cand = append(cand, bo)
					continue
				}
				good = false
			}
			if good {
				eqs = append(eqs, cand...)
			}
		}
	}
	isLenInstr := func(v ssa.Value) bool {
		o := res.Of(v, nil, nil)
		return o.Kind == origin.KLen && strings.HasSuffix(o.Args[0].String(), ".instructions")
	}
	for _, bo := range eqs {
		// one side is the length read after the pass; the other the length remembered before it - directly, or as a
		// loop-carried variable whose other incoming values cannot equal a length (negative constants)
		var pairs [][2]ssa.Instruction
		for _, pr := range [][2]ssa.Value{{bo.X, bo.Y}, {bo.Y, bo.X}} {
			after, okA := pr[1].(ssa.Instruction)
			if !okA || !isLenInstr(pr[1]) {
				continue
			}
			if before, ok := pr[0].(ssa.Instruction); ok && isLenInstr(pr[0]) {
				if _, isPhi := pr[0].(*ssa.Phi); !isPhi {
					pairs = append(pairs, [2]ssa.Instruction{before, after})
					continue
				}
			}
			if ph, ok := pr[0].(*ssa.Phi); ok {
				good := true
				var before ssa.Instruction
				for _, ed := range ph.Edges {
					if k, isK := flow.ConstInt(ed); isK {
						if k >= 0 {
							good = false
						}
						continue
					}
					if in, ok := ed.(ssa.Instruction); ok && isLenInstr(ed) && before == nil {
						before = in
						continue
					}
					good = false
				}
				if good && before != nil {
					pairs = append(pairs, [2]ssa.Instruction{before, after})
				}
			}
		}
		for _, fs := range pairs {
			first, second := fs[0], fs[1]
			if first == second {
				continue
			}
			// both label resolutions lie between the two length reads: every way from the first read to the second passes them
			labels := map[string]bool{}
			for _, c := range callsToFn(asm, rl) {
				if instrReachesNoRepeat(first, c, second) && !instrReachesNoRepeat(first, second, c) {
					lo := res.Of(c.Call.Args[len(c.Call.Args)-1], nil, c)
					if lo.Kind == origin.KField {
						labels[lo.Field.Name()] = true
					}
				}
			}
			if !labels["trueLabel"] || !labels["falseLabel"] {
				continue
			}
			// nothing changes the layout between the second length read and the skip read
			clean := true
			for _, c2 := range flow.Calls(asm) {
				m, ok := c2.(*ssa.Call)
				if !ok || m == call || !isMutator(flow.Callee(m)) {
					continue
				}
				if instrReachesNoRepeat(second, m, second) && instrReachesNoRepeat(m, call, second) {
					clean = false
				}
			}
			if clean {
				return true
			}
		}
	}
	return false
}

var regName = regexp.MustCompile(`\\?loop:t[0-9]+|\\bt[0-9]+\\b`)

// affine is a*i + l*L + c over a loop variable i and a length L.
type affine struct {
	a, l, c int64
	ok      bool
}

func affineOf(v ssa.Value, phi *ssa.Phi, isL func(ssa.Value) bool, depth int) affine {
	if depth > 8 || v == nil {
		return affine{}
	}
	if v == ssa.Value(phi) {
		return affine{a: 1, ok: true}
	}
	if isL(v) {
		return affine{l: 1, ok: true}
	}
	switch x := v.(type) {
	case *ssa.Const:
		if k, ok := flow.ConstInt(x); ok {
			return affine{c: k, ok: true}
		}
	case *ssa.Convert:
		return affineOf(x.X, phi, isL, depth+1)
	case *ssa.BinOp:
		a, b := affineOf(x.X, phi, isL, depth+1), affineOf(x.Y, phi, isL, depth+1)
		if !a.ok || !b.ok {
			return affine{}
		}
		switch x.Op {
		case token.ADD:
			return affine{a.a + b.a, a.l + b.l, a.c + b.c, true}
		case token.SUB:
			return affine{a.a - b.a, a.l - b.l, a.c - b.c, true}
		}
	}
	return affine{}
}

// findIntPhi: the loop variable an index expression is built from.
func findIntPhi(v ssa.Value, depth int) *ssa.Phi {
	if depth > 8 {
		return nil
	}
	switch x := v.(type) {
	case *ssa.Phi:
		if bt, ok := x.Type().Underlying().(*types.Basic); ok && bt.Info()&types.IsInteger != 0 {
			return x
		}
	case *ssa.Convert:
		return findIntPhi(x.X, depth+1)
	case *ssa.BinOp:
		if ph := findIntPhi(x.X, depth+1); ph != nil {
			return ph
		}
		return findIntPhi(x.Y, depth+1)
	}
	return nil
}

// stayCondition normalises the loop test in header H to F >= 0 (F affine), where F >= 0 means "another iteration".
func stayCondition(ifi *ssa.If, H *ssa.BasicBlock, phi *ssa.Phi, isL func(ssa.Value) bool) (affine, bool) {
	c := flow.Norm(flow.Cond{V: ifi.Cond, Pol: true})
	bo, ok := c.V.(*ssa.BinOp)
	if !ok {
		return affine{}, false
	}
	x, y := affineOf(bo.X, phi, isL, 0), affineOf(bo.Y, phi, isL, 0)
	if !x.ok || !y.ok {
		return affine{}, false
	}
	// which successor stays in the loop: the one from which the header is reachable again
	g := flow.G(H.Parent())
	stayOnTrue := reachesBlock(g, H.Succs[0], H)
	stayOnFalse := reachesBlock(g, H.Succs[1], H)
	if stayOnTrue == stayOnFalse {
		return affine{}, false
	}
	pol := c.Pol == stayOnTrue // the comparison itself must be true to stay
	sub := func(a, b affine, k int64) affine { return affine{a.a - b.a, a.l - b.l, a.c - b.c + k, true} }
	op := bo.Op
	if !pol {
		switch op { // negate
		case token.LSS:
			op = token.GEQ
		case token.LEQ:
			op = token.GTR
		case token.GTR:
			op = token.LEQ
		case token.GEQ:
			op = token.LSS
		default:
			return affine{}, false
		}
	}
	switch op {
	case token.GEQ: // x >= y  <=>  x - y >= 0
		return sub(x, y, 0), true
	case token.GTR: // x > y  <=>  x - y - 1 >= 0
		return sub(x, y, -1), true
	case token.LEQ: // x <= y  <=>  y - x >= 0
		return sub(y, x, 0), true
	case token.LSS:
		return sub(y, x, -1), true
	}
	return affine{}, false
}

func reachesBlock(g *flow.Graph, from, to *ssa.BasicBlock) bool {
	seen := map[*ssa.BasicBlock]bool{}
	var walk func(b *ssa.BasicBlock) bool
	walk = func(b *ssa.BasicBlock) bool {
		if b == to {
			return true
		}
		if seen[b] {
			return false
		}
		seen[b] = true
		for _, s := range g.Succs(b) {
			if walk(s) {
				return true
			}
		}
		return false
	}
	return walk(from)
}

// reachesFnFrom: f is reachable from root over static calls.
func reachesFnFrom(root, f *ssa.Function) bool { return reachesFn(root, f, map[*ssa.Function]bool{}) }

// isRetPredicate: cond tests whether the instruction value x is a bpf.RetConstant (comma-ok assertion, possibly negated,
// possibly inside a helper of the module that does nothing else).  pol: cond true means "is a return".
func isRetPredicate(cond ssa.Value, x ssa.Value, depth int) (pol bool, ok bool) {
	if depth > 3 {
		return false, false
	}
	c := flow.Norm(flow.Cond{V: cond, Pol: true})
	switch v := c.V.(type) {
	case *ssa.Extract:
		if v.Index == 1 {
			if ta, ok := v.Tuple.(*ssa.TypeAssert); ok && ta.CommaOk && sameInstrValue(ta.X, x) && isNamed(ta.AssertedType, "golang.org/x/net/bpf", "RetConstant") {
				return c.Pol, true
			}
		}
	case *ssa.Call:
		cal := v.Call.StaticCallee()
		if cal == nil || len(cal.Blocks) == 0 || len(cal.Params) != 1 || len(v.Call.Args) != 1 || !sameInstrValue(v.Call.Args[0], x) {
			return false, false
		}
		// every return of the helper is the predicate on its parameter, and the helper has no other effect
		for _, b := range cal.Blocks {
			for _, in := range b.Instrs {
				switch in.(type) {
				case *ssa.Store, *ssa.MapUpdate, *ssa.Go, *ssa.Defer, *ssa.Send, *ssa.Panic:
					return false, false
				case *ssa.Call:
					return false, false
				}
			}
		}
		var hp *bool
		for _, ret := range flow.Returns(cal) {
			rs := flow.RetResults(ret)
			if len(rs) != 1 {
				return false, false
			}
			p2, ok := isRetPredicate(rs[0], cal.Params[0], depth+1)
			if !ok || (hp != nil && *hp != p2) {
				return false, false
			}
			hp = &p2
		}
		if hp == nil {
			return false, false
		}
		return *hp == c.Pol, true
	}
	return false, false
}

// sameInstrValue: the same SSA value, or two loads of the same local.
func sameInstrValue(a, b ssa.Value) bool {
	if a == b {
		return true
	}
	return sameValue(a, b)
}

// isEndOfList: Index(len(p.instructions)).
func isEndOfList(o *origin.O) bool {
	o = o.StripConv()
	return o.Kind == origin.KLen && len(o.Args) == 1 && strings.HasSuffix(o.Args[0].String(), ".instructions")
}

type slicePiece struct {
	v    ssa.Value
	elem bool // a single element (else: a whole slice value)
}

// expandSlice flattens a slice built by literals, make(T, 0, ...) and (nested) appends into its pieces.
func expandSlice(v ssa.Value, depth int) ([]slicePiece, bool) {
	if depth > 8 {
		return nil, false
	}
	switch x := v.(type) {
	case *ssa.MakeSlice:
		if k, ok := flow.ConstInt(x.Len); ok && k == 0 {
			return nil, true
		}
		return nil, false
	case *ssa.Const:
		if x.Value == nil {
			return nil, true
		}
	case *ssa.Slice:
		if al, ok := x.X.(*ssa.Alloc); ok && x.Low == nil && x.High == nil {
			// a literal array sliced whole: its elements in index order
			at, ok := al.Type().Underlying().(*types.Pointer).Elem().Underlying().(*types.Array)
			if !ok {
				return nil, false
			}
			out := make([]slicePiece, at.Len())
			for _, ref := range *al.Referrers() {
				ia, ok := ref.(*ssa.IndexAddr)
				if !ok {
					continue
				}
				k, ok := flow.ConstInt(ia.Index)
				if !ok || k < 0 || k >= at.Len() {
					return nil, false
				}
				for _, r2 := range *ia.Referrers() {
					if st, ok := r2.(*ssa.Store); ok && st.Addr == ssa.Value(ia) {
						out[k] = slicePiece{st.Val, true}
					}
				}
			}
			for _, pc := range out {
				if pc.v == nil {
					return nil, false
				}
			}
			return out, true
		}
	case *ssa.Call:
		if bi, ok := x.Call.Value.(*ssa.Builtin); ok && bi.Name() == "append" && len(x.Call.Args) == 2 {
			a, ok := expandSlice(x.Call.Args[0], depth+1)
			if !ok {
				return nil, false
			}
			b, ok := expandSlice(x.Call.Args[1], depth+1)
			if !ok {
				return nil, false
			}
			return append(a, b...), true
		}
	}
	return []slicePiece{{v, false}}, true
}

// Structural identification of the patcher's helpers (used when a helper was renamed and its signature changed): the
// patcher is everything Program.Assemble reaches inside the package;
//
//	insertAfter   = the patcher function that assigns the instruction list (it grows it),
//	updateIndices = the patcher function that stores into the index of jump records,
//	computeSkipN  = the patcher function with a single int result that reads the label table and writes nothing,
//	resolveLabel  = the patcher function (other than Assemble) that calls insertAfter.
func init() {
	patcherFns := func(p *load.Program) (asm *ssa.Function, fns []*ssa.Function) {
		asm = p.Func(load.PkgRoot, "Program.Assemble")
		if asm == nil {
			return nil, nil
		}
		for _, f := range p.SrcFuncs(load.PkgRoot) {
			if f != asm && f.Parent() == nil && reachesFnFrom(asm, f) {
				fns = append(fns, f)
			}
		}
		return asm, fns
	}
	storesPath := func(f *ssa.Function, path string) bool {
		if len(f.Params) == 0 {
			return false
		}
		for _, b := range f.Blocks {
			for _, in := range b.Instrs {
				if st, ok := in.(*ssa.Store); ok {
					if pt, ok := storePath(st.Addr, f.Params[0]); ok && pt == path {
						return true
					}
				}
			}
		}
		return false
	}
	unique := func(fns []*ssa.Function, pred func(*ssa.Function) bool) *ssa.Function {
		var found *ssa.Function
		for _, f := range fns {
			if pred(f) {
				if found != nil {
					return nil
				}
				found = f
			}
		}
		return found
	}
	load.RoleFinders[load.PkgRoot+".Program.insertAfter"] = func(p *load.Program) *ssa.Function {
		_, fns := patcherFns(p)
		return unique(fns, func(f *ssa.Function) bool { return storesPath(f, ".instructions") })
	}
	load.RoleFinders[load.PkgRoot+".Program.updateIndices"] = func(p *load.Program) *ssa.Function {
		_, fns := patcherFns(p)
		return unique(fns, func(f *ssa.Function) bool { return storesPath(f, ".jumps[].index") })
	}
	load.RoleFinders[load.PkgRoot+".Program.computeSkipN"] = func(p *load.Program) *ssa.Function {
		_, fns := patcherFns(p)
		return unique(fns, func(f *ssa.Function) bool {
			if f.Signature.Results().Len() != 1 {
				return false
			}
			bt, ok := f.Signature.Results().At(0).Type().Underlying().(*types.Basic)
			if !ok || bt.Kind() != types.Int {
				return false
			}
			reads := false
			for _, b := range f.Blocks {
				for _, in := range b.Instrs {
					switch x := in.(type) {
					case *ssa.Store, *ssa.MapUpdate:
						return false
					case *ssa.Call:
						if _, isB := x.Call.Value.(*ssa.Builtin); !isB {
							return false
						}
					case *ssa.Lookup:
						reads = true
					}
				}
			}
			return reads
		})
	}
	load.RoleFinders[load.PkgRoot+".Program.resolveLabel"] = func(p *load.Program) *ssa.Function {
		_, fns := patcherFns(p)
		ia := p.Func(load.PkgRoot, "Program.insertAfter")
		if ia == nil {
			return nil
		}
		return unique(fns, func(f *ssa.Function) bool { return f != ia && len(callsToFn(f, ia)) > 0 })
	}
}

type argAt struct {
	v  ssa.Value
	at ssa.Instruction
}

// argsOfParam: for a parameter of an unexported function, the values passed at every call site in the package (followed
// through further parameters); nil if v is not such a parameter or a call site cannot be seen.
func argsOfParam(p *load.Program, v ssa.Value, depth int) []argAt {
	prm, ok := flow.StripConv(v).(*ssa.Parameter)
	if !ok || depth > 3 {
		return nil
	}
	fn := prm.Parent()
	if fn.Object() == nil || fn.Object().Exported() || usedAsValue(p, fn) {
		return nil
	}
	idx := -1
	for k, q := range fn.Params {
		if q == prm {
			idx = k
		}
	}
	var out []argAt
	for _, f := range p.SrcFuncs(load.PkgRoot) {
		for _, c := range flow.Calls(f) {
			if flow.Callee(c) != fn || idx >= len(c.Common().Args) {
				continue
			}
			a := c.Common().Args[idx]
			if deeper := argsOfParam(p, a, depth+1); deeper != nil {
				out = append(out, deeper...)
			} else {
				out = append(out, argAt{a, c})
			}
		}
	}
	return out
}

// narrowingHelper: func(n int) (uint8, error) (or a single uint8 result) whose every success return yields the parameter
// converted, behind a range check that implies 0 <= n <= 255.
func narrowingHelper(h *ssa.Function) bool {
	if h == nil || len(h.Blocks) == 0 || len(h.Params) != 1 || h.Signature.Results().Len() < 1 || h.Signature.Results().Len() > 2 {
		return false
	}
	bt, ok := h.Signature.Results().At(0).Type().Underlying().(*types.Basic)
	if !ok || bt.Kind() != types.Uint8 {
		return false
	}
	n := 0
	for _, ret := range flow.Returns(h) {
		rs := flow.RetResults(ret)
		if len(rs) == 2 && flow.KnownNonNilError(rs[1], ret.Block()) {
			continue
		}
		cv, ok := rs[0].(*ssa.Convert)
		if !ok || flow.StripConv(cv.X) != ssa.Value(h.Params[0]) {
			return false
		}
		lo, hi := false, false
		for _, cd := range flow.DomConds(ret.Block()) {
			if pr, ok := flow.AsIntPred(cd.V, cd.Pol); ok && flow.StripConv(pr.X) == ssa.Value(h.Params[0]) {
				if pr.AtLeast(0) {
					lo = true
				}
				if pr.AtMost(255) {
					hi = true
				}
			}
		}
		if !lo || !hi {
			return false
		}
		n++
	}
	return n > 0
}
