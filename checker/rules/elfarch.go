package rules

import (
	"fmt"
	"go/ast"
	"go/constant"
	"go/token"
	"go/types"
	"strings"

	"golang.org/x/tools/go/ssa"

	"sbpfcheck/flow"
	"sbpfcheck/load"
)

// elfMachineInfo: ELF e_machine values (System V gABI / debug/elf, trusted) and the arch.Info variable and GOARCH that
// describe binaries of that machine.
var elfMachineInfo = map[int64][2]string{
	3:   {"I386", "386"},
	40:  {"ARM", "arm"},
	62:  {"X86_64", "amd64"},
	183: {"ARM64", "arm64"},
}

// checkELFArch (E4.elfarch): "only names valid for that architecture" rests on the table the binary's machine selects. In
// the profiler, every return of an arch.Info variable that is decided by a comparison of an elf.Machine value with a
// constant returns the Info - and the GOARCH string - of exactly that machine.
func checkELFArch(e *Env, p *load.Program) {
	r := e.R
	n := 0
	for _, f := range p.SrcFuncs(load.PkgProfiler) {
		for _, ret := range flow.Returns(f) {
			var info *ssa.Global
			goarch, hasArch := "", false
			for _, v := range flow.RetResults(ret) {
				if ld, ok := v.(*ssa.UnOp); ok && ld.Op == token.MUL {
					if g, ok := ld.X.(*ssa.Global); ok && g.Pkg != nil && g.Pkg.Pkg.Path() == load.PkgArch {
						if pt, ok := g.Type().Underlying().(*types.Pointer).Elem().(*types.Pointer); ok && isNamed(pt.Elem(), load.PkgArch, "Info") {
							info = g
						}
					}
				}
				if c, ok := v.(*ssa.Const); ok && c.Value != nil && c.Value.Kind() == constant.String {
					goarch, hasArch = constant.StringVal(c.Value), true
				}
			}
			if info == nil {
				continue
			}
			// the machine test that decides this return
			var mach int64 = -1
			for _, dc := range flow.DomConds(ret.Block()) {
				b, ok := dc.V.(*ssa.BinOp)
				if !ok || b.Op != token.EQL || !dc.Pol {
					continue
				}
				for _, pair := range [][2]ssa.Value{{b.X, b.Y}, {b.Y, b.X}} {
					c, ok := pair[1].(*ssa.Const)
					if !ok || c.Value == nil || !isNamed(pair[0].Type(), "debug/elf", "Machine") {
						continue
					}
					if k, ok := constant.Int64Val(constant.ToInt(c.Value)); ok {
						mach = k
					}
				}
			}
			key := load.FuncName(f) + "/" + info.Name()
			if mach < 0 {
				continue // not selected by a machine test (a default, a lookup by name): nothing to compare
			}
			n++
			want, known := elfMachineInfo[mach]
			switch {
			case !known:
				r.Unknown("E4.elfarch", key, p.Pos(ret.Pos()), fmt.Sprintf("ELF machine %d selects arch.%s; the machine is not in the checker's table", mach, info.Name()))
			case want[0] != info.Name():
				r.Bad("E4.elfarch", key, p.Pos(ret.Pos()), fmt.Sprintf("binaries of ELF machine %d (%s) are profiled with the table arch.%s: numbers are resolved to another architecture's names, and allow-names are checked against the wrong table", mach, want[1], info.Name()))
			case hasArch && !strings.EqualFold(goarch, want[1]):
				r.Bad("E4.elfarch", key, p.Pos(ret.Pos()), fmt.Sprintf("binaries of ELF machine %d are labelled GOARCH %q, want %q: the generated profile is built for another architecture than its names", mach, goarch, want[1]))
			default:
				r.OK("E4.elfarch", key, p.Pos(ret.Pos()), fmt.Sprintf("ELF machine %d selects arch.%s / %q", mach, info.Name(), goarch))
			}
		}
	}
	// the same mapping spelled as data: a map literal keyed by elf.Machine whose rows name an arch.Info variable (and a GOARCH)
	if pk := p.Pkgs[load.PkgProfiler]; pk != nil {
		for _, file := range pk.Syntax {
			ast.Inspect(file, func(nd ast.Node) bool {
				cl, ok := nd.(*ast.CompositeLit)
				if !ok {
					return true
				}
				mt, ok := pk.TypesInfo.TypeOf(cl).Underlying().(*types.Map)
				if !ok || !isNamed(mt.Key(), "debug/elf", "Machine") {
					return true
				}
				for _, el := range cl.Elts {
					kv, ok := el.(*ast.KeyValueExpr)
					if !ok {
						continue
					}
					tv := pk.TypesInfo.Types[kv.Key]
					if tv.Value == nil {
						continue
					}
					mach, _ := constant.Int64Val(constant.ToInt(tv.Value))
					infoName, goarch, hasArch := "", "", false
					ast.Inspect(kv.Value, func(x ast.Node) bool {
						switch y := x.(type) {
						case *ast.SelectorExpr:
							if v, ok := pk.TypesInfo.Uses[y.Sel].(*types.Var); ok && v.Pkg() != nil && v.Pkg().Path() == load.PkgArch {
								if pt, ok := v.Type().(*types.Pointer); ok && isNamed(pt.Elem(), load.PkgArch, "Info") {
									infoName = v.Name()
								}
							}
						case *ast.BasicLit:
							if c := pk.TypesInfo.Types[y].Value; c != nil && c.Kind() == constant.String {
								goarch, hasArch = constant.StringVal(c), true
							}
						}
						return true
					})
					if infoName == "" {
						continue
					}
					n++
					key := "table/" + infoName
					want, known := elfMachineInfo[mach]
					switch {
					case !known:
						r.Unknown("E4.elfarch", key, p.Pos(kv.Pos()), fmt.Sprintf("ELF machine %d selects arch.%s; the machine is not in the checker's table", mach, infoName))
					case want[0] != infoName:
						r.Bad("E4.elfarch", key, p.Pos(kv.Pos()), fmt.Sprintf("binaries of ELF machine %d (%s) are profiled with the table arch.%s: numbers are resolved to another architecture's names, and allow-names are checked against the wrong table", mach, want[1], infoName))
					case hasArch && !strings.EqualFold(goarch, want[1]):
						r.Bad("E4.elfarch", key, p.Pos(kv.Pos()), fmt.Sprintf("binaries of ELF machine %d are labelled GOARCH %q, want %q", mach, goarch, want[1]))
					default:
						r.OK("E4.elfarch", key, p.Pos(kv.Pos()), fmt.Sprintf("ELF machine %d selects arch.%s / %q", mach, infoName, goarch))
					}
				}
				return true
			})
		}
	}
	r.Floor("E4.elfarch(machine-selected tables)", n, 3)
}

// checkOutputOpen (E4.profile …/output-starts-empty): "the emitted YAML profile loads": the file the profile is written to
// contains the emitted document and nothing else. Every os.OpenFile of the profiler that opens a file for writing
// truncates it (O_TRUNC) or insists on a new file (O_EXCL), and does not append; os.Create and os.CreateTemp do so by
// definition. Without O_TRUNC a shorter profile written over a longer one keeps the old tail.
func checkOutputOpen(e *Env, p *load.Program) {
	r := e.R
	var osPkg *types.Package
	for _, pk := range p.All {
		if pk.PkgPath == "os" {
			osPkg = pk.Types
		}
	}
	flag := func(name string) int64 {
		if osPkg == nil {
			return 0
		}
		c, _ := osPkg.Scope().Lookup(name).(*types.Const)
		if c == nil {
			return 0
		}
		v, _ := constant.Int64Val(constant.ToInt(c.Val()))
		return v
	}
	wr, rw, trunc, excl, app := flag("O_WRONLY"), flag("O_RDWR"), flag("O_TRUNC"), flag("O_EXCL"), flag("O_APPEND")
	if trunc == 0 || wr == 0 {
		r.Unknown("E4.profile", "output-starts-empty", "", "the os.O_* constants were not found")
		return
	}
	n := 0
	for _, f := range p.SrcFuncs(load.PkgProfiler) {
		for _, c := range flow.Calls(f) {
			call, ok := c.(*ssa.Call)
			if !ok {
				continue
			}
			switch {
			case flow.CalleeIs(call, "os", "Create"), flow.CalleeIs(call, "os", "CreateTemp"), flow.CalleeIs(call, "io/ioutil", "TempFile"), flow.CalleeIs(call, "os", "WriteFile"), flow.CalleeIs(call, "io/ioutil", "WriteFile"):
				n++
			case flow.CalleeIs(call, "os", "OpenFile"):
				n++
				key := load.FuncName(f) + "/output-starts-empty"
				k, isK := call.Call.Args[1].(*ssa.Const)
				if !isK || k.Value == nil {
					r.Unknown("E4.profile", key, p.Pos(call.Pos()), "os.OpenFile with flags that are not a constant: whether an existing file is truncated is not decided")
					continue
				}
				fl, _ := constant.Int64Val(constant.ToInt(k.Value))
				if fl&(wr|rw) == 0 {
					continue // read-only
				}
				r.Check((fl&trunc != 0 || fl&excl != 0) && fl&app == 0, "E4.profile", key, p.Pos(call.Pos()),
					"a file opened for writing is truncated (or must be new) and not appended to",
					fmt.Sprintf("%s opens a file for writing with flags %#x: without O_TRUNC (and without O_EXCL), or with O_APPEND, what an existing file held before stays in it - a shorter profile written over a longer one keeps the old tail, and the result is not the emitted document", load.FuncName(f), fl))
			}
		}
	}
	r.Floor("E4.profile(files created by the profiler)", n, 2)
}
