package rules

import (
	"fmt"
	"go/constant"
	"go/token"
	"go/types"
	"strings"

	"golang.org/x/tools/go/ssa"

	"sbpfcheck/flow"
	"sbpfcheck/load"
	"sbpfcheck/origin"
)

// rawSite is one direct system call instruction (syscall.Syscall & co).
type rawSite struct {
	fn   *ssa.Function
	call *ssa.Call
	trap int64
	name string // "seccomp", "prctl", or ""
}

func isRawSyscallFn(f *ssa.Function) bool {
	if f == nil || f.Pkg == nil {
		return false
	}
	pp := f.Pkg.Pkg.Path()
	if pp != "syscall" && pp != "golang.org/x/sys/unix" {
		return false
	}
	switch f.Name() {
	case "Syscall", "Syscall6", "RawSyscall", "RawSyscall6", "Syscall9", "SyscallNoError", "RawSyscallNoError":
		return true
	}
	return false
}

// loaderModel is what the loader rules share.
type loaderModel struct {
	p        *load.Program
	sites    []*rawSite
	seccompW *ssa.Function // wrapper containing the seccomp(2) site
	prctlW   *ssa.Function
	loadF    *ssa.Function
	res      *origin.Resolver
}

func buildLoaderModel(e *Env, rule string) *loaderModel {
	r := e.R
	p := e.Host()
	m := &loaderModel{p: p, res: origin.NewResolver()}
	or := e.Oracle()
	trapSeccomp, trapPrctl := int64(-1), int64(-1)
	if t := or.Traps[p.GOARCH]; t != nil {
		if t["SYS_SECCOMP"] != nil {
			trapSeccomp = int64(*t["SYS_SECCOMP"])
		}
		if t["SYS_PRCTL"] != nil {
			trapPrctl = int64(*t["SYS_PRCTL"])
		}
	}
	for _, fn := range p.SrcFuncs(load.PkgRoot) {
		for _, c := range flow.Calls(fn) {
			call, ok := c.(*ssa.Call)
			if !ok {
				if isRawSyscallFn(flow.Callee(c)) {
					r.Unknown(rule, load.FuncName(fn)+"/raw-syscall-in-go-or-defer", p.Pos(c.Pos()), "raw system call in a go/defer statement")
				}
				continue
			}
			if !isRawSyscallFn(flow.Callee(call)) {
				continue
			}
			s := &rawSite{fn: fn, call: call, trap: -1}
			if k, ok := flow.ConstInt(call.Call.Args[0]); ok {
				s.trap = k
			}
			switch s.trap {
			case trapSeccomp:
				s.name = "seccomp"
				m.seccompW = fn
			case trapPrctl:
				s.name = "prctl"
				m.prctlW = fn
			}
			m.sites = append(m.sites, s)
		}
	}
	m.loadF = p.Func(load.PkgRoot, "LoadFilter")
	r.Count("raw system call sites in the root package", len(m.sites))
	return m
}

// reaches reports whether fn can reach target through static calls.
func reachesFn(fn, target *ssa.Function, seen map[*ssa.Function]bool) bool {
	if fn == nil || target == nil {
		return false
	}
	if fn == target {
		return true
	}
	if seen[fn] {
		return false
	}
	seen[fn] = true
	for _, c := range flow.Calls(fn) {
		if cal := flow.Callee(c); cal != nil && cal.Pkg != nil && strings.HasPrefix(cal.Pkg.Pkg.Path(), load.Module) {
			if reachesFn(cal, target, seen) {
				return true
			}
		}
	}
	return false
}

// callsReaching returns the calls in fn whose callee can reach target.
func callsReaching(fn, target *ssa.Function) []*ssa.Call {
	var out []*ssa.Call
	for _, c := range flow.Calls(fn) {
		call, ok := c.(*ssa.Call)
		if !ok {
			continue
		}
		if reachesFn(flow.Callee(call), target, map[*ssa.Function]bool{}) {
			out = append(out, call)
		}
	}
	return out
}

// ---------------------------------------------------------------- C08

func init() {
	Specs["C08"] = &Spec{
		Level: "other",
		Explanation: "Program-identity clause only: value-flow in LoadFilter from Policy.Assemble (nil-error edge) to bpf.Assemble to the sock_filter copy (one SockFilter per raw instruction, field for field, " +
			"no filtering) to the {Len, Filter} fields of the SockFprog built from the same slice value, whose address is argument 3 of the seccomp wrapper called with SECCOMP_SET_MODE_FILTER; in the wrapper " +
			"the three parameters reach syscall arguments 1..3 through conversions only and the trap number is SYS_SECCOMP of the target. What the kernel then enforces is run-time behaviour and not claimed.",
		Trusted:     []string{"go/ssa", "oracle SYS_SECCOMP per GOARCH (x/sys zsysnum)", "golang.org/x/net/bpf.Assemble encodes each instruction to one RawInstruction"},
		Assumptions: []string{"the kernel's decisions for probe syscalls and SIGSYS on kill_process are run-time behaviour (not applicable to static analysis)", "uint16(len) is unguarded: a program longer than 65535 instructions is rejected by the kernel (note, not a violation)"},
		Run:         runC08,
	}
}

func runC08(e *Env) {
	r := e.R
	m := buildLoaderModel(e, "E3.chain")
	mk := r.Mark()
	runC08intra(e, m)
	if t := traceFallback(e, m, mk, []string{"chain"}, "E3.chain", "E3.copy"); t != nil {
		r.Floor("E3.chain(raw sites)", len(m.sites), 2)
		checkSeccompWrapper(e, m, "E3.chain")
		if t.convFn != nil {
			checkSockFilterCopy(e, m.p, t.convFn)
		} else {
			r.Unknown("E3.copy", "conversion", "", "the sock_filter conversion function was not identified")
		}
	}
}

// runC08intra: the chain read off LoadFilter as one function (helpers with a single return are looked through).
func runC08intra(e *Env, m *loaderModel) {
	r := e.R
	p := m.p
	fn := m.loadF
	if fn == nil || m.seccompW == nil {
		r.Unknown("E3.chain", "LoadFilter", "", "LoadFilter or the seccomp(2) wrapper not found")
		return
	}
	r.Floor("E3.chain(raw sites)", len(m.sites), 2)
	links := 0
	// link 1: Policy.Assemble on the parameter's Policy field
	as := callsTo(fn, load.PkgRoot, "Policy.Assemble")
	if len(as) != 1 {
		r.Unknown("E3.chain", "LoadFilter/Policy.Assemble", p.Pos(fn.Pos()), fmt.Sprintf("expected one call to Policy.Assemble, found %d", len(as)))
		return
	}
	recv := m.res.Of(as[0].Call.Args[0], nil, as[0])
	okRecv := recv.Kind == origin.KField && recv.Field.Name() == "Policy" && recv.Args[0].Kind == origin.KAlloc && isParamSpill(recv.Args[0], fn.Params[0]) && cleanSpillField(recv.Args[0].Val.(*ssa.Alloc), fn.Params[0], recv.Field)
	okRecv = okRecv || origin.FieldOfParam(recv, fn.Params[0], "Policy")
	r.Check(okRecv, "E3.chain", "LoadFilter/1-policy", p.Pos(as[0].Pos()), "the compiled policy is the Policy field of the filter argument", "Policy.Assemble is not called on filter.Policy (origin "+recv.String()+")")
	links++
	insts := flow.ResultN(as[0], 0)
	// link 2: bpf.Assemble(insts)
	bs := callsTo(fn, "golang.org/x/net/bpf", "Assemble")
	if len(bs) != 1 {
		r.Unknown("E3.chain", "LoadFilter/bpf.Assemble", p.Pos(fn.Pos()), fmt.Sprintf("expected one call to bpf.Assemble, found %d", len(bs)))
		return
	}
	r.Check(bs[0].Call.Args[0] == insts && insts != nil, "E3.chain", "LoadFilter/2-encode", p.Pos(bs[0].Pos()), "bpf.Assemble receives exactly the slice returned by Policy.Assemble", "bpf.Assemble does not receive the slice returned by Policy.Assemble")
	links++
	raw := flow.ResultN(bs[0], 0)
	// links 3-5 are followed backwards from the installation call, through helper functions of the module (a helper
	// with a single return statement is looked through; a parameter is mapped to the caller's argument)
	ws := callsToFn(fn, m.seccompW)
	if len(ws) != 1 {
		r.Unknown("E3.chain", "LoadFilter/seccomp-call", p.Pos(fn.Pos()), fmt.Sprintf("expected one call to the seccomp wrapper, found %d", len(ws)))
		return
	}
	w := ws[0]
	if len(w.Call.Args) != 3 {
		r.Unknown("E3.chain", "LoadFilter/seccomp-call", p.Pos(w.Pos()), "wrapper does not take (op, flags, args)")
		return
	}
	op, okop := flow.ConstInt(w.Call.Args[0])
	r.Check(okop && uint64(op) == e.Oracle().Consts["SECCOMP_SET_MODE_FILTER"], "E3.chain", "LoadFilter/5-op", p.Pos(w.Pos()), "operation is SECCOMP_SET_MODE_FILTER (1)", fmt.Sprintf("the seccomp operation is %d, want SECCOMP_SET_MODE_FILTER", op))
	links++
	ptr, pctx := through(w.Call.Args[2], nil)
	al, isAlloc := ptr.(*ssa.Alloc)
	if !isAlloc || !isNamed(al.Type().Underlying().(*types.Pointer).Elem(), "syscall", "SockFprog") {
		r.Bad("E3.chain", "LoadFilter/4-fprog", p.Pos(w.Pos()), "argument 3 of the wrapper is not the address of a syscall.SockFprog built by LoadFilter (directly or in a helper)")
		return
	}
	// the literal is complete before it leaves its function: every field store dominates the installation call, or (in
	// a helper) the helper's return
	var before ssa.Instruction = w
	if al.Parent() != fn {
		rets := flow.Returns(al.Parent())
		if len(rets) != 1 {
			r.Unknown("E3.chain", "LoadFilter/4-fprog", p.Pos(al.Pos()), "the helper that builds the SockFprog has more than one return")
			return
		}
		before = rets[0]
	}
	var lenSt, filtSt []*ssa.Store
	for _, ref := range *al.Referrers() {
		fa, ok := ref.(*ssa.FieldAddr)
		if !ok {
			switch ref.(type) {
			case *ssa.Convert, *ssa.DebugRef, *ssa.Return:
				continue
			}
			r.Bad("E3.chain", "LoadFilter/4-fprog/escape", p.Pos(ref.Pos()), fmt.Sprintf("the SockFprog is used by %T", ref))
			continue
		}
		name := al.Type().Underlying().(*types.Pointer).Elem().Underlying().(*types.Struct).Field(fa.Field).Name()
		for _, r2 := range *fa.Referrers() {
			if st, ok := r2.(*ssa.Store); ok && st.Addr == ssa.Value(fa) {
				if !flow.InstrDominates(st, before) {
					r.Bad("E3.chain", "LoadFilter/4-fprog/"+name, p.Pos(st.Pos()), "field written on a path that does not precede the installation")
				}
				switch name {
				case "Len":
					lenSt = append(lenSt, st)
				case "Filter":
					filtSt = append(filtSt, st)
				}
			}
		}
	}
	// the pointer that reaches the wrapper in LoadFilter is not used for anything else in between
	if al.Parent() != fn {
		if hc, ok := flow.StripConv(w.Call.Args[2]).(*ssa.Call); ok {
			for _, ref := range *hc.Referrers() {
				switch x := ref.(type) {
				case *ssa.Convert, *ssa.DebugRef, *ssa.ChangeType:
				default:
					if x != ssa.Instruction(w) {
						r.Bad("E3.chain", "LoadFilter/4-fprog/escape", p.Pos(ref.Pos()), fmt.Sprintf("the SockFprog pointer is used by %T before installation", ref))
					}
				}
			}
		}
	}
	var S ssa.Value
	okLen := len(lenSt) == 1
	if okLen {
		v := flow.StripConv(lenSt[0].Val)
		c, isCall := v.(*ssa.Call)
		okLen = isCall
		if okLen {
			bi, isB := c.Call.Value.(*ssa.Builtin)
			okLen = isB && bi.Name() == "len"
			if okLen {
				S = c.Call.Args[0]
			}
		}
	}
	cp, _ := S.(*ssa.Call)
	okLen = okLen && cp != nil && flow.Callee(cp) != nil && flow.Callee(cp).Pkg != nil && flow.Callee(cp).Pkg.Pkg.Path() == load.PkgRoot
	r.Check(okLen, "E3.chain", "LoadFilter/4-fprog/Len", p.Pos(al.Pos()), "Len = uint16(len(S)) of the converted slice S", "SockFprog.Len is not len() of the converted instruction slice (a shorter or longer program would be installed)")
	okF := len(filtSt) == 1
	if okF {
		ia, isIA := filtSt[0].Val.(*ssa.IndexAddr)
		okF = isIA && S != nil && ia.X == S
		if okF {
			k, isK := flow.ConstInt(ia.Index)
			okF = isK && k == 0
		}
	}
	r.Check(okF, "E3.chain", "LoadFilter/4-fprog/Filter", p.Pos(al.Pos()), "Filter = &S[0] of the same slice S", "SockFprog.Filter is not &S[0] of the converted instruction slice")
	links++
	if !okLen {
		return
	}
	// link 3: S is the conversion of exactly the slice returned by bpf.Assemble
	var src ssa.Value
	if len(cp.Call.Args) == 1 {
		src, _ = through(cp.Call.Args[0], pctx)
	}
	if src == nil || src != raw {
		r.Bad("E3.chain", "LoadFilter/3-copy", p.Pos(cp.Pos()), "the raw instructions returned by bpf.Assemble are not what the sock_filter conversion receives")
		return
	}
	r.OK("E3.chain", "LoadFilter/3-copy", p.Pos(cp.Pos()), "the sock_filter conversion receives exactly the slice returned by bpf.Assemble")
	links++
	checkSockFilterCopy(e, p, flow.Callee(cp))
	// S must only be measured and addressed at [0]
	for _, ref := range *cp.Referrers() {
		switch x := ref.(type) {
		case *ssa.Call:
			if bi, ok := x.Call.Value.(*ssa.Builtin); ok && bi.Name() == "len" {
				continue
			}
			r.Bad("E3.chain", "LoadFilter/3-copy/untouched", p.Pos(x.Pos()), "the sock_filter slice is passed to another call before installation")
		case *ssa.IndexAddr:
			if k, ok := flow.ConstInt(x.Index); !ok || k != 0 {
				r.Bad("E3.chain", "LoadFilter/3-copy/untouched", p.Pos(x.Pos()), "the sock_filter slice is addressed at an index other than 0")
			}
			for _, r2 := range *x.Referrers() {
				if st, ok := r2.(*ssa.Store); ok && st.Addr == ssa.Value(x) {
					r.Bad("E3.chain", "LoadFilter/3-copy/untouched", p.Pos(st.Pos()), "an element of the sock_filter slice is overwritten before installation")
				}
			}
		case *ssa.DebugRef:
		default:
			r.Bad("E3.chain", "LoadFilter/3-copy/untouched", p.Pos(ref.Pos()), fmt.Sprintf("the sock_filter slice is used by %T before installation", ref))
		}
	}
	checkSeccompWrapper(e, m, "E3.chain")
	r.Count("chain links checked", links)
	r.Floor("E3.chain(links)", links, 5)
	r.Note("uint16(len(S)) is unguarded: a program of more than 65535 instructions would be truncated in Len, but such a program is rejected by the kernel (BPF_MAXINSNS 4096) before this matters")
}

// through follows a value backwards through helper functions of the module: the result of a call to a helper with a
// single return statement is that statement's value (in the helper's context); a parameter is the caller's argument.
// ctx is the stack of calls entered (innermost last).
func through(v ssa.Value, ctx []*ssa.Call) (ssa.Value, []*ssa.Call) {
	for i := 0; i < 16; i++ {
		v = flow.StripConv(v)
		switch x := v.(type) {
		case *ssa.Call:
			cal := flow.Callee(x)
			if cal == nil || cal.Pkg == nil || !strings.HasPrefix(cal.Pkg.Pkg.Path(), load.Module) || len(cal.Blocks) == 0 {
				return v, ctx
			}
			rets := flow.Returns(cal)
			if len(rets) != 1 || len(flow.RetResults(rets[0])) != 1 {
				return v, ctx
			}
			// only helpers that merely build the value: not the conversion itself (it has a loop)
			for _, b := range cal.Blocks {
				for _, sx := range b.Succs {
					if sx.Dominates(b) {
						return v, ctx
					}
				}
			}
			ctx = append(append([]*ssa.Call{}, ctx...), x)
			v = flow.RetResults(rets[0])[0]
		case *ssa.Parameter:
			if len(ctx) == 0 {
				return v, ctx
			}
			top := ctx[len(ctx)-1]
			cal := flow.Callee(top)
			idx := -1
			for k, q := range cal.Params {
				if q == x {
					idx = k
				}
			}
			if cal != x.Parent() || idx < 0 || idx >= len(top.Call.Args) {
				return v, ctx
			}
			v = top.Call.Args[idx]
			ctx = ctx[:len(ctx)-1]
		default:
			return v, ctx
		}
	}
	return v, ctx
}

func isNamed(t types.Type, pkg, name string) bool {
	n, ok := t.(*types.Named)
	return ok && n.Obj().Pkg() != nil && n.Obj().Pkg().Path() == pkg && n.Obj().Name() == name
}

// isParamSpill: o is the alloc into which parameter prm is spilled at function entry.
func isParamSpill(o *origin.O, prm *ssa.Parameter) bool {
	al, ok := o.Val.(*ssa.Alloc)
	if !ok {
		return false
	}
	n := 0
	good := false
	for _, ref := range *al.Referrers() {
		if st, ok := ref.(*ssa.Store); ok && st.Addr == al {
			n++
			good = st.Val == prm
		}
	}
	return n == 1 && good
}

func callsToFn(fn, target *ssa.Function) []*ssa.Call {
	var out []*ssa.Call
	for _, c := range flow.Calls(fn) {
		if call, ok := c.(*ssa.Call); ok && flow.Callee(call) == target {
			out = append(out, call)
		}
	}
	return out
}

// checkSeccompWrapper: parameters reach syscall args 1..3 through conversions only.
func checkSeccompWrapper(e *Env, m *loaderModel, rule string) {
	r := e.R
	p := m.p
	for _, s := range m.sites {
		if s.name != "seccomp" {
			continue
		}
		fn := s.fn
		if len(fn.Params) != 3 || len(s.call.Call.Args) < 4 {
			r.Unknown(rule, "seccomp-wrapper/shape", p.Pos(fn.Pos()), "wrapper does not take three parameters")
			continue
		}
		for i := 0; i < 3; i++ {
			v := flow.StripConv(s.call.Call.Args[i+1])
			r.Check(v == fn.Params[i], rule, fmt.Sprintf("seccomp-wrapper/arg%d", i+1), p.Pos(s.call.Pos()),
				fmt.Sprintf("syscall argument %d is parameter %s through conversions only", i+1, fn.Params[i].Name()),
				fmt.Sprintf("syscall argument %d of seccomp(2) is not parameter %q passed through unchanged", i+1, fn.Params[i].Name()))
		}
		r.OK(rule, "seccomp-wrapper/trap", p.Pos(s.call.Pos()), fmt.Sprintf("trap number %d = SYS_SECCOMP for %s", s.trap, p.GOARCH))
	}
}

// checkSockFilterCopy (E3.copy): one SockFilter per raw instruction, in order, field for field.
func checkSockFilterCopy(e *Env, p *load.Program, fn *ssa.Function) {
	r := e.R
	rule := "E3.copy"
	key := load.FuncName(fn)
	pos := p.Pos(fn.Pos())
	if fn == nil || len(fn.Params) != 1 {
		r.Unknown(rule, key, pos, "conversion function not found or not unary")
		return
	}
	rets := flow.Returns(fn)
	if len(rets) != 1 {
		r.Unknown(rule, key, pos, "more than one return")
		return
	}
	result := flow.RetResults(rets[0])[0]
	// exactly one loop, over the parameter, visiting every index once in order, with an unconditional body
	var loop *flow.CountedLoop
	nLoops := 0
	for _, l := range flow.CountedLoops(fn) {
		nLoops++
		if l.Over == ssa.Value(fn.Params[0]) {
			loop = l
		}
	}
	shape := loop != nil && nLoops == 1 && loop.Unconditional() && flow.G(fn).Dominates(loop.Exit, rets[0].Block()) && !loop.Contains(rets[0].Block())
	if shape {
		// no other loop of any kind: every back edge of the function belongs to this loop
		g := flow.G(fn)
		for _, b := range fn.Blocks {
			for _, sx := range g.Succs(b) {
				if g.Dominates(sx, b) && sx != loop.Header {
					shape = false
				}
			}
		}
	}
	r.Check(shape, rule, key+"/loop", pos, "a single loop over the parameter that visits every index once, in order, and whose body has no branch: exactly one iteration per raw instruction",
		"the conversion loop is not a plain loop over all elements of the parameter with an unconditional body (an instruction could be skipped, repeated or reordered)")
	if !shape {
		return
	}
	// the element written per iteration, and where it goes
	var elemVal ssa.Value
	var elemAt ssa.Instruction
	switch x := result.(type) {
	case *ssa.Phi:
		// idiom A: acc starts empty and grows by append(acc, element) once per iteration
		var app *ssa.Call
		initOK := false
		if x.Block() == loop.Header && len(x.Edges) == 2 {
			for _, ed := range x.Edges {
				switch y := ed.(type) {
				case *ssa.MakeSlice:
					if k, ok := flow.ConstInt(y.Len); ok && k == 0 {
						initOK = true
					}
				case *ssa.Const:
					initOK = y.IsNil()
				case *ssa.Call:
					if bi, ok := y.Call.Value.(*ssa.Builtin); ok && bi.Name() == "append" && y.Call.Args[0] == ssa.Value(x) && loop.Contains(y.Block()) {
						app = y
					}
				}
			}
		}
		if !initOK || app == nil {
			r.Bad(rule, key+"/accumulator", pos, "the accumulator does not start empty and grow by append(acc, x) per iteration")
			return
		}
		if vals := appendedValues(app); len(vals) == 1 {
			elemVal, elemAt = vals[0], app
		}
	case *ssa.MakeSlice:
		// idiom B: out := make(T, len(param)); out[i] = element
		lc, ok := flow.StripConv(x.Len).(*ssa.Call)
		okLen := false
		if ok {
			bi, isB := lc.Call.Value.(*ssa.Builtin)
			okLen = isB && bi.Name() == "len" && lc.Call.Args[0] == ssa.Value(fn.Params[0])
		}
		if !okLen {
			r.Bad(rule, key+"/accumulator", pos, "the result is made with a length other than len(parameter)")
			return
		}
		n := 0
		for _, ref := range *x.Referrers() {
			switch y := ref.(type) {
			case *ssa.IndexAddr:
				for _, r2 := range *y.Referrers() {
					st, ok := r2.(*ssa.Store)
					if !ok || st.Addr != ssa.Value(y) {
						r.Bad(rule, key+"/accumulator", p.Pos(r2.Pos()), "an element of the result is used other than by one store per iteration")
						return
					}
					n++
					if !loop.IsIndex(y.Index) || !loop.Contains(st.Block()) {
						r.Bad(rule, key+"/accumulator", p.Pos(st.Pos()), "an element of the result is stored at a position other than the loop's current index")
						return
					}
					elemVal, elemAt = st.Val, st
				}
			case *ssa.Return, *ssa.DebugRef:
			case *ssa.Call:
				if bi, ok := y.Call.Value.(*ssa.Builtin); !ok || (bi.Name() != "len" && bi.Name() != "cap") {
					r.Bad(rule, key+"/accumulator", p.Pos(y.Pos()), "the result slice is passed to a call before it is returned")
					return
				}
			default:
				r.Bad(rule, key+"/accumulator", p.Pos(ref.Pos()), "the result slice is used by something other than the element store and the return")
				return
			}
		}
		if n != 1 {
			r.Bad(rule, key+"/accumulator", pos, fmt.Sprintf("%d element stores into the result, want exactly one per iteration", n))
			return
		}
	default:
		r.Bad(rule, key+"/accumulator", pos, "the result is neither a loop accumulator grown by append nor a slice made with len(parameter) and filled by index")
		return
	}
	var cl *ssa.Alloc
	if ld, ok := elemVal.(*ssa.UnOp); ok {
		cl, _ = ld.X.(*ssa.Alloc)
	}
	if cl == nil {
		apos := pos
		if elemAt != nil {
			apos = p.Pos(elemAt.Pos())
		}
		r.Bad(rule, key+"/element", apos, "the loop does not write exactly one composite-literal element per iteration")
		return
	}
	st, ok := cl.Type().Underlying().(*types.Pointer).Elem().Underlying().(*types.Struct)
	if !ok {
		r.Bad(rule, key+"/element", p.Pos(cl.Pos()), "the element is not a struct literal")
		return
	}
	want := map[string]string{"Code": "Op", "Jt": "Jt", "Jf": "Jf", "K": "K"}
	got := map[string]string{}
	res := origin.NewResolver()
	for _, ref := range *cl.Referrers() {
		fa, ok := ref.(*ssa.FieldAddr)
		if !ok {
			continue
		}
		for _, r2 := range *fa.Referrers() {
			if s, ok := r2.(*ssa.Store); ok && s.Addr == ssa.Value(fa) {
				name := st.Field(fa.Field).Name()
				src, isElem := loop.ElementOf(s.Val)
				got[name] = src
				w := want[name]
				r.Check(isElem && src == w, rule, key+"/field/"+name, p.Pos(s.Pos()),
					fmt.Sprintf("%s <- %s of the raw instruction at the loop's current index", name, w),
					fmt.Sprintf("SockFilter.%s is filled from %s, want the %s field of the raw instruction at the loop's current index", name, res.Of(s.Val, nil, s).String(), w))
			}
		}
	}
	for f := range want {
		if _, ok := got[f]; !ok {
			r.Bad(rule, key+"/field/"+f, p.Pos(cl.Pos()), "field "+f+" is never filled")
		}
	}
	r.Floor("E3.copy(fields)", len(got), 4)
}

// ---------------------------------------------------------------- C09

func init() {
	Specs["C09"] = &Spec{
		Level: "other",
		Explanation: "Every way the loader can learn of a failure is inspected and leads to a non-nil return: errno of both raw system calls, and the positive return value of seccomp(2) that reports a refused " +
			"thread synchronisation; every fallible call in LoadFilter has its failure edge return a non-nil error without other effects; the only `return nil` lies behind the success edge of the seccomp call; " +
			"no system call can be reached before both compile steps succeeded; the support probe performs one call with the constant triple (SECCOMP_SET_MODE_STRICT, 1, nil) and reports true only on EINVAL.",
		Trusted:     []string{"go/ssa, dominator tree", "seccomp(2)/prctl(2) return-value contract (errno; with TSYNC a positive thread id and errno 0)", "kernel: SET_MODE_STRICT with flags != 0 returns EINVAL without changing state"},
		Assumptions: []string{"that the kernel declines in each of the listed ways is kernel behaviour"},
		Run:         runC09,
	}
}

func runC09(e *Env) {
	r := e.R
	m := buildLoaderModel(e, "E3.result")
	p := m.p
	r.Floor("E3.result(raw sites)", len(m.sites), 2)
	for _, s := range m.sites {
		key := load.FuncName(s.fn) + "/" + s.name
		if s.name == "" {
			key = load.FuncName(s.fn) + fmt.Sprintf("/trap%d", s.trap)
		}
		// errno
		errno := flow.ResultN(s.call, 2)
		okErr := false
		if errno != nil {
			for _, ref := range *errno.Referrers() {
				bo, ok := ref.(*ssa.BinOp)
				if !ok || (bo.Op != token.NEQ && bo.Op != token.EQL) {
					continue
				}
				k, isK := flow.ConstInt(bo.Y)
				if !isK || k != 0 {
					continue
				}
				for _, r2 := range *bo.Referrers() {
					ifi, ok := r2.(*ssa.If)
					if !ok {
						continue
					}
					fail := ifi.Block().Succs[0]
					if bo.Op == token.EQL {
						fail = ifi.Block().Succs[1]
					}
					// the failure region returns the errno as error
					good := true
					nret := 0
					reg := flow.Region(ifi.Block(), fail)
					gs := flow.G(s.fn)
					for b := range reg {
						// nothing leaves the region: `e != 0 && e != X` lets errno X fall through to the success path
						for _, sx := range gs.Succs(b) {
							if !reg[sx] {
								good = false
							}
						}
						if ret, ok := b.Instrs[len(b.Instrs)-1].(*ssa.Return); ok {
							nret++
							last := flow.RetResults(ret)[len(flow.RetResults(ret))-1]
							if mi, ok := last.(*ssa.MakeInterface); !ok || mi.X != errno {
								if !flow.KnownNonNilError(last, b) {
									good = false
								}
							}
						}
					}
					if good && nret > 0 {
						okErr = true
					}
				}
			}
		}
		if !okErr && errno != nil {
			// `return errnoErr(e)`: a helper that maps errno 0 to nil and everything else to the errno as error, returned directly
			// or on the failure edge of a check of its result
			for _, ref := range *errno.Referrers() {
				hc, ok := ref.(*ssa.Call)
				if !ok || !errnoHelper(flow.Callee(hc)) {
					continue
				}
				for _, r2 := range *hc.Referrers() {
					if ret, ok := r2.(*ssa.Return); ok && flow.RetResults(ret)[len(flow.RetResults(ret))-1] == ssa.Value(hc) {
						okErr = true
					}
				}
				for _, ec := range flow.FindErrChecks(hc) {
					reg := flow.Region(ec.If.Block(), ec.Fail)
					gs := flow.G(s.fn)
					leak, found := false, false
					for b := range reg {
						for _, sx := range gs.Succs(b) {
							if !reg[sx] {
								leak = true
							}
						}
						if ret, ok := b.Instrs[len(b.Instrs)-1].(*ssa.Return); ok {
							last := flow.RetResults(ret)[len(flow.RetResults(ret))-1]
							if last == ssa.Value(hc) || flow.KnownNonNilError(last, b) {
								found = true
							} else {
								leak = true
							}
						}
					}
					if found && !leak {
						okErr = true
					}
				}
			}
		}
		r.Check(okErr, "E3.result", key+"/errno", p.Pos(s.call.Pos()), "errno != 0 leads to a non-nil error return", "the errno result of the raw system call is not turned into an error")
		if s.name == "seccomp" {
			r1 := flow.ResultN(s.call, 0)
			okR1 := false
			detail := "the return value r1 of seccomp(2) is discarded: with SECCOMP_FILTER_FLAG_TSYNC the kernel reports a thread it cannot synchronise as a positive return value with errno 0 and attaches nothing, so LoadFilter would return nil"
			if r1 != nil && r1.Referrers() != nil && len(*r1.Referrers()) > 0 {
				for _, ref := range *r1.Referrers() {
					bo, ok := ref.(*ssa.BinOp)
					if !ok {
						continue
					}
					// r1 compared with 0 (any of != > ==)
					var other ssa.Value = bo.Y
					if bo.Y == r1 {
						other = bo.X
					}
					k, isK := flow.ConstInt(other)
					if !isK || k != 0 {
						continue
					}
					// find blocks where this comparison is known with the "r1 != 0" polarity and that return non-nil
					for _, b := range s.fn.Blocks {
						ret, ok := b.Instrs[len(b.Instrs)-1].(*ssa.Return)
						if !ok {
							continue
						}
						pol, known := flow.CondHolds(flow.DomConds(b), bo)
						if !known {
							continue
						}
						nonzero := (bo.Op == token.NEQ && pol) || (bo.Op == token.EQL && !pol) || (bo.Op == token.GTR && pol && bo.X == r1) || (bo.Op == token.LEQ && !pol && bo.X == r1)
						if nonzero && flow.KnownNonNilError(flow.RetResults(ret)[len(flow.RetResults(ret))-1], b) {
							okR1 = true
						}
						if !nonzero && flow.IsNilConst(flow.RetResults(ret)[len(flow.RetResults(ret))-1]) {
							// fine: nil only when r1 == 0 (or sync not requested)
						}
					}
				}
				if !okR1 {
					// the shape above is one spelling; the exhaustive case split below decides whatever the spelling is
					for _, ref := range *r1.Referrers() {
						if _, isCmp := ref.(*ssa.BinOp); isCmp {
							okR1 = true
						}
					}
				}
				if !okR1 {
					detail = "r1 of seccomp(2) is read but never compared"
				}
			}
			r.Check(okR1, "E3.result", key+"/r1", p.Pos(s.call.Pos()), "a non-zero return value (refused thread-sync) leads to a non-nil error return", detail)
			if okR1 {
				checkR1Cases(e, m, s, key)
			}
			if okR1 {
				// every nil return of the wrapper must be on a path where the r1 inspection took place or sync was not requested:
				// i.e. no `return nil` may dominate-free bypass the r1 check when the TSYNC bit test holds.  We require that each
				// nil return is NOT reachable on the edge (tsync requested && r1 != 0): covered by okR1's region logic above.
			}
		}
	}
	// ---- LoadFilter error discipline
	mk := r.Mark()
	runC09intra(e, m)
	traceFallback(e, m, mk, []string{"errdisc", "order"}, "E3.errdisc", "E3.order")
	// other functions of the loader file must not be called from Policy.Assemble etc. (no syscall on the compile path)
	if pa := p.Func(load.PkgRoot, "Policy.Assemble"); pa != nil {
		for _, target := range []*ssa.Function{m.seccompW, m.prctlW} {
			r.Check(!reachesFn(pa, target, map[*ssa.Function]bool{}), "E3.order.compile", "Policy.Assemble/no-syscall/"+load.FuncName(target), p.Pos(pa.Pos()), "the compiler cannot reach a raw system call", "Policy.Assemble can reach a raw system call")
		}
	}
	checkProbe(e, m)
}

// runC09intra: error discipline and ordering read off LoadFilter as one function.
func runC09intra(e *Env, m *loaderModel) {
	r := e.R
	p := m.p
	fn := m.loadF
	if fn == nil {
		r.Unknown("E3.errdisc", "LoadFilter", "", "not found")
		return
	}
	nFallible := 0
	var fallible []*ssa.Call
	for _, c := range flow.Calls(fn) {
		call, ok := c.(*ssa.Call)
		if !ok {
			continue
		}
		if pureFailCall(call) {
			continue
		}
		if flow.ErrResult(call) == nil {
			if sig := call.Call.Signature(); sig.Results().Len() > 0 {
				has := false
				for i := 0; i < sig.Results().Len(); i++ {
					if flow.IsErrorType(sig.Results().At(i).Type()) {
						has = true
					}
				}
				if has {
					r.Bad("E3.errdisc", "LoadFilter/"+calleeName(call)+"/dropped", p.Pos(call.Pos()), "the error result of "+calleeName(call)+" is discarded")
					nFallible++
				}
			}
			continue
		}
		nFallible++
		fallible = append(fallible, call)
		failEdgeReturnsError(e, p, "E3.errdisc", "LoadFilter/"+calleeName(call), call, false)
	}
	r.Floor("E3.errdisc(fallible calls)", nFallible, 3)
	// nil returns only behind the seccomp success edge
	ws := callsToFn(fn, m.seccompW)
	for _, ret := range flow.Returns(fn) {
		res := flow.RetResults(ret)[len(flow.RetResults(ret))-1]
		if !flow.IsNilConst(res) {
			// returning a value: must be non-nil or the direct result of a fallible call
			if flow.KnownNonNilError(res, ret.Block()) {
				continue
			}
			if c, ok := res.(*ssa.Call); ok && len(ws) == 1 && c == ws[0] {
				r.OK("E3.errdisc", "LoadFilter/return-seccomp-result", p.Pos(ret.Pos()), "returns the seccomp wrapper's result directly")
				continue
			}
			r.Bad("E3.errdisc", "LoadFilter/return", p.Pos(ret.Pos()), "a return value is neither provably non-nil nor the seccomp result")
			continue
		}
		good := false
		if len(ws) == 1 {
			if errv := flow.ErrResult(ws[0]); errv != nil {
				nn, known := flow.ErrKnownAt(errv, ret)
				good = known && !nn
			}
		}
		r.Check(good, "E3.errdisc", "LoadFilter/return-nil", p.Pos(ret.Pos()), "`return nil` only behind the success edge of the seccomp call", "LoadFilter can return nil on a path that is not behind `seccomp(...) == nil`")
	}
	// ---- order: no syscall-reaching call before both compile steps succeeded
	compile := append(callsTo(fn, load.PkgRoot, "Policy.Assemble"), callsTo(fn, "golang.org/x/net/bpf", "Assemble")...)
	r.Floor("E3.order(compile steps)", len(compile), 2)
	nSys := 0
	for _, target := range []*ssa.Function{m.seccompW, m.prctlW} {
		if target == nil {
			continue
		}
		for _, c := range callsReaching(fn, target) {
			nSys++
			for _, cs := range compile {
				errv := flow.ErrResult(cs)
				good := false
				if errv != nil {
					nn, known := flow.ErrKnownAt(errv, c)
					good = known && !nn
				}
				r.Check(good, "E3.order", "LoadFilter/"+calleeName(c)+"-after-"+calleeName(cs), p.Pos(c.Pos()),
					"the system call is dominated by the success edge of "+calleeName(cs), fmt.Sprintf("%s can run although %s failed or has not run: an invalid policy could change process state", calleeName(c), calleeName(cs)))
			}
		}
	}
	r.Floor("E3.order(syscall-reaching calls)", nSys, 2)
}

func checkProbe(e *Env, m *loaderModel) {
	r := e.R
	p := m.p
	fn := p.Func(load.PkgRoot, "Supported")
	if fn == nil {
		r.Unknown("E3.probe", "Supported", "", "not found")
		return
	}
	var calls []*ssa.Call
	for _, c := range flow.Calls(fn) {
		if call, ok := c.(*ssa.Call); ok {
			calls = append(calls, call)
		} else {
			r.Bad("E3.probe", "Supported/go-defer", p.Pos(c.Pos()), "go/defer in the probe")
		}
	}
	// besides the probe itself only error predicates of the standard library (no effect on the process)
	var probes []*ssa.Call
	for _, call := range calls {
		if flow.CalleeIs(call, "errors", "Is") || flow.CalleeIs(call, "errors", "As") {
			continue
		}
		probes = append(probes, call)
	}
	if len(probes) != 1 || flow.Callee(probes[0]) != m.seccompW {
		r.Bad("E3.probe", "Supported/one-call", p.Pos(fn.Pos()), fmt.Sprintf("the probe must perform exactly one call, to the seccomp wrapper; found %d call(s)", len(probes)))
		return
	}
	c := probes[0]
	or := e.Oracle()
	op, ok1 := flow.ConstInt(c.Call.Args[0])
	fl, ok2 := flow.ConstInt(c.Call.Args[1])
	nilp := false
	if k, ok := flow.StripConv(c.Call.Args[2]).(*ssa.Const); ok && k.Value == nil {
		nilp = true
	}
	r.Check(ok1 && uint64(op) == or.Consts["SECCOMP_SET_MODE_STRICT"] && ok2 && fl != 0 && nilp, "E3.probe", "Supported/args", p.Pos(c.Pos()),
		"probe = seccomp(SECCOMP_SET_MODE_STRICT, flags != 0, nil): the kernel answers EINVAL without entering strict mode",
		fmt.Sprintf("probe arguments are (%d, %d, nil=%v): with flags 0 the kernel would really enter strict mode; anything but (STRICT, non-zero, nil) is not the documented side-effect-free probe", op, fl, nilp))
	// true only on == EINVAL
	isEinval := func(bo *ssa.BinOp) bool {
		for _, pair := range [][2]ssa.Value{{bo.X, bo.Y}, {bo.Y, bo.X}} {
			isErr := pair[0] == ssa.Value(c)
			// the error asserted to syscall.Errno: `errno, ok := err.(syscall.Errno)`
			v := pair[0]
			if mi, ok := v.(*ssa.MakeInterface); ok {
				v = mi.X
			}
			if ex, ok := v.(*ssa.Extract); ok && ex.Index == 0 {
				if ta, ok := ex.Tuple.(*ssa.TypeAssert); ok && ta.X == ssa.Value(c) && isNamed(ta.AssertedType, "syscall", "Errno") {
					isErr = true
				}
			}
			if ta, ok := v.(*ssa.TypeAssert); ok && !ta.CommaOk && ta.X == ssa.Value(c) && isNamed(ta.AssertedType, "syscall", "Errno") {
				isErr = true
			}
			if isErr {
				other := pair[1]
				if mi, ok := other.(*ssa.MakeInterface); ok {
					other = mi.X
				}
				if k, ok := flow.ConstInt(other); ok && uint64(k) == or.Consts["EINVAL"] {
					return true
				}
			}
		}
		return false
	}
	// errors.Is(err, syscall.EINVAL): for an Errno target this is the comparison (Errno.Is only answers for the os.Err* targets)
	probeCallTest = func(call *ssa.Call) bool {
		if !flow.CalleeIs(call, "errors", "Is") || len(call.Call.Args) != 2 || call.Call.Args[0] != ssa.Value(c) {
			return false
		}
		other := call.Call.Args[1]
		if mi, ok := other.(*ssa.MakeInterface); ok {
			other = mi.X
		}
		k, ok := flow.ConstInt(other)
		return ok && uint64(k) == or.Consts["EINVAL"] && isNamed(other.Type(), "syscall", "Errno")
	}
	defer func() { probeCallTest = nil }()
	for _, ret := range flow.Returns(fn) {
		good := trueImplies(flow.RetResults(ret)[0], ret.Block(), nil, isEinval, 0)
		r.Check(good, "E3.probe", "Supported/true-on-EINVAL", p.Pos(ret.Pos()), "true only when the probe's error equals EINVAL", "Supported can return true without `err == EINVAL`")
	}
}

// probeCallTest: a boolean call that is equivalent to the comparison trueImplies looks for (set by checkProbe).
var probeCallTest func(*ssa.Call) bool

// trueImplies: whenever the boolean v (evaluated at the end of block b, reached from the conditions conds) is true, a
// comparison satisfying test holds.  Handles constants under dominating branches, the comparison itself, negations,
// and phis that join such values (&&, ||, if/else assignments).
func trueImplies(v ssa.Value, b *ssa.BasicBlock, extra []flow.Cond, test func(*ssa.BinOp) bool, depth int) bool {
	if depth > 6 {
		return false
	}
	holds := func() bool {
		for _, cd := range append(flow.DomConds(b), extra...) {
			c := flow.Norm(cd)
			if call, ok := c.V.(*ssa.Call); ok && c.Pol && probeCallTest != nil && probeCallTest(call) {
				return true
			}
			bo, ok := c.V.(*ssa.BinOp)
			if !ok {
				continue
			}
			if bo.Op == token.EQL && c.Pol && test(bo) {
				return true
			}
			if bo.Op == token.NEQ && !c.Pol && test(bo) {
				return true
			}
		}
		return false
	}
	switch x := v.(type) {
	case *ssa.Const:
		if x.Value == nil || !constant.BoolVal(x.Value) {
			return true // never true
		}
		return holds()
	case *ssa.Call:
		if probeCallTest != nil && probeCallTest(x) {
			return true
		}
		return holds()
	case *ssa.BinOp:
		if x.Op == token.EQL && test(x) {
			return true
		}
		return holds()
	case *ssa.Phi:
		for i, ed := range x.Edges {
			pred := x.Block().Preds[i]
			var ex []flow.Cond
			if ifi, ok := flow.LastIf(pred); ok && len(pred.Succs) == 2 && pred.Succs[0] != pred.Succs[1] {
				ex = append(ex, flow.Cond{V: ifi.Cond, Pol: pred.Succs[0] == x.Block(), At: ifi})
			}
			if !trueImplies(ed, pred, ex, test, depth+1) {
				return false
			}
		}
		return true
	}
	return holds()
}

// ---------------------------------------------------------------- C10

func init() {
	Specs["C10"] = &Spec{
		Level: "other",
		Explanation: "Flag-word clause, plus one necessary condition of the coverage clause: Filter.Flag of LoadFilter's argument reaches argument 2 of seccomp(2) through conversions only (no mask, arithmetic or substituted constant), the flag constants equal the UAPI " +
			"values, cmd/sandbox passes FilterFlagTSync, and for every flag word containing the thread-sync bit (all 64 combinations of the UAPI flag bits) a refused synchronisation (non-zero return, errno 0) is turned into an error, so a nil result with thread-sync never means 'nothing attached'. That every thread is covered under every schedule is the kernel's seccomp_sync_threads and the scheduler: not applicable to static analysis.",
		Trusted:     []string{"go/ssa value flow", "linux/seccomp.h flag values (oracle)"},
		Assumptions: []string{"every thread / every schedule / syscalls begun after the load: kernel and scheduler behaviour, not analysed"},
		Run:         runC10,
	}
}

func runC10(e *Env) {
	r := e.R
	m := buildLoaderModel(e, "E3.flagflow")
	p := m.p
	fn := m.loadF
	if fn == nil || m.seccompW == nil {
		r.Unknown("E3.flagflow", "LoadFilter", "", "LoadFilter or seccomp wrapper not found")
		return
	}
	mk := r.Mark()
	ws := callsToFn(fn, m.seccompW)
	r.Floor("E3.flagflow.arg(wrapper calls in LoadFilter)", len(ws), 1)
	for _, w := range ws {
		o := m.res.Of(w.Call.Args[1], nil, w)
		good := origin.FieldOfParam(o, fn.Params[0], "Flag")
		r.Check(good, "E3.flagflow.arg", "LoadFilter/flags", p.Pos(w.Pos()), "the flags argument is filter.Flag, unchanged", "the flags argument of the seccomp call is "+o.String()+", not filter.Flag unchanged")
	}
	traceFallback(e, m, mk, []string{"flags"}, "E3.flagflow.arg")
	// no second installation path that cannot carry the flag word: prctl(PR_SET_SECCOMP, SECCOMP_MODE_FILTER, prog) has no
	// flags argument, so a filter installed that way covers the calling thread only, whatever Filter.Flag says
	setSeccomp := int64(e.Oracle().Consts["PR_SET_SECCOMP"])
	bad := "a filter is installed with prctl(PR_SET_SECCOMP), which has no flags argument: Filter.Flag never reaches the kernel on this path, so with thread-sync requested only the calling thread is filtered while LoadFilter reports success"
	for _, site := range m.sites {
		if site.name != "prctl" || len(site.call.Common().Args) < 2 {
			continue
		}
		opt := site.call.Common().Args[1]
		if k, isK := flow.ConstInt(opt); isK {
			r.Check(setSeccomp == 0 || k != setSeccomp, "E3.flagflow", load.FuncName(site.fn)+fmt.Sprintf("/raw-prctl-option-%d", k), p.Pos(site.call.Pos()), "this prctl call does not install a filter", bad)
			continue
		}
		prm, isPrm := flow.StripConv(opt).(*ssa.Parameter)
		if !isPrm {
			r.Unknown("E3.flagflow", load.FuncName(site.fn)+"/prctl-option", p.Pos(site.call.Pos()), "the option of a raw prctl call is neither a constant nor a parameter of its wrapper")
			continue
		}
		idx := 0
		for k, q := range site.fn.Params {
			if q == prm {
				idx = k
			}
		}
		for _, f := range p.SrcFuncs(load.PkgRoot) {
			for _, c := range callsToFn(f, site.fn) {
				if idx >= len(c.Call.Args) {
					continue
				}
				k, isK := flow.ConstInt(c.Call.Args[idx])
				if !isK {
					r.Unknown("E3.flagflow", load.FuncName(f)+"/prctl-option", p.Pos(c.Pos()), "prctl is called with a non-constant option")
					continue
				}
				r.Check(setSeccomp == 0 || k != setSeccomp, "E3.flagflow", load.FuncName(f)+fmt.Sprintf("/prctl-option-%d", k), p.Pos(c.Pos()), "this prctl call does not install a filter", bad)
			}
		}
	}
	checkSeccompWrapper(e, m, "E3.flagflow")
	// "thread-sync requested and nil returned => every thread covered" needs the refusal to be reported for
	// every flag word that contains the thread-sync bit
	for _, s := range m.sites {
		if s.name == "seccomp" {
			checkR1CasesRule(e, m, s, load.FuncName(s.fn)+"/seccomp", "E3.tsync-refusal")
		}
	}
	// constants
	or := e.Oracle()
	root := p.Pkgs[load.PkgRoot]
	for gn, un := range map[string]string{"FilterFlagTSync": "SECCOMP_FILTER_FLAG_TSYNC", "FilterFlagLog": "SECCOMP_FILTER_FLAG_LOG"} {
		c, ok := root.Types.Scope().Lookup(gn).(*types.Const)
		if !ok {
			r.Unknown("E4.flagconst", gn, "", "constant not found")
			continue
		}
		v, _ := constant.Uint64Val(c.Val())
		r.Check(v == or.Consts[un], "E4.flagconst", gn, p.Pos(c.Pos()), fmt.Sprintf("%s = %d = %s", gn, v, un), fmt.Sprintf("%s = %d but %s = %d", gn, v, un, or.Consts[un]))
	}
	// sandbox passes TSYNC
	checkSandboxFlag(e, p, "E3.tsync")
}

// checkSandboxFlag: the Filter literal passed to LoadFilter in cmd/sandbox.main carries FilterFlagTSync.
func checkSandboxFlag(e *Env, p *load.Program, rule string) {
	r := e.R
	mainFn := p.Func(load.PkgSandbox, "main")
	if mainFn == nil {
		r.Unknown(rule, "sandbox.main", "", "not found")
		return
	}
	// the function of the command that loads the filter: main, or the driver it delegates to
	var ls []*ssa.Call
	for _, f := range p.SrcFuncs(load.PkgSandbox) {
		if cs := callsTo(f, load.PkgRoot, "LoadFilter"); len(cs) > 0 {
			ls = append(ls, cs...)
			mainFn = f
		}
	}
	if len(ls) == 0 {
		// a helper of the command that receives the Filter and reaches LoadFilter
		lf := p.Func(load.PkgRoot, "LoadFilter")
		for _, c := range flow.Calls(mainFn) {
			call, ok := c.(*ssa.Call)
			if !ok || len(call.Call.Args) == 0 || !isNamed(call.Call.Args[0].Type(), load.PkgRoot, "Filter") {
				continue
			}
			if cal := flow.Callee(call); cal != nil && reachesFn(cal, lf, map[*ssa.Function]bool{}) {
				ls = append(ls, call)
			}
		}
	}
	if len(ls) != 1 {
		r.Unknown(rule, "sandbox.main/LoadFilter", p.Pos(mainFn.Pos()), fmt.Sprintf("expected one LoadFilter call, found %d", len(ls)))
		return
	}
	res := origin.NewResolver()
	// argument: load of a local Filter alloc (in main, or in a helper that only builds the literal)
	arg, _ := through(ls[0].Call.Args[0], nil)
	ld, ok := arg.(*ssa.UnOp)
	var al *ssa.Alloc
	if ok {
		al, _ = ld.X.(*ssa.Alloc)
		if fv, isFV := ld.X.(*ssa.FreeVar); isFV {
			// a variable of the enclosing function, shared by closures: the cell it is bound to
			for _, f := range p.SrcFuncs(load.PkgSandbox) {
				for _, b := range f.Blocks {
					for _, in := range b.Instrs {
						mc, isMC := in.(*ssa.MakeClosure)
						if !isMC || mc.Fn != ssa.Value(fv.Parent()) {
							continue
						}
						for i, fvar := range fv.Parent().FreeVars {
							if fvar == fv && i < len(mc.Bindings) {
								al, _ = mc.Bindings[i].(*ssa.Alloc)
							}
						}
					}
				}
			}
		}
	}
	if al == nil {
		r.Unknown(rule, "sandbox.main/filter-literal", p.Pos(ls[0].Pos()), "LoadFilter's argument is not a local Filter literal")
		return
	}
	// every value the Flag field of that variable is given: field stores, and whole-value stores of another literal,
	// in the declaring function and in the closures that capture the variable
	var flagOs []*origin.O
	var collect func(addr ssa.Value, depth int)
	collect = func(addr ssa.Value, depth int) {
		if depth > 4 || addr.Referrers() == nil {
			return
		}
		st := addr.Type().Underlying().(*types.Pointer).Elem().Underlying().(*types.Struct)
		for _, ref := range *addr.Referrers() {
			switch x := ref.(type) {
			case *ssa.FieldAddr:
				if st.Field(x.Field).Name() != "Flag" {
					continue
				}
				for _, r2 := range *x.Referrers() {
					if s, ok := r2.(*ssa.Store); ok && s.Addr == ssa.Value(x) {
						flagOs = append(flagOs, res.Of(s.Val, nil, s))
					}
				}
			case *ssa.Store:
				if x.Addr != addr {
					continue
				}
				if src, ok := x.Val.(*ssa.UnOp); ok && src.Op == token.MUL {
					if tmp, ok := src.X.(*ssa.Alloc); ok {
						n := len(flagOs)
						collect(tmp, depth+1)
						if len(flagOs) == n {
							flagOs = append(flagOs, &origin.O{Kind: origin.KConst}) // a literal without Flag: zero
						}
						continue
					}
				}
				flagOs = append(flagOs, res.Of(x.Val, nil, x))
			case *ssa.MakeClosure:
				if fn, _ := x.Fn.(*ssa.Function); fn != nil {
					for i, b := range x.Bindings {
						if b == addr && i < len(fn.FreeVars) {
							collect(fn.FreeVars[i], depth+1)
						}
					}
				}
			}
		}
	}
	collect(al, 0)
	or := e.Oracle()
	// every alternative value of the flag carries the TSYNC bit (constants, joins of constants, x | constant)
	var hasBit func(o *origin.O, depth int) bool
	hasBit = func(o *origin.O, depth int) bool {
		if o == nil || depth > 8 {
			return false
		}
		if k, ok := o.IsConstInt(); ok {
			return uint64(k)&or.Consts["SECCOMP_FILTER_FLAG_TSYNC"] != 0
		}
		switch o.Kind {
		case origin.KConv:
			return hasBit(o.Args[0], depth+1)
		case origin.KPhi:
			for _, a := range o.Args {
				if !hasBit(a, depth+1) {
					return false
				}
			}
			return len(o.Args) > 0
		case origin.KBin:
			if o.Op == token.OR {
				return hasBit(o.Args[0], depth+1) || hasBit(o.Args[1], depth+1)
			}
		}
		return false
	}
	good := len(flagOs) > 0
	for _, fo := range flagOs {
		// a later `filter.Flag |= x` reads the field back: the bit survives an OR
		if fo.Kind == origin.KBin && fo.Op == token.OR && (strings.HasSuffix(fo.Args[0].String(), ".Flag") || strings.HasSuffix(fo.Args[1].String(), ".Flag")) {
			continue
		}
		if !hasBit(fo, 0) {
			good = false
		}
	}
	r.Check(good, rule, "sandbox.main/Flag", p.Pos(ls[0].Pos()), "the sandbox requests SECCOMP_FILTER_FLAG_TSYNC (exec.Command forks from an arbitrary runtime thread)",
		"the sandbox does not request thread synchronisation: the child may be forked by a thread without the filter")
}

// ---------------------------------------------------------------- C11

func init() {
	Specs["C11"] = &Spec{
		Level: "other",
		Explanation: "In LoadFilter the call that reaches prctl(2) is control-dependent on exactly the true edge of filter.NoNewPrivs; on that edge it precedes the seccomp call and its failure returns an error; " +
			"the raw prctl site receives (PR_SET_NO_NEW_PRIVS, 1, 0, 0, 0), resolved through the variadic copy; both raw system calls execute between runtime.LockOSThread and the matching (deferred) unlock of " +
			"the same activation, so no schedule can move the goroutine to another thread between them.",
		Trusted:     []string{"go/ssa, dominators", "runtime.LockOSThread semantics", "prctl(2): PR_SET_NO_NEW_PRIVS requires arg2 = 1 and arg3..5 = 0"},
		Assumptions: []string{"that the kernel then accepts an unprivileged load is kernel behaviour; the rules are its necessary conditions"},
		Run:         runC11,
	}
}

func runC11(e *Env) {
	r := e.R
	m := buildLoaderModel(e, "E3.nnp")
	p := m.p
	fn := m.loadF
	if fn == nil || m.seccompW == nil || m.prctlW == nil {
		r.Unknown("E3.nnp", "LoadFilter", "", "LoadFilter, the seccomp wrapper or the prctl wrapper not found")
		return
	}
	mk := r.Mark()
	defer func() {
		traceFallback(e, m, mk, []string{"nnp", "pin"}, "E3.nnp", "E3.nnp.dep", "E3.nnp.before", "E3.nnp.via", "E3.pin")
	}()
	pc := callsReaching(fn, m.prctlW)
	sc := callsToFn(fn, m.seccompW)
	r.Floor("E3.nnp(prctl-reaching calls)", len(pc), 1)
	r.Floor("E3.nnp(seccomp calls)", len(sc), 1)
	for _, c := range pc {
		// control dependence: innermost dominating condition is filter.NoNewPrivs == true,
		// all other dominating conditions are success edges of fallible calls.
		conds := flow.DomConds(c.Block())
		nnp := 0
		other := 0
		for _, cd := range conds {
			o := m.res.Of(cd.V, nil, c)
			if origin.FieldOfParam(o, fn.Params[0], "NoNewPrivs") {
				if cd.Pol {
					nnp++
				} else {
					other++
				}
				continue
			}
			// err != nil (false) of an earlier call is fine
			if bo, ok := cd.V.(*ssa.BinOp); ok && (bo.Op == token.NEQ || bo.Op == token.EQL) && (flow.IsNilConst(bo.Y) || flow.IsNilConst(bo.X)) {
				continue
			}
			other++
		}
		r.Check(nnp == 1 && other == 0, "E3.nnp.dep", "LoadFilter/prctl-iff-requested", p.Pos(c.Pos()),
			"no_new_privs is set exactly on the true edge of filter.NoNewPrivs", fmt.Sprintf("the call that sets no_new_privs is not control-dependent on exactly filter.NoNewPrivs (matching conditions %d, foreign conditions %d)", nnp, other))
		// before seccomp, failure returns
		for _, s := range sc {
			// seccomp must not be able to run before c: c's block must not be reachable from s
			reach := flow.Reachable(s.Block(), nil)
			r.Check(!reach[c.Block()] || (s.Block() == c.Block() && flow.InstrIndex(c) < flow.InstrIndex(s)), "E3.nnp.before", "LoadFilter/prctl-before-seccomp", p.Pos(c.Pos()),
				"the filter is never installed before no_new_privs is set", "seccomp can be called before no_new_privs is set")
			// from c's success edge seccomp is reached; from its failure edge it is not
			if errv := flow.ErrResult(c); errv != nil {
				for _, ec := range flow.FindErrChecks(errv) {
					reg := flow.Region(ec.If.Block(), ec.Fail)
					r.Check(!reg[s.Block()] && len(reg) > 0, "E3.nnp.before", "LoadFilter/no-seccomp-after-failed-prctl", p.Pos(ec.If.Pos()),
						"a failed prctl returns before the seccomp call", "seccomp is attempted although setting no_new_privs failed")
				}
			}
		}
		failEdgeReturnsError(e, p, "E3.nnp.before", "LoadFilter/prctl-error", c, false)
	}
	// on the false edge no prctl: every path to seccomp passes either the true edge + call, or the false edge without call: implied by control dependence above plus "no other prctl-reaching call"
	checkPrctlMust(e, m, pc)
	checkPrctlArgs(e, m)
	checkPin(e, m, pc, sc)
}

// checkPrctlMust (E3.nnp.must): a nil result of the call that LoadFilter makes to set no_new_privs means the raw prctl
// really ran on this thread and succeeded: every function between LoadFilter and the raw system call returns nil only
// behind the checked success of the next one (no cached "already done" answer, no skipped call).
func checkPrctlMust(e *Env, m *loaderModel, pc []*ssa.Call) {
	r := e.R
	p := m.p
	var site *rawSite
	for _, s := range m.sites {
		if s.name == "prctl" {
			site = s
		}
	}
	if site == nil {
		return
	}
	// the wrapper: nil only under errno == 0 of the raw call
	errno := flow.ResultN(site.call, 2)
	n := 0
	for _, ret := range flow.Returns(site.fn) {
		rs := flow.RetResults(ret)
		ev := rs[len(rs)-1]
		if hc, ok := ev.(*ssa.Call); ok && errno != nil && errnoHelper(flow.Callee(hc)) && len(hc.Call.Args) == 1 && hc.Call.Args[0] == errno {
			n++
			r.OK("E3.nnp.must", load.FuncName(site.fn)+"/nil-only-after-success", p.Pos(ret.Pos()), "the wrapper returns the errno converted by a helper that yields nil only for errno 0")
			continue
		}
		if !flow.IsNilConst(ev) && !flow.KnownNilError(ev, ret.Block()) {
			// non-nil or the errno itself: fine when it is the errno or provably non-nil
			if mi, ok := ev.(*ssa.MakeInterface); ok && errno != nil && mi.X == errno {
				// returns the errno converted to error: nil never (Errno(0) is a non-nil interface); accepted only under errno != 0
			}
			if flow.KnownNonNilError(ev, ret.Block()) {
				continue
			}
		}
		n++
		good := false
		for _, cd := range flow.DomConds(ret.Block()) {
			pr, ok := flow.AsIntPred(cd.V, cd.Pol)
			if ok && errno != nil && flow.StripConv(pr.X) == errno && pr.OnlyZero() {
				good = true
			}
		}
		r.Check(good, "E3.nnp.must", load.FuncName(site.fn)+"/nil-only-after-success", p.Pos(ret.Pos()),
			"the prctl wrapper returns nil only when the raw call's errno is 0", "the prctl wrapper can return nil without the raw prctl having succeeded")
	}
	r.Floor("E3.nnp.must(nil returns of the wrapper)", n, 1)
	isWrapper := func(c *ssa.Call) bool { return flow.Callee(c) == site.fn }
	seen := map[*ssa.Function]bool{site.fn: true}
	var walk func(f *ssa.Function, depth int)
	walk = func(f *ssa.Function, depth int) {
		if f == nil || seen[f] || depth > 4 || len(f.Blocks) == 0 {
			return
		}
		seen[f] = true
		r.Check(establishes(f, isWrapper, 0), "E3.nnp.via", load.FuncName(f)+"/nil-only-after-prctl", p.Pos(f.Pos()),
			"returns nil only behind the checked success of the prctl wrapper: a nil result means the bit was set on the calling thread by this call",
			load.FuncName(f)+" can return nil without having called prctl on the calling thread (for example because an earlier success is remembered): no_new_privs is a per-thread attribute, so the thread that calls seccomp(2) may not have it and an unprivileged load fails with EACCES")
		for _, c := range flow.Calls(f) {
			if call, ok := c.(*ssa.Call); ok {
				cal := flow.Callee(call)
				if cal != nil && cal != site.fn && reachesFn(cal, site.fn, map[*ssa.Function]bool{}) {
					walk(cal, depth+1)
				}
			}
		}
	}
	for _, c := range pc {
		if cal := flow.Callee(c); cal != site.fn {
			walk(cal, 0)
		}
	}
}

// errnoHelper: func(e syscall.Errno) error that returns nil exactly when e == 0 and a non-nil error otherwise.
func errnoHelper(h *ssa.Function) bool {
	if h == nil || len(h.Blocks) == 0 || len(h.Params) != 1 || h.Signature.Results().Len() != 1 || !flow.IsErrorType(h.Signature.Results().At(0).Type()) {
		return false
	}
	if !isNamed(h.Params[0].Type(), "syscall", "Errno") {
		return false
	}
	e := h.Params[0]
	nNil, nErr := 0, 0
	for _, ret := range flow.Returns(h) {
		v := flow.RetResults(ret)[0]
		zero, nonzero := false, false
		for _, cd := range flow.DomConds(ret.Block()) {
			if pr, ok := flow.AsIntPred(cd.V, cd.Pol); ok && flow.StripConv(pr.X) == ssa.Value(e) {
				if pr.OnlyZero() {
					zero = true
				}
				if pr.NonZero() {
					nonzero = true
				}
			}
		}
		switch {
		case flow.IsNilConst(v) && zero:
			nNil++
		case nonzero && (flow.KnownNonNilError(v, ret.Block())):
			nErr++
		default:
			return false
		}
	}
	return nNil > 0 && nErr > 0
}

// checkPrctlArgs resolves the five arguments of the raw prctl site through the variadic copy.
func checkPrctlArgs(e *Env, m *loaderModel) {
	r := e.R
	p := m.p
	or := e.Oracle()
	var site *rawSite
	for _, s := range m.sites {
		if s.name == "prctl" {
			site = s
		}
	}
	if site == nil {
		return
	}
	w := site.fn
	// callers of the wrapper inside the root package
	nCallers := 0
	for _, fn := range p.SrcFuncs(load.PkgRoot) {
		for _, call := range callsToFn(fn, w) {
			nCallers++
			key := load.FuncName(fn) + "->" + load.FuncName(w)
			// bind parameters: option, variadic slice
			vals, why := resolveVariadicSyscallArgs(site, call)
			if vals == nil {
				r.Unknown("E3.nnp.args", key, p.Pos(call.Pos()), "cannot resolve the raw prctl arguments: "+why)
				continue
			}
			want := []int64{int64(or.Consts["PR_SET_NO_NEW_PRIVS"]), 1, 0, 0, 0}
			good := len(vals) >= 5
			for i := 0; good && i < 5; i++ {
				good = vals[i] == want[i]
			}
			r.Check(good, "E3.nnp.args", key, p.Pos(call.Pos()), "raw prctl receives (PR_SET_NO_NEW_PRIVS=38, 1, 0, 0, 0)", fmt.Sprintf("raw prctl receives %v, want %v (the kernel rejects anything else with EINVAL, or sets nothing)", vals, want))
		}
	}
	r.Floor("E3.nnp.args(callers)", nCallers, 1)
}

// resolveVariadicSyscallArgs evaluates the arguments 1..5 of the raw site for one
// caller of wrapper(option, args ...uintptr) that copies args into a zeroed local array.
func resolveVariadicSyscallArgs(site *rawSite, call *ssa.Call) ([]int64, string) {
	w := site.fn
	if len(w.Params) != 2 || len(call.Call.Args) != 2 {
		return nil, "wrapper is not (option, args...)"
	}
	// caller side: constant option, varargs array with constant elements
	opt, ok := flow.ConstInt(call.Call.Args[0])
	if !ok {
		return nil, "option is not constant"
	}
	var variadic []int64
	switch a := call.Call.Args[1].(type) {
	case *ssa.Const:
		if !a.IsNil() {
			return nil, "variadic argument"
		}
	case *ssa.Slice:
		al, ok := a.X.(*ssa.Alloc)
		if !ok {
			return nil, "variadic argument is not a fresh array"
		}
		at := al.Type().Underlying().(*types.Pointer).Elem().Underlying().(*types.Array)
		variadic = make([]int64, at.Len())
		set := make([]bool, at.Len())
		for _, ref := range *al.Referrers() {
			ia, ok := ref.(*ssa.IndexAddr)
			if !ok {
				continue
			}
			idx, ok := flow.ConstInt(ia.Index)
			if !ok {
				return nil, "variadic element index"
			}
			for _, r2 := range *ia.Referrers() {
				if st, ok := r2.(*ssa.Store); ok && st.Addr == ia {
					v, ok := flow.ConstInt(st.Val)
					if !ok || set[idx] {
						return nil, "variadic element is not a single constant"
					}
					variadic[idx] = v
					set[idx] = true
				}
			}
		}
	default:
		return nil, "variadic argument shape"
	}
	// wrapper side: constant propagation with the caller's constants, along the path to the system call
	cp := newCprop(w)
	cp.bind[w.Params[0]] = cInt(opt)
	if variadic == nil {
		cp.bind[w.Params[1]] = cval{kind: 3}
	} else {
		sv := cval{kind: 2}
		for _, k := range variadic {
			sv.elems = append(sv.elems, cInt(k))
		}
		cp.bind[w.Params[1]] = sv
	}
	if ok, why := cp.runTo(site.call); !ok {
		return nil, why
	}
	var out []int64
	for _, a := range site.call.Call.Args[1:] {
		v := cp.val(a)
		if v.kind != 1 {
			return nil, "a system call argument does not fold to a constant for this caller"
		}
		out = append(out, v.i)
	}
	return out, ""
}

// checkPin: typestate {unpinned, pinned}: both system-call-reaching calls execute between
// runtime.LockOSThread and the unlock (deferred, or explicit after the seccomp call).
func checkPin(e *Env, m *loaderModel, pc, sc []*ssa.Call) {
	r := e.R
	p := m.p
	fn := m.loadF
	var locks []ssa.Instruction
	var unlocks []ssa.Instruction
	var deferredUnlock []ssa.Instruction
	for _, c := range flow.Calls(fn) {
		switch {
		case flow.CalleeIs(c, "runtime", "LockOSThread"):
			if _, isCall := c.(*ssa.Call); isCall {
				locks = append(locks, c)
			}
		case flow.CalleeIs(c, "runtime", "UnlockOSThread"):
			if _, isDefer := c.(*ssa.Defer); isDefer {
				deferredUnlock = append(deferredUnlock, c)
			} else if _, isCall := c.(*ssa.Call); isCall {
				unlocks = append(unlocks, c)
			}
		}
	}
	all := append(append([]*ssa.Call{}, pc...), sc...)
	for _, c := range all {
		key := "LoadFilter/" + calleeName(c)
		pinned := false
		for _, l := range locks {
			if !flow.InstrDominates(l, c) {
				continue
			}
			// no explicit unlock on any path between the lock and c
			clean := true
			for _, u := range unlocks {
				if reachesBetween(l, u, c) {
					clean = false
				}
			}
			if clean {
				pinned = true
			}
		}
		r.Check(pinned, "E3.pin", key, p.Pos(c.Pos()),
			"executes on a goroutine locked to its OS thread (runtime.LockOSThread dominates, no unlock in between)",
			"not bracketed by runtime.LockOSThread: the goroutine can be moved to another OS thread between prctl(PR_SET_NO_NEW_PRIVS) and seccomp(2); the kernel then sees a thread without the bit (EACCES for an unprivileged process)")
	}
	// the lock is released: a deferred unlock after the lock, or an explicit unlock post-dominating
	if len(locks) > 0 {
		rel := false
		for _, d := range deferredUnlock {
			for _, l := range locks {
				if flow.InstrDominates(l, d) {
					rel = true
				}
			}
		}
		if !rel && len(unlocks) > 0 {
			rel = true // explicit unlocks exist; their placement relative to the calls was checked above
		}
		r.Check(rel, "E3.pin", "LoadFilter/unlock", p.Pos(locks[0].Pos()), "the thread lock is released (deferred unlock)", "runtime.LockOSThread without a matching UnlockOSThread: the goroutine stays wired to its thread")
	}
}

// reachesBetween: is there a path lock -> u -> c (u executed after lock and before c)?
func reachesBetween(lock, u, c ssa.Instruction) bool {
	return instrReaches(lock, u) && instrReaches(u, c)
}

func instrReaches(a, b ssa.Instruction) bool {
	if a.Block() == b.Block() && flow.InstrIndex(a) < flow.InstrIndex(b) {
		return true
	}
	for _, s := range a.Block().Succs {
		if flow.Reachable(s, nil)[b.Block()] {
			return true
		}
	}
	return false
}

// checkR1Cases: exhaustive case split over the flag word (all combinations of the six UAPI flag bits) and
// r1 in {0, non-zero}, errno = 0: the wrapper's branch conditions only test bits of `flags` and compare r1 with 0,
// so following its CFG under each case is a complete decision table.  Whenever thread-sync is requested without
// TSYNC_ESRCH and the kernel returned a non-zero value, the wrapper must return a non-nil error.
func checkR1Cases(e *Env, m *loaderModel, s *rawSite, key string) {
	checkR1CasesRule(e, m, s, key, "E3.result")
}

func checkR1CasesRule(e *Env, m *loaderModel, s *rawSite, key, rule string) {
	r := e.R
	p := m.p
	or := e.Oracle()
	fn := s.fn
	tsync := int64(or.Consts["SECCOMP_FILTER_FLAG_TSYNC"])
	esrch := int64(or.Consts["SECCOMP_FILTER_FLAG_TSYNC_ESRCH"])
	r1v := flow.ResultN(s.call, 0)
	errv := flow.ResultN(s.call, 2)
	type env struct {
		flags, r1, op int64
		params        map[*ssa.Parameter]int64 // bindings inside a helper that is being evaluated
	}
	// the errno of the call converted by a helper that maps 0 to nil
	nilErrno := func(v ssa.Value) bool {
		c, ok := v.(*ssa.Call)
		return ok && errv != nil && len(c.Call.Args) == 1 && c.Call.Args[0] == errv && errnoHelper(flow.Callee(c))
	}
	// phi values are resolved by the edge the path came in on (short-circuit && / || in a case expression)
	phiVal := map[*ssa.Phi]int64{}
	var eval func(v ssa.Value, en env, depth int) (int64, bool)
	var walk func(f *ssa.Function, en env, depth int) *ssa.Return
	eval = func(v ssa.Value, en env, depth int) (int64, bool) {
		if depth > 20 {
			return 0, false
		}
		if k, ok := flow.ConstInt(v); ok {
			return k, true
		}
		switch x := v.(type) {
		case *ssa.Call:
			// a small helper of the module over integers and booleans (`flags.in(set)`, `hasFlag(flags, f)`): evaluated with
			// its parameters bound to the arguments' values
			cal := x.Call.StaticCallee()
			if cal == nil || x.Call.IsInvoke() || len(cal.Blocks) == 0 || len(cal.Blocks) > 12 || cal.Pkg == nil || !strings.HasPrefix(cal.Pkg.Pkg.Path(), load.Module) ||
				cal.Signature.Results().Len() != 1 || len(cal.Params) != len(x.Call.Args) || depth > 8 {
				return 0, false
			}
			sub := env{flags: en.flags, r1: en.r1, op: en.op, params: map[*ssa.Parameter]int64{}}
			for i, a := range x.Call.Args {
				av, ok := eval(a, en, depth+1)
				if !ok {
					return 0, false
				}
				sub.params[cal.Params[i]] = av
			}
			ret := walk(cal, sub, depth+1)
			if ret == nil {
				return 0, false
			}
			return eval(flow.RetResults(ret)[0], sub, depth+1)
		case *ssa.Const:
			if x.Value != nil && x.Value.Kind() == constant.Bool {
				if constant.BoolVal(x.Value) {
					return 1, true
				}
				return 0, true
			}
		case *ssa.Phi:
			k, ok := phiVal[x]
			return k, ok
		case *ssa.Parameter:
			if en.params != nil {
				k, ok := en.params[x]
				return k, ok
			}
			if x == fn.Params[1] {
				return en.flags, true
			}
			if x == fn.Params[0] {
				return en.op, true
			}
		case *ssa.Convert:
			return eval(x.X, en, depth+1)
		case *ssa.ChangeType:
			return eval(x.X, en, depth+1)
		case *ssa.Extract:
			if ssa.Value(x) == r1v {
				return en.r1, true
			}
			if ssa.Value(x) == errv {
				return 0, true
			}
		case *ssa.UnOp:
			if x.Op == token.NOT {
				a, ok := eval(x.X, en, depth+1)
				if a == 0 {
					return 1, ok
				}
				return 0, ok
			}
		case *ssa.BinOp:
			bv := func(c bool) (int64, bool) {
				if c {
					return 1, true
				}
				return 0, true
			}
			// errnoErr(e) ==/!= nil: errno is 0 in every case, so the converted error is nil
			if x.Op == token.EQL || x.Op == token.NEQ {
				if (nilErrno(x.X) && flow.IsNilConst(x.Y)) || (nilErrno(x.Y) && flow.IsNilConst(x.X)) {
					return bv(x.Op == token.EQL)
				}
			}
			a, ok1 := eval(x.X, en, depth+1)
			b, ok2 := eval(x.Y, en, depth+1)
			if !ok1 || !ok2 {
				return 0, false
			}
			switch x.Op {
			case token.AND:
				return a & b, true
			case token.OR:
				return a | b, true
			case token.XOR:
				return a ^ b, true
			case token.AND_NOT:
				return a &^ b, true
			case token.EQL:
				return bv(a == b)
			case token.NEQ:
				return bv(a != b)
			case token.GTR:
				return bv(a > b)
			case token.LSS:
				return bv(a < b)
			case token.GEQ:
				return bv(a >= b)
			case token.LEQ:
				return bv(a <= b)
			}
		}
		return 0, false
	}
	walk = func(f *ssa.Function, en env, depth int) *ssa.Return {
		b := f.Blocks[0]
		var ret *ssa.Return
		var prev *ssa.BasicBlock
		for steps := 0; steps < 50 && b != nil; steps++ {
			// bind the phis of this block by the incoming edge
			for _, in := range b.Instrs {
				ph, ok := in.(*ssa.Phi)
				if !ok {
					break
				}
				for i, pb := range b.Preds {
					if pb == prev {
						if v, ok := eval(ph.Edges[i], en, 0); ok {
							phiVal[ph] = v
						}
					}
				}
			}
			cur := b
			last := b.Instrs[len(b.Instrs)-1]
			switch x := last.(type) {
			case *ssa.Return:
				ret = x
				b = nil
			case *ssa.If:
				c, ok := eval(x.Cond, en, 0)
				if !ok {
					b = nil
					break
				}
				if c != 0 {
					b = b.Succs[0]
				} else {
					b = b.Succs[1]
				}
			case *ssa.Jump:
				b = b.Succs[0]
			default:
				b = nil
			}
			prev = cur
		}
		return ret
	}
	nCases, bad, und := 0, 0, 0
	var firstBad string
	for flags := int64(0); flags < 64; flags++ {
		for _, r1 := range []int64{0, 7} {
			nCases++
			en := env{flags: flags, r1: r1, op: int64(or.Consts["SECCOMP_SET_MODE_FILTER"])}
			for k := range phiVal {
				delete(phiVal, k)
			}
			ret := walk(fn, en, 0)
			if ret == nil {
				und++
				continue
			}
			res := flow.RetResults(ret)
			isNil := flow.IsNilConst(res[len(res)-1]) || nilErrno(res[len(res)-1])
			mustFail := flags&tsync != 0 && flags&esrch == 0 && r1 != 0
			if mustFail && isNil {
				bad++
				if firstBad == "" {
					firstBad = fmt.Sprintf("flags=%#x (tsync with other bits), return value %d, errno 0 -> the wrapper returns nil", flags, r1)
				}
			}
		}
	}
	if und > 0 {
		r.Unknown(rule, key+"/r1-cases", p.Pos(s.call.Pos()), fmt.Sprintf("%d of %d (flags, r1) cases could not be followed through the wrapper's branch conditions", und, nCases))
		return
	}
	r.Check(bad == 0, rule, key+"/r1-cases", p.Pos(s.call.Pos()),
		fmt.Sprintf("%d cases (64 flag words x r1 in {0, non-zero}): every refused thread-sync (TSYNC set, TSYNC_ESRCH clear, non-zero return) yields a non-nil error", nCases),
		fmt.Sprintf("%d of %d (flags, r1) cases return nil although the kernel refused the thread synchronisation, e.g. %s: LoadFilter reports success with no filter attached", bad, nCases, firstBad))
}
