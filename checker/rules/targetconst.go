package rules

import (
	"fmt"
	"go/ast"
	"go/constant"
	"go/token"
	"go/types"
	"sort"
	"strings"

	"golang.org/x/tools/go/ssa"

	"golang.org/x/tools/go/packages"

	"sbpfcheck/load"
)

// checkTargetConsts decides rule+".target": every constant expression of the
// package has, under the 32-bit size models of the Go ports (386: 4-byte
// pointers and 4-byte alignment of 64-bit words; arm: 4-byte pointers, 8-byte
// alignment), the value it has under the loaded 64-bit target. The program the
// kernel runs reads struct seccomp_data, whose layout is the same on every
// architecture, so an offset or size that is computed from a Go type whose
// layout moves with the target (unsafe.Offsetof/Sizeof/Alignof over uintptr,
// int, pointers or padded 64-bit fields) makes the filter read the wrong word
// on some ports while every 64-bit build looks right. The package's own syntax
// is type-checked again with types.SizesFor("gc", arch) and the constant
// expressions inside the functions the given roots reach (the program-building
// code; a named constant counts where it is used) are compared; its imports are the
// already loaded packages, so constants that come from a dependency keep the
// loaded target's value (the thorough tier, which loads the real 32-bit
// targets, covers those).
func checkTargetConsts(e *Env, p *load.Program, pkgPath, rule string, roots ...*ssa.Function) {
	r := e.R
	rule = rule + ".target"
	// the functions that build the program: everything the roots reach
	// inside the module (static callees, closures, function values)
	type span struct{ lo, hi token.Pos }
	var spans []span
	fseen := map[*ssa.Function]bool{}
	var visit func(f *ssa.Function)
	visit = func(f *ssa.Function) {
		if f == nil || fseen[f] || f.Pkg == nil || !strings.HasPrefix(f.Pkg.Pkg.Path(), load.Module) {
			return
		}
		fseen[f] = true
		if sx := f.Syntax(); sx != nil && f.Pkg.Pkg.Path() == pkgPath {
			spans = append(spans, span{sx.Pos(), sx.End()})
		}
		for _, b := range f.Blocks {
			for _, in := range b.Instrs {
				for _, op := range in.Operands(nil) {
					if g, ok := (*op).(*ssa.Function); ok {
						visit(g)
					}
				}
			}
		}
	}
	for _, f := range roots {
		visit(f)
	}
	inScope := func(pos token.Pos) bool {
		for _, s := range spans {
			if pos >= s.lo && pos < s.hi {
				return true
			}
		}
		return false
	}
	pk := p.Pkgs[pkgPath]
	if pk == nil || pk.TypesInfo == nil {
		r.Unknown(rule, "package", "", "package "+pkgPath+" is not loaded")
		return
	}
	imp := importerOf(pk.Imports)
	n, compared := 0, 0
	seen := map[string]bool{}
	for _, arch := range []string{"386", "arm"} {
		info := &types.Info{Types: map[ast.Expr]types.TypeAndValue{}}
		var terr error
		conf := types.Config{
			Sizes:    types.SizesFor("gc", arch),
			Importer: imp,
			Error: func(err error) {
				if terr == nil {
					terr = err
				}
			},
		}
		conf.Check(pk.PkgPath, p.Fset, pk.Syntax, info)
		if terr != nil {
			r.Unknown(rule, "typecheck/"+arch, "", fmt.Sprintf("type-check under the %s size model failed: %v", arch, terr))
			continue
		}
		type diff struct {
			pos  token.Pos
			end  token.Pos
			text string
			a, b string
		}
		var diffs []diff
		for ex, tv := range pk.TypesInfo.Types {
			if tv.Value == nil || !inScope(ex.Pos()) {
				continue
			}
			// (the checker records synthetic operands, such as the 1 of x++,
			// under nodes of its own: those have no counterpart)
			tv2, ok := info.Types[ex]
			if !ok {
				continue
			}
			compared++
			if tv2.Value == nil {
				diffs = append(diffs, diff{ex.Pos(), ex.End(), types.ExprString(ex), tv.Value.ExactString(), "not constant"})
				continue
			}
			if !constant.Compare(tv.Value, token.EQL, tv2.Value) {
				diffs = append(diffs, diff{ex.Pos(), ex.End(), types.ExprString(ex), tv.Value.ExactString(), tv2.Value.ExactString()})
			}
		}
		// report outermost differing expressions only
		sort.Slice(diffs, func(i, j int) bool {
			if diffs[i].pos != diffs[j].pos {
				return diffs[i].pos < diffs[j].pos
			}
			return diffs[i].end > diffs[j].end
		})
		var lastEnd token.Pos
		for _, d := range diffs {
			if d.pos < lastEnd {
				continue
			}
			lastEnd = d.end
			key := "const/" + arch + "/" + enclosingDecl(pk.Syntax, d.pos) + "/" + d.text
			if seen[key] {
				continue
			}
			seen[key] = true
			n++
			r.Bad(rule, key, p.Pos(d.pos), fmt.Sprintf("the constant expression %s is %s on %s/%s but %s under the %s size model: a value the generated program or the kernel interface depends on must not move with the Go target's type layout (struct seccomp_data and the prctl/seccomp ABI are the same everywhere)", d.text, d.a, p.GOOS, p.GOARCH, d.b, arch))
		}
	}
	if n == 0 && compared > 0 {
		r.OK(rule, "constants", "", fmt.Sprintf("%d constant expressions in the %d functions of %s that build the program keep their value under the 386 and arm size models", compared/2, len(spans), pkgPath))
	} else if compared == 0 {
		r.Unknown(rule, "constants", "", "no constant expression of the program-building functions was compared")
	}
	r.Count("constant expressions compared across size models", compared/2)
}

type mapImporter map[string]*types.Package

func (m mapImporter) Import(path string) (*types.Package, error) {
	if p, ok := m[path]; ok {
		return p, nil
	}
	return nil, fmt.Errorf("package %s is not among the loaded imports", path)
}

func importerOf(imps map[string]*packages.Package) mapImporter {
	m := mapImporter{"unsafe": types.Unsafe}
	for path, ip := range imps {
		if ip.Types != nil {
			m[path] = ip.Types
		}
	}
	return m
}

func enclosingDecl(files []*ast.File, pos token.Pos) string {
	for _, f := range files {
		if pos < f.Pos() || pos >= f.End() {
			continue
		}
		for _, d := range f.Decls {
			if pos < d.Pos() || pos >= d.End() {
				continue
			}
			switch x := d.(type) {
			case *ast.FuncDecl:
				if x.Recv != nil && len(x.Recv.List) > 0 {
					return types.ExprString(x.Recv.List[0].Type) + "." + x.Name.Name
				}
				return x.Name.Name
			case *ast.GenDecl:
				for _, s := range x.Specs {
					if pos < s.Pos() || pos >= s.End() {
						continue
					}
					switch y := s.(type) {
					case *ast.ValueSpec:
						if len(y.Names) > 0 {
							return y.Names[0].Name
						}
					case *ast.TypeSpec:
						return y.Name.Name
					}
				}
				return x.Tok.String()
			}
		}
	}
	return "?"
}
