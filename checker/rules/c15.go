package rules

import (
	"fmt"
	"go/token"
	"go/types"
	"strings"

	"golang.org/x/tools/go/ssa"

	"sbpfcheck/flow"
	"sbpfcheck/load"
	"sbpfcheck/origin"
)

func init() {
	Specs["C15"] = &Spec{
		Level: "other",
		Explanation: "In cmd/sandbox every call that can start a process is dominated by the success edges of parsePolicy and of seccomp.LoadFilter (os.Exit/log.Fatal are treated as not returning); every failure edge " +
			"(no arguments, parse error, load error, run error) reaches os.Exit with a non-zero constant without passing a process-starting call; the Policy of the Filter literal is the dereferenced result of " +
			"parsePolicy, whose own fallible calls return their errors; the literal carries FilterFlagTSync. That the target then observes exactly the policy's decisions is C01-C08 plus the kernel and is not claimed here.",
		Trusted:     []string{"go/ssa + dominators on the no-return-pruned CFG", "os.Exit / log.Fatal do not return", "os/exec: only Run/Start/Output/CombinedOutput, os.StartProcess, syscall.Exec/ForkExec start a process"},
		Assumptions: []string{"the target observing exactly the policy's decisions depends on C01-C08 and the kernel"},
		Run:         runC15,
	}
}

// exitByReturn: the driver function whose integer result main hands to os.Exit (nil when main does the work itself).
var exitByReturn *ssa.Function

// exitByErr is the error-returning driver (`if err := run(...); err != nil { ...; os.Exit(1) }`), driverCall main's call to it.
var (
	exitByErr  *ssa.Function
	driverCall *ssa.Call
)

func isProcessStart(c ssa.CallInstruction) bool {
	for _, n := range []string{"Cmd.Run", "Cmd.Start", "Cmd.Output", "Cmd.CombinedOutput"} {
		if flow.CalleeIs(c, "os/exec", n) {
			return true
		}
	}
	return flow.CalleeIs(c, "os", "StartProcess") || flow.CalleeIs(c, "syscall", "Exec") || flow.CalleeIs(c, "syscall", "ForkExec") ||
		flow.CalleeIs(c, "syscall", "StartProcess") || flow.CalleeIs(c, "golang.org/x/sys/unix", "Exec")
}

func runC15(e *Env) {
	r := e.R
	p := e.Host()
	mainFn := p.Func(load.PkgSandbox, "main")
	if mainFn == nil {
		r.Unknown("E3.exec-dom", "sandbox.main", "", "not found")
		return
	}
	// `func main() { os.Exit(run()) }`: the work is done by a driver whose integer result is the exit status; the rules
	// below are then applied to the driver, a `return k` with a non-zero constant counting as an exit
	exitByReturn = nil
	for _, c := range flow.Calls(mainFn) {
		if !flow.CalleeIs(c, "os", "Exit") || len(c.Common().Args) != 1 {
			continue
		}
		if dc, ok := flow.StripConv(c.Common().Args[0]).(*ssa.Call); ok {
			if d := flow.Callee(dc); d != nil && d.Pkg != nil && d.Pkg.Pkg.Path() == load.PkgSandbox && len(d.Blocks) > 0 {
				// main does nothing else that matters: no process start, no other call into the package
				only := true
				for _, c2 := range flow.Calls(mainFn) {
					if c2 == c || c2 == ssa.CallInstruction(dc) {
						continue
					}
					if isProcessStart(c2) {
						only = false
					}
				}
				if only {
					exitByReturn = d
					mainFn = d
				}
			}
		}
	}
	// `if err := run(...); err != nil { report; os.Exit(1) }`: the work is done by a driver that returns an error; main
	// terminates with a non-zero status exactly when the driver fails, so inside the driver a return of a provably non-nil
	// error counts as an exit
	exitByErr = nil
	if exitByReturn == nil {
		hasStart := func(f *ssa.Function) bool {
			for _, c := range flow.Calls(f) {
				if isProcessStart(c) {
					return true
				}
			}
			return false
		}
		if !hasStart(mainFn) {
			for _, c := range flow.Calls(mainFn) {
				dc, ok := c.(*ssa.Call)
				if !ok {
					continue
				}
				d := flow.Callee(dc)
				if d == nil || d.Pkg == nil || d.Pkg.Pkg.Path() != load.PkgSandbox || len(d.Blocks) == 0 || !hasStart(d) {
					continue
				}
				n := d.Signature.Results().Len()
				if n != 1 || !flow.IsErrorType(d.Signature.Results().At(0).Type()) {
					continue
				}
				if failEdgeNoReturn(e, p, "E3.exit", "sandbox.main/"+load.FuncName(d)+"-failure", dc) {
					exitByErr = d
					driverCall = dc
					mainFn = d
				}
			}
		}
	}
	g := flow.G(mainFn)
	// process starts anywhere in the package
	var starts []ssa.CallInstruction
	for _, fn := range p.SrcFuncs(load.PkgSandbox) {
		for _, c := range flow.Calls(fn) {
			if isProcessStart(c) {
				if fn != mainFn {
					r.Unknown("E3.exec-dom", load.FuncName(fn)+"/start", p.Pos(c.Pos()), "a process is started outside main: the dominance argument is made for main only")
					continue
				}
				starts = append(starts, c)
			}
		}
	}
	r.Floor("E3.exec-dom(process-start sites)", len(starts), 1)
	// the load step: seccomp.LoadFilter itself, or a helper of this package that reaches it; a helper must
	// return nil only behind LoadFilter's success
	isLoadFilter := func(c *ssa.Call) bool { return flow.CalleeIs(c, load.PkgRoot, "LoadFilter") }
	loads := callsTo(mainFn, load.PkgRoot, "LoadFilter")
	if len(loads) == 0 {
		lf := p.Func(load.PkgRoot, "LoadFilter")
		for _, c := range flow.Calls(mainFn) {
			call, ok := c.(*ssa.Call)
			if !ok {
				continue
			}
			cal := flow.Callee(call)
			if cal == nil || cal.Pkg == nil || cal.Pkg.Pkg.Path() != load.PkgSandbox || !reachesFn(cal, lf, map[*ssa.Function]bool{}) {
				continue
			}
			loads = append(loads, call)
			r.Check(establishes(cal, isLoadFilter, 0), "E3.exec-dom", "sandbox."+load.FuncName(cal)+"/nil-only-after-successful-load", p.Pos(call.Pos()),
				"the helper returns nil only behind a successful seccomp.LoadFilter",
				"the helper "+load.FuncName(cal)+" can return nil although seccomp.LoadFilter failed (e.g. a retry whose error is dropped): main sees success and starts the target without a filter")
		}
	}
	var parses []*ssa.Call
	for _, c := range flow.Calls(mainFn) {
		if call, ok := c.(*ssa.Call); ok {
			if cal := flow.Callee(call); cal != nil && cal.Pkg != nil && cal.Pkg.Pkg.Path() == load.PkgSandbox && cal.Signature.Results().Len() == 2 {
				if pt, ok := cal.Signature.Results().At(0).Type().(*types.Pointer); ok && isNamed(pt.Elem(), load.PkgRoot, "Policy") {
					parses = append(parses, call)
				}
			}
		}
	}
	if len(loads) != 1 || len(parses) != 1 {
		r.Unknown("E3.exec-dom", "sandbox.main/shape", p.Pos(mainFn.Pos()), fmt.Sprintf("expected one LoadFilter call and one policy-parsing call, found %d and %d", len(loads), len(parses)))
		return
	}
	for _, s := range starts {
		for _, dep := range []*ssa.Call{parses[0], loads[0]} {
			errv := flow.ErrResult(dep)
			good := false
			if errv != nil && g.Live(s.Block()) {
				nn, known := flow.ErrKnownAt(errv, s)
				good = known && !nn
			}
			if !good && errv != nil {
				// one error variable for several steps, or the check behind a join: every path to the start has the step's success (E9)
				d := dep
				good, _ = pathsOf(p, mainFn).successBefore(s, func(c *ssa.Call) bool { return c == d })
			}
			r.Check(good, "E3.exec-dom", "sandbox.main/"+calleeNameCI(s)+"-after-"+calleeName(dep), p.Pos(s.Pos()),
				"the target is started only behind the success edge of "+calleeName(dep),
				fmt.Sprintf("the target can be started although %s failed or did not run (the process-start call is not dominated by its `err == nil` edge)", calleeName(dep)))
		}
	}
	// failure edges exit non-zero
	type fe struct {
		name string
		ec   *flow.ErrCheck
	}
	var fes []fe
	nPathDecided := 0
	for _, c := range flow.Calls(mainFn) {
		call, ok := c.(*ssa.Call)
		if !ok {
			continue
		}
		// (the failure of the target itself - cmd.Run's error - is outside the property: the filter was installed and the
		// target did run; whether the command then exits 1 or forwards the target's status is the command's business)
		if call != parses[0] && call != loads[0] {
			continue
		}
		errv := flow.ErrResult(call)
		if errv == nil {
			r.Bad("E3.exit", "sandbox.main/"+calleeName(call)+"/error-dropped", p.Pos(call.Pos()), "the error of "+calleeName(call)+" is discarded")
			continue
		}
		mkc := r.Mark()
		ecs := flow.FindErrChecks(errv)
		if len(ecs) == 0 {
			r.Bad("E3.exit", "sandbox.main/"+calleeName(call)+"/error-unchecked", p.Pos(call.Pos()), "the error of "+calleeName(call)+" is never compared with nil")
		}
		for _, ec := range ecs {
			fes = append(fes, fe{calleeName(call), ec})
			checkExitRegion(e, p, "sandbox.main/"+calleeName(call)+"-failure", ec.If.Block(), ec.Fail)
		}
		if r.FailedSince(mkc, "E3.exit") {
			// decided on main's paths instead (E9): every path on which the step failed exits non-zero and starts nothing
			ps := pathsOf(p, mainFn)
			good, _ := ps.failTerminates(call)
			if good {
				for _, pth := range ps.paths {
					failedAt := -1
					for i, ev := range pth.events {
						if ev.call == ssa.CallInstruction(call) && ev.ok < 0 {
							failedAt = i
						}
					}
					if failedAt < 0 {
						continue
					}
					for _, ev := range pth.events[failedAt+1:] {
						if c2, ok := ev.call.(*ssa.Call); ok && isProcessStart(c2) {
							good = false
						}
					}
				}
			}
			if good {
				r.Retract(mkc, "E3.exit")
				r.OK("E3.exit", "sandbox.main/"+calleeName(call)+"-failure", p.Pos(call.Pos()), "every path on which the step failed ends in an exit with non-zero status without starting a process ("+ps.describe()+")")
				if len(ecs) == 0 {
					nPathDecided++
				}
			}
		}
	}
	// the "no arguments" edge: a branch on len(flag.Args()) == 0
	nArgs := 0
	for _, b := range mainFn.Blocks {
		ifi, ok := flow.LastIf(b)
		if !ok {
			continue
		}
		// the number of command-line arguments: len(flag.Args()) or flag.NArg(), compared with a constant in any spelling
		isArgCount := func(v ssa.Value) bool {
			c, ok := flow.StripConv(v).(*ssa.Call)
			if !ok {
				return false
			}
			if flow.CalleeIs(c, "flag", "NArg") {
				return true
			}
			if bi, ok := c.Call.Value.(*ssa.Builtin); ok && bi.Name() == "len" {
				a0 := c.Call.Args[0]
				// the driver's parameter that main fills with flag.Args()
				if prm, isPrm := a0.(*ssa.Parameter); isPrm && driverCall != nil && prm.Parent() == exitByErr {
					for k, q := range exitByErr.Params {
						if q == prm && k < len(driverCall.Call.Args) {
							a0 = driverCall.Call.Args[k]
						}
					}
				}
				ac, ok := a0.(*ssa.Call)
				return ok && flow.CalleeIs(ac, "flag", "Args")
			}
			return false
		}
		var fail *ssa.BasicBlock
		if pt, ok := flow.AsIntPred(ifi.Cond, true); ok && isArgCount(pt.X) && pt.OnlyZero() {
			fail = b.Succs[0]
		} else if pf, ok := flow.AsIntPred(ifi.Cond, false); ok && isArgCount(pf.X) && pf.OnlyZero() {
			fail = b.Succs[1]
		}
		if fail != nil {
			nArgs++
			checkExitRegion(e, p, "sandbox.main/no-arguments", b, fail)
		}
	}
	r.Floor("E3.exit(failure edges)", len(fes)+nArgs+nPathDecided, 3)

	// policy flow
	res := origin.NewResolver()
	arg, actx := through(loads[0].Call.Args[0], nil)
	ld, _ := arg.(*ssa.UnOp)
	var al *ssa.Alloc
	if ld != nil {
		al, _ = ld.X.(*ssa.Alloc)
	}
	if al == nil {
		r.Unknown("E3.policyflow", "sandbox.main/filter-literal", p.Pos(loads[0].Pos()), "LoadFilter's argument is not a local Filter literal")
	} else {
		st := al.Type().Underlying().(*types.Pointer).Elem().Underlying().(*types.Struct)
		found := false
		for _, ref := range *al.Referrers() {
			fa, ok := ref.(*ssa.FieldAddr)
			if !ok || st.Field(fa.Field).Name() != "Policy" {
				continue
			}
			for _, r2 := range *fa.Referrers() {
				s, ok := r2.(*ssa.Store)
				if !ok || s.Addr != fa {
					continue
				}
				found = true
				o := res.Of(s.Val, nil, s)
				good := false
				if dl, ok := s.Val.(*ssa.UnOp); ok && dl.Op == token.MUL {
					src, _ := through(dl.X, actx)
					if ex, ok := src.(*ssa.Extract); ok && ex.Tuple == ssa.Value(parses[0]) && ex.Index == 0 {
						good = true
					}
				}
				r.Check(good, "E3.policyflow", "sandbox.main/Filter.Policy", p.Pos(s.Pos()), "Filter.Policy is the dereferenced result of the policy parser", "Filter.Policy is "+o.String()+", not the parsed policy")
			}
		}
		if !found {
			r.Bad("E3.policyflow", "sandbox.main/Filter.Policy", p.Pos(al.Pos()), "the Filter literal has no Policy (an empty policy would be loaded)")
		}
	}
	// parser error discipline
	pf := flow.Callee(parses[0])
	nF := 0
	for _, c := range flow.Calls(pf) {
		call, ok := c.(*ssa.Call)
		if !ok || flow.ErrResult(call) == nil || pureFailCall(call) {
			continue
		}
		nF++
		failEdgeReturnsError(e, p, "E3.policyflow", load.FuncName(pf)+"/"+calleeName(call), call, true)
	}
	r.Floor("E3.policyflow(fallible calls in the parser)", nF, 1)
	// the parser's success return is &config.Seccomp of the struct Unpack filled
	for _, ret := range flow.Returns(pf) {
		rs := flow.RetResults(ret)
		if flow.IsNilConst(rs[0]) {
			continue
		}
		fa, ok := rs[0].(*ssa.FieldAddr)
		good := ok
		if good {
			cfgAl, isAl := fa.X.(*ssa.Alloc)
			good = isAl
			if good {
				// the alloc must be passed to an Unpack call
				passed := false
				for _, ref := range *cfgAl.Referrers() {
					if mi, ok := ref.(*ssa.MakeInterface); ok {
						for _, r2 := range *mi.Referrers() {
							if c, ok := r2.(*ssa.Call); ok && c.Call.StaticCallee() != nil && c.Call.StaticCallee().Name() == "Unpack" {
								passed = true
							}
						}
					}
				}
				good = passed
			}
		}
		r.Check(good && flow.IsNilConst(rs[1]), "E3.policyflow", load.FuncName(pf)+"/result", p.Pos(ret.Pos()), "returns the Policy field of the struct the config was unpacked into", "the parser's success return is not the unpacked policy")
	}
	checkPolicyUnmodified(e, p, pf, parses[0], al)
	checkSandboxFlag(e, p, "E3.tsync")
}

// writesThrough lists the instructions that write (or may write) memory reachable from address a: stores through it or a
// sub-address, and calls that receive it or a sub-address (except those for which allowed returns true).
func writesThrough(a ssa.Value, allowed func(ssa.CallInstruction) bool, depth int) []ssa.Instruction {
	var out []ssa.Instruction
	if depth > 5 || a.Referrers() == nil {
		return nil
	}
	for _, ref := range *a.Referrers() {
		switch x := ref.(type) {
		case *ssa.Store:
			if x.Addr == a {
				out = append(out, x)
			}
		case *ssa.FieldAddr:
			out = append(out, writesThrough(x, allowed, depth+1)...)
		case *ssa.IndexAddr:
			out = append(out, writesThrough(x, allowed, depth+1)...)
		case *ssa.MakeInterface:
			out = append(out, writesThrough(x, allowed, depth+1)...)
		case *ssa.Slice:
			out = append(out, writesThrough(x, allowed, depth+1)...)
		case ssa.CallInstruction:
			if allowed != nil && allowed(x) {
				continue
			}
			out = append(out, x)
		case *ssa.MapUpdate:
			out = append(out, x)
		case *ssa.UnOp:
			// a loaded slice/map/pointer field: writes through the loaded reference also change the policy
			if x.Op == token.MUL {
				switch x.Type().Underlying().(type) {
				case *types.Slice, *types.Map, *types.Pointer:
					out = append(out, writesThrough(x, allowed, depth+1)...)
				}
			}
		}
	}
	return out
}

// checkPolicyUnmodified (E3.policyflow/unmodified): between the configuration library filling the policy and
// seccomp.LoadFilter receiving it, nothing writes to it - neither in the parser after Unpack, nor in main through the
// returned pointer, nor into the Policy field of the Filter literal.
func checkPolicyUnmodified(e *Env, p *load.Program, pf *ssa.Function, parse *ssa.Call, filterAl *ssa.Alloc) {
	r := e.R
	n := 0
	isUnpack := func(c ssa.CallInstruction) bool {
		cal := c.Common().StaticCallee()
		if cal != nil && cal.Name() == "Unpack" {
			return true
		}
		return c.Common().IsInvoke() && c.Common().Method.Name() == "Unpack"
	}
	readOnly := func(c ssa.CallInstruction) bool {
		if isUnpack(c) {
			return true
		}
		// methods of the library that only read the policy (C13 shows Validate/Dump/Assemble leave caller memory alone)
		return flow.CalleeIs(c, load.PkgRoot, "Policy.Validate") || flow.CalleeIs(c, load.PkgRoot, "Policy.Dump")
	}
	// (1) the parser: the struct the configuration is unpacked into
	for _, b := range pf.Blocks {
		for _, in := range b.Instrs {
			al, ok := in.(*ssa.Alloc)
			if !ok {
				continue
			}
			st, ok := al.Type().Underlying().(*types.Pointer).Elem().Underlying().(*types.Struct)
			if !ok {
				continue
			}
			hasPolicy := false
			for i := 0; i < st.NumFields(); i++ {
				if isNamed(st.Field(i).Type(), load.PkgRoot, "Policy") {
					hasPolicy = true
				}
			}
			if !hasPolicy {
				continue
			}
			n++
			for _, w := range writesThrough(al, readOnly, 0) {
				r.Bad("E3.policyflow", load.FuncName(pf)+"/policy-modified-after-unpack", p.Pos(w.Pos()),
					"the parsed policy is written to after the configuration library filled it (by "+describeInstr(w)+"): the filter that is loaded is not the policy of the file, so the target does not observe exactly the policy's decisions")
			}
		}
	}
	// (2) main: the returned pointer is only dereferenced (directly or in a helper that builds the Filter)
	if ptr := flow.ResultN(parse, 0); ptr != nil {
		n++
		derefOnly := func(c ssa.CallInstruction) bool {
			cal := flow.Callee(c)
			if cal == nil || cal.Pkg == nil || cal.Pkg.Pkg.Path() != load.PkgSandbox || len(cal.Blocks) == 0 {
				return false
			}
			for k, a := range c.Common().Args {
				if a != ptr || k >= len(cal.Params) {
					continue
				}
				if len(writesThrough(cal.Params[k], nil, 0)) > 0 {
					return false
				}
			}
			return true
		}
		for _, w := range writesThrough(ptr, derefOnly, 0) {
			r.Bad("E3.policyflow", "sandbox.main/policy-modified-before-load", p.Pos(w.Pos()),
				"the parsed policy is written to between parsing and loading (by "+describeInstr(w)+")")
		}
	}
	// (3) the Filter literal's Policy field is stored once and not touched afterwards
	if filterAl != nil {
		st := filterAl.Type().Underlying().(*types.Pointer).Elem().Underlying().(*types.Struct)
		for _, ref := range *filterAl.Referrers() {
			fa, ok := ref.(*ssa.FieldAddr)
			if !ok || st.Field(fa.Field).Name() != "Policy" {
				continue
			}
			n++
			stores := 0
			for _, w := range writesThrough(fa, nil, 0) {
				if s, ok := w.(*ssa.Store); ok && s.Addr == ssa.Value(fa) {
					stores++
					continue
				}
				r.Bad("E3.policyflow", "sandbox.main/filter-policy-modified", p.Pos(w.Pos()), "the Policy of the Filter literal is modified after it was set (by "+describeInstr(w)+")")
			}
			if stores > 1 {
				r.Bad("E3.policyflow", "sandbox.main/filter-policy-modified", p.Pos(fa.Pos()), "the Policy of the Filter literal is assigned more than once")
			}
		}
	}
	if !r.HasBad("E3.policyflow") {
		r.OK("E3.policyflow", "sandbox/policy-unmodified", p.Pos(pf.Pos()), "nothing writes to the policy between the configuration library filling it and LoadFilter receiving it")
	}
	r.Floor("E3.policyflow(policy holders examined)", n, 1)
}

func describeInstr(in ssa.Instruction) string {
	switch x := in.(type) {
	case *ssa.Store:
		return "a store"
	case ssa.CallInstruction:
		return "a call to " + calleeNameCI(x)
	}
	return fmt.Sprintf("%T", in)
}

// checkExitRegion: every path of the failure region ends in os.Exit(non-zero) (or another
// never-returning call) without a process start; nothing leaves the region.
func checkExitRegion(e *Env, p *load.Program, key string, from, fail *ssa.BasicBlock) {
	r := e.R
	g := flow.G(from.Parent())
	reg := flow.Region(from, fail)
	if len(reg) == 0 {
		r.Bad("E3.exit", key, p.Pos(from.Instrs[len(from.Instrs)-1].Pos()), "the failure edge joins the success path directly (no exit)")
		return
	}
	ok := true
	exits := 0
	for b := range reg {
		for _, in := range b.Instrs {
			if c, isC := in.(ssa.CallInstruction); isC {
				if isProcessStart(c) {
					r.Bad("E3.exit", key+"/start", p.Pos(c.Pos()), "a process is started on a failure edge")
					ok = false
				}
			}
		}
		if nr, dead := g.NoRet[b]; dead {
			exits++
			if bad := zeroExit(nr, 0); bad != nil {
				r.Bad("E3.exit", key+"/status", p.Pos(bad.Pos()), "os.Exit is called with a status whose low eight bits are 0 (the parent sees success), or with a non-constant, on a failure edge")
				ok = false
			}
			continue
		}
		if len(g.Succs(b)) == 0 {
			// a return or panic inside the failure region
			if ret, isRet := b.Instrs[len(b.Instrs)-1].(*ssa.Return); isRet {
				if exitByReturn != nil && from.Parent() == exitByReturn && len(flow.RetResults(ret)) == 1 {
					// the returned value is the exit status
					k, isK := flow.ConstInt(flow.RetResults(ret)[0])
					if isK && !statusIsZero(k) {
						exits++
						continue
					}
					r.Bad("E3.exit", key+"/status", p.Pos(ret.Pos()), "the failure edge returns exit status 0 (or a non-constant)")
					ok = false
					continue
				}
				if exitByErr != nil && from.Parent() == exitByErr && len(flow.RetResults(ret)) == 1 {
					// main exits non-zero when the driver returns an error
					if flow.KnownNonNilError(flow.RetResults(ret)[0], b) {
						exits++
						continue
					}
					r.Bad("E3.exit", key+"/status", p.Pos(ret.Pos()), "the failure edge returns an error that is not provably non-nil: main would go on as if the step had succeeded")
					ok = false
					continue
				}
				r.Bad("E3.exit", key+"/return", p.Pos(b.Instrs[len(b.Instrs)-1].Pos()), "the failure edge returns from main (exit status 0) instead of exiting non-zero")
				ok = false
			}
		}
		for _, s := range g.Succs(b) {
			if !reg[s] {
				r.Bad("E3.exit", key+"/falls-through", p.Pos(b.Instrs[len(b.Instrs)-1].Pos()), "the failure edge continues into the success path")
				ok = false
			}
		}
	}
	if exits == 0 {
		r.Bad("E3.exit", key, p.Pos(fail.Instrs[0].Pos()), "no exit call on the failure edge")
		ok = false
	}
	if ok {
		r.OK("E3.exit", key, p.Pos(fail.Instrs[0].Pos()), "ends in os.Exit(non-zero) without starting a process")
	}
}

// zeroExit: the never-returning call can end the process with status 0 (os.Exit(0) or a non-constant status), directly or
// inside a helper of the module; returns the offending call.
//
// statusIsZero: the parent of a process sees the low eight bits of the value handed to exit(2): os.Exit(256) is "success".
func statusIsZero(k int64) bool { return k&0xff == 0 }

func zeroExit(nr ssa.CallInstruction, depth int) ssa.CallInstruction {
	if depth > 4 {
		return nr
	}
	if flow.CalleeIs(nr, "os", "Exit") || flow.CalleeIs(nr, "syscall", "Exit") {
		k, isK := flow.ConstInt(nr.Common().Args[0])
		if !isK || statusIsZero(k) {
			return nr
		}
		return nil
	}
	f := flow.Callee(nr)
	if f == nil || len(f.Blocks) == 0 || f.Pkg == nil || !strings.HasPrefix(f.Pkg.Pkg.Path(), load.Module) {
		return nil // log.Fatal (status 1), log.Panic, runtime.Goexit
	}
	g := flow.G(f)
	for _, b := range f.Blocks {
		if !g.Live(b) {
			continue
		}
		if inner, dead := g.NoRet[b]; dead {
			if bad := zeroExit(inner, depth+1); bad != nil {
				return bad
			}
		}
	}
	return nil
}
