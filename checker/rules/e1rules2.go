package rules

import (
	"fmt"
	"go/token"
	"go/types"
	"strings"

	"golang.org/x/tools/go/ssa"

	"sbpfcheck/emit"
	"sbpfcheck/flow"
	"sbpfcheck/load"
	"sbpfcheck/origin"
)

// ------------------------------------------------------------------ C03

func init() {
	Specs["C03"] = &Spec{
		Level: "other",
		Explanation: "On the object-level graph of E1: (merge) every iteration over the conditional names ends in exactly one of {new entry holding [conditions], append of the conditions to the entry found in place, problem}; " +
			"(AND) the match exit of a non-last condition leads only to the next condition of the same list, only match exits of last conditions reach the action return; (OR) no-match exits lead to the next list or to the " +
			"entry's fall-out, never to an action; (no empty alternative) every label is bound only after an emission or a use, so no condition or list silently contributes nothing; (entry) a different syscall number skips " +
			"the entry; (accumulator typing) every comparison against a syscall number sees the syscall number in the accumulator on all paths, in particular on the fall-out of a conditional entry - no argument value can make " +
			"a rule for another syscall match.",
		Trusted:     []string{"go/ssa", "cBPF semantics", "C02 for the meaning of one condition"},
		Assumptions: []string{"label level (C06)"},
		Run:         runC03,
	}
}

func runC03(e *Env) {
	r := e.R
	// first, so that it is reported even when the automaton cannot be built for a reorganised emitter
	checkPolicyReadOnly(e, e.Host(), "E1.readonly")
	m := e1Preamble(e, "E1.andor")
	if m == nil {
		return
	}
	p := m.p
	checkMerge(e, m)
	checkCondSources(e, m)
	for _, pr := range m.frag.Problems {
		// label typestate problems (bound twice, used after bound, unbound) make the target of a condition's exit ambiguous:
		// they break the AND/OR structure as much as a wrong edge does
		if pr.Rule != "E1.andor" && !(pr.Rule == "E1.label" && strings.HasPrefix(pr.Key, "label/")) {
			continue
		}
		pos := ""
		if pr.Node != nil {
			pos = p.Pos(pr.Node.CallPos)
		}
		r.Bad("E1.andor", pr.Key, pos, pr.Detail)
	}
	nAnd, nOr := 0, 0
	c := newWctx(e, m, "x86_64=true,short=true")
	for _, nd := range c.w.Nodes {
		if nd.Emit == nil || !nd.Emit.InCond || c.cls[nd].Kind != "jmp" || nd.Emit.Jrec == nil {
			continue
		}
		for _, side := range []struct {
			kind string
			lab  *emit.LabelVal
		}{{"true", nd.Emit.Jrec.LT}, {"false", nd.Emit.Jrec.LF}} {
			var ts []*emit.WNode
			for _, ed := range c.w.Edges[nd] {
				if ed.Kind == side.kind {
					ts = append(ts, ed.To)
				}
			}
			role := "internal"
			switch labelRole(side.lab) {
			case "next-cond":
				role = "match"
			case "list-failed":
				role = "noMatch"
			case "entry-exit", "other":
				role = "entry-exit"
			case "group":
				role = "action"
			}
			key := fmt.Sprintf("SyscallWithConditions.Assemble/op=%s/%s/%s-edge", nd.Emit.Ops, lastName(nd.Emit.Last), role)
			switch role {
			case "match":
				nAnd++
				// non-last: next condition of the same list
				good := nd.Emit.Last < 0 && len(ts) > 0
				for _, t := range ts {
					if t == nil || t.Emit == nil || !t.Emit.IterStart {
						good = false
					}
				}
				r.Check(good, "E1.andor", key, nodePos(p, nd), "AND: a satisfied non-last condition continues with the next condition of its list",
					"the match exit of a non-last condition does not lead to the next condition of the same list")
			case "action":
				nAnd++
				good := nd.Emit.Last > 0 && len(ts) > 0
				for _, t := range ts {
					if t == nil || c.cls[t].Kind != "ret" || c.cls[t].Ret != "act:group" {
						good = false
					}
				}
				r.Check(good, "E1.andor", key, nodePos(p, nd), "AND: only the last condition of a list jumps to the group's action",
					fmt.Sprintf("a condition that is %s jumps to the action label: the remaining conditions of the list are not required (AND becomes weaker)", lastName(nd.Emit.Last)))
			case "noMatch":
				nOr++
				good := len(ts) > 0
				for _, t := range ts {
					if t == nil || t.Emit == nil {
						good = false
						continue
					}
					isNextList := t.Emit.IterStart
					isFallOut := !t.Emit.InCond && c.cls[t].Kind != "ret"
					if !isNextList && !isFallOut {
						good = false
					}
				}
				r.Check(good, "E1.andor", key, nodePos(p, nd), "OR: a failed condition continues with the next list of the entry, or leaves the entry",
					"the no-match exit of a condition leads somewhere other than the next list or the entry's fall-out (e.g. into an action)")
			case "entry-exit":
				r.Bad("E1.andor", key, nodePos(p, nd), "a condition jumps to the entry's exit label directly: the remaining lists of the entry (OR) are skipped")
			}
		}
	}
	r.Floor("E1.andor(match/action edges)", nAnd, 16)
	r.Floor("E1.andor(no-match edges)", nOr, 16)
	// the fall-out of a conditional entry continues on the spine with the number reloaded
	nAcc := 0
	for _, name := range m.variants() {
		cc := newWctx(e, m, name)
		nAcc += cc.checkAcc("E1.acc", nil)
	}
	r.Floor("E1.acc(comparisons typed)", nAcc, 50)
}

// checkMerge (E1.merge)
func checkMerge(e *Env, m *e1Model) {
	r := e.R
	p := m.p
	ts := p.Func(load.PkgRoot, "SyscallGroup.toSyscallsWithConditions")
	gs := p.Func(load.PkgRoot, "getSyscall")
	if ts == nil {
		r.Unknown("E1.merge", "toSyscallsWithConditions", "", "not found")
		return
	}
	res := origin.NewResolver()
	// the loop over the conditional names
	var header *ssa.BasicBlock
	for _, b := range ts.Blocks {
		ifi, ok := flow.LastIf(b)
		if !ok {
			continue
		}
		bo, ok := ifi.Cond.(*ssa.BinOp)
		if !ok || bo.Op != token.LSS {
			continue
		}
		lc, ok := bo.Y.(*ssa.Call)
		if !ok {
			continue
		}
		if bi, ok := lc.Call.Value.(*ssa.Builtin); !ok || bi.Name() != "len" {
			continue
		}
		if strings.HasSuffix(res.Of(lc.Call.Args[0], nil, lc).String(), ".NamesWithCondtions") {
			header = b
		}
	}
	if header == nil {
		r.Unknown("E1.merge", "toSyscallsWithConditions/loop", p.Pos(ts.Pos()), "loop over the conditional names not found")
		return
	}
	body := header.Succs[0]
	g := flow.G(ts)
	// terminal instructions per block
	term := map[*ssa.BasicBlock]int{}
	probTerm := map[*ssa.BasicBlock]int{}
	kinds := map[string]int{}
	for _, b := range ts.Blocks {
		if !g.Live(b) || !g.Dominates(body, b) {
			continue
		}
		for _, in := range b.Instrs {
			switch x := in.(type) {
			case *ssa.Call:
				app := isAppend(x)
				if app == nil {
					// a helper that records a problem on every path (`found.addf(...)`)
					if x.Call.StaticCallee() != nil && recordsProblem(x, 0) {
						term[b]++
						probTerm[b]++
						kinds["problem"]++
					}
					continue
				}
				st, _ := app.Type().Underlying().(*types.Slice)
				switch {
				case st != nil && isProblemElem(st.Elem()):
					term[b]++
					probTerm[b]++
					kinds["problem"]++
				case st != nil && isNamed(st.Elem(), load.PkgRoot, "SyscallWithConditions"):
					term[b]++
					kinds["new-entry"]++
					// the literal's Conditions = []ArgumentConditions{nc.Conditions}
					vals := appendedValues(app)
					good := len(vals) == 1
					if good {
						co := fieldOfLiteral(res, vals[0], "Conditions", app)
						good = co != nil && co.Kind == origin.KAlloc
						if good {
							// one-element literal holding nc.Conditions
							al := co.Val.(*ssa.Alloc)
							cnt := 0
							okElem := false
							for _, ref := range *al.Referrers() {
								if ia, ok := ref.(*ssa.IndexAddr); ok {
									for _, r2 := range *ia.Referrers() {
										if s2, ok := r2.(*ssa.Store); ok && s2.Addr == ia {
											cnt++
											eo := res.Of(s2.Val, nil, s2)
											okElem = eo.Kind == origin.KField && eo.Field.Name() == "Conditions" && strings.Contains(eo.Args[0].String(), ".NamesWithCondtions[")
										}
									}
								}
							}
							good = cnt == 1 && okElem
						}
					}
					r.Check(good, "E1.merge", "toSyscallsWithConditions/new-entry-holds-its-list", p.Pos(x.Pos()), "a new conditional entry holds exactly [nc.Conditions] in a fresh slice", "a new conditional entry does not hold exactly the ranged name's condition list")
				case st != nil && strings.HasSuffix(st.Elem().String(), "ArgumentConditions"):
					term[b]++
					kinds["merge"]++
					// append(check.Conditions, nc.Conditions) stored back into check.Conditions, check = getSyscall(...) (in place)
					base := res.Of(app.Call.Args[0], nil, app)
					vals := appendedValues(app)
					good := base.Kind == origin.KField && base.Field.Name() == "Conditions" && len(vals) == 1
					if good {
						eo := res.Of(vals[0], nil, app)
						good = eo.Kind == origin.KField && eo.Field.Name() == "Conditions" && strings.Contains(eo.Args[0].String(), ".NamesWithCondtions[")
					}
					stored := false
					for _, ref := range *x.Referrers() {
						if s2, ok := ref.(*ssa.Store); ok {
							so := res.Of(s2.Addr, nil, s2)
							if so.Kind == origin.KField && so.Field.Name() == "Conditions" && strings.TrimPrefix(so.Args[0].String(), "*") == strings.TrimPrefix(base.Args[0].String(), "*") {
								stored = true
							}
						}
					}
					inPlace := good && gs != nil && originCalls(base.Args[0], gs)
					r.Check(good && stored && inPlace, "E1.merge", "toSyscallsWithConditions/merge-appends-in-place", p.Pos(x.Pos()),
						"a further list for the same syscall is appended to the entry found in place (OR-list grows)",
						fmt.Sprintf("merging does not append the ranged name's list to the found entry in place (append ok=%v, stored back=%v, entry addressed through getSyscall=%v): a list would be lost or overwrite another", good, stored, inPlace))
				}
			}
		}
	}
	// an inner loop that records one problem per element of a list (`for _, m := range msgs { problems = append(problems,
	// wrap(m)) }`) is one outcome of kind "problem": exactly one when the list is known to be non-empty there, else 0..1
	type innerLoop struct {
		l          *flow.CountedLoop
		guaranteed bool
	}
	inner := map[*ssa.BasicBlock]innerLoop{}
	for _, l := range flow.CountedLoops(ts) {
		if l.Header == header || !g.Dominates(body, l.Header) || !l.Unconditional() {
			continue
		}
		nProb, nOther := 0, 0
		for _, b := range l.BodyBlocks() {
			nProb += probTerm[b]
			nOther += term[b] - probTerm[b]
		}
		if nProb != 1 || nOther != 0 {
			continue
		}
		guaranteed := false
		for _, cd := range flow.DomConds(l.Header) {
			if arg, pr, ok := flow.LenPred(cd.V, cd.Pol); ok && arg == l.Over && pr.NonZero() {
				guaranteed = true
			}
		}
		inner[l.Header] = innerLoop{l, guaranteed}
	}
	// min / max terminals on every path through the body back to the header
	type mm struct{ min, max int }
	memo := map[*ssa.BasicBlock]mm{}
	var walk func(b *ssa.BasicBlock, depth int) mm
	walk = func(b *ssa.BasicBlock, depth int) mm {
		if b == header {
			return mm{0, 0}
		}
		if v, ok := memo[b]; ok {
			return v
		}
		if il, ok := inner[b]; ok && il.l.Exit != nil {
			v := walk(il.l.Exit, depth+1)
			v.max++
			if il.guaranteed {
				v.min++
			}
			memo[b] = v
			return v
		}
		if depth > 200 {
			return mm{0, 99}
		}
		memo[b] = mm{0, 99}
		res := mm{1 << 30, -1}
		succs := g.Succs(b)
		if len(succs) == 0 {
			res = mm{0, 0}
		}
		for _, s := range succs {
			if !g.Dominates(body, s) && s != header {
				continue // leaves the loop (return)
			}
			v := walk(s, depth+1)
			if v.min < res.min {
				res.min = v.min
			}
			if v.max > res.max {
				res.max = v.max
			}
		}
		if res.max < 0 {
			res = mm{0, 0}
		}
		res.min += term[b]
		res.max += term[b]
		memo[b] = res
		return res
	}
	v := walk(body, 0)
	r.Check(v.min == 1 && v.max == 1, "E1.merge", "toSyscallsWithConditions/one-outcome-per-name", p.Pos(header.Instrs[0].Pos()),
		"every conditional name ends in exactly one of {new entry, merge into the found entry, problem}",
		fmt.Sprintf("a conditional name can end in %d..%d outcomes (want exactly 1): a name can be dropped silently or handled twice", v.min, v.max))
	r.Check(kinds["problem"] >= 2 && kinds["new-entry"] >= 1 && kinds["merge"] >= 1, "E1.merge", "toSyscallsWithConditions/outcome-kinds", p.Pos(ts.Pos()),
		"all three outcome kinds exist", fmt.Sprintf("outcome kinds found: %v", kinds))
	// getSyscall returns the element's address, not a copy
	if gs != nil {
		for _, ret := range flow.Returns(gs) {
			rv := flow.RetResults(ret)[0]
			if flow.IsNilConst(rv) {
				continue
			}
			ia, ok := rv.(*ssa.IndexAddr)
			r.Check(ok && ia.X == ssa.Value(gs.Params[0]), "E1.merge", "getSyscall/in-place", p.Pos(ret.Pos()), "returns the address of the slice element (modifiable in place)", "getSyscall returns the address of a copy: merged lists would be lost")
			// the match is on Num equality
			good := false
			for _, cd := range flow.DomConds(ret.Block()) {
				if bo, ok := cd.V.(*ssa.BinOp); ok && bo.Op == token.EQL && cd.Pol {
					for _, pair := range [][2]ssa.Value{{bo.X, bo.Y}, {bo.Y, bo.X}} {
						if pair[1] == ssa.Value(gs.Params[1]) {
							o := res.Of(pair[0], nil, bo)
							if o.Kind == origin.KField && o.Field.Name() == "Num" {
								good = true
							}
						}
					}
				}
			}
			r.Check(good, "E1.merge", "getSyscall/by-number", p.Pos(ret.Pos()), "entries are found by equal syscall number", "getSyscall does not match on the entry's syscall number: lists of different syscalls could be merged")
		}
	}
}

// ------------------------------------------------------------------ C04

func init() {
	Specs["C04"] = &Spec{
		Level: "other",
		Explanation: "On the whole-program graph of E1, for both encodings of the architecture jump and for x86_64 / other architectures: the first instruction loads the architecture word and the next compares it with the " +
			"policy's audit architecture; the mismatch edge lands - position + 1 + skip evaluated over symbolic fragment lengths, then a suffix query on the layout - on the last instruction, which is always the default return " +
			"and always exists; the match edge reaches the single load of the syscall number; on x86_64 and only there the next two instructions are `jge 0x40000000` (unsigned, skip-false 1) and `ret ERRNO|ENOSYS`, before any " +
			"rule; no comparison with a syscall number or argument is reachable from the mismatch edge or the x32 edge.",
		Trusted:     []string{"go/ssa", "cBPF semantics (unsigned jge)", "oracle: __X32_SYSCALL_BIT, SECCOMP_RET_ERRNO, ENOSYS", "arch.X32.SeccompMask literal (C12)"},
		Assumptions: []string{"label level (C06)"},
		Run:         runC04,
	}
}

func runC04(e *Env) {
	r := e.R
	// first, so that it is reported even when the automaton cannot be built for a reorganised emitter
	checkPolicyReadOnly(e, e.Host(), "E1.readonly")
	m := e1Preamble(e, "E1.arch")
	if m == nil {
		return
	}
	p := m.p
	or := e.Oracle()
	// the X32 mask literal
	x32mask := uint64(0)
	for _, il := range archInfoLits(p.Pkgs[load.PkgArch]) {
		if il.v.Name() == "X32" && il.mask != nil {
			x32mask, _ = constUint(il.mask)
		}
	}
	nForms := 0
	for _, name := range m.variants() {
		c := newWctx(e, m, name)
		w := c.w
		for _, b := range w.Bad {
			r.Bad(b.Rule, b.Key+"/"+name, "", b.Detail)
		}
		isX86 := strings.Contains(name, "x86_64=true")
		short := strings.Contains(name, "short=true")
		// ---- first two instructions
		if len(w.Start) != 1 || w.Start[0] == nil {
			r.Bad("E1.arch.first", "Policy.Assemble/first/"+name, "", "the program does not start with a single instruction")
			continue
		}
		first := w.Start[0]
		r.Check(c.cls[first].Kind == "ld_arch", "E1.arch.first", "Policy.Assemble/first-loads-arch/"+name, nodePos(p, first), "the first instruction loads the architecture word (offset 4)", "the first instruction is not `ld [4]` (architecture word): "+c.cls[first].Kind+" "+c.cls[first].Off)
		nx := w.Next[first]
		if len(nx) != 1 || nx[0] == nil || c.cls[nx[0]].Kind != "jmp" || c.cls[nx[0]].Operand != "arch" {
			r.Bad("E1.arch.first", "Policy.Assemble/second-compares-arch/"+name, nodePos(p, first), "the second instruction does not compare the architecture word with the policy's audit architecture")
			continue
		}
		aj := nx[0]
		test := c.jt[c.cls[aj].Cond]
		nForms++
		var mismatch, match []*emit.WNode
		for _, ed := range w.Edges[aj] {
			eq := (test == "JumpEqual" && ed.Kind == "true") || (test == "JumpNotEqual" && ed.Kind == "false")
			if test != "JumpEqual" && test != "JumpNotEqual" {
				r.Bad("E1.arch.first", "Policy.Assemble/arch-test/"+name, nodePos(p, aj), "the architecture is compared with test "+test+" (must be an equality test)")
			}
			if eq {
				match = append(match, ed.To)
			} else {
				mismatch = append(mismatch, ed.To)
			}
		}
		// mismatch: (possibly via one unconditional jump) to the last instruction = default return
		land := func(ts []*emit.WNode) []*emit.WNode {
			var out []*emit.WNode
			for _, t := range ts {
				if t != nil && c.cls[t].Kind == "ja" {
					for _, ed := range w.Edges[t] {
						out = append(out, ed.To)
					}
				} else {
					out = append(out, t)
				}
			}
			return out
		}
		mm := land(mismatch)
		lastNodes, under := w.FromEnd(1)
		good := len(mm) > 0 && !under
		for _, t := range mm {
			if t == nil || c.cls[t].Kind != "ret" || c.cls[t].Ret != "act:default" {
				good = false
			}
			isLast := false
			for _, l := range lastNodes {
				if l == t {
					isLast = true
				}
			}
			if !isLast {
				good = false
			}
		}
		form := "short (jne skip8)"
		if !short {
			form = "long (jeq +1; ja skip32)"
		}
		r.Check(good, "E1.arch.land", "Policy.Assemble/mismatch-lands-on-default/"+name, nodePos(p, aj),
			"foreign architecture -> the last instruction = `ret default`, for every program size ("+form+"): "+strings.Join(w.Notes, "; "),
			fmt.Sprintf("with the %s encoding the architecture-mismatch jump does not land exactly on a final default return (targets: %s; notes: %s)", form, describeNodes(c, mm), strings.Join(w.Notes, "; ")))
		// match edge -> ld nr
		mt := land(match)
		okM := len(mt) == 1 && mt[0] != nil && c.cls[mt[0]].Kind == "ld_nr"
		r.Check(okM, "E1.arch.land", "Policy.Assemble/match-reaches-number-load/"+name, nodePos(p, aj), "own architecture -> `ld [0]` (syscall number)", "on the own architecture the program does not continue with the load of the syscall number: "+describeNodes(c, mt))
		if !okM {
			continue
		}
		ldnr := mt[0]
		// ---- x32 guard
		after := w.Next[ldnr]
		if isX86 {
			okG := len(after) == 1 && after[0] != nil && c.cls[after[0]].Kind == "jmp" && c.cls[after[0]].Operand == "x32mask"
			if !okG {
				r.Bad("E1.x32", "Policy.Assemble/guard-follows-number-load/"+name, nodePos(p, ldnr), "on x86_64 the instruction after the number load is not the x32 guard: "+describeNodes(c, after))
				continue
			}
			gnode := after[0]
			gt := c.jt[c.cls[gnode].Cond]
			r.Check(gt == "JumpGreaterOrEqual" && x32mask == or.Consts["__X32_SYSCALL_BIT"], "E1.x32", "Policy.Assemble/guard-test/"+name, nodePos(p, gnode),
				"jge (unsigned) against arch.X32.SeccompMask = 0x40000000: numbers 0x40000000..0xFFFFFFFF",
				fmt.Sprintf("the x32 guard is `%s %#x`; it must be the unsigned `jge 0x40000000` (__X32_SYSCALL_BIT)", gt, x32mask))
			var gTrue, gFalse []*emit.WNode
			for _, ed := range w.Edges[gnode] {
				if ed.Kind == "true" {
					gTrue = append(gTrue, ed.To)
				} else {
					gFalse = append(gFalse, ed.To)
				}
			}
			want := fmt.Sprintf("const:%d", or.Consts["SECCOMP_RET_ERRNO"]|e.ENOSYS())
			okT := len(gTrue) == 1 && gTrue[0] != nil && c.cls[gTrue[0]].Kind == "ret" && c.cls[gTrue[0]].Ret == want
			r.Check(okT, "E1.x32", "Policy.Assemble/guard-returns-ENOSYS/"+name, nodePos(p, gnode), "x32 numbers -> ret ERRNO|ENOSYS (0x50026)", "x32 numbers do not end in `ret ERRNO|ENOSYS`: "+describeNodes(c, gTrue))
			// false edge: the first rule / the default return; never the ENOSYS return
			okF := len(gFalse) > 0
			for _, t := range gFalse {
				if t == nil || (len(gTrue) == 1 && t == gTrue[0]) {
					okF = false
				}
				if t != nil && t.Item <= gnode.Item+1 && t.Emit == nil {
					okF = false
				}
			}
			r.Check(okF, "E1.x32", "Policy.Assemble/guard-false-edge/"+name, nodePos(p, gnode), "native numbers skip the ENOSYS return and continue with the first group (or the default return)", "native numbers do not skip exactly the ENOSYS return: "+describeNodes(c, gFalse))
		} else {
			for _, t := range after {
				if t != nil && c.cls[t].Operand == "x32mask" {
					r.Bad("E1.x32", "Policy.Assemble/guard-only-on-x86_64/"+name, nodePos(p, t), "the x32 guard is emitted for an architecture other than x86_64")
				}
			}
			r.OK("E1.x32", "Policy.Assemble/guard-only-on-x86_64/"+name, nodePos(p, ldnr), "no x32 guard on other architectures")
		}
		// ---- exactly one load of the number before the rules
		// (the reload inside conditional entries is part of the rules)
		// ---- norule: nothing but returns/jumps between the mismatch edge and its return
		for _, t := range mm {
			if t != nil && c.cls[t].Kind != "ret" {
				r.Bad("E1.norule", "Policy.Assemble/mismatch-path/"+name, nodePos(p, t), "a foreign-architecture event reaches a "+c.cls[t].Kind+" instruction")
			}
		}
		nAccArch := c.checkAcc("E1.acc", func(cl instClass) bool { return cl.Operand == "arch" || cl.Operand == "x32mask" })
		_ = nAccArch
	}
	r.Floor("E1.arch(jump encodings analysed)", nForms, 4)
	// the architecture operand: uint32(p.arch.ID) of the policy's own arch; p.arch set from GetInfo
	checkAssembleGetInfoFirst(e, p, "E1.arch.first")
}

func constUint(v interface{ ExactString() string }) (uint64, bool) {
	var u uint64
	_, err := fmt.Sscan(v.ExactString(), &u)
	return u, err == nil
}

func describeNodes(c *wctx, ns []*emit.WNode) string {
	var out []string
	for _, n := range ns {
		if n == nil {
			out = append(out, "<past the end of the program>")
			continue
		}
		cl := c.cls[n]
		d := cl.Kind
		switch cl.Kind {
		case "ret":
			d += " " + cl.Ret
		case "jmp":
			d += " " + c.jt[cl.Cond] + " " + operandKind(cl.Operand)
		case "ld_arg":
			d += " " + cl.Off
		}
		out = append(out, d)
	}
	if len(out) == 0 {
		return "<none>"
	}
	return strings.Join(out, ", ")
}

// ------------------------------------------------------------------ C05

func init() {
	Specs["C05"] = &Spec{
		Level: "other",
		Explanation: "The kernel verifier's conditions are decided on the object-level graph of every variant: only LoadAbsolute (size 4, offsets 0, 4 or 16+8a+{0,4} with a <= 5 guaranteed by validation), JumpIf (one of the eight " +
			"encodable tests), Jump and RetConstant are ever emitted; every label is created, used only before it is bound, bound exactly once on every path and followed by an instruction; constant skips stay inside the " +
			"program; every instruction has a successor or is a return; the program is never empty and its last instruction is a return; every returned value is the default action, a group's action (both through the " +
			"return builder) or the x32 literal ERRNO|ENOSYS; every narrowing integer conversion is exact, guarded or listed with a reason. The step from the label level to emitted lists longer than 255 is C06; the 4096 bound is not analysed.",
		Trusted:     []string{"go/ssa", "kernel: bpf_check_classic + seccomp_check_filter conditions (documented)", "x/net/bpf encodes the four instruction kinds without error for known JumpTest values"},
		Assumptions: []string{"kernel acceptance of patched programs above 255 instructions depends on C06", "the 4096-instruction bound is not analysed"},
		Run:         runC05,
	}
}

func runC05(e *Env) {
	r := e.R
	// first, so that it is reported even when the automaton cannot be built for a reorganised emitter
	checkPolicyReadOnly(e, e.Host(), "E1.readonly")
	m := e1Preamble(e, "E1.kinds")
	if m == nil {
		return
	}
	p := m.p
	or := e.Oracle()
	// label typestate problems found while linking
	for _, o := range append([]*emit.Obj{m.frag}, objList(m)...) {
		for _, pr := range o.Problems {
			if pr.Rule != "E1.label" {
				continue
			}
			pos := ""
			if pr.Node != nil {
				pos = p.Pos(pr.Node.CallPos)
			}
			r.Bad("E1.label", pr.Key, pos, pr.Detail)
		}
	}
	r.Check(m.frag.NNew >= 5 && m.frag.NBind >= 5 && m.frag.NJrec >= 10, "E1.label", "label-events", "", fmt.Sprintf("%d label creations, %d bindings, %d jump records linked; each label bound exactly once on every path before the program is assembled, never used after being bound", m.frag.NNew, m.frag.NBind, m.frag.NJrec), "too few label events linked")
	kinds := map[string]bool{}
	nLits := 0
	retSet := map[string]bool{}
	for _, name := range m.variants() {
		c := newWctx(e, m, name)
		w := c.w
		for _, b := range w.Bad {
			r.Bad(b.Rule, b.Key+"/"+name, "", b.Detail)
		}
		for _, nd := range w.Nodes {
			nLits++
			cl := c.cls[nd]
			kinds[nd.Lit.Type] = true
			key := siteName(nd)
			switch nd.Lit.Type {
			case "LoadAbsolute":
				size, okS := emit.ConstField(nd.Lit, "Size")
				okOff := cl.Kind == "ld_nr" || cl.Kind == "ld_arch" || (cl.Kind == "ld_arg" && (strings.HasSuffix(cl.Off, "+0") || strings.HasSuffix(cl.Off, "+4")))
				if !okOff || !okS || size != 4 {
					r.Bad("E1.kinds", key+"/load", nodePos(p, nd), fmt.Sprintf("a load of size %d at offset %s: seccomp only permits aligned 32-bit loads inside the 64-byte record (0, 4, 16+8a, 20+8a)", size, cl.Off))
				}
			case "JumpIf":
				if _, known := c.jt[cl.Cond]; !known || !cl.CondOK {
					r.Bad("E1.kinds", key+"/test", nodePos(p, nd), "a conditional jump with a test x/net/bpf cannot encode")
				}
			case "Jump", "RetConstant":
			default:
				r.Bad("E1.kinds", key+"/kind", nodePos(p, nd), "instruction kind "+nd.Lit.Type+" is not on seccomp's whitelist / not modelled")
			}
			if cl.Kind == "ret" {
				retSet[cl.Ret] = true
			}
			// successors
			es := w.Edges[nd]
			if cl.Kind != "ret" {
				if len(es) == 0 {
					r.Bad("E1.tail", key+"/no-successor/"+name, nodePos(p, nd), "an instruction that is not a return has no successor")
				}
				for _, ed := range es {
					if ed.To == nil {
						r.Bad("E1.tail", key+"/leaves-program/"+ed.Kind+"/"+name, nodePos(p, nd), fmt.Sprintf("the %s edge of a %s leaves the program (jump out of bounds / fall off the end)", ed.Kind, cl.Kind))
					}
				}
			}
		}
		last, under := w.FromEnd(1)
		good := !under && len(last) > 0
		for _, l := range last {
			if c.cls[l].Kind != "ret" {
				good = false
			}
		}
		r.Check(good, "E1.tail", "Policy.Assemble/last-is-return/"+name, "", "the program is never empty and its last instruction is always a return", "the program can be empty or end in something other than a return: "+describeNodes(c, last))
	}
	var ks []string
	for k := range kinds {
		ks = append(ks, k)
	}
	r.Check(len(kinds) <= 4 && kinds["LoadAbsolute"] && kinds["JumpIf"] && kinds["RetConstant"], "E1.kinds", "instruction-kinds", "", fmt.Sprintf("emitted kinds: %v (all permitted by seccomp, all encodable)", ks), fmt.Sprintf("emitted kinds: %v", ks))
	r.Count("literal instances checked", nLits)
	r.Floor("E1.kinds(literal instances)", nLits, 100)
	// loads inside the record need the argument bound
	r.Check(m.facts.ArgBounded && m.facts.ArgMax <= 5 && m.facts.Enforced, "E1.kinds", "argument-index-bound", "",
		fmt.Sprintf("validation rejects argument indices above %d before emission: offsets stay within 16+8*5+4 = 60 < 64", m.facts.ArgMax),
		fmt.Sprintf("argument indices are not bounded by 5 before emission (bounded=%v max=%d enforced=%v): a load beyond the 64-byte seccomp_data is rejected by the kernel, or a condition silently reads another field", m.facts.ArgBounded, m.facts.ArgMax, m.facts.Enforced))
	// closed return set
	x32 := fmt.Sprintf("const:%d", or.Consts["SECCOMP_RET_ERRNO"]|e.ENOSYS())
	for rc := range retSet {
		ok := rc == "act:default" || rc == "act:group" || rc == x32
		r.Check(ok, "E1.retset", "return-value/"+rc, "", "a value the statement allows", "a return of "+rc+" is neither the default action, a group's action nor ERRNO|ENOSYS")
	}
	checkRetContract(e, m, "E1.retset")
	checkPatcherBridgeKinds(e, m, "E1.retset")
	checkRetLiterals(e, m, "E1.retset")
	checkNarrowing(e, m)
}

func objList(m *e1Model) []*emit.Obj {
	var out []*emit.Obj
	for _, o := range m.polObjs {
		out = append(out, o)
	}
	return out
}

// checkPatcherBridgeKinds: instructions the patcher inserts are a Jump or a copy of an existing return.
func checkPatcherBridgeKinds(e *Env, m *e1Model, rule string) {
	r := e.R
	p := m.p
	ia := p.Func(load.PkgRoot, "Program.insertAfter")
	if ia == nil {
		r.Unknown(rule, "patcher-bridges", "", "insertAfter not found")
		return
	}
	n := 0
	for _, fn := range p.SrcFuncs(load.PkgRoot) {
		for _, c := range callsToFn(fn, ia) {
			n++
			arg := c.Call.Args[2]
			alts := []ssa.Value{arg}
			if ph, ok := arg.(*ssa.Phi); ok {
				alts = ph.Edges
			}
			good := true
			for _, a := range alts {
				switch x := a.(type) {
				case *ssa.MakeInterface:
					if !isNamed(x.X.Type(), "golang.org/x/net/bpf", "Jump") {
						good = false
					}
				case *ssa.UnOp:
					// a copy of an instruction already in the list
					if _, ok := x.X.(*ssa.IndexAddr); !ok {
						good = false
					}
				default:
					good = false
				}
			}
			r.Check(good, rule, load.FuncName(fn)+"/bridge-kinds", p.Pos(c.Pos()), "inserted instructions are unconditional jumps or copies of instructions already in the list: the return set stays closed", "the patcher inserts an instruction that is neither a Jump nor a copy of an existing instruction")
		}
	}
	r.Floor("E1.retset(bridge insertion sites)", n, 1)
}

// checkNarrowing (E2.narrow): every integer conversion to a narrower or differently signed type in the compile path.
func checkNarrowing(e *Env, m *e1Model) {
	r := e.R
	p := m.p
	res := origin.NewResolver()
	n := 0
	for _, fn := range p.SrcFuncs(load.PkgRoot) {
		file := p.Fset.Position(fn.Pos()).Filename
		if !(strings.HasSuffix(file, "filter.go") || strings.HasSuffix(file, "assembler.go")) {
			continue
		}
		for _, b := range fn.Blocks {
			for _, in := range b.Instrs {
				cv, ok := in.(*ssa.Convert)
				if !ok {
					continue
				}
				from, ok1 := cv.X.Type().Underlying().(*types.Basic)
				to, ok2 := cv.Type().Underlying().(*types.Basic)
				if !ok1 || !ok2 || from.Info()&types.IsInteger == 0 || to.Info()&types.IsInteger == 0 {
					continue
				}
				if _, isConst := cv.X.(*ssa.Const); isConst {
					continue
				}
				fb, fs := intBits(from)
				tb, tsg := intBits(to)
				if tb > fb || (tb == fb && fs == tsg) || (tb > fb-0 && !fs && tsg && tb > fb) {
					continue // widening or same
				}
				n++
				o := res.Of(cv.X, nil, cv)
				key := load.FuncName(fn) + "/" + to.Name() + "(" + convDesc(o) + ")"
				pos := p.Pos(cv.Pos())
				// 1. exact: uint32(x >> 32) of a uint64
				if o.Kind == origin.KBin && o.Op == token.SHR && fb == 64 && tb == 32 {
					if k, ok := o.Args[1].IsConstInt(); ok && k >= 32 {
						r.OK("E2.narrow", key, pos, "exact: the high 32 bits")
						continue
					}
				}
				// 2. guarded by dominating comparisons with constants
				lo, hi, okLo, okHi := rangeFromGuards(cv.X, b)
				maxT := int64(1)<<uint(tb) - 1
				if tsg {
					maxT = int64(1)<<uint(tb-1) - 1
				}
				if okHi && hi <= maxT && (okLo && lo >= 0 || !fs) {
					r.OK("E2.narrow", key, pos, fmt.Sprintf("guarded: %d <= x <= %d", lo, hi))
					continue
				}
				// 2b. a count of instructions (sum of slice lengths, also when it arrives through a parameter of an
				// unexported function): non-negative; bounded by the guard, or converted to 32 bits or more
				if isCount(p, cv.X, 0) {
					if okHi && hi <= maxT {
						r.OK("E2.narrow", key, pos, fmt.Sprintf("sum of slice lengths: non-negative, and bounded above by the dominating guard (<= %d)", hi))
						continue
					}
					if tb >= 32 {
						r.OK("E2.narrow", key, pos, "sum of slice lengths (non-negative); a program longer than 2^32 instructions cannot exist")
						continue
					}
				}
				// 3. frozen table with reasons
				if reason, ok := narrowingAllowed(o, cv, m, okHi && hi <= maxT); ok {
					r.OK("E2.narrow", key, pos, reason)
					continue
				}
				r.Bad("E2.narrow", key, pos, fmt.Sprintf("conversion from %s to %s of %s is neither exact, guarded by dominating range checks (known: lower=%v upper=%v), nor a listed intentional truncation", from.Name(), to.Name(), convDesc(o), okLo, okHi))
			}
		}
	}
	r.Count("narrowing conversions examined", n)
	r.Floor("E2.narrow(conversions)", n, 3)
}

func intBits(b *types.Basic) (bits int, signed bool) {
	switch b.Kind() {
	case types.Int8:
		return 8, true
	case types.Uint8:
		return 8, false
	case types.Int16:
		return 16, true
	case types.Uint16:
		return 16, false
	case types.Int32:
		return 32, true
	case types.Uint32:
		return 32, false
	case types.Int64, types.Int:
		return 64, true
	case types.Uint64, types.Uint, types.Uintptr:
		return 64, false
	}
	return 64, true
}

func convDesc(o *origin.O) string {
	s := o.String()
	s = strings.ReplaceAll(s, "seccomp.", "")
	if len(s) > 70 {
		s = s[:70] + "..."
	}
	return s
}

// rangeFromGuards collects constant bounds on v from the dominating branch conditions.
func rangeFromGuards(v ssa.Value, b *ssa.BasicBlock) (lo, hi int64, okLo, okHi bool) {
	for _, cd := range flow.DomConds(b) {
		bo, ok := cd.V.(*ssa.BinOp)
		if !ok {
			continue
		}
		if !sameIntValue(bo.X, v) {
			continue
		}
		k, isK := flow.ConstInt(bo.Y)
		if !isK {
			continue
		}
		op := bo.Op
		pol := cd.Pol
		switch {
		case (op == token.LEQ && pol) || (op == token.GTR && !pol):
			if !okHi || k < hi {
				hi, okHi = k, true
			}
		case (op == token.LSS && pol) || (op == token.GEQ && !pol):
			if !okHi || k-1 < hi {
				hi, okHi = k-1, true
			}
		case (op == token.GEQ && pol) || (op == token.LSS && !pol):
			if !okLo || k > lo {
				lo, okLo = k, true
			}
		case (op == token.GTR && pol) || (op == token.LEQ && !pol):
			if !okLo || k+1 > lo {
				lo, okLo = k+1, true
			}
		}
	}
	return
}

// sameIntValue: a and b are the same SSA value, or the same arithmetic over the same values (go/ssa does no CSE).
func sameIntValue(a, b ssa.Value) bool {
	if a == b {
		return true
	}
	x, ok1 := a.(*ssa.BinOp)
	y, ok2 := b.(*ssa.BinOp)
	if ok1 && ok2 && x.Op == y.Op {
		return sameIntValue(x.X, y.X) && sameIntValue(x.Y, y.Y)
	}
	cx, ok1 := a.(*ssa.Call)
	cy, ok2 := b.(*ssa.Call)
	if ok1 && ok2 {
		bx, okx := cx.Call.Value.(*ssa.Builtin)
		by, oky := cy.Call.Value.(*ssa.Builtin)
		if okx && oky && bx.Name() == "len" && by.Name() == "len" {
			return cx.Call.Args[0] == cy.Call.Args[0]
		}
	}
	ka, ok1 := a.(*ssa.Const)
	kb, ok2 := b.(*ssa.Const)
	if ok1 && ok2 && ka.Value != nil && kb.Value != nil {
		return ka.Value.ExactString() == kb.Value.ExactString()
	}
	return false
}

// narrowingAllowed is the frozen table of intentional or otherwise justified conversions (one reason each).
func narrowingAllowed(o *origin.O, cv *ssa.Convert, m *e1Model, upperOK bool) (string, bool) {
	s := o.String()
	fn := load.FuncName(cv.Parent())
	switch {
	case o.Kind == origin.KField && o.Field.Name() == "Value":
		return "intended truncation: the low 32 bits of the 64-bit operand (the high half is compared separately)", true
	case o.Kind == origin.KBin && o.Op == token.OR && strings.Contains(s, ".SyscallNames[") && strings.Contains(s, ".SeccompMask"):
		return "table value | mask: syscall numbers and the x32 bit fit in 31 bits (C12 compares every row with the oracles)", true
	case o.Kind == origin.KField && o.Field.Name() == "SeccompMask":
		return "arch.X32.SeccompMask literal 0x40000000 (C12)", true
	case m.b != nil && m.b.IsPatcher(cv.Parent()):
		// distances: discharged structurally by C06 (E2.final / E2.bridge: 0 <= distance <= 255 after a quiescent pass; bridge skip = distance)
		dist := m.p.Func(load.PkgRoot, "Program.computeSkipN")
		if originCalls(o, dist) || strings.Contains(s, "loop:") {
			return "jump distance: range established by the patcher's own loop/branch (`< 0` loop, `> 255` branch) - see C06 E2.final/E2.bridge", true
		}
	case fn == "Program.Ret":
		return "Action is a uint32 type: same width", true
	}
	return "", false
}

// isCount: v is a sum of slice lengths and non-negative constants, possibly passed through parameters of unexported
// functions (then every call site must pass such a sum).
func isCount(p *load.Program, v ssa.Value, depth int) bool {
	if depth > 4 {
		return false
	}
	switch x := v.(type) {
	case *ssa.BinOp:
		if x.Op == token.ADD {
			return isCount(p, x.X, depth) && isCount(p, x.Y, depth)
		}
	case *ssa.Call:
		if bi, ok := x.Call.Value.(*ssa.Builtin); ok && (bi.Name() == "len" || bi.Name() == "cap") {
			return true
		}
	case *ssa.Const:
		k, ok := flow.ConstInt(x)
		return ok && k >= 0
	case *ssa.Parameter:
		fn := x.Parent()
		if fn.Object() == nil || fn.Object().Exported() && fn.Signature.Recv() == nil {
			return false
		}
		if fn.Object().Exported() {
			return false
		}
		idx := -1
		for i, q := range fn.Params {
			if q == x {
				idx = i
			}
		}
		n := 0
		for _, f := range p.SrcFuncs(load.PkgRoot) {
			for _, b := range f.Blocks {
				for _, in := range b.Instrs {
					ci, ok := in.(ssa.CallInstruction)
					if !ok {
						continue
					}
					if ci.Common().StaticCallee() == fn {
						n++
						if idx >= len(ci.Common().Args) || !isCount(p, ci.Common().Args[idx], depth+1) {
							return false
						}
					} else if ci.Common().StaticCallee() == nil {
						// the function used as a value (closure, method value) somewhere: give up
						for _, a := range ci.Common().Args {
							if a == ssa.Value(fn) {
								return false
							}
						}
					}
				}
			}
		}
		return n > 0 && !usedAsValue(p, fn)
	}
	return false
}

// usedAsValue: the function is referenced other than as the callee of a static call.
func usedAsValue(p *load.Program, fn *ssa.Function) bool {
	for _, f := range p.SrcFuncs(load.PkgRoot) {
		for _, b := range f.Blocks {
			for _, in := range b.Instrs {
				for _, op := range in.Operands(nil) {
					if *op == ssa.Value(fn) {
						if ci, ok := in.(ssa.CallInstruction); ok && ci.Common().Value == ssa.Value(fn) {
							continue
						}
						return true
					}
				}
				if mc, ok := in.(*ssa.MakeClosure); ok && mc.Fn == ssa.Value(fn) {
					return true
				}
			}
		}
	}
	return false
}

func isSumOfLens(v ssa.Value) bool {
	switch x := v.(type) {
	case *ssa.BinOp:
		if x.Op == token.ADD {
			return isSumOfLens(x.X) && isSumOfLens(x.Y)
		}
	case *ssa.Call:
		if bi, ok := x.Call.Value.(*ssa.Builtin); ok && bi.Name() == "len" {
			return true
		}
	case *ssa.Const:
		k, ok := flow.ConstInt(x)
		return ok && k >= 0
	}
	return false
}

// checkCondSources (E1.source): the conditions that are lowered are the policy's own: every condition that becomes
// current in the emitter is an element of a full range over a list that is an element of a full range over the
// Conditions field of an entry, the entry being an element of a full range over the list the validation function
// returned - with no function in between that could drop, merge or rewrite conditions.
func checkCondSources(e *Env, m *e1Model) {
	r := e.R
	p := m.p
	ts := p.Func(load.PkgRoot, "SyscallGroup.toSyscallsWithConditions")
	// x[rangekey(x)] -> x
	ranged := func(o *origin.O) *origin.O {
		if o == nil {
			return nil
		}
		switch o.Kind {
		case origin.KElem:
			if len(o.Args) == 2 && o.Args[1].Kind == origin.KRangeKey && len(o.Args[1].Args) == 1 && origin.Equal(o.Args[1].Args[0], o.Args[0]) {
				return o.Args[0]
			}
		case origin.KRangeVal:
			if len(o.Args) == 1 {
				return o.Args[0]
			}
		}
		return nil
	}
	n := 0
	for pos, o := range m.fragG.CondSources {
		n++
		list := ranged(o)            // the condition list
		lists := ranged(list)        // the entry's Conditions
		var entry, entries *origin.O // the entry; the list of entries
		if lists != nil && lists.Kind == origin.KField && lists.Field.Name() == "Conditions" {
			entry = lists.Args[0]
			entries = ranged(entry)
		}
		good := entries != nil && entries.Kind == origin.KCall && entries.Callee != nil && entries.Callee == ts
		detail := "ok"
		if !good {
			detail = o.String()
			if len(detail) > 260 {
				detail = detail[:260] + "..."
			}
		}
		r.Check(good, "E1.source", "condition-source", p.Pos(pos),
			"each lowered condition is an element of a list of the Conditions of an entry returned by the validation function, reached by ranging over all elements",
			"the conditions that are lowered are not exactly the entry's own condition lists (a function or partial selection lies in between, so conditions can be dropped, merged or rewritten before they are compiled): "+detail)
	}
	r.Floor("E1.source(condition stores)", n, 1)
}
