package rules

// Panic sites that are neither bounds checks nor type assertions: operations and standard-library calls that panic for
// particular *argument values* (a negative count, a negative length, a zero divisor, a slice too short for an array
// conversion, a Must* constructor on a non-constant). Shared by C07 (compile path outside the patcher) and C16 (everything
// the extraction reaches).

import (
	"fmt"
	"go/token"
	"go/types"
	"strings"

	"golang.org/x/tools/go/ssa"

	"sbpfcheck/flow"
	"sbpfcheck/load"
)

// nonNegative: the integer value is provably >= 0 by its construction (constants, len/cap, sums and products of such,
// unsigned values widened, joins of such).
// callSitesOf is set by checkArgPanics for the duration of one run: the static call sites of a function among the functions
// being examined (a capacity hint computed by the caller and handed down as a parameter).
var callSitesOf func(f *ssa.Function) []*ssa.Call

var nonNegAssumed = map[*ssa.Phi]bool{}

func nonNegative(v ssa.Value, depth int) bool {
	if depth > 14 {
		return false
	}
	switch x := v.(type) {
	case *ssa.Parameter:
		f := x.Parent()
		if callSitesOf == nil || f == nil {
			return false
		}
		idx := -1
		for i, q := range f.Params {
			if q == x {
				idx = i
			}
		}
		sites := callSitesOf(f)
		if idx < 0 || len(sites) == 0 {
			return false
		}
		for _, c := range sites {
			if idx >= len(c.Call.Args) || !nonNegative(c.Call.Args[idx], depth+1) {
				return false
			}
		}
		return true
	case *ssa.Extract:
		if c, ok := x.Tuple.(*ssa.Call); ok {
			if h := c.Call.StaticCallee(); h != nil && len(h.Blocks) > 0 && h.Pkg != nil && strings.HasPrefix(h.Pkg.Pkg.Path(), load.Module) {
				for _, ret := range flow.Returns(h) {
					rs := flow.RetResults(ret)
					if x.Index >= len(rs) || !nonNegative(rs[x.Index], depth+1) {
						return false
					}
				}
				return true
			}
		}
		return false
	}
	if k, ok := flow.ConstInt(v); ok {
		return k >= 0
	}
	switch x := v.(type) {
	case *ssa.Call:
		if bi, ok := x.Call.Value.(*ssa.Builtin); ok && (bi.Name() == "len" || bi.Name() == "cap" || bi.Name() == "copy") {
			return true
		}
		if h := x.Call.StaticCallee(); h != nil && len(h.Blocks) > 0 && h.Pkg != nil && strings.HasPrefix(h.Pkg.Pkg.Path(), load.Module) && h.Signature.Results().Len() == 1 {
			for _, ret := range flow.Returns(h) {
				if !nonNegative(flow.RetResults(ret)[0], depth+1) {
					return false
				}
			}
			return true
		}
		if bi, ok := x.Call.Value.(*ssa.Builtin); ok && (bi.Name() == "min" || bi.Name() == "max") {
			all, any := true, false
			for _, a := range x.Call.Args {
				if nonNegative(a, depth+1) {
					any = true
				} else {
					all = false
				}
			}
			if bi.Name() == "max" {
				return any
			}
			return all
		}
	case *ssa.BinOp:
		switch x.Op {
		case token.ADD, token.MUL, token.SHR, token.AND, token.OR:
			return nonNegative(x.X, depth+1) && nonNegative(x.Y, depth+1)
		case token.QUO, token.REM:
			return nonNegative(x.X, depth+1) && nonNegative(x.Y, depth+1)
		}
	case *ssa.Phi:
		// an accumulator (`n += len(x)` in a loop): non-negative if it starts non-negative and every step keeps it so -
		// the phi itself is assumed while its edges are examined (induction over the iterations)
		if nonNegAssumed[x] {
			return true
		}
		nonNegAssumed[x] = true
		defer delete(nonNegAssumed, x)
		for _, ed := range x.Edges {
			if ed == v {
				continue
			}
			if !nonNegative(ed, depth+1) {
				return false
			}
		}
		return true
	case *ssa.Convert:
		if b, ok := x.X.Type().Underlying().(*types.Basic); ok && b.Info()&types.IsUnsigned != 0 {
			if tb, ok := x.Type().Underlying().(*types.Basic); ok {
				// widening of an unsigned value (uint8/16/32 -> int on 64-bit and 32-bit: uint32 -> int may wrap on 32-bit)
				switch b.Kind() {
				case types.Uint8, types.Uint16:
					return tb.Info()&types.IsInteger != 0
				}
			}
		}
		return false
	}
	return false
}

// checkArgPanics reports value-dependent panic sites in fns; skip says which functions are outside the rule's scope.
func checkArgPanics(e *Env, p *load.Program, fns []*ssa.Function, rule string, skip func(*ssa.Function) bool, withDivision bool) {
	r := e.R
	n := 0
	sites := map[*ssa.Function][]*ssa.Call{}
	for _, fn := range fns {
		for _, ci := range flow.Calls(fn) {
			if c, ok := ci.(*ssa.Call); ok {
				if h := c.Call.StaticCallee(); h != nil {
					sites[h] = append(sites[h], c)
				}
			}
		}
	}
	callSitesOf = func(f *ssa.Function) []*ssa.Call { return sites[f] }
	defer func() { callSitesOf = nil }()
	for _, fn := range fns {
		if skip != nil && skip(fn) {
			continue
		}
		name := load.FuncName(fn)
		for _, b := range fn.Blocks {
			for _, in := range b.Instrs {
				switch x := in.(type) {
				case *ssa.MakeSlice:
					n++
					if !nonNegative(x.Len, 0) || !nonNegative(x.Cap, 0) {
						r.Bad(rule, name+"/make-length", p.Pos(x.Pos()), "make with a length or capacity that is not non-negative by construction (a sum of lengths and constants): a negative value panics")
					}
				case *ssa.SliceToArrayPointer:
					n++
					r.Bad(rule, name+"/slice-to-array", p.Pos(x.Pos()), "conversion of a slice to an array (pointer): panics when the slice is shorter than the array")
				case *ssa.BinOp:
					if withDivision && (x.Op == token.QUO || x.Op == token.REM) {
						if bt, ok := x.X.Type().Underlying().(*types.Basic); ok && bt.Info()&types.IsInteger != 0 {
							n++
							if k, ok := flow.ConstInt(x.Y); !ok || k == 0 {
								r.Bad(rule, name+"/division", p.Pos(x.Pos()), "integer division by a value that is not a non-zero constant")
							}
						}
					}
				case *ssa.Call:
					cal := flow.Callee(x)
					if cal == nil || cal.Pkg == nil {
						continue
					}
					pkg := cal.Pkg.Pkg.Path()
					fname := cal.Name()
					switch {
					case (pkg == "strings" || pkg == "bytes") && fname == "Repeat":
						n++
						if len(x.Call.Args) == 2 && !nonNegative(x.Call.Args[1], 0) {
							r.Bad(rule, name+"/"+pkg+".Repeat", p.Pos(x.Pos()), pkg+".Repeat with a count that is not non-negative by construction: a negative count panics")
						}
					case (pkg == "strings" || pkg == "bytes") && fname == "Grow":
						n++
						if k := len(x.Call.Args); k >= 1 && !nonNegative(x.Call.Args[k-1], 0) {
							r.Bad(rule, name+"/"+pkg+".Grow", p.Pos(x.Pos()), "Grow with a count that is not non-negative by construction: a negative count panics")
						}
					case strings.HasPrefix(fname, "Must") && !strings.HasPrefix(pkg, load.Module) && pkg != "regexp":
						n++
						allConst := true
						for _, a := range x.Call.Args {
							if _, ok := a.(*ssa.Const); !ok {
								allConst = false
							}
						}
						if !allConst {
							r.Bad(rule, name+"/"+pkg+"."+fname, p.Pos(x.Pos()), fmt.Sprintf("%s.%s panics when its argument is invalid and the argument is not a constant", pkg, fname))
						}
					}
				}
			}
		}
	}
	r.Count("value-dependent panic sites examined (make, Repeat, Grow, Must*, division, array conversion)", n)
}

// symbolicBound: an index or slice expression whose bound is not a constant but is stated by a dominating comparison of the
// same values: `x[lo:]` behind `len(x) >= lo` (in any spelling), `x[i]` behind `i < len(x)`, with lo / i non-negative by
// construction.
func symbolicBound(in ssa.Instruction) (string, bool) {
	lenOf := func(v ssa.Value, x ssa.Value) bool {
		c, ok := v.(*ssa.Call)
		if !ok {
			return false
		}
		bi, ok := c.Call.Value.(*ssa.Builtin)
		return ok && bi.Name() == "len" && len(c.Call.Args) == 1 && c.Call.Args[0] == x
	}
	// holds(a, op, b): a dominating condition states `a op b` for op in {<, <=}
	states := func(b *ssa.BasicBlock, isA func(ssa.Value) bool, strict bool, isB func(ssa.Value) bool) bool {
		for _, cd := range flow.DomConds(b) {
			cn := flow.Norm(cd)
			bo, ok := cn.V.(*ssa.BinOp)
			if !ok {
				continue
			}
			op, X, Y := bo.Op, bo.X, bo.Y
			if !cn.Pol {
				switch op {
				case token.LSS:
					op = token.GEQ
				case token.LEQ:
					op = token.GTR
				case token.GTR:
					op = token.LEQ
				case token.GEQ:
					op = token.LSS
				default:
					continue
				}
			}
			// normalise to A (<|<=) B
			switch op {
			case token.GTR:
				op, X, Y = token.LSS, Y, X
			case token.GEQ:
				op, X, Y = token.LEQ, Y, X
			}
			if op != token.LSS && op != token.LEQ {
				continue
			}
			if isA(X) && isB(Y) && (op == token.LSS || !strict) {
				return true
			}
		}
		return false
	}
	switch x := in.(type) {
	case *ssa.Slice:
		if x.Low == nil || x.High != nil || x.Max != nil {
			return "", false
		}
		if _, isConst := x.Low.(*ssa.Const); isConst {
			return "", false
		}
		if !nonNegative(x.Low, 0) {
			return "", false
		}
		if states(x.Block(), func(v ssa.Value) bool { return v == x.Low }, false, func(v ssa.Value) bool { return lenOf(v, x.X) }) {
			return "the low bound is non-negative and a dominating comparison states that it does not exceed the length", true
		}
	case *ssa.IndexAddr:
		if nonNegative(x.Index, 0) && states(x.Block(), func(v ssa.Value) bool { return v == x.Index }, true, func(v ssa.Value) bool { return lenOf(v, x.X) }) {
			return "the index is non-negative and a dominating comparison states that it is below the length", true
		}
	case *ssa.Index:
		if nonNegative(x.Index, 0) && states(x.Block(), func(v ssa.Value) bool { return v == x.Index }, true, func(v ssa.Value) bool { return lenOf(v, x.X) }) {
			return "the index is non-negative and a dominating comparison states that it is below the length", true
		}
	}
	return "", false
}

// withCallSites runs f with parameter values resolvable at the static call sites among fns.
func withCallSites(fns []*ssa.Function, f func()) {
	sites := map[*ssa.Function][]*ssa.Call{}
	for _, fn := range fns {
		for _, ci := range flow.Calls(fn) {
			if c, ok := ci.(*ssa.Call); ok {
				if h := c.Call.StaticCallee(); h != nil {
					sites[h] = append(sites[h], c)
				}
			}
		}
	}
	old := callSitesOf
	callSitesOf = func(g *ssa.Function) []*ssa.Call { return sites[g] }
	defer func() { callSitesOf = old }()
	f()
}
