package rules

import (
	"fmt"
	"go/build"
	"os"
	"path/filepath"
	"sort"
	"strings"
)

// linuxPorts: the GOARCH values of Go's Linux ports (go tool dist list, go1.23-go1.26).
var linuxPorts = []string{"386", "amd64", "arm", "arm64", "loong64", "mips", "mips64", "mips64le", "mipsle", "ppc64", "ppc64le", "riscv64", "s390x"}

// FileSetTargets answers: is the source the rules analysed (the files selected for
// linux/amd64) the source of every Linux port?  For every non-test Go file of the
// module it evaluates the build constraints (file name suffixes and //go:build
// lines, by go/build) under each Linux port. It returns one representative
// target per selection of files that differs from linux/amd64's, with the
// differing files, so that the caller can repeat the rules there: a function
// that exists in a different version for arm64 only is otherwise never read.
func FileSetTargets(repo string) (extra []string, diff map[string][]string, built []string, err error) {
	type sel map[string]bool
	sels := map[string]sel{}
	for _, a := range linuxPorts {
		sels[a] = sel{}
	}
	var files []string
	werr := filepath.Walk(repo, func(path string, fi os.FileInfo, err error) error {
		if err != nil {
			return err
		}
		name := fi.Name()
		if fi.IsDir() {
			if path != repo && (strings.HasPrefix(name, ".") || strings.HasPrefix(name, "_") || name == "testdata" || name == "vendor") {
				return filepath.SkipDir
			}
			return nil
		}
		if strings.HasSuffix(name, ".go") && !strings.HasSuffix(name, "_test.go") || strings.HasSuffix(name, ".s") {
			files = append(files, path)
		}
		return nil
	})
	if werr != nil {
		return nil, nil, nil, werr
	}
	sort.Strings(files)
	for _, a := range linuxPorts {
		ctx := build.Default
		ctx.GOOS, ctx.GOARCH, ctx.CgoEnabled = "linux", a, true
		ctx.BuildTags = nil
		for _, f := range files {
			ok, merr := ctx.MatchFile(filepath.Dir(f), filepath.Base(f))
			if merr != nil {
				return nil, nil, nil, fmt.Errorf("%s: %v", f, merr)
			}
			if ok {
				rel, _ := filepath.Rel(repo, f)
				sels[a][rel] = true
			}
		}
	}
	base := sels["amd64"]
	diff = map[string][]string{}
	seen := map[string]bool{}
	for _, a := range linuxPorts {
		if a == "amd64" {
			continue
		}
		var d []string
		for f := range sels[a] {
			if !base[f] {
				d = append(d, "+"+f)
			}
		}
		for f := range base {
			if !sels[a][f] {
				d = append(d, "-"+f)
			}
		}
		if len(d) == 0 {
			continue
		}
		sort.Strings(d)
		sig := strings.Join(d, " ")
		if seen[sig] {
			continue
		}
		seen[sig] = true
		extra = append(extra, "linux/"+a)
		diff["linux/"+a] = d
	}
	union := map[string]bool{}
	for _, a := range linuxPorts {
		for f := range sels[a] {
			union[f] = true
		}
	}
	for f := range union {
		built = append(built, f)
	}
	sort.Strings(built)
	return extra, diff, built, nil
}

// RunOtherFileSets repeats the property's rules under every Linux port whose
// file selection differs from linux/amd64 (none on the pinned tree) and records
// rule `core.targets`. skip names targets that are analysed anyway.
func RunOtherFileSets(e *Env, prop string, spec *Spec, skip []string) {
	r := e.R
	extra, diff, built, err := FileSetTargets(e.Repo)
	n := len(built)
	if err != nil {
		r.Unknown("core.targets", "file-selection", "", fmt.Sprintf("build constraints could not be evaluated: %v", err))
		return
	}
	checkOpaque(e, built)
	if len(extra) == 0 {
		r.OK("core.targets", "file-selection", "", fmt.Sprintf("%d source files: every Linux port of Go (%d) builds the files that were analysed for linux/amd64", n, len(linuxPorts)))
		return
	}
	for _, t := range extra {
		already := false
		for _, s := range skip {
			if s == t {
				already = true
			}
		}
		r.OK("core.targets", "file-selection/"+t, "", fmt.Sprintf("%s builds other files than linux/amd64 (%s): the rules are repeated under %s", t, strings.Join(diff[t], " "), t))
		if already {
			continue
		}
		parts := strings.SplitN(t, "/", 2)
		r.KeyPrefix = "[" + t + "] "
		func() {
			defer func() {
				if x := recover(); x != nil {
					r.Unknown("core", "target-run-failed", "", fmt.Sprintf("analysis under %s failed: %v", t, x))
				}
			}()
			RunSpec(NewEnvFor(r, e.Repo, parts[0], parts[1]), prop, spec)
		}()
		r.KeyPrefix = ""
	}
}

// checkOpaque (core.opaque): the module's packages contain nothing the analysis
// cannot read - no assembly files, no cgo, no //go:linkname - and go.mod does
// not replace a dependency whose released semantics the rules trust
// (x/net/bpf, x/sys/unix, go-ucfg, yaml).
func checkOpaque(e *Env, built []string) {
	r := e.R
	var found []string
	for _, rel := range built {
		if !strings.HasSuffix(rel, ".go") {
			found = append(found, rel+": not Go source")
			continue
		}
		b, err := os.ReadFile(filepath.Join(e.Repo, rel))
		if err != nil {
			continue
		}
		for _, line := range strings.Split(string(b), "\n") {
			t := strings.TrimSpace(line)
			if strings.HasPrefix(t, "//go:linkname") {
				found = append(found, rel+": "+t)
			}
			if t == `import "C"` || strings.HasPrefix(t, `"C"`) && strings.TrimSpace(strings.TrimPrefix(t, `"C"`)) == "" {
				found = append(found, rel+": cgo")
			}
		}
	}
	if b, err := os.ReadFile(filepath.Join(e.Repo, "go.mod")); err == nil {
		inBlock := false
		for _, line := range strings.Split(string(b), "\n") {
			t := strings.TrimSpace(line)
			if strings.HasPrefix(t, "replace (") {
				inBlock = true
				continue
			}
			if inBlock && t == ")" {
				inBlock = false
				continue
			}
			if (strings.HasPrefix(t, "replace ") || inBlock && t != "" && !strings.HasPrefix(t, "//")) && strings.Contains(t, "=>") {
				found = append(found, "go.mod: "+t)
			}
		}
	}
	sort.Strings(found)
	if len(found) == 0 {
		r.OK("core.opaque", "module", "", "the files built for Linux contain no assembly, cgo or //go:linkname, and go.mod replaces no dependency")
		return
	}
	for _, f := range found {
		r.Unknown("core.opaque", f, "", "the analysis reads Go source and trusts the released dependencies: "+f+" is outside what it can vouch for")
	}
}

// RunAll is what one check of a property consists of: the property's rules (with the properties it requires) on
// linux/amd64, repeated under every Linux port that builds other files (skip: targets analysed anyway).
func RunAll(e *Env, prop string, spec *Spec, skip []string) {
	RunSpec(e, prop, spec)
	checkLoopVarCapture(e)
	if prop != "C19" { // C19 analyses every target anyway
		RunOtherFileSets(e, prop, spec, skip)
	}
}
