package rules

import (
	"fmt"
	"go/constant"
	"go/token"
	"go/types"
	"sort"
	"strings"
	"unicode"

	"golang.org/x/tools/go/ssa"

	"sbpfcheck/flow"
	"sbpfcheck/load"
)

// checkFlagSplit (E7.flagsplit): the -b / -allow flag values are cut into names by the Set method of the flag variables'
// type.  Whatever separates names must not occur inside a syscall name: the separator predicate of the split is evaluated
// (constant folding over the function's SSA, with the standard library's own unicode predicates) for every character that
// occurs in a syscall name of the oracle tables, and must be false for all of them; it must be true for at least one of
// the documented separators (space, comma).  A split the evaluator does not recognise is undecided.
func checkFlagSplit(e *Env, p *load.Program, si *setInterp) {
	r := e.R
	// the alphabet of syscall names
	alpha := map[rune]bool{}
	for _, srcs := range e.Oracle().Syscalls {
		for _, t := range srcs {
			for name := range t {
				for _, c := range name {
					alpha[c] = true
				}
			}
		}
	}
	if len(alpha) < 20 {
		r.Unknown("E7.flagsplit", "alphabet", "", "the oracle's syscall names give no alphabet")
		return
	}
	var chars []rune
	for c := range alpha {
		chars = append(chars, c)
	}
	sort.Slice(chars, func(i, j int) bool { return chars[i] < chars[j] })
	// the Set methods of the flag variables' types
	seen := map[*ssa.Function]bool{}
	n := 0
	for g := range si.flagName {
		t := g.Type().Underlying().(*types.Pointer).Elem()
		named, ok := t.(*types.Named)
		if !ok {
			continue
		}
		var set *ssa.Function
		for i := 0; i < named.NumMethods(); i++ {
			if m := named.Method(i); m.Name() == "Set" {
				set = p.SSA.FuncValue(m)
			}
		}
		if set == nil || seen[set] {
			continue
		}
		seen[set] = true
		key := load.FuncName(set)
		found := false
		for _, c := range flow.Calls(set) {
			call, ok := c.(*ssa.Call)
			if !ok {
				continue
			}
			switch {
			case flow.CalleeIs(call, "strings", "FieldsFunc") && len(call.Call.Args) == 2:
				found = true
				n++
				var pred *ssa.Function
				switch x := call.Call.Args[1].(type) {
				case *ssa.MakeClosure:
					pred, _ = x.Fn.(*ssa.Function)
				case *ssa.Function:
					pred = x
				}
				if pred == nil || len(pred.Params) != 1 || len(pred.FreeVars) != 0 {
					r.Unknown("E7.flagsplit", key+"/separator", p.Pos(call.Pos()), "the separator predicate is not a closure without captured variables")
					continue
				}
				var bad []string
				undecided := false
				for _, ch := range chars {
					v, ok := evalRunePred(pred, ch)
					if !ok {
						undecided = true
						break
					}
					if v {
						bad = append(bad, fmt.Sprintf("%q", ch))
					}
				}
				if undecided {
					r.Unknown("E7.flagsplit", key+"/separator", p.Pos(call.Pos()), "the separator predicate could not be evaluated")
					continue
				}
				r.Check(len(bad) == 0, "E7.flagsplit", key+"/separator-not-in-names", p.Pos(call.Pos()),
					fmt.Sprintf("no character of a syscall name (%d characters checked) separates flag values", len(chars)),
					fmt.Sprintf("the flag value is split at %s, which occur inside syscall names: a blacklisted or allowed name such as exit_group is cut into fragments, so the emitted list is not (found minus blacklisted) plus allowed", strings.Join(bad, ", ")))
				sp, ok1 := evalRunePred(pred, ' ')
				cm, ok2 := evalRunePred(pred, ',')
				r.Check(ok1 && ok2 && (sp || cm), "E7.flagsplit", key+"/separates", p.Pos(call.Pos()), "space or comma separates names", "neither space nor comma separates names")
			case flow.CalleeIs(call, "strings", "Fields"):
				found = true
				n++
				r.OK("E7.flagsplit", key+"/separator-not-in-names", p.Pos(call.Pos()), "split at white space")
			case flow.CalleeIs(call, "strings", "Split") && len(call.Call.Args) == 2:
				found = true
				n++
				sep, ok := flow.ConstString(call.Call.Args[1])
				good := ok && sep != ""
				for _, ch := range sep {
					if alpha[ch] {
						good = false
					}
				}
				r.Check(good, "E7.flagsplit", key+"/separator-not-in-names", p.Pos(call.Pos()), fmt.Sprintf("split at %q", sep), fmt.Sprintf("the flag value is split at %q, which can occur inside a syscall name", sep))
			}
		}
		if !found {
			r.Note("the Set method %s of the flag variables does not split its value with strings.FieldsFunc/Fields/Split: not examined by E7.flagsplit", key)
		}
	}
	r.Count("flag value splits examined", n)
}

// evalRunePred evaluates func(r rune) bool for one character by following the function's SSA with constant values:
// comparisons and arithmetic on the parameter, boolean connectives (as branches and phis), and the unicode / strings
// predicates of the standard library applied to the parameter (computed with the library itself - this folds constants,
// it does not run code of the analysed repository).
func evalRunePred(fn *ssa.Function, ch rune) (bool, bool) {
	if len(fn.Blocks) == 0 {
		return false, false
	}
	vals := map[ssa.Value]int64{fn.Params[0]: int64(ch)}
	var eval func(v ssa.Value, depth int) (int64, bool)
	b2i := func(b bool) int64 {
		if b {
			return 1
		}
		return 0
	}
	eval = func(v ssa.Value, depth int) (int64, bool) {
		if depth > 30 {
			return 0, false
		}
		if k, ok := vals[v]; ok {
			return k, true
		}
		switch x := v.(type) {
		case *ssa.Const:
			if x.Value == nil {
				return 0, false
			}
			switch x.Value.Kind() {
			case constant.Bool:
				return b2i(constant.BoolVal(x.Value)), true
			case constant.Int:
				k, ok := constant.Int64Val(x.Value)
				return k, ok
			}
			return 0, false
		case *ssa.Convert:
			return eval(x.X, depth+1)
		case *ssa.ChangeType:
			return eval(x.X, depth+1)
		case *ssa.UnOp:
			if x.Op == token.NOT {
				a, ok := eval(x.X, depth+1)
				return b2i(a == 0), ok
			}
		case *ssa.BinOp:
			a, ok1 := eval(x.X, depth+1)
			b, ok2 := eval(x.Y, depth+1)
			if !ok1 || !ok2 {
				return 0, false
			}
			switch x.Op {
			case token.EQL:
				return b2i(a == b), true
			case token.NEQ:
				return b2i(a != b), true
			case token.LSS:
				return b2i(a < b), true
			case token.LEQ:
				return b2i(a <= b), true
			case token.GTR:
				return b2i(a > b), true
			case token.GEQ:
				return b2i(a >= b), true
			case token.ADD:
				return a + b, true
			case token.SUB:
				return a - b, true
			case token.AND:
				return a & b, true
			case token.OR:
				return a | b, true
			case token.XOR:
				return a ^ b, true
			}
		case *ssa.Call:
			cal := x.Call.StaticCallee()
			if cal == nil || cal.Pkg == nil {
				return 0, false
			}
			switch cal.Pkg.Pkg.Path() {
			case "unicode":
				if len(x.Call.Args) != 1 {
					return 0, false
				}
				a, ok := eval(x.Call.Args[0], depth+1)
				if !ok {
					return 0, false
				}
				rr := rune(a)
				switch cal.Name() {
				case "IsSpace":
					return b2i(unicode.IsSpace(rr)), true
				case "IsPunct":
					return b2i(unicode.IsPunct(rr)), true
				case "IsLetter":
					return b2i(unicode.IsLetter(rr)), true
				case "IsDigit":
					return b2i(unicode.IsDigit(rr)), true
				case "IsNumber":
					return b2i(unicode.IsNumber(rr)), true
				case "IsSymbol":
					return b2i(unicode.IsSymbol(rr)), true
				case "IsControl":
					return b2i(unicode.IsControl(rr)), true
				case "IsUpper":
					return b2i(unicode.IsUpper(rr)), true
				case "IsLower":
					return b2i(unicode.IsLower(rr)), true
				case "IsGraphic":
					return b2i(unicode.IsGraphic(rr)), true
				case "IsPrint":
					return b2i(unicode.IsPrint(rr)), true
				case "IsMark":
					return b2i(unicode.IsMark(rr)), true
				}
			case "strings":
				if (cal.Name() == "ContainsRune" || cal.Name() == "IndexRune") && len(x.Call.Args) == 2 {
					s, ok1 := flow.ConstString(x.Call.Args[0])
					a, ok2 := eval(x.Call.Args[1], depth+1)
					if ok1 && ok2 {
						if cal.Name() == "ContainsRune" {
							return b2i(strings.ContainsRune(s, rune(a))), true
						}
						return int64(strings.IndexRune(s, rune(a))), true
					}
				}
			}
			return 0, false
		}
		return 0, false
	}
	b := fn.Blocks[0]
	var prev *ssa.BasicBlock
	for steps := 0; steps < 200 && b != nil; steps++ {
		for _, in := range b.Instrs {
			ph, ok := in.(*ssa.Phi)
			if !ok {
				break
			}
			for i, pb := range b.Preds {
				if pb == prev {
					if v, ok := eval(ph.Edges[i], 0); ok {
						vals[ph] = v
					} else {
						delete(vals, ph)
					}
				}
			}
		}
		switch x := b.Instrs[len(b.Instrs)-1].(type) {
		case *ssa.Return:
			if len(x.Results) != 1 {
				return false, false
			}
			v, ok := eval(x.Results[0], 0)
			return v != 0, ok
		case *ssa.If:
			c, ok := eval(x.Cond, 0)
			if !ok {
				return false, false
			}
			prev = b
			if c != 0 {
				b = b.Succs[0]
			} else {
				b = b.Succs[1]
			}
		case *ssa.Jump:
			prev = b
			b = b.Succs[0]
		default:
			return false, false
		}
	}
	return false, false
}
