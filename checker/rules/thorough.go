package rules

import (
	"encoding/json"
	"fmt"
	"os"
	"os/exec"
	"path/filepath"
	"runtime/debug"
	"sbpfcheck/flow"
	"sort"
	"strings"

	"sbpfcheck/core"
)

// Extra build contexts per property for the thorough tier: the targets under which the analysed source
// (or the constants it uses) differs from linux/amd64.
var thoroughTargets = map[string][]string{
	// int is 32 bits, big-endian hosts: conversions, constant folding and the byte-order constants differ
	"C01": {"linux/386", "linux/mips"}, "C02": {"linux/386", "linux/mips", "linux/s390x"}, "C03": {"linux/386"}, "C04": {"linux/386", "linux/arm64"},
	"C05": {"linux/386", "linux/mips"}, "C06": {"linux/386"}, "C07": {"linux/386", "linux/arm64"},
	// the loader: trap numbers and struct layouts per Linux architecture
	"C08": {"linux/386", "linux/arm", "linux/arm64", "linux/mips", "linux/ppc64le", "linux/riscv64", "linux/s390x"},
	"C09": {"linux/386", "linux/arm", "linux/arm64", "linux/mips", "linux/ppc64le", "linux/riscv64", "linux/s390x"},
	"C10": {"linux/386", "linux/arm64", "linux/s390x"},
	"C11": {"linux/386", "linux/arm", "linux/arm64", "linux/mips", "linux/ppc64le", "linux/riscv64", "linux/s390x"},
	"C13": {"linux/arm64", "darwin/arm64"}, "C14": {"darwin/arm64", "windows/amd64"},
	"C15": {"linux/arm64"}, "C16": {"linux/arm64"}, "C17": {"linux/arm64"}, "C18": {"linux/arm64"},
}

// ThoroughTargets: the extra targets of the thorough tier for prop.
func ThoroughTargets(prop string) []string { return thoroughTargets[prop] }

// Thorough repeats the property's rules under further build contexts and runs the positive controls:
// every seeded variant under /verif/seeded that this property's check is recorded to detect must still be
// detected when its patch is applied to a scratch copy of the current tree.
func Thorough(e *Env, prop string, spec *Spec) {
	r := e.R
	for _, t := range thoroughTargets[prop] {
		parts := strings.SplitN(t, "/", 2)
		r.KeyPrefix = "[" + t + "] "
		func() {
			defer func() {
				if x := recover(); x != nil {
					r.Unknown("core", "target-run-failed", "", fmt.Sprintf("analysis under %s failed: %v", t, x))
				}
			}()
			spec.Run(NewEnvFor(r, e.Repo, parts[0], parts[1]))
		}()
		r.KeyPrefix = ""
	}
	r.Extra("thorough_targets", append([]string{"linux/amd64"}, thoroughTargets[prop]...))
	controls(e, prop, spec)
	benignControls(e, prop, spec)
}

// scope: the files a property's rules read (prefixes relative to the repository root).
var propScope = map[string][]string{
	"C01": {"filter.go", "assembler.go"}, "C02": {"filter.go", "assembler.go"}, "C03": {"filter.go", "assembler.go"}, "C04": {"filter.go", "assembler.go", "arch/"},
	"C05": {"filter.go", "assembler.go"}, "C06": {"assembler.go"}, "C07": {"filter.go", "assembler.go", "arch/info.go"},
	"C08": {"seccomp_", "constants.go", "internal/unix"}, "C09": {"seccomp_", "constants.go", "internal/unix"}, "C10": {"seccomp_", "constants.go", "internal/unix", "cmd/sandbox"},
	"C11": {"seccomp_", "constants.go", "internal/unix"}, "C12": {"arch/"}, "C13": {"filter.go", "assembler.go", "arch/", "constants.go"},
	"C14": {"filter.go", "cmd/sandbox", "cmd/seccomp-profiler/main.go"}, "C15": {"cmd/sandbox"}, "C16": {"cmd/seccomp-profiler/disasm"},
	"C17": {"cmd/seccomp-profiler/main.go"}, "C18": {"cmd/seccomp-profiler/main.go", "filter.go"}, "C19": {"constants.go", "internal/unix", "seccomp_"},
}

// benignControls: negative controls.  Behaviour-preserving refactorings archived under selftest/benign/agents (written by
// sub-agents that saw only the repository, each verified by differential tests against the unchanged code) are applied to
// a scratch copy; the property's rules should stay silent on them.  The outcome is recorded as evidence of the rules'
// specificity; it does not decide the property and never fails the check.
func benignControls(e *Env, prop string, spec *Spec) {
	r := e.R
	files, _ := filepath.Glob(filepath.Join(r.VerifDir, "selftest", "benign", "agents", "*", "r*.diff"))
	sort.Strings(files)
	nRun, nSilent, nRel := 0, 0, 0
	var noisy []string
	for _, patch := range files {
		b, err := os.ReadFile(patch)
		if err != nil {
			continue
		}
		relevant := false
		for _, line := range strings.Split(string(b), "\n") {
			if !strings.HasPrefix(line, "+++ b/") {
				continue
			}
			f := strings.TrimPrefix(line, "+++ b/")
			for _, pre := range propScope[prop] {
				if strings.HasPrefix(f, pre) {
					relevant = true
				}
			}
		}
		if !relevant {
			continue
		}
		// C19 analyses 49 targets per variant: every third relevant variant (fixed order) keeps the tier within minutes
		if prop == "C19" {
			nRel++
			if nRel%3 != 1 {
				continue
			}
		}
		tmp, err := os.MkdirTemp("", "sbpf-benign-")
		if err != nil {
			continue
		}
		func() {
			defer releaseProgram(e)
			defer os.RemoveAll(tmp)
			if out, err := exec.Command("rsync", "-a", "--exclude", ".git", e.Repo+"/", tmp+"/").CombinedOutput(); err != nil {
				r.Note("benign control: cannot copy the tree: %v %s", err, out)
				return
			}
			if _, err := exec.Command("patch", "-p1", "-s", "-f", "-d", tmp, "-i", patch).CombinedOutput(); err != nil {
				return // no longer applies
			}
			sub := core.NewRun(prop, "quick", 0, spec.Level, filepath.Join(tmp, ".verif"), tmp)
			func() {
				defer func() {
					if x := recover(); x != nil {
						sub.Unknown("core", "checker-panic", "", fmt.Sprint(x))
					}
				}()
				RunAll(NewEnvFor(sub, tmp, "linux", "amd64"), prop, spec, nil)
			}()
			nRun++
			name := filepath.Base(filepath.Dir(patch)) + "/" + filepath.Base(patch)
			if failed, first := sub.Failed(); failed {
				noisy = append(noisy, name+": "+first)
			} else {
				nSilent++
			}
		}()
	}
	r.Count("negative controls run (behaviour-preserving refactorings)", nRun)
	r.Count("negative controls on which the rules stayed silent", nSilent)
	for _, n := range noisy {
		r.Note("conservative: the rules report on the behaviour-preserving variant %s", n)
	}
}

type seedMeta struct {
	ID         string   `json:"id"`
	Breaks     string   `json:"breaks_property"`
	DetectedBy []string `json:"detected_by"`
	Summary    string   `json:"summary"`
}

// controls: positive controls from the seeded variants.
func controls(e *Env, prop string, spec *Spec) {
	r := e.R
	dir := filepath.Join(r.VerifDir, "seeded")
	ents, err := os.ReadDir(dir)
	if err != nil {
		r.Note("no seeded variants directory: positive controls skipped")
		return
	}
	var ids []string
	for _, en := range ents {
		if en.IsDir() {
			ids = append(ids, en.Name())
		}
	}
	sort.Strings(ids)
	nRun, nSkip := 0, 0
	for _, id := range ids {
		b, err := os.ReadFile(filepath.Join(dir, id, "meta.json"))
		if err != nil {
			continue
		}
		var m seedMeta
		if json.Unmarshal(b, &m) != nil {
			continue
		}
		expected := false
		for _, d := range m.DetectedBy {
			if d == prop {
				expected = true
			}
		}
		if !expected {
			continue
		}
		patch := filepath.Join(dir, id, "patch.diff")
		tmp, err := os.MkdirTemp("", "sbpf-control-")
		if err != nil {
			r.Unknown("control", "seeded/"+id, "", err.Error())
			continue
		}
		func() {
			defer releaseProgram(e)
			defer os.RemoveAll(tmp)
			cp := exec.Command("rsync", "-a", "--exclude", ".git", e.Repo+"/", tmp+"/")
			if out, err := cp.CombinedOutput(); err != nil {
				r.Unknown("control", "seeded/"+id, "", fmt.Sprintf("cannot copy the tree: %v %s", err, out))
				return
			}
			ap := exec.Command("git", "apply", "--unsafe-paths", "--directory="+tmp, patch)
			ap.Dir = "/"
			ap = exec.Command("patch", "-p1", "-s", "-f", "-d", tmp, "-i", patch)
			if out, err := ap.CombinedOutput(); err != nil {
				nSkip++
				r.Note("control seeded/%s skipped: its patch no longer applies to the current tree (%s)", id, strings.TrimSpace(strings.Split(string(out), "\n")[0]))
				return
			}
			sub := core.NewRun(prop, "quick", 0, spec.Level, filepath.Join(tmp, ".verif"), tmp)
			func() {
				defer func() {
					if x := recover(); x != nil {
						sub.Unknown("core", "checker-panic", "", fmt.Sprint(x))
					}
				}()
				RunAll(NewEnvFor(sub, tmp, "linux", "amd64"), prop, spec, nil)
			}()
			nRun++
			failed, first := sub.Failed()
			r.Check(failed, "control", "seeded/"+id, "", "still detected on a scratch copy with the seeded change applied (first report: "+first+")",
				"the seeded variant "+id+" ("+m.Summary+") is no longer reported by this check: the checker lost the ability to fire on it")
		}()
	}
	r.Count("positive controls run (seeded variants)", nRun)
	if nSkip > 0 {
		r.Count("positive controls skipped (patch no longer applies)", nSkip)
	}
}

// releaseProgram: after a control variant was analysed, drop everything that keeps its SSA program alive (the memo tables
// are keyed by function) and hand the memory back; otherwise a thorough run holds one program per variant.
func releaseProgram(e *Env) {
	flow.ResetCaches()
	e.mu.Lock()
	if e.host != nil {
		pathProgram = e.host
	}
	e.mu.Unlock()
	debug.FreeOSMemory()
}
