// Package rules holds the repository-specific rules, one file per property,
// on top of the engines (tables, flow, effects, nopanic, affine, emitgraph).
package rules

import (
	"encoding/json"
	"fmt"
	"os"
	"path/filepath"
	"sync"

	"sbpfcheck/core"
	"sbpfcheck/load"
)

// Spec describes one claimed property.
type Spec struct {
	Level       string
	Explanation string
	Trusted     []string
	Assumptions []string
	Run         func(*Env)
}

// Specs is filled by the init functions of the property files.
var Specs = map[string]*Spec{}

// Requires lists, for a property whose statement includes the statements of other properties, those properties: C08 ("the
// kernel's decisions equal the policy's, for arbitrary arguments, whatever the size") includes the compiler properties, and "after a successful load" is C09's "nil only if the filter is in force"; C15
// names the invalid policies of C07, the kernel's refusal of C09 and "the target observes exactly the policy's decisions"
// (C08) - the policy being the one written in the file, so the configuration path (C14) is included as well; C18's last clause is the configuration path (C14) plus the allow-list semantics (C01).  A tree on which a required
// property's rules report a violation violates the including property as well, and its check says so (rule `requires`).
var Requires = map[string][]string{
	// "for any number of groups and names, up to the whole syscall table", "for programs of every size", "every jump is
	// forward and in bounds": the label-level argument of E1 becomes a statement about the assembled program through C06
	"C01": {"C06"},
	// "all its conditions satisfied": what it means for one condition to be satisfied is C02 (seed C03j: the upper-half
	// comparison dropped on 32-bit architectures for every operation but Equal)
	"C03": {"C02"},
	"C04": {"C06"},
	"C05": {"C06"},
	// ... and the kernel decides on the *numbers*: "the kernel's decisions equal the policy's" needs the table that turned
	// the policy's names into numbers, and the audit-architecture word the filter compares, to be the kernel's (C12; seed
	// C15h: a new architecture whose AUDIT_ARCH constant lacks the little-endian bit - every event takes the default)
	"C08": {"C01", "C02", "C03", "C04", "C05", "C06", "C09", "C12"},
	// "when the thread-sync flag is requested and the load returns nil, every thread ... is subject to the filter": that a nil
	// result means the kernel attached the filter at all is C09 (seed C10g: a sparse errno-to-error table with a nil hole
	// at ENOMEM - the thread-sync load "succeeds" with no thread filtered)
	"C10": {"C09"},
	"C15": {"C07", "C09", "C08", "C14"},
	// "the syscalls discovered in the binary": the set F the profiler starts from is what the extraction reports, and the
	// list is made of the reported *names*; C16's "every reported syscall exists in the table under the reported name"
	// is what makes F a set of syscalls of the binary (seed C18h: names looked up through a mis-sized index table)
	// ... and the extraction runs on the disassembly the cache hands out: "discovered in the binary" needs that text to be
	// the complete disassembly of this binary (C17; seed C18j: a cache check that accepts an empty header)
	"C18": {"C14", "C01", "C16", "C17"},
}

// RunSpec runs a property's rules and then the rules of the properties it requires (transitively), recording one
// obligation per required property.
func RunSpec(e *Env, prop string, spec *Spec) {
	spec.Run(e)
	seen := map[string]bool{prop: true}
	var visit func(ps []string)
	visit = func(ps []string) {
		for _, dep := range ps {
			if seen[dep] {
				continue
			}
			seen[dep] = true
			ds := Specs[dep]
			if ds == nil {
				continue
			}
			sub := core.NewRun(dep, "quick", e.R.Seed, ds.Level, e.R.VerifDir, e.R.RepoDir)
			sub.Quiet = true
			e.mu.Lock()
			e2 := &Env{R: sub, Repo: e.Repo, GOOS: e.GOOS, GOARCH: e.GOARCH, host: e.host, hostNo: e.hostNo, oracle: e.oracle, e1: e.e1}
			e.mu.Unlock()
			func() {
				defer func() {
					if x := recover(); x != nil {
						sub.Unknown("core", "checker-panic", "", fmt.Sprint(x))
					}
				}()
				ds.Run(e2)
			}()
			// share what the sub-run loaded
			e.mu.Lock()
			if e.host == nil {
				e.host = e2.host
			}
			if e.e1 == nil {
				e.e1 = e2.e1
			}
			if e.oracle == nil {
				e.oracle = e2.oracle
			}
			e.mu.Unlock()
			if failed, first := sub.FirstFailure(); failed {
				e.R.Bad("requires", prop+"-requires-"+dep, "", fmt.Sprintf("%s includes %s, and %s does not hold on this tree: %s", prop, dep, dep, first))
			} else {
				e.R.OK("requires", prop+"-requires-"+dep, "", fmt.Sprintf("%s includes %s: its %d obligations are discharged on this tree", prop, dep, len(sub.Obligations())))
			}
			visit(Requires[dep])
		}
	}
	visit(Requires[prop])
}

// Oracle is /verif/oracle/oracle.json.
type Oracle struct {
	Sources       map[string]string                    `json:"sources"`
	Syscalls      map[string]map[string]map[string]int `json:"syscalls"` // abi -> source -> name -> nr
	Consts        map[string]uint64                    `json:"consts"`
	ConstsPerArch map[string]map[string]uint64         `json:"consts_per_goarch"`
	AuditArch     map[string]uint64                    `json:"audit_arch"`
	AuditArchXsys map[string]uint64                    `json:"audit_arch_xsys"`
	Traps         map[string]map[string]*int           `json:"traps"`
}

// Env gives the rules access to the run and to (lazily) loaded programs.
type Env struct {
	R *core.Run
	// Repo, GOOS, GOARCH select the tree and build context of Host(); defaults: the run's tree, linux/amd64.
	Repo   string
	GOOS   string
	GOARCH string

	mu     sync.Mutex
	host   *load.Program
	hostNo *load.Program
	oracle *Oracle
	e1     *e1Model
}

func NewEnv(r *core.Run) *Env { return &Env{R: r, Repo: r.RepoDir, GOOS: "linux", GOARCH: "amd64"} }

// NewEnvFor is NewEnv for another tree and/or build context.
func NewEnvFor(r *core.Run, repo, goos, goarch string) *Env {
	return &Env{R: r, Repo: repo, GOOS: goos, GOARCH: goarch}
}

// Thorough reports whether the thorough tier was requested.
func (e *Env) Thorough() bool { return e.R.Tier == "thorough" }

// Host returns the linux/amd64 program with SSA.  A load or type-check failure
// fails the check.
func (e *Env) Host() *load.Program {
	e.mu.Lock()
	defer e.mu.Unlock()
	if e.host == nil {
		p, err := load.Load(e.Repo, e.GOOS, e.GOARCH, true)
		if err != nil {
			panic(fmt.Sprintf("cannot load %s (%s/%s): %v", e.Repo, e.GOOS, e.GOARCH, err))
		}
		if len(p.Pkgs) < 6 {
			panic(fmt.Sprintf("only %d module packages loaded from %s, expected at least 6", len(p.Pkgs), e.Repo))
		}
		e.host = p
		pathProgram = p
		e.R.Count(fmt.Sprintf("packages (%s/%s, type-checked + SSA)", e.GOOS, e.GOARCH), len(p.Pkgs))
	}
	return e.host
}

// Target loads another build context (types + syntax of the module; SSA on demand).
func (e *Env) Target(goos, goarch string, ssa bool, patterns ...string) (*load.Program, error) {
	return load.Load(e.Repo, goos, goarch, ssa, patterns...)
}

// Oracle returns the vendored oracle tables.
func (e *Env) Oracle() *Oracle {
	e.mu.Lock()
	defer e.mu.Unlock()
	if e.oracle == nil {
		b, err := os.ReadFile(filepath.Join(e.R.VerifDir, "oracle", "oracle.json"))
		if err != nil {
			// the oracle travels with the checker; fall back to the default location
			b, err = os.ReadFile("/verif/oracle/oracle.json")
		}
		if err != nil {
			panic(fmt.Sprintf("oracle.json: %v", err))
		}
		var o Oracle
		if err := json.Unmarshal(b, &o); err != nil {
			panic(fmt.Sprintf("oracle.json: %v", err))
		}
		e.oracle = &o
	}
	return e.oracle
}

// ENOSYS returns the errno value of ENOSYS for the analysed Linux architecture (89 on mips, 38 elsewhere).
func (e *Env) ENOSYS() uint64 {
	or := e.Oracle()
	if per, ok := or.ConstsPerArch["ENOSYS"]; ok {
		if v, ok := per[e.GOARCH]; ok && e.GOOS == "linux" {
			return v
		}
	}
	return or.Consts["ENOSYS"]
}
