// Package rules holds the repository-specific rules, one file per property,
// on top of the engines (tables, flow, effects, nopanic, affine, emitgraph).
package rules

import (
	"encoding/json"
	"fmt"
	"os"
	"path/filepath"
	"sync"

	"sbpfcheck/core"
	"sbpfcheck/load"
)

// Spec describes one claimed property.
type Spec struct {
	Level       string
	Explanation string
	Trusted     []string
	Assumptions []string
	Run         func(*Env)
}

// Specs is filled by the init functions of the property files.
var Specs = map[string]*Spec{}

// Oracle is /verif/oracle/oracle.json.
type Oracle struct {
	Sources       map[string]string                    `json:"sources"`
	Syscalls      map[string]map[string]map[string]int `json:"syscalls"` // abi -> source -> name -> nr
	Consts        map[string]uint64                    `json:"consts"`
	ConstsPerArch map[string]map[string]uint64         `json:"consts_per_goarch"`
	AuditArch     map[string]uint64                    `json:"audit_arch"`
	AuditArchXsys map[string]uint64                    `json:"audit_arch_xsys"`
	Traps         map[string]map[string]*int           `json:"traps"`
}

// Env gives the rules access to the run and to (lazily) loaded programs.
type Env struct {
	R *core.Run
	// Repo, GOOS, GOARCH select the tree and build context of Host(); defaults: the run's tree, linux/amd64.
	Repo   string
	GOOS   string
	GOARCH string

	mu     sync.Mutex
	host   *load.Program
	hostNo *load.Program
	oracle *Oracle
	e1     *e1Model
}

func NewEnv(r *core.Run) *Env { return &Env{R: r, Repo: r.RepoDir, GOOS: "linux", GOARCH: "amd64"} }

// NewEnvFor is NewEnv for another tree and/or build context.
func NewEnvFor(r *core.Run, repo, goos, goarch string) *Env {
	return &Env{R: r, Repo: repo, GOOS: goos, GOARCH: goarch}
}

// Thorough reports whether the thorough tier was requested.
func (e *Env) Thorough() bool { return e.R.Tier == "thorough" }

// Host returns the linux/amd64 program with SSA.  A load or type-check failure
// fails the check.
func (e *Env) Host() *load.Program {
	e.mu.Lock()
	defer e.mu.Unlock()
	if e.host == nil {
		p, err := load.Load(e.Repo, e.GOOS, e.GOARCH, true)
		if err != nil {
			panic(fmt.Sprintf("cannot load %s (%s/%s): %v", e.Repo, e.GOOS, e.GOARCH, err))
		}
		if len(p.Pkgs) < 6 {
			panic(fmt.Sprintf("only %d module packages loaded from %s, expected at least 6", len(p.Pkgs), e.Repo))
		}
		e.host = p
		pathProgram = p
		e.R.Count(fmt.Sprintf("packages (%s/%s, type-checked + SSA)", e.GOOS, e.GOARCH), len(p.Pkgs))
	}
	return e.host
}

// Target loads another build context (types + syntax of the module; SSA on demand).
func (e *Env) Target(goos, goarch string, ssa bool, patterns ...string) (*load.Program, error) {
	return load.Load(e.Repo, goos, goarch, ssa, patterns...)
}

// Oracle returns the vendored oracle tables.
func (e *Env) Oracle() *Oracle {
	e.mu.Lock()
	defer e.mu.Unlock()
	if e.oracle == nil {
		b, err := os.ReadFile(filepath.Join(e.R.VerifDir, "oracle", "oracle.json"))
		if err != nil {
			// the oracle travels with the checker; fall back to the default location
			b, err = os.ReadFile("/verif/oracle/oracle.json")
		}
		if err != nil {
			panic(fmt.Sprintf("oracle.json: %v", err))
		}
		var o Oracle
		if err := json.Unmarshal(b, &o); err != nil {
			panic(fmt.Sprintf("oracle.json: %v", err))
		}
		e.oracle = &o
	}
	return e.oracle
}

// ENOSYS returns the errno value of ENOSYS for the analysed Linux architecture (89 on mips, 38 elsewhere).
func (e *Env) ENOSYS() uint64 {
	or := e.Oracle()
	if per, ok := or.ConstsPerArch["ENOSYS"]; ok {
		if v, ok := per[e.GOARCH]; ok && e.GOOS == "linux" {
			return v
		}
	}
	return or.Consts["ENOSYS"]
}
