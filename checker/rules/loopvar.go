package rules

// core.loopvar (every property): under the language version the module declares in go.mod (`go 1.18`: loop variables are
// per *loop*, not per iteration - the toolchain that builds the module does not change that), a closure that is made inside
// a loop, captures a variable that lives across iterations and is assigned in the loop, and *outlives the iteration* (it is
// stored, appended, returned, deferred or started as a goroutine instead of being called on the spot) sees the variable's
// last value when it finally runs. go/ssa builds the function with the file's language version, so the rule reads the
// sharing off the SSA form: the captured cell is allocated outside the loop. Seed C01h: per-group emit closures collected
// in a first pass over the groups and run in a second one - every group is emitted with the last group's action.

import (
	"fmt"
	"sort"
	"strings"

	"golang.org/x/tools/go/ssa"

	"sbpfcheck/flow"
	"sbpfcheck/load"
)

func checkLoopVarCapture(e *Env) {
	r := e.R
	p := e.Host()
	if p == nil {
		return
	}
	var pkgs []string
	for path := range p.SSAPkg {
		if strings.HasPrefix(path, load.Module) {
			pkgs = append(pkgs, path)
		}
	}
	sort.Strings(pkgs)
	nClosures, nBad := 0, 0
	for _, path := range pkgs {
		for _, f := range p.SrcFuncs(path) {
			g := flow.G(f)
			// natural loops by header
			loops := map[*ssa.BasicBlock]map[*ssa.BasicBlock]bool{}
			for _, h := range f.Blocks {
				for _, q := range g.Preds(h) {
					if g.Dominates(h, q) {
						// q -> h is a back edge: collect the loop body
						body := loops[h]
						if body == nil {
							body = map[*ssa.BasicBlock]bool{h: true}
							loops[h] = body
						}
						stack := []*ssa.BasicBlock{q}
						for len(stack) > 0 {
							b := stack[len(stack)-1]
							stack = stack[:len(stack)-1]
							if body[b] {
								continue
							}
							body[b] = true
							stack = append(stack, g.Preds(b)...)
						}
					}
				}
			}
			if len(loops) == 0 {
				continue
			}
			for _, b := range f.Blocks {
				for _, in := range b.Instrs {
					mc, ok := in.(*ssa.MakeClosure)
					if !ok {
						continue
					}
					for _, body := range loops {
						if !body[b] {
							continue
						}
						nClosures++
						// does the closure outlive the iteration?
						escapes := ""
						for _, ref := range *mc.Referrers() {
							switch x := ref.(type) {
							case *ssa.Call:
								// called on the spot ...
								if x.Call.Value == ssa.Value(mc) {
									continue
								}
								// ... or handed to a call that runs it while the iteration lasts: a standard-library
								// function known to call its argument synchronously, or a function of the module whose
								// parameter is only ever called
								if !keepsFuncArgument(x, mc) {
									continue
								}
								escapes = "handed to " + calleeNameCI(x) + ", which may keep it"
							case *ssa.Defer:
								if x.Call.Value == ssa.Value(mc) {
									escapes = "deferred"
								}
							case *ssa.Go:
								escapes = "started as a goroutine"
							case *ssa.Store:
								if x.Val == ssa.Value(mc) {
									escapes = "stored"
								}
							case *ssa.Return:
								escapes = "returned"
							case *ssa.MakeInterface, *ssa.Send, *ssa.MapUpdate, *ssa.Phi:
								escapes = "kept"
							}
						}
						if escapes == "" {
							continue
						}
						for _, bv := range mc.Bindings {
							al, ok := bv.(*ssa.Alloc)
							if !ok || body[al.Block()] {
								continue // a fresh cell per iteration
							}
							assigned := false
							for _, ref := range *al.Referrers() {
								if st, ok := ref.(*ssa.Store); ok && st.Addr == ssa.Value(al) && body[st.Block()] {
									assigned = true
								}
							}
							if !assigned {
								continue
							}
							nBad++
							r.Bad("core.loopvar", load.FuncName(f)+"/"+al.Comment, p.Pos(mc.Pos()),
								fmt.Sprintf("a closure made inside a loop captures `%s`, which is one variable for the whole loop under the module's language version and is assigned in the loop, and the closure is %s: when it runs it sees the value of a later iteration (the last element), not the one it was made for", al.Comment, escapes))
						}
					}
				}
			}
		}
	}
	if nBad == 0 {
		r.OK("core.loopvar", "closures-in-loops", "", fmt.Sprintf("%d closures made inside loops in the module: none that outlives its iteration captures a variable shared between iterations", nClosures))
	}
}

// keepsFuncArgument: may the callee retain the function value it is handed (run it after the iteration)?
func keepsFuncArgument(c *ssa.Call, fv ssa.Value) bool {
	if _, isBuiltin := c.Call.Value.(*ssa.Builtin); isBuiltin {
		return false // append/copy take it through a slice, whose element store is seen as a store
	}
	h := c.Call.StaticCallee()
	if h == nil {
		return true
	}
	if h.Pkg != nil {
		switch h.Pkg.Pkg.Path() {
		case "sort", "slices", "strings", "bytes", "maps", "unicode", "path/filepath", "io/fs", "go/ast", "regexp":
			return false // Slice, SortFunc, Map, FieldsFunc, IndexFunc, Walk, Inspect, ReplaceAllStringFunc: synchronous
		case "sync":
			return false // Once.Do, OnceFunc results are called by the caller
		}
	}
	if len(h.Blocks) == 0 {
		return true
	}
	// a function with a body: the parameter that receives the value is only ever called
	for i, a := range c.Call.Args {
		if a != fv || i >= len(h.Params) {
			continue
		}
		for _, ref := range *h.Params[i].Referrers() {
			call, ok := ref.(*ssa.Call)
			if !ok || call.Call.Value != ssa.Value(h.Params[i]) {
				return true
			}
		}
	}
	return false
}
