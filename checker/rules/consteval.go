package rules

import (
	"go/token"
	"go/types"

	"golang.org/x/tools/go/ssa"

	"sbpfcheck/flow"
)

// A small conditional constant propagation for one call site: the parameters of a function are bound to the constants
// (and constant slices) a caller passes, the unique feasible path from the entry to a target instruction is followed
// (every branch condition on it must fold to a constant), and the value of an operand at the target is read off.
// It is used to decide what a wrapper hands to a raw system call for a given caller, whatever the spelling of the
// wrapper (copy into a zeroed array, one conditional per argument, ...).  No code of the repository is run: this is
// constant folding over go/ssa.

type cval struct {
	kind  int // 0 unknown, 1 int, 2 slice/array of values, 3 nil
	i     int64
	elems []cval
}

func cInt(k int64) cval { return cval{kind: 1, i: k} }

var cUnknown = cval{}

type cprop struct {
	fn    *ssa.Function
	bind  map[ssa.Value]cval
	heap  map[ssa.Value]cval  // slices made with a constant length (make([]T, k)) that stay local
	mem   map[*ssa.Alloc]cval // local arrays / scalars whose address does not escape
	prev  *ssa.BasicBlock
	depth int
}

func newCprop(fn *ssa.Function) *cprop {
	return &cprop{fn: fn, bind: map[ssa.Value]cval{}, mem: map[*ssa.Alloc]cval{}, heap: map[ssa.Value]cval{}}
}

func zeroOf(t types.Type) cval {
	switch u := t.Underlying().(type) {
	case *types.Basic:
		if u.Info()&(types.IsInteger|types.IsBoolean) != 0 {
			return cInt(0)
		}
	case *types.Array:
		if u.Len() > 64 {
			return cUnknown
		}
		out := cval{kind: 2}
		for i := int64(0); i < u.Len(); i++ {
			out.elems = append(out.elems, zeroOf(u.Elem()))
		}
		return out
	case *types.Slice, *types.Pointer, *types.Interface, *types.Map:
		return cval{kind: 3}
	}
	return cUnknown
}

// escapes: the address of the local is used other than by loads, stores, element addressing, slicing for copy/len.
func localEscapes(al *ssa.Alloc) bool {
	for _, ref := range *al.Referrers() {
		switch x := ref.(type) {
		case *ssa.UnOp, *ssa.DebugRef:
		case *ssa.Store:
			if x.Val == ssa.Value(al) {
				return true
			}
		case *ssa.IndexAddr:
			for _, r2 := range *x.Referrers() {
				switch y := r2.(type) {
				case *ssa.UnOp, *ssa.DebugRef:
				case *ssa.Store:
					if y.Val == ssa.Value(x) {
						return true
					}
				default:
					return true
				}
			}
		case *ssa.Slice:
			for _, r2 := range *x.Referrers() {
				if ia, isIA := r2.(*ssa.IndexAddr); isIA {
					// element addressing through the slice: loads only
					for _, r3 := range *ia.Referrers() {
						switch y := r3.(type) {
						case *ssa.UnOp, *ssa.DebugRef:
						case *ssa.Store:
							if y.Val == ssa.Value(ia) {
								return true
							}
						default:
							return true
						}
					}
					continue
				}
				c, ok := r2.(*ssa.Call)
				if !ok {
					if _, isDbg := r2.(*ssa.DebugRef); isDbg {
						continue
					}
					return true
				}
				bi, ok := c.Call.Value.(*ssa.Builtin)
				if !ok || (bi.Name() != "copy" && bi.Name() != "len" && bi.Name() != "cap") {
					return true
				}
			}
		default:
			return true
		}
	}
	return false
}

func (c *cprop) val(v ssa.Value) cval {
	if b, ok := c.bind[v]; ok {
		return b
	}
	c.depth++
	defer func() { c.depth-- }()
	if c.depth > 40 {
		return cUnknown
	}
	if k, ok := flow.ConstInt(v); ok {
		return cInt(k)
	}
	switch x := v.(type) {
	case *ssa.Const:
		if x.Value == nil {
			return cval{kind: 3}
		}
		if b, ok := x.Type().Underlying().(*types.Basic); ok && b.Info()&types.IsBoolean != 0 {
			if x.Value.String() == "true" {
				return cInt(1)
			}
			return cInt(0)
		}
	case *ssa.Convert:
		a := c.val(x.X)
		if a.kind == 1 {
			if b, ok := x.Type().Underlying().(*types.Basic); ok {
				return cInt(truncTo(a.i, b))
			}
		}
		return a
	case *ssa.ChangeType:
		return c.val(x.X)
	case *ssa.UnOp:
		switch x.Op {
		case token.NOT:
			if a := c.val(x.X); a.kind == 1 {
				if a.i == 0 {
					return cInt(1)
				}
				return cInt(0)
			}
		case token.SUB:
			if a := c.val(x.X); a.kind == 1 {
				return cInt(-a.i)
			}
		}
	case *ssa.BinOp:
		a, b := c.val(x.X), c.val(x.Y)
		if a.kind == 3 && b.kind == 3 && (x.Op == token.EQL || x.Op == token.NEQ) {
			return boolC(x.Op == token.EQL)
		}
		if a.kind != 1 || b.kind != 1 {
			return cUnknown
		}
		switch x.Op {
		case token.ADD:
			return cInt(a.i + b.i)
		case token.SUB:
			return cInt(a.i - b.i)
		case token.MUL:
			return cInt(a.i * b.i)
		case token.AND:
			return cInt(a.i & b.i)
		case token.OR:
			return cInt(a.i | b.i)
		case token.XOR:
			return cInt(a.i ^ b.i)
		case token.AND_NOT:
			return cInt(a.i &^ b.i)
		case token.SHL:
			if b.i >= 0 && b.i < 63 {
				return cInt(a.i << uint(b.i))
			}
		case token.SHR:
			if b.i >= 0 && b.i < 63 && a.i >= 0 {
				return cInt(a.i >> uint(b.i))
			}
		case token.EQL:
			return boolC(a.i == b.i)
		case token.NEQ:
			return boolC(a.i != b.i)
		case token.LSS:
			return boolC(a.i < b.i)
		case token.LEQ:
			return boolC(a.i <= b.i)
		case token.GTR:
			return boolC(a.i > b.i)
		case token.GEQ:
			return boolC(a.i >= b.i)
		}
	case *ssa.Call:
		if bi, ok := x.Call.Value.(*ssa.Builtin); ok && (bi.Name() == "len" || bi.Name() == "cap") && len(x.Call.Args) == 1 {
			a := c.val(x.Call.Args[0])
			switch a.kind {
			case 2:
				if bi.Name() == "len" {
					return cInt(int64(len(a.elems)))
				}
			case 3:
				return cInt(0)
			}
		}
	case *ssa.Slice:
		// whole slice of a tracked local array / of a slice value
		if al, ok := wholeArraySlice(x); ok {
			if m, ok := c.mem[al]; ok {
				return m
			}
		}
		if x.Low == nil && x.High == nil && x.Max == nil {
			return c.val(x.X)
		}
	}
	return cUnknown
}

func boolC(b bool) cval {
	if b {
		return cInt(1)
	}
	return cInt(0)
}

func truncTo(v int64, b *types.Basic) int64 {
	switch b.Kind() {
	case types.Uint8:
		return int64(uint8(v))
	case types.Uint16:
		return int64(uint16(v))
	case types.Uint32:
		return int64(uint32(v))
	case types.Int8:
		return int64(int8(v))
	case types.Int16:
		return int64(int16(v))
	case types.Int32:
		return int64(int32(v))
	}
	return v
}

// step folds the instructions of block b (entered from c.prev) into the bindings.
func (c *cprop) step(b *ssa.BasicBlock, until ssa.Instruction) (reached bool) {
	for _, in := range b.Instrs {
		if in == until {
			return true
		}
		switch x := in.(type) {
		case *ssa.Phi:
			for i, p := range b.Preds {
				if p == c.prev {
					c.bind[x] = c.val(x.Edges[i])
				}
			}
			if _, ok := c.bind[x]; !ok {
				c.bind[x] = cUnknown
			}
		case *ssa.MakeSlice:
			if k, ok := flow.ConstInt(x.Len); ok && k >= 0 && k <= 64 && !sliceEscapes(x) {
				st, _ := x.Type().Underlying().(*types.Slice)
				z := cval{kind: 2}
				for i := int64(0); i < k; i++ {
					z.elems = append(z.elems, zeroOf(st.Elem()))
				}
				c.heap[x] = z
				c.bind[x] = z
			}
		case *ssa.Alloc:
			if !x.Heap || !localEscapes(x) {
				if !localEscapes(x) {
					c.mem[x] = zeroOf(x.Type().Underlying().(*types.Pointer).Elem())
				}
			}
		case *ssa.Store:
			switch a := x.Addr.(type) {
			case *ssa.Alloc:
				if _, ok := c.mem[a]; ok {
					c.mem[a] = c.val(x.Val)
				}
			case *ssa.IndexAddr:
				if al, ok := a.X.(*ssa.Alloc); ok {
					if m, ok := c.mem[al]; ok && m.kind == 2 {
						if k := c.val(a.Index); k.kind == 1 && k.i >= 0 && int(k.i) < len(m.elems) {
							ne := append([]cval{}, m.elems...)
							ne[k.i] = c.val(x.Val)
							c.mem[al] = cval{kind: 2, elems: ne}
						} else {
							c.mem[al] = cUnknown
						}
					}
				}
			}
		case *ssa.UnOp:
			if x.Op != token.MUL {
				continue
			}
			switch a := x.X.(type) {
			case *ssa.Alloc:
				if m, ok := c.mem[a]; ok {
					c.bind[x] = m
				}
			case *ssa.IndexAddr:
				var base cval
				if al, ok := a.X.(*ssa.Alloc); ok {
					base = c.mem[al]
				} else if sl, ok := a.X.(*ssa.Slice); ok {
					if al, ok := wholeArraySlice(sl); ok {
						base = c.mem[al]
					} else {
						base = c.val(a.X)
					}
				} else if h, ok := c.heap[a.X]; ok {
					base = h
				} else {
					base = c.val(a.X)
				}
				if k := c.val(a.Index); base.kind == 2 && k.kind == 1 && k.i >= 0 && int(k.i) < len(base.elems) {
					c.bind[x] = base.elems[k.i]
				}
			}
		case *ssa.Call:
			bi, ok := x.Call.Value.(*ssa.Builtin)
			if !ok || bi.Name() != "copy" || len(x.Call.Args) != 2 {
				continue
			}
			// copy(made, src): a slice made locally with a constant length
			if h, ok := c.heap[x.Call.Args[0]]; ok {
				src := c.val(x.Call.Args[1])
				switch src.kind {
				case 2:
					ne := append([]cval{}, h.elems...)
					n := 0
					for i := 0; i < len(ne) && i < len(src.elems); i++ {
						ne[i] = src.elems[i]
						n++
					}
					nv := cval{kind: 2, elems: ne}
					c.heap[x.Call.Args[0]] = nv
					c.bind[x.Call.Args[0]] = nv
					c.bind[x] = cInt(int64(n))
				case 3:
					c.bind[x] = cInt(0)
				default:
					c.heap[x.Call.Args[0]] = cUnknown
					c.bind[x.Call.Args[0]] = cUnknown
				}
				continue
			}
			// copy(local[:], src)
			dst, ok := x.Call.Args[0].(*ssa.Slice)
			if !ok {
				continue
			}
			al, ok := wholeArraySlice(dst)
			if !ok {
				continue
			}
			m, ok := c.mem[al]
			if !ok {
				continue
			}
			src := c.val(x.Call.Args[1])
			switch {
			case m.kind == 2 && src.kind == 2:
				ne := append([]cval{}, m.elems...)
				n := 0
				for i := 0; i < len(ne) && i < len(src.elems); i++ {
					ne[i] = src.elems[i]
					n++
				}
				c.mem[al] = cval{kind: 2, elems: ne}
				c.bind[x] = cInt(int64(n))
			case m.kind == 2 && src.kind == 3:
				c.bind[x] = cInt(0)
			default:
				c.mem[al] = cUnknown
			}
		}
	}
	return false
}

// runTo follows the feasible path from the entry to target; false when a branch on the way does not fold.
func (c *cprop) runTo(target ssa.Instruction) (bool, string) {
	b := c.fn.Blocks[0]
	c.prev = nil
	for steps := 0; steps < 200; steps++ {
		if c.step(b, target) {
			return true, ""
		}
		last := b.Instrs[len(b.Instrs)-1]
		var next *ssa.BasicBlock
		switch x := last.(type) {
		case *ssa.Jump:
			next = b.Succs[0]
		case *ssa.If:
			cv := c.val(x.Cond)
			if cv.kind != 1 {
				return false, "a branch condition on the way to the system call does not fold to a constant for this caller"
			}
			if cv.i != 0 {
				next = b.Succs[0]
			} else {
				next = b.Succs[1]
			}
		default:
			return false, "the system call is not reached for this caller"
		}
		c.prev, b = b, next
	}
	return false, "path too long"
}

// sliceEscapes: a made slice is used other than by element addressing, len/cap and as an operand of copy.
func sliceEscapes(m *ssa.MakeSlice) bool {
	for _, ref := range *m.Referrers() {
		switch x := ref.(type) {
		case *ssa.DebugRef:
		case *ssa.IndexAddr:
			for _, r2 := range *x.Referrers() {
				switch y := r2.(type) {
				case *ssa.UnOp, *ssa.DebugRef:
				case *ssa.Store:
					if y.Val == ssa.Value(x) {
						return true
					}
				default:
					return true
				}
			}
		case *ssa.Call:
			bi, ok := x.Call.Value.(*ssa.Builtin)
			if !ok || (bi.Name() != "copy" && bi.Name() != "len" && bi.Name() != "cap") {
				return true
			}
		default:
			return true
		}
	}
	return false
}

// wholeArraySlice: arr[:] or arr[:len(arr)] of a local array (what `make([]T, k)` with a constant k compiles to).
func wholeArraySlice(sl *ssa.Slice) (*ssa.Alloc, bool) {
	al, ok := sl.X.(*ssa.Alloc)
	if !ok || sl.Low != nil || sl.Max != nil {
		return nil, false
	}
	at, ok := al.Type().Underlying().(*types.Pointer).Elem().Underlying().(*types.Array)
	if !ok {
		return nil, false
	}
	if sl.High != nil {
		if k, isK := flow.ConstInt(sl.High); !isK || k != at.Len() {
			return nil, false
		}
	}
	return al, true
}
