package rules

import (
	"fmt"
	"go/ast"
	"go/constant"
	"go/token"
	"go/types"
	"math"
	"reflect"
	"sort"
	"strconv"
	"strings"

	"golang.org/x/tools/go/packages"
	"golang.org/x/tools/go/ssa"

	"sbpfcheck/flow"
	"sbpfcheck/load"
	"sbpfcheck/tables"
)

func init() {
	Specs["C14"] = &Spec{
		Level: "other",
		Explanation: "Decides the clauses of C14 whose truth is in the source: (names) Action.Unpack lower-cases its input and scans the same injective, lower-case map literal that String/MarshalText read, " +
			"assigning only under the equality test and returning an error otherwise; the name/constant pairs equal the documented ones (UAPI values); Operation.Unpack does the same over the Operations " +
			"slice, which equals the Operation const block; (keys) for every field of every struct type reachable from Policy the config, json and yaml keys agree, so what the marshallers write is what " +
			"the config loader reads; both commands use key `seccomp` for a field of type seccomp.Policy; no plain numeric field carries a go-ucfg `validate` option that rejects a legal value (0, an index up to 5, any 64-bit operand). Not decided: what go-ucfg / yaml.v2 do with a concrete document at run time.",
		Trusted:     []string{"go/types, go/ssa", "reflect.StructTag syntax", "go-ucfg: field key = `config` tag or lower-cased field name; validators required/nonzero/positive/min/max on numeric kinds as in go-ucfg v0.8 validator.go; yaml.v2: `yaml` tag or lower-cased field name; encoding/json: `json` tag or field name"},
		Assumptions: []string{"behaviour of go-ucfg and yaml.v2 on concrete documents (number widths, validators on non-numeric fields) is third-party run-time behaviour and not analysed"},
		Run:         runC14,
	}
}

var documentedActions = map[string]string{
	"kill_thread": "SECCOMP_RET_KILL_THREAD", "kill_process": "SECCOMP_RET_KILL_PROCESS", "trap": "SECCOMP_RET_TRAP", "errno": "SECCOMP_RET_ERRNO",
	"trace": "SECCOMP_RET_TRACE", "log": "SECCOMP_RET_LOG", "allow": "SECCOMP_RET_ALLOW",
}

var documentedOperations = []string{"Equal", "NotEqual", "GreaterThan", "LessThan", "GreaterOrEqual", "LessOrEqual", "BitsSet", "BitsNotSet"}

func runC14(e *Env) {
	r := e.R
	p := e.Host()
	pk := p.Pkgs[load.PkgRoot]
	or := e.Oracle()

	// ---- action name table
	var actionNames *tables.MapLit
	for _, m := range tables.MapLits(pk) {
		if n, ok := m.Type.Key().(*types.Named); ok && n.Obj().Name() == "Action" {
			if b, ok := m.Type.Elem().Underlying().(*types.Basic); ok && b.Kind() == types.String {
				if actionNames != nil {
					r.Unknown("E4.names", "actionNames/ambiguous", p.Pos(m.Pos), "more than one map[Action]string literal")
				}
				actionNames = m
			}
		}
	}
	if actionNames == nil {
		r.Unknown("E4.names", "actionNames", "", "no map[Action]string literal found")
	} else {
		seen := map[string]bool{}
		for _, row := range actionNames.Rows {
			if row.Key == nil || row.Val == nil {
				r.Unknown("E4.names", "actionNames/nonconstant", p.Pos(row.KeyPos), "row is not constant")
				continue
			}
			name := constant.StringVal(row.Val)
			val, _ := tables.Uint64(row.Key)
			key := "actionNames/" + name
			pos := p.Pos(row.KeyPos)
			if seen[name] {
				r.Bad("E4.names", key+"/dup", pos, fmt.Sprintf("name %q appears twice: parsing it depends on map iteration order", name))
			}
			seen[name] = true
			r.Check(name == strings.ToLower(name), "E4.names", key+"/lower", pos, "lower-case (Unpack lower-cases its input)", fmt.Sprintf("name %q is not lower-case: Unpack lower-cases its input, so the printed form can never be parsed back", name))
			uapi, doc := documentedActions[name]
			if !doc {
				// a name added later: it must be the name of a kernel action (SECCOMP_RET_<NAME>, up to a shortened or
				// lengthened spelling) and be paired with exactly that action's value
				nn := strings.ReplaceAll(name, "_", "")
				matched := ""
				for un, uv := range or.Consts {
					if !strings.HasPrefix(un, "SECCOMP_RET_") || un == "SECCOMP_RET_DATA" || strings.HasPrefix(un, "SECCOMP_RET_ACTION") {
						continue
					}
					sfx := strings.ToLower(strings.ReplaceAll(strings.TrimPrefix(un, "SECCOMP_RET_"), "_", ""))
					if len(nn) >= 3 && len(sfx) >= 3 && (strings.HasPrefix(nn, sfx) || strings.HasPrefix(sfx, nn)) && uv == val {
						matched = un
					}
				}
				r.Check(matched != "", "E4.names", key+"/documented", pos, fmt.Sprintf("%q <-> %#x = %s (a kernel action beyond the seven documented names)", name, val, matched),
					fmt.Sprintf("name %q is not one of the documented action names and is not paired with the kernel action of that name", name))
				continue
			}
			r.Check(val == or.Consts[uapi], "E4.names", key+"/value", pos, fmt.Sprintf("%q <-> %#x = %s", name, val, uapi),
				fmt.Sprintf("action name %q is paired with %#x but the documented constant %s is %#x", name, val, uapi, or.Consts[uapi]))
		}
		for name := range documentedActions {
			if !seen[name] {
				r.Bad("E4.names", "actionNames/"+name+"/present", p.Pos(actionNames.Pos), fmt.Sprintf("documented action %q is missing from the name table", name))
			}
		}
		r.Floor("E4.names(actions)", len(actionNames.Rows), 7)
		checkActionUnpack(e, p, actionNames.Obj)
	}

	// ---- operations
	checkOperations(e, p, pk)
	// the name tables are read as literals: nothing may rewrite them later
	checkTablesFrozen(e, p, load.PkgRoot, "E4.frozen")

	// ---- tags
	checkTags(e, p, pk)

	// ---- command paths
	checkCmdKeys(e, p)
	checkConfigDecoder(e, p)
	checkUnpackTargetEmpty(e, p)
}

// globalOf: v is a load of a package-level variable.
func loadOfGlobal(v ssa.Value) *ssa.Global {
	if u, ok := v.(*ssa.UnOp); ok && u.Op == token.MUL {
		if g, ok := u.X.(*ssa.Global); ok {
			return g
		}
	}
	return nil
}

func isToLowerOf(v ssa.Value, arg ssa.Value) bool {
	c, ok := v.(*ssa.Call)
	if !ok || !flow.CalleeIs(c, "strings", "ToLower") || len(c.Call.Args) != 1 {
		return false
	}
	return flow.StripConv(c.Call.Args[0]) == arg || c.Call.Args[0] == arg
}

// assignViaParser: the stored value is result 0 of a parse function of the package applied to the input (or to its
// lower-case form), stored only behind the function's success (second result true / nil error); every success return of
// that function yields a value that satisfies okAssign with respect to the function's own parameter.
func assignViaParser(st *ssa.Store, s ssa.Value, okAssign func(v ssa.Value, blk *ssa.BasicBlock, in ssa.Value, lowered bool) bool) bool {
	ex, ok := st.Val.(*ssa.Extract)
	if !ok || ex.Index != 0 {
		return false
	}
	hc, ok := ex.Tuple.(*ssa.Call)
	if !ok || len(hc.Call.Args) != 1 {
		return false
	}
	h := flow.Callee(hc)
	if h == nil || len(h.Blocks) == 0 || h.Pkg == nil || h.Pkg.Pkg.Path() != load.PkgRoot || len(h.Params) != 1 || h.Signature.Results().Len() != 2 {
		return false
	}
	lowered := isToLowerOf(hc.Call.Args[0], s)
	if !lowered && flow.StripConv(hc.Call.Args[0]) != s && hc.Call.Args[0] != s {
		return false
	}
	second := flow.ResultN(hc, 1)
	if second == nil {
		return false
	}
	isErr := flow.IsErrorType(h.Signature.Results().At(1).Type())
	if isErr {
		if nn, known := flow.ErrKnownAt(second, st); !known || nn {
			return false
		}
	} else if pol, known := flow.CondHolds(flow.DomConds(st.Block()), second); !known || !pol {
		return false
	}
	nSucc := 0
	for _, ret := range flow.Returns(h) {
		rs := flow.RetResults(ret)
		success := false
		if isErr {
			if flow.IsNilConst(rs[1]) {
				success = true
			} else if !flow.KnownNonNilError(rs[1], ret.Block()) {
				return false
			}
		} else {
			k, isK := rs[1].(*ssa.Const)
			if !isK || k.Value == nil {
				return false
			}
			success = k.Value.String() == "true"
		}
		if !success {
			continue
		}
		nSucc++
		if !okAssign(rs[0], ret.Block(), h.Params[0], lowered) {
			return false
		}
	}
	return nSucc > 0
}

// reverseLookup: h(name string) (K, bool) returns (key, true) only for the row of the table whose value equals name, and
// (anything, false) otherwise.
func reverseLookup(h *ssa.Function, table *types.Var) bool {
	if h == nil || len(h.Blocks) == 0 || len(h.Params) != 1 || h.Signature.Results().Len() != 2 {
		return false
	}
	nTrue := 0
	for _, ret := range flow.Returns(h) {
		rs := flow.RetResults(ret)
		k, isK := rs[1].(*ssa.Const)
		if !isK || k.Value == nil {
			return false
		}
		if k.Value.String() != "true" {
			continue
		}
		nTrue++
		kx, ok := rs[0].(*ssa.Extract)
		if !ok || kx.Index != 1 {
			return false
		}
		nx, _ := kx.Tuple.(*ssa.Next)
		if nx == nil {
			return false
		}
		rg, _ := nx.Iter.(*ssa.Range)
		if rg == nil {
			return false
		}
		if g := loadOfGlobal(rg.X); g == nil || g.Object() != table {
			return false
		}
		guard := false
		for _, c := range flow.DomConds(ret.Block()) {
			bo, ok := c.V.(*ssa.BinOp)
			if !ok || bo.Op != token.EQL || !c.Pol {
				continue
			}
			for _, pair := range [][2]ssa.Value{{bo.X, bo.Y}, {bo.Y, bo.X}} {
				vx, ok := pair[0].(*ssa.Extract)
				if ok && vx.Index == 2 && vx.Tuple == nx && pair[1] == ssa.Value(h.Params[0]) {
					guard = true
				}
			}
		}
		if !guard {
			return false
		}
	}
	return nTrue > 0
}

func checkActionUnpack(e *Env, p *load.Program, table *types.Var) {
	r := e.R
	fn := p.Func(load.PkgRoot, "Action.Unpack")
	if fn == nil || len(fn.Params) != 2 {
		r.Unknown("E4.names", "Action.Unpack", "", "method not found")
		return
	}
	recv, s := fn.Params[0], fn.Params[1]
	pos := p.Pos(fn.Pos())
	stores := 0
	for _, b := range fn.Blocks {
		for _, in := range b.Instrs {
			st, ok := in.(*ssa.Store)
			if !ok {
				continue
			}
			if st.Addr != recv {
				if _, isAlloc := st.Addr.(*ssa.IndexAddr); isAlloc {
					continue // varargs array of fmt.Errorf
				}
				r.Unknown("E4.names", "Action.Unpack/store", p.Pos(st.Pos()), "store to something other than the receiver")
				continue
			}
			stores++
			// value: key of a ranged pair over the table, under the guard value-of-same-pair == lower(input)
			okAssign := func(v ssa.Value, blk *ssa.BasicBlock, in ssa.Value, lowered bool) bool {
				kx, ok := v.(*ssa.Extract)
				if !ok || kx.Index != 1 {
					return false
				}
				nx, _ := kx.Tuple.(*ssa.Next)
				if nx == nil {
					return false
				}
				rg, _ := nx.Iter.(*ssa.Range)
				if rg == nil {
					return false
				}
				if g := loadOfGlobal(rg.X); g == nil || g.Object() != table {
					return false
				}
				for _, c := range flow.DomConds(blk) {
					bo, ok := c.V.(*ssa.BinOp)
					if !ok || bo.Op != token.EQL || !c.Pol {
						continue
					}
					for _, pair := range [][2]ssa.Value{{bo.X, bo.Y}, {bo.Y, bo.X}} {
						vx, ok := pair[0].(*ssa.Extract)
						if ok && vx.Index == 2 && vx.Tuple == nx && (isToLowerOf(pair[1], in) || (lowered && pair[1] == in)) {
							return true
						}
					}
				}
				return false
			}
			good := okAssign(st.Val, b, s, false) || assignViaParser(st, s, okAssign)
			guard := good
			if !(good && guard) {
				// the scan sits in a helper: *a = h(lower(s))#0 behind h(...)#1, where h returns (key, true) only for
				// the table row whose name equals its argument
				if ex, ok := st.Val.(*ssa.Extract); ok && ex.Index == 0 {
					if hc, ok := ex.Tuple.(*ssa.Call); ok && len(hc.Call.Args) == 1 && isToLowerOf(hc.Call.Args[0], s) && reverseLookup(flow.Callee(hc), table) {
						if found := flow.ResultN(hc, 1); found != nil {
							if pol, known := flow.CondHolds(flow.DomConds(b), found); known && pol {
								good, guard = true, true
							}
						}
					}
				}
			}
			r.Check(good && guard, "E4.names", "Action.Unpack/assign", p.Pos(st.Pos()),
				"*a is assigned the key of the table row whose name equals the lower-cased input, and only then",
				"Action.Unpack assigns *a without the test `name == strings.ToLower(s)` on the same table row (an unknown or differently-cased name could select an action)")
			// the block returns nil
			if ret, ok := b.Instrs[len(b.Instrs)-1].(*ssa.Return); !ok || !flow.IsNilConst(flow.RetResults(ret)[0]) {
				r.Bad("E4.names", "Action.Unpack/assign-return", p.Pos(st.Pos()), "the assignment is not followed by `return nil`")
			}
		}
	}
	r.Floor("E4.names(Action.Unpack assignments)", stores, 1)
	for _, ret := range flow.Returns(fn) {
		if flow.IsNilConst(flow.RetResults(ret)[0]) {
			// must be in a block with a store to recv
			has := false
			for _, in := range ret.Block().Instrs {
				if st, ok := in.(*ssa.Store); ok && st.Addr == recv {
					has = true
				}
			}
			r.Check(has, "E4.names", "Action.Unpack/nil-return", p.Pos(ret.Pos()), "nil is returned only after an assignment", "Action.Unpack returns nil without having assigned a value: unknown names would be accepted")
		} else {
			r.Check(flow.KnownNonNilError(flow.RetResults(ret)[0], ret.Block()), "E4.names", "Action.Unpack/error-return", p.Pos(ret.Pos()), "unknown names reach a non-nil error", "a return of Action.Unpack is not provably a non-nil error")
		}
	}
	_ = pos

	// String / MarshalText read the same table
	if sf := p.Func(load.PkgRoot, "Action.String"); sf != nil {
		var lk *ssa.Lookup
		for _, b := range sf.Blocks {
			for _, in := range b.Instrs {
				if l, ok := in.(*ssa.Lookup); ok {
					lk = l
				}
			}
		}
		good := lk != nil && lk.CommaOk && lk.Index == sf.Params[0]
		if good {
			g := loadOfGlobal(lk.X)
			good = g != nil && g.Object() == table
		}
		if good {
			// returns: value under found, constant otherwise
			var found, val ssa.Value
			for _, ref := range *lk.Referrers() {
				if ex, ok := ref.(*ssa.Extract); ok {
					if ex.Index == 1 {
						found = ex
					} else {
						val = ex
					}
				}
			}
			for _, ret := range flow.Returns(sf) {
				if flow.RetResults(ret)[0] == val {
					pol, ok := flow.CondHolds(flow.DomConds(ret.Block()), found)
					good = good && ok && pol
				} else if _, isConst := flow.RetResults(ret)[0].(*ssa.Const); !isConst {
					// the text for a value without a name: a constant, or a formatted text that cannot be a name (its
					// constant format contains a character no action name has)
					ok := false
					if c, isCall := flow.RetResults(ret)[0].(*ssa.Call); isCall && flow.CalleeIs(c, "fmt", "Sprintf") && len(c.Call.Args) > 0 {
						if f, isK := flow.ConstString(c.Call.Args[0]); isK && strings.ContainsAny(f, "()[]<>#: ") {
							ok = true
						}
					}
					if !ok {
						good = false
					}
				}
			}
		}
		r.Check(good, "E4.names", "Action.String/table", p.Pos(sf.Pos()), "String prints the table entry of the value (same table Unpack scans)", "Action.String does not print the entry of the table that Unpack scans")
	} else {
		r.Unknown("E4.names", "Action.String", "", "method not found")
	}
	if mf := p.Func(load.PkgRoot, "Action.MarshalText"); mf != nil {
		good := false
		for _, c := range flow.Calls(mf) {
			if flow.CalleeIs(c, load.PkgRoot, "Action.String") && c.Common().Args[0] == mf.Params[0] {
				for _, ret := range flow.Returns(mf) {
					if cv, ok := flow.RetResults(ret)[0].(*ssa.Convert); ok && cv.X == c.Value() && flow.IsNilConst(flow.RetResults(ret)[1]) {
						good = true
					}
				}
			}
		}
		r.Check(good, "E4.names", "Action.MarshalText", p.Pos(mf.Pos()), "MarshalText = []byte(a.String()), nil", "Action.MarshalText is not []byte(a.String())")
	} else {
		r.Unknown("E4.names", "Action.MarshalText", "", "method not found")
	}
}

func checkOperations(e *Env, p *load.Program, pk *packages.Package) {
	r := e.R
	opType, _ := pk.Types.Scope().Lookup("Operation").(*types.TypeName)
	if opType == nil {
		r.Unknown("E4.ops", "Operation", "", "type Operation not found")
		return
	}
	// const block
	consts := map[string]string{} // const name -> string value
	for _, name := range pk.Types.Scope().Names() {
		c, ok := pk.Types.Scope().Lookup(name).(*types.Const)
		if ok && types.Identical(c.Type(), opType.Type()) && c.Val().Kind() == constant.String {
			consts[name] = constant.StringVal(c.Val())
		}
	}
	// Operations slice literal
	var opsVar *types.Var
	var opsVals []string
	for v, ex := range tables.PackageVarInits(pk) {
		cl, ok := ast.Unparen(ex).(*ast.CompositeLit)
		if !ok {
			continue
		}
		st, ok := pk.TypesInfo.TypeOf(cl).Underlying().(*types.Slice)
		if !ok || !types.Identical(st.Elem(), opType.Type()) {
			continue
		}
		if opsVar != nil {
			r.Unknown("E4.ops", "Operations/ambiguous", p.Pos(cl.Pos()), "more than one []Operation literal")
		}
		opsVar = v
		for _, el := range cl.Elts {
			if c := tables.ConstOf(pk, el); c != nil && c.Kind() == constant.String {
				opsVals = append(opsVals, constant.StringVal(c))
			} else {
				r.Unknown("E4.ops", "Operations/nonconstant", p.Pos(el.Pos()), "element is not constant")
			}
		}
	}
	if opsVar == nil {
		r.Unknown("E4.ops", "Operations", "", "no []Operation literal found")
		return
	}
	lower := map[string]string{}
	for _, v := range opsVals {
		l := strings.ToLower(v)
		if prev, dup := lower[l]; dup {
			r.Bad("E4.ops", "Operations/distinct/"+l, "", fmt.Sprintf("%q and %q collide case-insensitively: Unpack picks the first", prev, v))
		}
		lower[l] = v
	}
	var cv []string
	for _, v := range consts {
		cv = append(cv, v)
	}
	sort.Strings(cv)
	sorted := append([]string(nil), opsVals...)
	sort.Strings(sorted)
	r.Check(strings.Join(cv, ",") == strings.Join(sorted, ","), "E4.ops", "Operations=const-block", "",
		fmt.Sprintf("the %d Operation constants are exactly the elements of Operations (what Unpack accepts)", len(cv)),
		fmt.Sprintf("Operation constants %v differ from the Operations slice %v: an operation is either unparseable or parseable without a constant", cv, sorted))
	doc := append([]string(nil), documentedOperations...)
	sort.Strings(doc)
	r.Check(strings.Join(doc, ",") == strings.Join(sorted, ","), "E4.ops", "Operations=documented", "",
		"Operations are the eight documented names", fmt.Sprintf("Operations %v differ from the documented names %v", sorted, doc))
	r.Floor("E4.ops(operations)", len(opsVals), 8)

	// Unpack
	fn := p.Func(load.PkgRoot, "Operation.Unpack")
	if fn == nil || len(fn.Params) != 2 {
		r.Unknown("E4.ops", "Operation.Unpack", "", "method not found")
		return
	}
	recv, s := fn.Params[0], fn.Params[1]
	stores := 0
	for _, b := range fn.Blocks {
		for _, in := range b.Instrs {
			st, ok := in.(*ssa.Store)
			if !ok || st.Addr != recv {
				continue
			}
			stores++
			// stored value: element of the Operations global, under the case-insensitive equality test with the input
			okAssign := func(v ssa.Value, blk *ssa.BasicBlock, in ssa.Value, lowered bool) bool {
				ld, ok := v.(*ssa.UnOp)
				if !ok || ld.Op != token.MUL {
					return false
				}
				ia, ok := ld.X.(*ssa.IndexAddr)
				if !ok {
					return false
				}
				if g := loadOfGlobal(ia.X); g == nil || g.Object() != opsVar {
					return false
				}
				for _, c := range flow.DomConds(blk) {
					if bo, ok := c.V.(*ssa.BinOp); ok && bo.Op == token.EQL && c.Pol {
						for _, pair := range [][2]ssa.Value{{bo.X, bo.Y}, {bo.Y, bo.X}} {
							if isToLowerOf(pair[0], ld) && (isToLowerOf(pair[1], in) || (lowered && flow.StripConv(pair[1]) == in)) {
								return true
							}
						}
					}
					// strings.EqualFold(string(name), s) is accepted as well
					if call, ok := c.V.(*ssa.Call); ok && c.Pol && flow.CalleeIs(call, "strings", "EqualFold") {
						a0, a1 := flow.StripConv(call.Call.Args[0]), flow.StripConv(call.Call.Args[1])
						if (a0 == ssa.Value(ld) && a1 == in) || (a1 == ssa.Value(ld) && a0 == in) {
							return true
						}
					}
				}
				return false
			}
			good := okAssign(st.Val, b, s, false) || assignViaParser(st, s, okAssign)
			guard := good
			r.Check(good && guard, "E4.ops", "Operation.Unpack/assign", p.Pos(st.Pos()),
				"*o is assigned the canonical element of Operations whose lower-cased spelling equals the lower-cased input, and only then",
				"Operation.Unpack assigns *o without the case-insensitive equality test on the same element of Operations")
			if ret, ok := b.Instrs[len(b.Instrs)-1].(*ssa.Return); !ok || !flow.IsNilConst(flow.RetResults(ret)[0]) {
				r.Bad("E4.ops", "Operation.Unpack/assign-return", p.Pos(st.Pos()), "the assignment is not followed by `return nil`")
			}
		}
	}
	r.Floor("E4.ops(Operation.Unpack assignments)", stores, 1)
	for _, ret := range flow.Returns(fn) {
		if flow.IsNilConst(flow.RetResults(ret)[0]) {
			has := false
			for _, in := range ret.Block().Instrs {
				if st, ok := in.(*ssa.Store); ok && st.Addr == recv {
					has = true
				}
			}
			r.Check(has, "E4.ops", "Operation.Unpack/nil-return", p.Pos(ret.Pos()), "nil only after an assignment", "Operation.Unpack returns nil without assigning: unknown operations would be accepted")
		} else {
			r.Check(flow.KnownNonNilError(flow.RetResults(ret)[0], ret.Block()), "E4.ops", "Operation.Unpack/error-return", p.Pos(ret.Pos()), "unknown names reach a non-nil error", "a return of Operation.Unpack is not provably a non-nil error")
		}
	}
}

// checkTags: config / json / yaml keys agree on every field of every struct
// type reachable from Policy.
func checkTags(e *Env, p *load.Program, pk *packages.Package) {
	r := e.R
	pol, _ := pk.Types.Scope().Lookup("Policy").(*types.TypeName)
	if pol == nil {
		r.Unknown("E4.tags", "Policy", "", "type Policy not found")
		return
	}
	seen := map[*types.Named]bool{}
	var order []*types.Named
	var visit func(t types.Type)
	visit = func(t types.Type) {
		switch x := t.(type) {
		case *types.Named:
			if x.Obj().Pkg() == nil || x.Obj().Pkg().Path() != load.PkgRoot {
				return
			}
			if st, ok := x.Underlying().(*types.Struct); ok {
				if seen[x] {
					return
				}
				seen[x] = true
				order = append(order, x)
				for i := 0; i < st.NumFields(); i++ {
					if st.Field(i).Exported() {
						visit(st.Field(i).Type())
					}
				}
			} else {
				visit(x.Underlying())
			}
		case *types.Slice:
			visit(x.Elem())
		case *types.Array:
			visit(x.Elem())
		case *types.Pointer:
			visit(x.Elem())
		case *types.Map:
			visit(x.Elem())
		}
	}
	visit(pol.Type())
	nFields := 0
	for _, n := range order {
		st := n.Underlying().(*types.Struct)
		// a struct type of the policy with its own marshaller or unmarshaller: the document is then produced (or read) by
		// code, not by the field tags these rules compare - whether that code keeps the policy is not decided here (seed
		// C14i: `Policy.MarshalYAML` writing a "compact" form that merges non-adjacent groups with the same action)
		for _, mname := range []string{"MarshalYAML", "MarshalJSON", "MarshalText", "UnmarshalYAML", "UnmarshalJSON", "UnmarshalText", "Unpack"} {
			if hasMethod(n, mname) {
				r.Unknown("E4.tags", n.Obj().Name()+"/custom-"+mname, p.Pos(n.Obj().Pos()), fmt.Sprintf("struct type %s defines %s: what is written to or read from a document is decided by that method, not by the struct tags; the round trip through the configuration path is not decided for it", n.Obj().Name(), mname))
			}
		}
		for i := 0; i < st.NumFields(); i++ {
			f := st.Field(i)
			if !f.Exported() {
				continue
			}
			nFields++
			tag := st.Tag(i)
			cfg, okc := tables.Tag(tag, "config")
			js, okj := tables.Tag(tag, "json")
			ym, oky := tables.Tag(tag, "yaml")
			if !okc || cfg == "" {
				cfg = strings.ToLower(f.Name()) // go-ucfg default
			}
			if !okj || js == "" {
				js = f.Name() // encoding/json default (matching is case-insensitive on input, exact on output)
			}
			if !oky || ym == "" {
				ym = strings.ToLower(f.Name()) // yaml.v2 default
			}
			key := n.Obj().Name() + "." + f.Name()
			checkValidateTag(e, p, key, f, tag)
			// go-ucfg tag options (util.go parseTags, trusted): `ignore` skips the field on unpack; `squash`/`inline` read its
			// keys from the parent level, where neither encoding/json nor (without its own inline) yaml.v2 writes them
			if full, _ := reflect.StructTag(tag).Lookup("config"); strings.Contains(full, ",") {
				for _, opt := range strings.Split(full, ",")[1:] {
					switch opt {
					case "ignore", "squash", "inline":
						r.Bad("E4.tags", key+"/option-"+opt, p.Pos(f.Pos()), fmt.Sprintf("field %s carries the go-ucfg option %q: the configuration path does not read the field from where the marshallers write it, so a policy read back through that path loses it", key, opt))
					}
				}
			}
			// `omitempty` (encoding/json, yaml.v2): the marshaller leaves the key out when the field has its zero value. For a
			// numeric field whose zero is a meaningful value - the action 0 is kill_thread, argument 0, operand 0 - the
			// document then says nothing where the in-memory policy says 0, and what the configuration path makes of the
			// missing key is a default (`default:"…"` tags, an InitDefaults hook), not the value (seed C14h)
			if bt, isBasic := f.Type().Underlying().(*types.Basic); isBasic && bt.Info()&(types.IsInteger|types.IsFloat|types.IsBoolean) != 0 {
				for _, tk := range []string{"json", "yaml"} {
					if full, _ := reflect.StructTag(tag).Lookup(tk); strings.Contains(full, ",") {
						for _, opt := range strings.Split(full, ",")[1:] {
							if opt == "omitempty" {
								r.Bad("E4.tags", key+"/"+tk+"-omitempty", p.Pos(f.Pos()), fmt.Sprintf("field %s (%s) carries `omitempty` in its %s tag: the value 0 - a legal value of this field - is not written, so a policy marshalled and read back through the configuration path gets whatever the path defaults a missing key to", key, f.Type().String(), tk))
							}
						}
					}
				}
			}
			r.Check(cfg == js && cfg == ym, "E4.tags", key, p.Pos(f.Pos()),
				fmt.Sprintf("config=json=yaml=%q", cfg),
				fmt.Sprintf("field %s is read from config key %q but written as json %q / yaml %q: a marshalled policy read back through the config path loses this field", key, cfg, js, ym))
		}
	}
	r.Count("struct types reachable from Policy", len(order))
	r.Floor("E4.tags(types)", len(order), 4)
	r.Floor("E4.tags(fields)", nFields, 10)
}

// checkValidateTag decides E4.tags.validate for one field: a go-ucfg `validate`
// option on a plain numeric field narrows the set of numbers the configuration
// path accepts, while the in-memory path accepts every argument index 0-5 and
// every 64-bit operand, 0 included. go-ucfg v0.8 (validator.go, trusted):
// `required` on an int, uint or float kind is `nonzero`; `nonzero`, `positive`
// and `min=N` (N > 0) reject 0; `max=N` rejects everything above N. Types with
// their own Unpack method are converted by that method and are not subject to
// the numeric validators (Action carries `required` on the pinned tree and
// kill_thread, whose value is 0, loads).
func checkValidateTag(e *Env, p *load.Program, key string, f *types.Var, tag string) {
	r := e.R
	b, ok := f.Type().Underlying().(*types.Basic)
	if !ok || b.Info()&(types.IsInteger|types.IsFloat) == 0 {
		return
	}
	if hasMethod(f.Type(), "Unpack") {
		return
	}
	v, _ := reflect.StructTag(tag).Lookup("validate")
	var bad []string
	for _, opt := range strings.Split(v, ",") {
		opt = strings.TrimSpace(opt)
		name, param := opt, ""
		if i := strings.IndexByte(opt, '='); i >= 0 {
			name, param = strings.TrimSpace(opt[:i]), strings.TrimSpace(opt[i+1:])
		}
		switch name {
		case "required", "nonzero", "positive":
			bad = append(bad, fmt.Sprintf("`%s` rejects 0", name))
		case "min":
			if n, err := strconv.ParseInt(param, 0, 64); err != nil || n > 0 {
				bad = append(bad, fmt.Sprintf("`min=%s` rejects 0", param))
			}
		case "max":
			n, err := strconv.ParseUint(param, 0, 64)
			wide := b.Kind() == types.Uint64 || b.Kind() == types.Int64 || b.Kind() == types.Uint || b.Kind() == types.Int || b.Kind() == types.Uintptr
			if err != nil || (wide && n != math.MaxUint64) || (!wide && n < 5) {
				bad = append(bad, fmt.Sprintf("`max=%s` rejects larger values the in-memory path accepts", param))
			}
		}
	}
	r.Check(len(bad) == 0, "E4.tags.validate", key, p.Pos(f.Pos()),
		fmt.Sprintf("numeric field %s carries no go-ucfg validator that rejects a legal value (validate:%q)", key, v),
		fmt.Sprintf("numeric field %s carries validate:%q: %s, so a policy that compiles in memory (argument index 0-5, any 64-bit operand) is refused by the configuration path", key, v, strings.Join(bad, "; ")))
}

func hasMethod(t types.Type, name string) bool {
	for _, tt := range []types.Type{t, types.NewPointer(t)} {
		ms := types.NewMethodSet(tt)
		for i := 0; i < ms.Len(); i++ {
			if ms.At(i).Obj().Name() == name {
				return true
			}
		}
	}
	return false
}

// checkCmdKeys: sandbox reads and profiler writes a seccomp.Policy under key "seccomp".
func checkCmdKeys(e *Env, p *load.Program) {
	r := e.R
	type site struct {
		pkg, fn string
		tagKey  string
	}
	for _, s := range []site{{load.PkgSandbox, "parsePolicy", "config"}, {load.PkgProfiler, "writeProfileConfig", "yaml"}} {
		pk := p.Pkgs[s.pkg]
		if pk == nil {
			r.Unknown("E4.cmdpath", s.fn, "", "package not loaded")
			continue
		}
		// every struct type of the command (named or anonymous, local or at package level) that embeds a seccomp.Policy
		// value is a document layout; the function name is only used for the report
		found := false
		for _, f := range pk.Syntax {
			ast.Inspect(f, func(n ast.Node) bool {
				ste, ok := n.(*ast.StructType)
				if !ok {
					return true
				}
				tt := pk.TypesInfo.TypeOf(ste)
				if tt == nil {
					return true
				}
				st, ok := tt.Underlying().(*types.Struct)
				if !ok {
					return true
				}
				for i := 0; i < st.NumFields(); i++ {
					ft, ok := st.Field(i).Type().(*types.Named)
					if !ok || ft.Obj().Name() != "Policy" || ft.Obj().Pkg() == nil || ft.Obj().Pkg().Path() != load.PkgRoot {
						continue
					}
					found = true
					k, okk := tables.Tag(st.Tag(i), s.tagKey)
					if !okk || k == "" {
						k = strings.ToLower(st.Field(i).Name())
					}
					r.Check(k == "seccomp", "E4.cmdpath", s.fn+"/key", p.Pos(ste.Pos()), fmt.Sprintf("%s key of the Policy field is %q", s.tagKey, k),
						fmt.Sprintf("%s uses %s key %q for the policy; the documented key is \"seccomp\"", s.fn, s.tagKey, k))
				}
				return true
			})
		}
		if !found {
			r.Unknown("E4.cmdpath", s.fn, "", "no local struct with a seccomp.Policy field found")
		}
	}
}

// checkConfigDecoder (E4.cfgpath): the documented configuration path is YAML through go-ucfg/yaml, which keeps 64-bit
// integers exact.  A JSON decoder in the sandbox's policy path (go-ucfg/json, encoding/json into interface values) turns
// every number into a float64 first: operands above 2^53 are rounded silently and the policy compiles to another program
// than the equivalent in-memory one.
func checkConfigDecoder(e *Env, p *load.Program) {
	r := e.R
	n := 0
	// every function of a decoder package that the sandbox calls or merely refers to (a loader chosen at run time)
	for _, f := range p.SrcFuncs(load.PkgSandbox) {
		for _, b := range f.Blocks {
			for _, in := range b.Instrs {
				var ops []*ssa.Value
				for _, op := range in.Operands(ops) {
					cal, ok := (*op).(*ssa.Function)
					if !ok || cal == nil || cal.Pkg == nil || cal.Name() == "init" {
						continue
					}
					path := cal.Pkg.Pkg.Path()
					switch {
					case strings.HasSuffix(path, "go-ucfg/yaml"):
						n++
						// the document that is parsed is the whole file: NewConfigWithFile(path), or NewConfig over bytes that
						// are the unsliced result of ReadFile / ReadAll of the opened file (seed C15f: io.LimitReader - a policy
						// cut at 1 MiB is parsed without complaint and its tail - groups, bad names - is ignored)
						if call, isCall := in.(*ssa.Call); isCall && flow.Callee(call) == cal && cal.Name() == "NewConfig" && len(call.Call.Args) >= 1 {
							why := ""
							withCallSites(p.SrcFuncs(load.PkgSandbox), func() { why = wholeFileBytes(call.Call.Args[0], 0) })
							r.Check(why == "", "E4.cfgpath", load.FuncName(f)+"/whole-document", p.Pos(call.Pos()), "the parsed document is the whole content of the policy file",
								"the bytes handed to yaml.NewConfig are not the whole content of the policy file ("+why+"): a policy that continues behind the part that is read is loaded without its tail and without an error, so the loaded policy is not the one the file denotes")
						}
					case strings.HasSuffix(path, "go-ucfg/json"), path == "encoding/json" && (cal.Name() == "Unmarshal" || cal.Name() == "Decode"):
						r.Bad("E4.cfgpath", load.FuncName(f)+"/"+cal.Pkg.Pkg.Name()+"."+cal.Name(), p.Pos(in.Pos()),
							"the sandbox reads a policy through a JSON decoder that converts every number to float64 before it reaches Condition.Value (uint64): operands that are not float64-exact (above 2^53) are rounded without an error, so the loaded policy compiles to a different program than the equivalent in-memory policy")
					}
				}
			}
		}
	}
	r.Check(n >= 1, "E4.cfgpath", "sandbox/yaml-loader", "", "the sandbox loads its policy through go-ucfg/yaml (64-bit integers stay exact)", "no call into go-ucfg/yaml found in the sandbox: the documented configuration path is not used")
}

// checkUnpackTargetEmpty (E4.cfgpath …/unpack-target-empty): go-ucfg *merges* a configuration into the value it is handed:
// a slice that already has elements is merged element by element (the file's first group into the first group that is
// already there, its names index-wise into the names that are already there). "Loaded through the configuration path …
// compiles to the same program as the equivalent in-memory policy" therefore needs the target of Unpack to be empty: in
// the sandbox's functions, the variable handed to (*ucfg.Config).Unpack is a local that nothing writes - no store, no field
// or element store, no call that receives its address - before the Unpack call (seed C14g: a built-in baseline policy the
// file is unpacked over).
func checkUnpackTargetEmpty(e *Env, p *load.Program) {
	r := e.R
	n := 0
	for _, f := range p.SrcFuncs(load.PkgSandbox) {
		for _, ci := range flow.Calls(f) {
			call, ok := ci.(*ssa.Call)
			if !ok {
				continue
			}
			cal := flow.Callee(call)
			if cal == nil || cal.Name() != "Unpack" || cal.Pkg == nil || !strings.HasSuffix(cal.Pkg.Pkg.Path(), "go-ucfg") || len(call.Call.Args) < 2 {
				continue
			}
			n++
			key := load.FuncName(f) + "/unpack-target-empty"
			v := call.Call.Args[1]
			if mi, ok := v.(*ssa.MakeInterface); ok {
				v = mi.X
			}
			al, ok := v.(*ssa.Alloc)
			if !ok {
				r.Unknown("E4.cfgpath", key, p.Pos(call.Pos()), "the value handed to Unpack is not the address of a local variable: whether it is empty is not decided")
				continue
			}
			// everything derived from the local's address
			derived := map[ssa.Value]bool{al: true}
			for changed := true; changed; {
				changed = false
				for _, b := range f.Blocks {
					for _, in := range b.Instrs {
						switch x := in.(type) {
						case *ssa.FieldAddr:
							if derived[x.X] && !derived[x] {
								derived[x] = true
								changed = true
							}
						case *ssa.IndexAddr:
							if derived[x.X] && !derived[x] {
								derived[x] = true
								changed = true
							}
						}
					}
				}
			}
			bad := ""
			var badPos ssa.Instruction
			for _, b := range f.Blocks {
				for _, in := range b.Instrs {
					if in == ssa.Instruction(call) || !instrReaches(in, call) {
						continue
					}
					switch x := in.(type) {
					case *ssa.Store:
						if derived[x.Addr] {
							if k, isConst := x.Val.(*ssa.Const); isConst && (k.Value == nil || k.IsNil()) {
								continue // zero value
							}
							bad, badPos = "a store into the variable", in
						}
					case ssa.CallInstruction:
						for _, a := range x.Common().Args {
							w := a
							if mi, ok := w.(*ssa.MakeInterface); ok {
								w = mi.X
							}
							if derived[w] {
								bad, badPos = "a call that receives its address ("+calleeNameCI(x)+")", in
							}
						}
					}
				}
			}
			if bad != "" {
				r.Bad("E4.cfgpath", key, p.Pos(badPos.Pos()), "the variable the configuration is unpacked into is written before Unpack ("+bad+"): go-ucfg merges the file into what is already there - slices element by element - so the loaded policy is not the policy of the file and compiles to another program than the equivalent in-memory policy")
			} else {
				r.OK("E4.cfgpath", key, p.Pos(call.Pos()), "the configuration is unpacked into a local that nothing writes before the call")
			}
		}
	}
	r.Check(n >= 1, "E4.cfgpath", "sandbox/unpack-call", "", "the sandbox unpacks the configuration with go-ucfg's Unpack", "no call of go-ucfg's Unpack found in the sandbox")
}

// wholeFileBytes: "" when v is the complete content of a file (os.ReadFile, io.ReadAll over os.Open / a bufio.Reader around
// it, a bytes.Buffer filled by ReadFrom/io.Copy is not modelled), else the reason.
func wholeFileBytes(v ssa.Value, depth int) string {
	if depth > 6 {
		return "too deep"
	}
	strip := func(v ssa.Value) ssa.Value {
		for i := 0; i < 8; i++ {
			switch x := v.(type) {
			case *ssa.MakeInterface:
				v = x.X
			case *ssa.ChangeInterface:
				v = x.X
			case *ssa.ChangeType:
				v = x.X
			case *ssa.Convert:
				v = x.X
			case *ssa.Extract:
				if x.Index != 0 {
					return v
				}
				v = x.Tuple
			case *ssa.UnOp:
				if al, ok := x.X.(*ssa.Alloc); ok && x.Op == token.MUL {
					if st := flow.OnlyStore(al); st != nil {
						v = st.Val
						continue
					}
				}
				return v
			default:
				return v
			}
		}
		return v
	}
	v = strip(v)
	c, ok := v.(*ssa.Call)
	if !ok {
		if _, isSlice := v.(*ssa.Slice); isSlice {
			return "a slice expression cuts the content"
		}
		return fmt.Sprintf("the bytes come from %T, which is not a read of the whole file", v)
	}
	switch {
	case flow.CalleeIs(c, "os", "ReadFile"), flow.CalleeIs(c, "io/ioutil", "ReadFile"):
		return ""
	case flow.CalleeIs(c, "io", "ReadAll"), flow.CalleeIs(c, "io/ioutil", "ReadAll"):
		rd := strip(c.Call.Args[0])
		for i := 0; i < 3; i++ {
			// a reader handed in by the caller: judged at the call sites (`loadConfig(policyFile, os.Stdin)`)
			if prm, isParam := rd.(*ssa.Parameter); isParam && callSitesOf != nil && prm.Parent() != nil {
				idx := -1
				for k, q := range prm.Parent().Params {
					if q == prm {
						idx = k
					}
				}
				sites := callSitesOf(prm.Parent())
				if idx < 0 || len(sites) == 0 {
					return "ReadAll of a reader parameter with no call site in sight"
				}
				for _, cs := range sites {
					if idx >= len(cs.Call.Args) {
						return "ReadAll of a reader parameter"
					}
					a := strip(cs.Call.Args[idx])
					if ld, isLoad := a.(*ssa.UnOp); isLoad && ld.Op == token.MUL {
						if g, isG := ld.X.(*ssa.Global); isG && g.Pkg != nil && g.Pkg.Pkg.Path() == "os" && g.Name() == "Stdin" {
							continue
						}
					}
					if oc, isCall := a.(*ssa.Call); isCall && flow.CalleeIs(oc, "os", "Open") {
						continue
					}
					return "ReadAll of a reader parameter that a caller fills with something other than the opened file or standard input"
				}
				return ""
			}
			// the whole standard input (`-policy -`)
			if ld, isLoad := rd.(*ssa.UnOp); isLoad && ld.Op == token.MUL {
				if g, isG := ld.X.(*ssa.Global); isG && g.Pkg != nil && g.Pkg.Pkg.Path() == "os" && g.Name() == "Stdin" {
					return ""
				}
			}
			rc, ok := rd.(*ssa.Call)
			if !ok {
				return fmt.Sprintf("ReadAll of %T", rd)
			}
			switch {
			case flow.CalleeIs(rc, "os", "Open"):
				return ""
			case flow.CalleeIs(rc, "bufio", "NewReader"), flow.CalleeIs(rc, "bufio", "NewReaderSize"):
				rd = strip(rc.Call.Args[0])
			default:
				return "ReadAll of the result of " + calleeName(rc) + ", which need not deliver the whole file"
			}
		}
		return "reader chain too deep"
	}
	return "result of " + calleeName(c)
}
