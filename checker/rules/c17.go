package rules

import (
	"fmt"
	"go/constant"
	"go/token"
	"go/types"

	"golang.org/x/tools/go/ssa"

	"sbpfcheck/flow"
	"sbpfcheck/load"
)

func init() {
	Specs["C17"] = &Spec{
		Level: "other",
		Explanation: "Which file states a crash or a failed disassembler can leave under the name the reader trusts is decided by the shape of the writer: the cache path R (result of cachedDumpFile) is never " +
			"created or truncated directly; it only comes into existence through os.Rename(tmp, R), and that call is dominated by the checked success of the disassembler's Run, of the buffered writer's " +
			"Flush and of the file's Close (directly or through a helper whose every nil return is behind them); failures after the temporary file was created return non-nil errors; the reader reuses " +
			"R only when a full 64-byte read equals the hex SHA-256 of the binary. Then R is either absent or complete at every crash point.",
		Trusted:     []string{"go/ssa, dominators", "rename(2) within one directory is atomic", "exec.Cmd.Run returns an error for a missing tool or non-zero exit", "hex SHA-256 has 64 characters"},
		Assumptions: []string{"durability of the rename across power loss (no directory fsync) is not part of the statement"},
		Run:         runC17,
	}
}

// establishes reports whether every nil-error return of fn lies behind the checked success
// of a call satisfying isX (directly, or via a callee of the module that itself establishes it).
func establishes(fn *ssa.Function, isX func(c *ssa.Call) bool, depth int) bool {
	if establishesDom(fn, isX, depth) {
		return true
	}
	if fn == nil || depth > 3 || len(fn.Blocks) == 0 || pathProgram == nil {
		return false
	}
	n := fn.Signature.Results().Len()
	if n == 0 || !flow.IsErrorType(fn.Signature.Results().At(n-1).Type()) {
		return false
	}
	// decided on the function's paths (E9)
	good, _ := pathsOf(pathProgram, fn).nilOnlyAfter(func(c *ssa.Call) bool {
		if isX(c) {
			return true
		}
		cal := flow.Callee(c)
		return cal != nil && cal != fn && cal.Pkg != nil && cal.Pkg == fn.Pkg && establishes(cal, isX, depth+1)
	})
	return good
}

// pathProgram is the program the path engine reports positions against (set by the property runners).
var pathProgram *load.Program

func establishesDom(fn *ssa.Function, isX func(c *ssa.Call) bool, depth int) bool {
	if fn == nil || depth > 3 || len(fn.Blocks) == 0 {
		return false
	}
	rets := flow.Returns(fn)
	if len(rets) == 0 {
		return false
	}
	if deferEstablishes(fn, isX) {
		return true
	}
	for _, ret := range rets {
		rs := flow.RetResults(ret)
		if len(rs) == 0 {
			return false
		}
		ev := rs[len(rs)-1]
		if !flow.IsErrorType(ev.Type()) {
			return false
		}
		if flow.KnownNonNilError(ev, ret.Block()) {
			continue
		}
		// returned value is the result of an X call: nil => X succeeded
		if c, ok := ev.(*ssa.Call); ok && (isX(c) || establishes(flow.Callee(c), isX, depth+1)) {
			continue
		}
		if fw, ok := flow.Forwarded(ev).(*ssa.Call); ok && (isX(fw) || establishes(flow.Callee(fw), isX, depth+1)) {
			continue
		}
		if !successDominates(fn, ret.Block(), isX, depth) {
			return false
		}
	}
	return true
}

// successDominates: block b is dominated by the `err == nil` edge of some call satisfying isX
// (or of a module function that establishes it).
func successDominates(fn *ssa.Function, b *ssa.BasicBlock, isX func(c *ssa.Call) bool, depth int) bool {
	if successDominatesDom(fn, b, isX, depth) {
		return true
	}
	if pathProgram == nil || depth > 3 || len(b.Instrs) == 0 {
		return false
	}
	good, _ := pathsOf(pathProgram, fn, b.Instrs[0]).successBefore(b.Instrs[0], func(c *ssa.Call) bool {
		if isX(c) {
			return true
		}
		cal := flow.Callee(c)
		return cal != nil && cal != fn && cal.Pkg != nil && cal.Pkg == fn.Pkg && establishes(cal, isX, depth+1)
	})
	return good
}

func successDominatesDom(fn *ssa.Function, b *ssa.BasicBlock, isX func(c *ssa.Call) bool, depth int) bool {
	conds := flow.DomConds(b)
	for _, c := range flow.Calls(fn) {
		call, ok := c.(*ssa.Call)
		if !ok {
			continue
		}
		if !isX(call) {
			cal := flow.Callee(call)
			if cal == nil || cal.Pkg == nil || cal.Pkg != fn.Pkg || !establishes(cal, isX, depth+1) {
				continue
			}
		}
		ev := flow.ErrResult(call)
		if ev == nil {
			continue
		}
		if nn, known := flow.ErrNonNil(conds, ev); known && !nn {
			return true
		}
		if nn, known := flow.ErrKnown(ev, b); known && !nn {
			return true
		}
	}
	return false
}

// dumpProducer finds the function of the profiler whose first result is the path handed to disasm.ExtractSyscalls
// (doObjdump on the pinned tree), by value flow rather than by name.
func dumpProducer(p *load.Program) *ssa.Function {
	for _, f := range p.SrcFuncs(load.PkgProfiler) {
		for _, c := range callsTo(f, load.PkgDisasm, "ExtractSyscalls") {
			if len(c.Call.Args) < 2 {
				continue
			}
			if ex, ok := flow.StripConv(c.Call.Args[1]).(*ssa.Extract); ok {
				if dc, ok := ex.Tuple.(*ssa.Call); ok && ex.Index == 0 {
					if cal := flow.Callee(dc); cal != nil && cal.Pkg != nil && cal.Pkg.Pkg.Path() == load.PkgProfiler {
						return cal
					}
				}
			}
		}
	}
	return p.Func(load.PkgProfiler, "doObjdump")
}

// aliasesOf: the SSA values of the package that denote the same string as seed, following it into helper functions
// (argument -> parameter), through phis and string conversions.
func aliasesOf(p *load.Program, pkg string, seed ssa.Value) map[ssa.Value]bool {
	al := map[ssa.Value]bool{seed: true}
	for changed := true; changed; {
		changed = false
		for _, f := range p.SrcFuncs(pkg) {
			for _, b := range f.Blocks {
				for _, in := range b.Instrs {
					switch x := in.(type) {
					case *ssa.Phi:
						if !al[x] {
							all := len(x.Edges) > 0
							for _, ed := range x.Edges {
								if !al[ed] {
									all = false
								}
							}
							if all {
								al[x] = true
								changed = true
							}
						}
					case *ssa.ChangeType:
						if al[x.X] && !al[x] {
							al[x] = true
							changed = true
						}
					case *ssa.Call:
						cal := flow.Callee(x)
						if cal == nil || cal.Pkg == nil || cal.Pkg.Pkg.Path() != pkg || len(cal.Blocks) == 0 {
							continue
						}
						for k, a := range x.Call.Args {
							if al[a] && k < len(cal.Params) && !al[cal.Params[k]] {
								al[cal.Params[k]] = true
								changed = true
							}
						}
					}
				}
			}
		}
	}
	return al
}

// tracesTo: v satisfies pred, or is a parameter of a function of the package all of whose call sites pass a value that does.
func tracesTo(p *load.Program, pkg string, v ssa.Value, pred func(ssa.Value) bool, depth int) bool {
	if depth > 4 {
		return false
	}
	v = flow.StripConv(v)
	if pred(v) {
		return true
	}
	prm, ok := v.(*ssa.Parameter)
	if !ok {
		return false
	}
	fn := prm.Parent()
	idx := -1
	for k, q := range fn.Params {
		if q == prm {
			idx = k
		}
	}
	n := 0
	for _, f := range p.SrcFuncs(pkg) {
		for _, c := range flow.Calls(f) {
			if flow.Callee(c) != fn {
				continue
			}
			n++
			if idx >= len(c.Common().Args) || !tracesTo(p, pkg, c.Common().Args[idx], pred, depth+1) {
				return false
			}
		}
	}
	return n > 0
}

// trueAlternatives: the condition sets under which the boolean v, evaluated at the end of block b, is true.
func trueAlternatives(v ssa.Value, b *ssa.BasicBlock, extra []flow.Cond, depth int) [][]flow.Cond {
	if depth > 6 {
		return [][]flow.Cond{nil}
	}
	base := func() []flow.Cond { return append(append([]flow.Cond{}, flow.DomConds(b)...), extra...) }
	switch x := v.(type) {
	case *ssa.Const:
		if x.Value == nil || !constant.BoolVal(x.Value) {
			return nil
		}
		return [][]flow.Cond{base()}
	case *ssa.Phi:
		var out [][]flow.Cond
		for i, ed := range x.Edges {
			pred := x.Block().Preds[i]
			var ex []flow.Cond
			if ifi, ok := flow.LastIf(pred); ok && len(pred.Succs) == 2 && pred.Succs[0] != pred.Succs[1] {
				ex = append(ex, flow.Cond{V: ifi.Cond, Pol: pred.Succs[0] == x.Block(), At: ifi})
			}
			out = append(out, trueAlternatives(ed, pred, ex, depth+1)...)
		}
		return out
	}
	return [][]flow.Cond{append(base(), flow.Cond{V: v, Pol: true})}
}

func runC17(e *Env) {
	r := e.R
	p := e.Host()
	fn := dumpProducer(p)
	if fn == nil {
		r.Unknown("E3.publish", "doObjdump", "", "the function that produces the disassembly file was not found")
		return
	}
	D := load.FuncName(fn)
	// R = the published name: the value among those the producer returns on success that (through its aliases in
	// helpers) is the destination of an os.Rename or is created directly; every success return must yield R.
	var cands []ssa.Value
	for _, ret := range flow.Returns(fn) {
		rs := flow.RetResults(ret)
		if len(rs) != 2 || !flow.IsNilConst(rs[1]) {
			continue
		}
		dup := false
		for _, c := range cands {
			if c == rs[0] {
				dup = true
			}
		}
		if !dup {
			cands = append(cands, rs[0])
		}
	}
	isWritten := func(al map[ssa.Value]bool) bool {
		for _, f := range p.SrcFuncs(load.PkgProfiler) {
			for _, c := range flow.Calls(f) {
				args := c.Common().Args
				if flow.CalleeIs(c, "os", "Rename") && len(args) == 2 && al[args[1]] {
					return true
				}
				if (flow.CalleeIs(c, "os", "Create") || flow.CalleeIs(c, "os", "OpenFile") || flow.CalleeIs(c, "os", "WriteFile")) && len(args) > 0 && al[args[0]] {
					return true
				}
			}
		}
		return false
	}
	var R ssa.Value
	for _, c := range cands {
		if isWritten(aliasesOf(p, load.PkgProfiler, c)) {
			if R != nil {
				r.Unknown("E3.publish", D+"/R", p.Pos(fn.Pos()), "more than one returned path is written by the producer")
				return
			}
			R = c
		}
	}
	if R == nil && len(cands) == 1 {
		R = cands[0]
	}
	if R == nil {
		r.Unknown("E3.publish", D+"/R", p.Pos(fn.Pos()), "none of the paths the producer returns is the one it writes")
		return
	}
	for _, ret := range flow.Returns(fn) {
		rs := flow.RetResults(ret)
		if len(rs) == 2 && flow.IsNilConst(rs[1]) && rs[0] != R {
			r.Bad("E3.publish", D+"/returns-unpublished-path", p.Pos(ret.Pos()),
				"the producer returns, as the disassembly to parse, a file other than the cache path it publishes by rename (for example any file found by a directory search): temporary files of an interrupted run carry the valid hash line and would be trusted")
		}
	}
	var rcall *ssa.Call
	if ex, ok := R.(*ssa.Extract); ok {
		rcall, _ = ex.Tuple.(*ssa.Call)
	}
	if rcall == nil || flow.Callee(rcall) == nil {
		r.Unknown("E3.publish", D+"/R", p.Pos(fn.Pos()), "the cache path (the value returned on success) is not the result of a path-computing call")
		return
	}
	failEdgeReturnsError(e, p, "E3.errbranch", D+"/"+calleeName(rcall), rcall, false)
	isR := aliasesOf(p, load.PkgProfiler, R)
	// (a) direct creation of R anywhere in the package; (b) publish by rename
	nDirect := 0
	var renames []*ssa.Call
	for _, f := range p.SrcFuncs(load.PkgProfiler) {
		for _, c := range flow.Calls(f) {
			args := c.Common().Args
			isCreate := flow.CalleeIs(c, "os", "Create") || flow.CalleeIs(c, "os", "WriteFile") || flow.CalleeIs(c, "io/ioutil", "WriteFile")
			if flow.CalleeIs(c, "os", "OpenFile") && len(args) >= 2 {
				if k, ok := flow.ConstInt(args[1]); !ok || k&(1|2|0x40|0x200|0x400) != 0 { // O_WRONLY|O_RDWR|O_CREAT|O_TRUNC|O_APPEND
					isCreate = true
				}
			}
			if isCreate && len(args) > 0 && isR[args[0]] {
				nDirect++
				r.Bad("E3.publish", load.FuncName(f)+"/direct-create", p.Pos(c.Pos()),
					"the cache file is created/truncated under its final name and filled afterwards: a run interrupted while writing, or whose disassembler fails, leaves a file whose first line already carries the valid hash, and the next run reuses it (fewer syscalls)")
			}
			if call, ok := c.(*ssa.Call); ok && flow.CalleeIs(c, "os", "Rename") && len(args) == 2 && isR[args[1]] {
				renames = append(renames, call)
			}
		}
	}
	if nDirect == 0 && len(renames) == 0 {
		r.Bad("E3.publish", D+"/publish", p.Pos(fn.Pos()), "the cache path is neither created directly nor published by os.Rename: the writer was not recognised")
	}
	// the file that is renamed into place belongs to this run alone: it was created by os.CreateTemp (a fresh, unique name)
	// or with O_EXCL. Under a fixed temporary name two overlapping runs write into one file, and the first to finish
	// publishes a mixture that carries the valid hash line.
	for _, rn := range renames {
		src := rn.Call.Args[0]
		// `tmp := f.Name()` kept in a variable that a closure shares: the one value assigned to it
		for i := 0; i < 3; i++ {
			ld, ok := src.(*ssa.UnOp)
			if !ok || ld.Op != token.MUL {
				break
			}
			cell, _ := ld.X.(*ssa.Alloc)
			if fv, ok := ld.X.(*ssa.FreeVar); ok {
				cell = freeVarCell(fv)
			}
			if cell == nil {
				break
			}
			st := singleAssignment(cell)
			if st == nil {
				break
			}
			src = st.Val
		}
		key := load.FuncName(rn.Parent()) + "/temp-file-is-this-run's"
		var fromTemp func(v ssa.Value, depth int) bool
		fromTemp = func(v ssa.Value, depth int) bool {
			if depth > 4 {
				return false
			}
			switch x := v.(type) {
			case *ssa.Extract:
				if c, ok := x.Tuple.(*ssa.Call); ok && x.Index == 0 {
					return flow.CalleeIs(c, "os", "CreateTemp") || flow.CalleeIs(c, "io/ioutil", "TempFile")
				}
			case *ssa.Phi:
				for _, ed := range x.Edges {
					if !fromTemp(ed, depth+1) {
						return false
					}
				}
				return len(x.Edges) > 0
			case *ssa.Parameter:
				// the file is handed to a helper: at every call site
				fn := x.Parent()
				idx := -1
				for i, q := range fn.Params {
					if q == x {
						idx = i
					}
				}
				n := 0
				for _, f := range p.SrcFuncs(load.PkgProfiler) {
					for _, c := range flow.Calls(f) {
						if c.Common().StaticCallee() != fn || idx < 0 || idx >= len(c.Common().Args) {
							continue
						}
						n++
						if !fromTemp(c.Common().Args[idx], depth+1) {
							return false
						}
					}
				}
				return n > 0
			case *ssa.UnOp:
				// a variable shared with a closure: assigned once
				if x.Op != token.MUL {
					return false
				}
				cell, _ := x.X.(*ssa.Alloc)
				if fv, ok := x.X.(*ssa.FreeVar); ok {
					if hk := freeVarCell(fv); hk != nil {
						cell = hk
					}
				}
				if cell == nil {
					return false
				}
				if st := singleAssignment(cell); st != nil {
					return fromTemp(st.Val, depth+1)
				}
			}
			return false
		}
		unique, fixed := false, ""
		if nc, ok := src.(*ssa.Call); ok && flow.CalleeIs(nc, "os", "File.Name") && len(nc.Call.Args) == 1 {
			if fromTemp(nc.Call.Args[0], 0) {
				unique = true
			} else if ex, ok := nc.Call.Args[0].(*ssa.Extract); ok && ex.Index == 0 {
				// f.Name() of a file opened under a computed name
				if oc, ok := ex.Tuple.(*ssa.Call); ok {
					switch {
					case flow.CalleeIs(oc, "os", "OpenFile") && len(oc.Call.Args) >= 2:
						if k, ok := flow.ConstInt(oc.Call.Args[1]); ok && k&0x80 != 0 { // O_EXCL
							unique = true
						} else {
							fixed = "os.OpenFile without O_EXCL at " + p.Pos(oc.Pos())
						}
					case flow.CalleeIs(oc, "os", "Create"):
						fixed = "os.Create at " + p.Pos(oc.Pos())
					}
				}
			}
		}
		if !unique && fixed == "" {
			srcAl := aliasesOf(p, load.PkgProfiler, src)
			for _, f := range p.SrcFuncs(load.PkgProfiler) {
				for _, c := range flow.Calls(f) {
					args := c.Common().Args
					if len(args) == 0 || !srcAl[args[0]] {
						continue
					}
					switch {
					case flow.CalleeIs(c, "os", "OpenFile") && len(args) >= 2:
						if k, ok := flow.ConstInt(args[1]); ok && k&0x80 != 0 { // O_EXCL
							unique = true
						} else {
							fixed = "os.OpenFile without O_EXCL at " + p.Pos(c.Pos())
						}
					case flow.CalleeIs(c, "os", "Create"):
						fixed = "os.Create at " + p.Pos(c.Pos())
					}
				}
			}
		}
		switch {
		case unique && fixed == "":
			r.OK("E3.publish", key, p.Pos(rn.Pos()), "the renamed file was created by os.CreateTemp or with O_EXCL: no other run writes into it")
		case fixed != "":
			r.Bad("E3.publish", key, p.Pos(rn.Pos()), "the file that is renamed to the cache name is created under a name that is the same for every run ("+fixed+"): two overlapping runs write into one file, and what the first one publishes carries the valid hash line but not its own complete output")
		default:
			r.Unknown("E3.publish", key, p.Pos(rn.Pos()), "how the file that is renamed to the cache name was created was not recognised (os.CreateTemp, or OpenFile with O_EXCL)")
		}
	}
	isRun := func(c *ssa.Call) bool {
		return flow.CalleeIs(c, "os/exec", "Cmd.Run") || flow.CalleeIs(c, "os/exec", "Cmd.Wait") || flow.CalleeIs(c, "os/exec", "Cmd.Output") || flow.CalleeIs(c, "os/exec", "Cmd.CombinedOutput")
	}
	isFlush := func(c *ssa.Call) bool { return flow.CalleeIs(c, "bufio", "Writer.Flush") }
	isClose := func(c *ssa.Call) bool {
		return flow.CalleeIs(c, "os", "File.Close") || flow.CalleeIs(c, "os", "File.Sync")
	}
	isPublish := func(c *ssa.Call) bool { return isRenameOf(c, renames) }
	for _, rn := range renames {
		P := rn.Parent()
		for _, req := range []struct {
			name string
			is   func(c *ssa.Call) bool
			why  string
		}{
			{"disassembler-success", isRun, "a failed or missing disassembler would publish an empty or partial dump"},
			{"flush-success", isFlush, "unflushed buffered output would be published as complete"},
			{"close-success", isClose, "a failed write-back at close would be published as complete"},
		} {
			r.Check(successDominates(P, rn.Block(), req.is, 0), "E3.publish", "writer/rename-after-"+req.name, p.Pos(rn.Pos()),
				"the publishing rename is dominated by the checked "+req.name, "the rename that publishes the cache is not dominated by the checked "+req.name+": "+req.why)
		}
		failEdgeReturnsErrorAllow(e, p, "E3.publish", "writer/rename-error", rn, false, cleanupCall)
		// when the rename sits in a helper, the helper reports success only behind it, all the way up to the producer
		if P != fn {
			r.Check(establishes(P, isPublish, 0), "E3.publish", load.FuncName(P)+"/nil-only-after-rename", p.Pos(rn.Pos()),
				"the helper that publishes the cache returns nil only behind the successful rename", "the helper "+load.FuncName(P)+" can return nil without having renamed the complete file into place")
		}
	}
	// (e) success returns of the producer
	nHit := 0
	for _, ret := range flow.Returns(fn) {
		rs := flow.RetResults(ret)
		if !flow.IsNilConst(rs[len(rs)-1]) {
			continue
		}
		if nDirect > 0 || rs[0] != R {
			continue // already reported
		}
		viaRename := len(renames) > 0 && successDominates(fn, ret.Block(), isPublish, 0)
		hit := false
		if !viaRename {
			hit = checkCacheHit(e, p, fn, ret, isR)
			if hit {
				nHit++
			}
		}
		r.Check((viaRename || hit) && rs[0] == R, "E3.publish", D+"/success-return", p.Pos(ret.Pos()),
			"the cache path is returned only after a successful publish or a validated cache hit", "the cache path is returned on a path that neither published it successfully nor validated it")
	}
	r.Floor("E3.publish(writer recognised)", nDirect+len(renames), 1)
	r.Floor("E3.fullhash(cache-hit returns)", nHit, 1)

	// every fallible call of the producer and of the path computation has its error returned
	nF := 0
	for _, f2 := range []*ssa.Function{fn, flow.Callee(rcall)} {
		if f2 == nil || len(f2.Blocks) == 0 {
			continue
		}
		for _, c := range flow.Calls(f2) {
			call, ok := c.(*ssa.Call)
			if !ok || flow.ErrResult(call) == nil || pureFailCall(call) {
				continue
			}
			if f2 == fn && (call == rcall || isRenameOf(call, renames)) {
				continue
			}
			// reader-side calls: os.Open / f.Read errors select the cold path, they are not failures
			if flow.CalleeIs(call, "os", "Open") || flow.CalleeIs(call, "os", "File.Read") || flow.CalleeIs(call, "io", "ReadFull") {
				continue
			}
			if flow.CalleeIs(call, "os", "Remove") || flow.CalleeIs(call, "os", "File.Close") {
				continue // cleanup
			}
			nF++
			failEdgeReturnsErrorAllow(e, p, "E3.errbranch", load.FuncName(f2)+"/"+calleeName(call), call, false, cleanupCall)
		}
	}
	r.Count("fallible calls on the cache writer path", nF)
	// the hash is hex(SHA-256)
	nHash := 0
	for _, hb := range p.SrcFuncs(load.PkgProfiler) {
		if len(callsTo(hb, "crypto/sha256", "New"))+len(callsTo(hb, "crypto/sha256", "Sum256")) > 0 {
			nHash++
			hexe := len(callsTo(hb, "encoding/hex", "EncodeToString")) > 0
			r.Check(hexe, "E3.fullhash", "hashBinary/digest", p.Pos(hb.Pos()), "the hash is hex(SHA-256): 64 characters", "the hash function is not hex(SHA-256): the marker length check does not fit")
			for _, ret := range flow.Returns(hb) {
				rs := flow.RetResults(ret)
				if len(rs) == 2 && flow.IsNilConst(rs[1]) {
					if k, ok := flow.ConstString(rs[0]); ok && k == "" {
						r.Note("%s returns (\"\", nil) when reading the binary fails (%s): careless, but an empty hash can never equal the 64-byte marker the reader compares, so nothing stale is reused because of it (not a violation of C17)", load.FuncName(hb), p.Pos(ret.Pos()))
					}
				}
			}
		}
	}
	r.Floor("E3.fullhash(hash function)", nHash, 1)
	// the command: a failure of hashing, of the producer or of the extraction ends the run with an error ("or fails with an
	// error - never a profile with fewer syscalls")
	nMain := 0
	for _, f := range p.SrcFuncs(load.PkgProfiler) {
		for _, c := range flow.Calls(f) {
			call, ok := c.(*ssa.Call)
			if !ok || flow.ErrResult(call) == nil || f.Name() != "main" {
				continue
			}
			cal := flow.Callee(call)
			isHash := cal != nil && len(cal.Blocks) > 0 && len(callsTo(cal, "crypto/sha256", "New"))+len(callsTo(cal, "crypto/sha256", "Sum256")) > 0
			if isHash {
				checkWholeContentHash(e, p, cal)
			}
			if cal == fn || isHash || flow.CalleeIs(call, load.PkgDisasm, "ExtractSyscalls") {
				nMain++
				failEdgeNoReturn(e, p, "E3.maindisc", "main/"+calleeName(call), call)
			}
		}
	}
	r.Floor("E3.maindisc(fallible steps of the command)", nMain, 3)
	// the hash function is deliberately not subject to E3.errbranch here: see the note above.
	checkErrBranch(e, p, []*ssa.Function{fn, flow.Callee(rcall)}, "profiler cache")
}

// checkWholeContentHash (E3.fullhash …/whole-content): "complete for the exact binary" - everything that is fed into the
// binary's hash is the whole content of the file named by the function's parameter: io.Copy (not CopyN, not a
// LimitReader, not one Read) from a reader over os.Open(param), or a Write/Sum256 of the unsliced result of
// os.ReadFile(param) / io.ReadAll(file). A hash over a prefix, or over the path, size and modification time, accepts a
// cache that was written for another binary.
func checkWholeContentHash(e *Env, p *load.Program, hb *ssa.Function) {
	r := e.R
	name := load.FuncName(hb)
	strip := func(v ssa.Value) ssa.Value {
		for i := 0; i < 8; i++ {
			switch x := v.(type) {
			case *ssa.MakeInterface:
				v = x.X
			case *ssa.ChangeInterface:
				v = x.X
			case *ssa.ChangeType:
				v = x.X
			case *ssa.Convert:
				v = x.X
			case *ssa.UnOp:
				// a local that a closure captures (`defer func() { _ = f.Close() }()`) lives in a cell: the one value stored into it
				if al, ok := x.X.(*ssa.Alloc); ok && x.Op == token.MUL {
					if st := flow.OnlyStore(al); st != nil {
						v = st.Val
						continue
					}
				}
				return v
			default:
				return v
			}
		}
		return v
	}
	isPathParam := func(v ssa.Value) bool {
		v = strip(v)
		for _, pr := range hb.Params {
			if pr == v {
				return true
			}
		}
		return false
	}
	resultOf := func(v ssa.Value, pkg, fn string) *ssa.Call {
		v = strip(v)
		if ex, ok := v.(*ssa.Extract); ok && ex.Index == 0 {
			v = ex.Tuple
		}
		if c, ok := v.(*ssa.Call); ok && flow.CalleeIs(c, pkg, fn) {
			return c
		}
		return nil
	}
	// a reader over the whole file
	var wholeFile func(v ssa.Value, depth int) bool
	wholeFile = func(v ssa.Value, depth int) bool {
		if depth > 4 {
			return false
		}
		if c := resultOf(v, "os", "Open"); c != nil {
			return len(c.Call.Args) == 1 && isPathParam(c.Call.Args[0])
		}
		if c := resultOf(v, "os", "OpenFile"); c != nil && len(c.Call.Args) == 3 {
			// read-only: O_RDONLY is 0 everywhere
			k, isK := flow.ConstInt(c.Call.Args[1])
			return isK && k == 0 && isPathParam(c.Call.Args[0])
		}
		for _, w := range [][2]string{{"bufio", "NewReader"}, {"bufio", "NewReaderSize"}} {
			if c := resultOf(v, w[0], w[1]); c != nil && len(c.Call.Args) >= 1 {
				return wholeFile(c.Call.Args[0], depth+1)
			}
		}
		return false
	}
	wholeBytes := func(v ssa.Value) bool {
		for _, w := range [][2]string{{"os", "ReadFile"}, {"io/ioutil", "ReadFile"}} {
			if c := resultOf(v, w[0], w[1]); c != nil && len(c.Call.Args) == 1 {
				return isPathParam(c.Call.Args[0])
			}
		}
		for _, w := range [][2]string{{"io", "ReadAll"}, {"io/ioutil", "ReadAll"}} {
			if c := resultOf(v, w[0], w[1]); c != nil && len(c.Call.Args) == 1 {
				return wholeFile(c.Call.Args[0], 0)
			}
		}
		return false
	}
	isHasher := func(v ssa.Value) bool {
		v = strip(v)
		c, ok := v.(*ssa.Call)
		return ok && flow.CalleeIs(c, "crypto/sha256", "New")
	}
	good, n := true, 0
	why := ""
	for _, c := range flow.Calls(hb) {
		call, ok := c.(*ssa.Call)
		if !ok {
			continue
		}
		com := call.Common()
		switch {
		case flow.CalleeIs(call, "crypto/sha256", "Sum256"):
			n++
			if !wholeBytes(com.Args[0]) {
				good, why = false, "Sum256 of something other than the file's whole content"
			}
		case com.IsInvoke() && isHasher(com.Value) && (com.Method.Name() == "Write" || com.Method.Name() == "WriteString"):
			n++
			if len(com.Args) != 1 || !wholeBytes(com.Args[0]) {
				good, why = false, "the hash is fed with something other than the file's whole content"
			}
		case com.IsInvoke() && isHasher(com.Value):
			// Sum, Reset, Size: Reset between feeding and Sum would drop the content
			if com.Method.Name() == "Reset" {
				good, why = false, "the hash is reset"
			}
		default:
			// the hash handed to a function as a writer
			for ai, a := range com.Args {
				if !isHasher(a) {
					continue
				}
				n++
				if (flow.CalleeIs(call, "io", "Copy") || flow.CalleeIs(call, "io", "CopyBuffer")) && ai == 0 && len(com.Args) >= 2 && wholeFile(com.Args[1], 0) {
					continue
				}
				good, why = false, fmt.Sprintf("the hash is handed to %s, which is not io.Copy from a reader over the whole file", calleeName(call))
			}
		}
	}
	if n == 0 {
		r.Unknown("E3.fullhash", name+"/whole-content", p.Pos(hb.Pos()), "how the binary's content reaches the hash was not recognised")
		return
	}
	r.Check(good, "E3.fullhash", name+"/whole-content", p.Pos(hb.Pos()),
		"the binary's hash covers the whole content of the file named by the parameter",
		"the binary's hash does not cover exactly the whole file ("+why+"): a cache written for a different binary with the same hashed part is accepted as complete for this one")
}

func isRenameOf(c *ssa.Call, renames []*ssa.Call) bool {
	for _, r := range renames {
		if r == c {
			return true
		}
	}
	return false
}

func cleanupCall(c ssa.CallInstruction) bool {
	return flow.CalleeIs(c, "os", "Remove") || flow.CalleeIs(c, "os", "File.Close") || flow.CalleeIs(c, "os", "File.Name")
}

// isHashValue: v is the result of a function of the profiler that computes a SHA-256.
func isHashValue(v ssa.Value) bool {
	var c *ssa.Call
	switch x := v.(type) {
	case *ssa.Extract:
		c, _ = x.Tuple.(*ssa.Call)
	case *ssa.Call:
		c = x
	}
	if c == nil {
		return false
	}
	cal := flow.Callee(c)
	return cal != nil && len(cal.Blocks) > 0 && len(callsTo(cal, "crypto/sha256", "New"))+len(callsTo(cal, "crypto/sha256", "Sum256")) > 0
}

// checkCacheHit: the success return `ret` of the producer is a validated cache hit: it is dominated by a successful,
// complete read of a 64-byte marker from the cached file and by its equality with the binary's hash - tested inline or
// in a boolean helper that receives the cache path.
func checkCacheHit(e *Env, p *load.Program, fn *ssa.Function, ret *ssa.Return, isR map[ssa.Value]bool) bool {
	r := e.R
	conds := flow.DomConds(ret.Block())
	// helper form: a dominating condition `helper(R, ...)` being true
	for _, cd := range conds {
		c := flow.Norm(cd)
		call, ok := c.V.(*ssa.Call)
		if !ok || !c.Pol {
			continue
		}
		h := flow.Callee(call)
		if h == nil || h.Pkg == nil || h.Pkg.Pkg.Path() != load.PkgProfiler || len(h.Blocks) == 0 {
			continue
		}
		takesR := false
		for _, a := range call.Call.Args {
			if isR[a] {
				takesR = true
			}
		}
		if !takesR {
			continue
		}
		all := true
		n := 0
		for _, hr := range flow.Returns(h) {
			rs := flow.RetResults(hr)
			if len(rs) != 1 {
				all = false
				continue
			}
			for _, alt := range trueAlternatives(rs[0], hr.Block(), nil, 0) {
				n++
				if !readerGuard(e, p, h, alt, hr, load.FuncName(h)) {
					all = false
				}
			}
		}
		return all && n > 0
	}
	// inline form
	hasRead := false
	for _, cd := range conds {
		bo, ok := cd.V.(*ssa.BinOp)
		if !ok {
			continue
		}
		for _, side := range []ssa.Value{bo.X, bo.Y} {
			if ex, ok := side.(*ssa.Extract); ok {
				if c, ok := ex.Tuple.(*ssa.Call); ok && (flow.CalleeIs(c, "os", "File.Read") || flow.CalleeIs(c, "io", "ReadFull")) {
					hasRead = true
				}
			}
		}
	}
	if !hasRead {
		r.Note("success return at %s is not dominated by any read of the cached file", p.Pos(ret.Pos()))
		return false
	}
	return readerGuard(e, p, fn, conds, ret, load.FuncName(fn))
}

// readerGuard: under conds (in function f) the marker was read completely and without error into a 64-byte buffer and
// equals the binary's hash.
func readerGuard(e *Env, p *load.Program, f *ssa.Function, conds []flow.Cond, at ssa.Instruction, name string) bool {
	r := e.R
	var readCall *ssa.Call
	var buf ssa.Value
	for _, c := range flow.Calls(f) {
		call, ok := c.(*ssa.Call)
		if !ok {
			continue
		}
		if flow.CalleeIs(call, "os", "File.Read") || flow.CalleeIs(call, "io", "ReadFull") {
			readCall = call
			buf = call.Call.Args[1]
		}
	}
	if readCall == nil {
		r.Unknown("E3.fullhash", name+"/read", p.Pos(at.Pos()), "read call not found")
		return false
	}
	// buffer size
	size := int64(-1)
	if ms, ok := buf.(*ssa.MakeSlice); ok {
		size, _ = flow.ConstInt(ms.Len)
	} else if sl, ok := buf.(*ssa.Slice); ok && sl.Low == nil {
		// make with a constant length is an array allocation sliced whole
		if al, ok := sl.X.(*ssa.Alloc); ok {
			if at, ok := al.Type().Underlying().(*types.Pointer).Elem().Underlying().(*types.Array); ok {
				size = at.Len()
				if sl.High != nil {
					size, _ = flow.ConstInt(sl.High)
				}
			}
		}
	}
	r.Check(size == 64, "E3.fullhash", name+"/buffer-size", p.Pos(readCall.Pos()), "the marker buffer has the length of a hex SHA-256 (64)", fmt.Sprintf("the marker buffer has length %d, a hex SHA-256 has 64 characters: a truncated hash would be accepted or a full one never matched", size))
	errOK, fullOK, eqOK := false, false, false
	nRes := flow.ResultN(readCall, 0)
	eRes := flow.ResultN(readCall, 1)
	for _, cd := range conds {
		if eRes != nil {
			if nn, known := flow.ErrNonNil([]flow.Cond{cd}, eRes); known && !nn {
				errOK = true
			}
		}
		c := flow.Norm(cd)
		bo, ok := c.V.(*ssa.BinOp)
		if !ok {
			continue
		}
		isEq := (bo.Op == token.EQL && c.Pol) || (bo.Op == token.NEQ && !c.Pol)
		if !isEq {
			continue
		}
		for _, pair := range [][2]ssa.Value{{bo.X, bo.Y}, {bo.Y, bo.X}} {
			// n == len(buf) / n == 64
			if nRes != nil && pair[0] == nRes {
				if lc, ok := pair[1].(*ssa.Call); ok {
					if bi, ok := lc.Call.Value.(*ssa.Builtin); ok && bi.Name() == "len" && (sameBuffer(lc.Call.Args[0], buf) || sameArray(lc.Call.Args[0], buf)) {
						fullOK = true
					}
				}
				if k, ok := flow.ConstInt(pair[1]); ok && k == 64 {
					fullOK = true
				}
			}
			// hash == string(buf)
			if cv, ok := pair[1].(*ssa.Convert); ok && sameBuffer(cv.X, buf) {
				if tracesTo(p, load.PkgProfiler, pair[0], isHashValue, 0) {
					eqOK = true
				}
			}
		}
	}
	if flow.CalleeIs(readCall, "io", "ReadFull") {
		fullOK = fullOK || errOK // ReadFull returns an error unless the buffer was filled
	}
	return r.Check(errOK && fullOK && eqOK && size == 64, "E3.fullhash", name+"/reuse-guard", p.Pos(at.Pos()),
		"reuse is dominated by a successful, complete read of the marker and its equality with the binary's hash",
		fmt.Sprintf("the cached dump is reused without the full guard (read error checked=%v, complete read=%v, equality with the binary's hash=%v)", errOK, fullOK, eqOK))
}

// failEdgeReturnsErrorAllow is failEdgeReturnsError with additional calls tolerated on the failure edge.
func failEdgeReturnsErrorAllow(e *Env, p *load.Program, rule, key string, call *ssa.Call, nilFirst bool, allow func(ssa.CallInstruction) bool) bool {
	old := extraPure
	extraPure = allow
	defer func() { extraPure = old }()
	return failEdgeReturnsError(e, p, rule, key, call, nilFirst)
}

// sameBuffer: the same slice value, or two whole slices of the same local array (go/ssa does not share them).
func sameBuffer(a, b ssa.Value) bool {
	if a == b {
		return true
	}
	sa, ok1 := a.(*ssa.Slice)
	sb, ok2 := b.(*ssa.Slice)
	if !ok1 || !ok2 {
		return false
	}
	whole := func(s *ssa.Slice) bool { return s.Low == nil && s.Max == nil }
	if !whole(sa) || !whole(sb) || sa.X != sb.X {
		return false
	}
	// equal upper bounds (both absent or the same constant)
	if sa.High == nil && sb.High == nil {
		return true
	}
	if sa.High != nil && sb.High != nil {
		ka, oka := flow.ConstInt(sa.High)
		kb, okb := flow.ConstInt(sb.High)
		return oka && okb && ka == kb
	}
	return false
}

// sameArray: a is the array (pointer) that the slice b covers entirely: len(arr) == len(arr[:]).
func sameArray(a, b ssa.Value) bool {
	sb, ok := b.(*ssa.Slice)
	if !ok || sb.Low != nil || sb.High != nil || sb.Max != nil {
		return false
	}
	if a == sb.X {
		return true
	}
	if ld, ok := a.(*ssa.UnOp); ok && ld.X == sb.X {
		return true
	}
	return false
}

// deferEstablishes: the function has a named error result and an unconditionally deferred closure of the form
// `if e := X(); result == nil { result = e }`: whatever the body returns, a nil final result means X succeeded.
func deferEstablishes(fn *ssa.Function, isX func(c *ssa.Call) bool) bool {
	rets := flow.Returns(fn)
	for _, b := range fn.Blocks {
		for _, in := range b.Instrs {
			df, ok := in.(*ssa.Defer)
			if !ok {
				continue
			}
			mc, ok := df.Call.Value.(*ssa.MakeClosure)
			if !ok {
				continue
			}
			// deferred on every path to a return
			all := true
			for _, ret := range rets {
				if !flow.InstrDominates(df, ret) {
					all = false
				}
			}
			if !all {
				continue
			}
			cl, ok := mc.Fn.(*ssa.Function)
			if !ok {
				continue
			}
			for i, bnd := range mc.Bindings {
				al, ok := bnd.(*ssa.Alloc)
				if !ok || i >= len(cl.FreeVars) || !flow.IsErrorType(al.Type().Underlying().(*types.Pointer).Elem()) {
					continue
				}
				// al must be the function's error result cell
				isRes := false
				for _, ret := range rets {
					if n := len(ret.Results); n > 0 {
						if ld, ok := ret.Results[n-1].(*ssa.UnOp); ok && ld.X == ssa.Value(al) {
							isRes = true
						}
					}
				}
				if w, mono := flow.DeferredResultWrites(al); !isRes || !w || !mono {
					continue
				}
				fv := cl.FreeVars[i]
				for _, r2 := range *fv.Referrers() {
					st, ok := r2.(*ssa.Store)
					if !ok || st.Addr != ssa.Value(fv) {
						continue
					}
					xc, ok := st.Val.(*ssa.Call)
					if !ok || !isX(xc) {
						continue
					}
					// the only condition on the store is `result == nil`, and the X call is executed before it
					if len(flow.DomConds(st.Block())) == 1 && flow.InstrDominates(xc, st) {
						return true
					}
				}
			}
		}
	}
	return false
}

// freeVarCell: the variable of the enclosing function a free variable is bound to (when every closure creation binds
// the same one).
func freeVarCell(fv *ssa.FreeVar) *ssa.Alloc {
	fn := fv.Parent()
	idx := -1
	for i, q := range fn.FreeVars {
		if q == fv {
			idx = i
		}
	}
	if idx < 0 || fn.Parent() == nil {
		return nil
	}
	var cell *ssa.Alloc
	for _, b := range fn.Parent().Blocks {
		for _, in := range b.Instrs {
			mc, ok := in.(*ssa.MakeClosure)
			if !ok || mc.Fn != ssa.Value(fn) || idx >= len(mc.Bindings) {
				continue
			}
			al, ok := mc.Bindings[idx].(*ssa.Alloc)
			if !ok || (cell != nil && cell != al) {
				return nil
			}
			cell = al
		}
	}
	return cell
}
