package rules

import (
	"fmt"
	"go/token"
	"go/types"

	"golang.org/x/tools/go/ssa"

	"sbpfcheck/flow"
	"sbpfcheck/load"
)

func init() {
	Specs["C17"] = &Spec{
		Level: "other",
		Explanation: "Which file states a crash or a failed disassembler can leave under the name the reader trusts is decided by the shape of the writer: the cache path R (result of cachedDumpFile) is never " +
			"created or truncated directly; it only comes into existence through os.Rename(tmp, R), and that call is dominated by the checked success of the disassembler's Run, of the buffered writer's " +
			"Flush and of the file's Close (directly or through a helper whose every nil return is behind them); failures after the temporary file was created return non-nil errors; the reader reuses " +
			"R only when a full 64-byte read equals the hex SHA-256 of the binary. Then R is either absent or complete at every crash point.",
		Trusted:     []string{"go/ssa, dominators", "rename(2) within one directory is atomic", "exec.Cmd.Run returns an error for a missing tool or non-zero exit", "hex SHA-256 has 64 characters"},
		Assumptions: []string{"durability of the rename across power loss (no directory fsync) is not part of the statement"},
		Run:         runC17,
	}
}

// establishes reports whether every nil-error return of fn lies behind the checked success
// of a call satisfying isX (directly, or via a callee of the module that itself establishes it).
func establishes(fn *ssa.Function, isX func(c *ssa.Call) bool, depth int) bool {
	if fn == nil || depth > 3 || len(fn.Blocks) == 0 {
		return false
	}
	rets := flow.Returns(fn)
	if len(rets) == 0 {
		return false
	}
	for _, ret := range rets {
		rs := flow.RetResults(ret)
		if len(rs) == 0 {
			return false
		}
		ev := rs[len(rs)-1]
		if !flow.IsErrorType(ev.Type()) {
			return false
		}
		if flow.KnownNonNilError(ev, ret.Block()) {
			continue
		}
		// returned value is the result of an X call: nil => X succeeded
		if c, ok := ev.(*ssa.Call); ok && (isX(c) || establishes(flow.Callee(c), isX, depth+1)) {
			continue
		}
		if !successDominates(fn, ret.Block(), isX, depth) {
			return false
		}
	}
	return true
}

// successDominates: block b is dominated by the `err == nil` edge of some call satisfying isX
// (or of a module function that establishes it).
func successDominates(fn *ssa.Function, b *ssa.BasicBlock, isX func(c *ssa.Call) bool, depth int) bool {
	conds := flow.DomConds(b)
	for _, c := range flow.Calls(fn) {
		call, ok := c.(*ssa.Call)
		if !ok {
			continue
		}
		if !isX(call) {
			cal := flow.Callee(call)
			if cal == nil || cal.Pkg == nil || cal.Pkg != fn.Pkg || !establishes(cal, isX, depth+1) {
				continue
			}
		}
		ev := flow.ErrResult(call)
		if ev == nil {
			continue
		}
		if nn, known := flow.ErrNonNil(conds, ev); known && !nn {
			return true
		}
	}
	return false
}

func runC17(e *Env) {
	r := e.R
	p := e.Host()
	fn := p.Func(load.PkgProfiler, "doObjdump")
	if fn == nil {
		r.Unknown("E3.publish", "doObjdump", "", "not found")
		return
	}
	// R = result of cachedDumpFile
	var R ssa.Value
	var rcall *ssa.Call
	for _, c := range callsTo(fn, load.PkgProfiler, "cachedDumpFile") {
		rcall = c
		R = flow.ResultN(c, 0)
	}
	if R == nil {
		r.Unknown("E3.publish", "doObjdump/R", p.Pos(fn.Pos()), "the cache path (result of cachedDumpFile) was not found")
		return
	}
	failEdgeReturnsError(e, p, "E3.errbranch", "doObjdump/cachedDumpFile", rcall, false)
	// (a) direct creation of R anywhere in the package
	nDirect := 0
	pathArgIs := func(c ssa.CallInstruction, v ssa.Value) bool {
		return len(c.Common().Args) > 0 && c.Common().Args[0] == v
	}
	for _, c := range flow.Calls(fn) {
		isCreate := flow.CalleeIs(c, "os", "Create") || flow.CalleeIs(c, "os", "WriteFile") || flow.CalleeIs(c, "io/ioutil", "WriteFile")
		if flow.CalleeIs(c, "os", "OpenFile") && len(c.Common().Args) >= 2 {
			if k, ok := flow.ConstInt(c.Common().Args[1]); !ok || k&(1|2|0x40|0x200|0x400) != 0 { // O_WRONLY|O_RDWR|O_CREAT|O_TRUNC|O_APPEND
				isCreate = true
			}
		}
		if isCreate && pathArgIs(c, R) {
			nDirect++
			r.Bad("E3.publish", "doObjdump/direct-create", p.Pos(c.Pos()),
				"the cache file is created/truncated under its final name and filled afterwards: a run interrupted while writing, or whose disassembler fails, leaves a file whose first line already carries the valid hash, and the next run reuses it (fewer syscalls)")
		}
		// R passed to a helper of the package that might create it
		if call, ok := c.(*ssa.Call); ok {
			if cal := flow.Callee(call); cal != nil && cal.Pkg != nil && cal.Pkg.Pkg.Path() == load.PkgProfiler && cal != flow.Callee(rcall) {
				for _, a := range call.Call.Args {
					if a == R {
						r.Unknown("E3.publish", "doObjdump/R-passed-to/"+load.FuncName(cal), p.Pos(call.Pos()), "the cache path is handed to a helper; the analysis does not follow paths into helpers")
					}
				}
			}
		}
	}
	// (b) publish by rename
	var renames []*ssa.Call
	for _, c := range callsTo(fn, "os", "Rename") {
		if len(c.Call.Args) == 2 && c.Call.Args[1] == R {
			renames = append(renames, c)
		}
	}
	if nDirect == 0 && len(renames) == 0 {
		r.Bad("E3.publish", "doObjdump/publish", p.Pos(fn.Pos()), "the cache path is neither created directly nor published by os.Rename: the writer was not recognised")
	}
	isRun := func(c *ssa.Call) bool {
		return flow.CalleeIs(c, "os/exec", "Cmd.Run") || flow.CalleeIs(c, "os/exec", "Cmd.Wait") || flow.CalleeIs(c, "os/exec", "Cmd.Output") || flow.CalleeIs(c, "os/exec", "Cmd.CombinedOutput")
	}
	isFlush := func(c *ssa.Call) bool { return flow.CalleeIs(c, "bufio", "Writer.Flush") }
	isClose := func(c *ssa.Call) bool {
		return flow.CalleeIs(c, "os", "File.Close") || flow.CalleeIs(c, "os", "File.Sync")
	}
	for _, rn := range renames {
		for _, req := range []struct {
			name string
			is   func(c *ssa.Call) bool
			why  string
		}{
			{"disassembler-success", isRun, "a failed or missing disassembler would publish an empty or partial dump"},
			{"flush-success", isFlush, "unflushed buffered output would be published as complete"},
			{"close-success", isClose, "a failed write-back at close would be published as complete"},
		} {
			r.Check(successDominates(fn, rn.Block(), req.is, 0), "E3.publish", "doObjdump/rename-after-"+req.name, p.Pos(rn.Pos()),
				"the publishing rename is dominated by the checked "+req.name, "the rename that publishes the cache is not dominated by the checked "+req.name+": "+req.why)
		}
		// the temp file must live in the same directory: tmp path derives from filepath.Dir(R) or R + suffix
		failEdgeReturnsErrorAllow(e, p, "E3.publish", "doObjdump/rename-error", rn, false, cleanupCall)
	}
	// buffered writes without a flush at all: uses of bufio.NewWriter in the writer path must be flushed (checked above when a rename exists)
	// (e) success returns
	for _, ret := range flow.Returns(fn) {
		rs := flow.RetResults(ret)
		if !flow.IsNilConst(rs[len(rs)-1]) {
			continue
		}
		// either the cache-hit return (checked by E3.fullhash) or behind the rename's success edge
		viaRename := false
		for _, rn := range renames {
			if ev := flow.ErrResult(rn); ev != nil {
				if nn, known := flow.ErrNonNil(flow.DomConds(ret.Block()), ev); known && !nn {
					viaRename = true
				}
			}
		}
		cacheHit := isCacheHitReturn(fn, ret, R)
		if nDirect > 0 {
			continue // already reported
		}
		r.Check((viaRename || cacheHit) && rs[0] == R, "E3.publish", "doObjdump/success-return", p.Pos(ret.Pos()),
			"the cache path is returned only after a successful publish or a validated cache hit", "the cache path is returned on a path that neither published it successfully nor validated it")
	}
	r.Floor("E3.publish(writer recognised)", nDirect+len(renames), 1)

	// every fallible call on the writer path has its error returned
	nF := 0
	for _, f2 := range p.SrcFuncs(load.PkgProfiler) {
		if f2 != fn && !reachesFn(fn, f2, map[*ssa.Function]bool{}) {
			continue
		}
		if f2.Name() == "cachedDumpFile" || f2 == fn {
			for _, c := range flow.Calls(f2) {
				call, ok := c.(*ssa.Call)
				if !ok || flow.ErrResult(call) == nil || pureFailCall(call) {
					continue
				}
				if f2 == fn && (call == rcall || isRenameOf(call, renames)) {
					continue
				}
				// reader-side calls: os.Open / f.Read errors select the cold path, they are not failures
				if flow.CalleeIs(call, "os", "Open") || flow.CalleeIs(call, "os", "File.Read") || flow.CalleeIs(call, "io", "ReadFull") {
					continue
				}
				if flow.CalleeIs(call, "os", "Remove") || flow.CalleeIs(call, "os", "File.Close") {
					continue // cleanup
				}
				nF++
				failEdgeReturnsErrorAllow(e, p, "E3.errbranch", load.FuncName(f2)+"/"+calleeName(call), call, false, cleanupCall)
			}
		}
	}
	r.Count("fallible calls on the cache writer path", nF)
	checkFullHash(e, p, fn, R)
	// hashBinary is deliberately not subject to E3.errbranch here: see the note below.
	checkErrBranch(e, p, []*ssa.Function{fn, p.Func(load.PkgProfiler, "cachedDumpFile")}, "profiler cache")
	if hb := p.Func(load.PkgProfiler, "hashBinary"); hb != nil {
		for _, ret := range flow.Returns(hb) {
			rs := flow.RetResults(ret)
			if flow.IsNilConst(rs[1]) {
				if k, ok := flow.ConstString(rs[0]); ok && k == "" {
					r.Note("hashBinary returns (\"\", nil) when reading the binary fails (%s): careless, but an empty hash can never equal the 64-byte marker the reader compares, so nothing stale is reused because of it (not a violation of C17)", p.Pos(ret.Pos()))
				}
			}
		}
	}
}

func isRenameOf(c *ssa.Call, renames []*ssa.Call) bool {
	for _, r := range renames {
		if r == c {
			return true
		}
	}
	return false
}

func cleanupCall(c ssa.CallInstruction) bool {
	return flow.CalleeIs(c, "os", "Remove") || flow.CalleeIs(c, "os", "File.Close") || flow.CalleeIs(c, "os", "File.Name")
}

// isCacheHitReturn: return R, nil dominated by err==nil (read), n == len(buf), hash == string(buf).
func isCacheHitReturn(fn *ssa.Function, ret *ssa.Return, R ssa.Value) bool {
	rs := flow.RetResults(ret)
	if rs[0] != R {
		return false
	}
	conds := flow.DomConds(ret.Block())
	hasRead := false
	for _, cd := range conds {
		bo, ok := cd.V.(*ssa.BinOp)
		if !ok {
			continue
		}
		for _, side := range []ssa.Value{bo.X, bo.Y} {
			if ex, ok := side.(*ssa.Extract); ok {
				if c, ok := ex.Tuple.(*ssa.Call); ok && (flow.CalleeIs(c, "os", "File.Read") || flow.CalleeIs(c, "io", "ReadFull")) {
					hasRead = true
				}
			}
		}
	}
	return hasRead
}

// checkFullHash: the reader compares the complete digest.
func checkFullHash(e *Env, p *load.Program, fn *ssa.Function, R ssa.Value) {
	r := e.R
	n := 0
	for _, ret := range flow.Returns(fn) {
		if !isCacheHitReturn(fn, ret, R) {
			continue
		}
		n++
		conds := flow.DomConds(ret.Block())
		var readCall *ssa.Call
		var buf ssa.Value
		for _, c := range flow.Calls(fn) {
			call, ok := c.(*ssa.Call)
			if !ok {
				continue
			}
			if flow.CalleeIs(call, "os", "File.Read") {
				readCall = call
				buf = call.Call.Args[1]
			}
			if flow.CalleeIs(call, "io", "ReadFull") {
				readCall = call
				buf = call.Call.Args[1]
			}
		}
		if readCall == nil {
			r.Unknown("E3.fullhash", "doObjdump/read", p.Pos(ret.Pos()), "read call not found")
			continue
		}
		// buffer size
		size := int64(-1)
		if ms, ok := buf.(*ssa.MakeSlice); ok {
			size, _ = flow.ConstInt(ms.Len)
		} else if sl, ok := buf.(*ssa.Slice); ok && sl.Low == nil {
			// make with a constant length is an array allocation sliced whole
			if al, ok := sl.X.(*ssa.Alloc); ok {
				if at, ok := al.Type().Underlying().(*types.Pointer).Elem().Underlying().(*types.Array); ok {
					size = at.Len()
					if sl.High != nil {
						size, _ = flow.ConstInt(sl.High)
					}
				}
			}
		}
		r.Check(size == 64, "E3.fullhash", "doObjdump/buffer-size", p.Pos(readCall.Pos()), "the marker buffer has the length of a hex SHA-256 (64)", fmt.Sprintf("the marker buffer has length %d, a hex SHA-256 has 64 characters: a truncated hash would be accepted or a full one never matched", size))
		errOK, fullOK, eqOK := false, false, false
		nRes := flow.ResultN(readCall, 0)
		eRes := flow.ResultN(readCall, 1)
		for _, cd := range conds {
			bo, ok := cd.V.(*ssa.BinOp)
			if !ok {
				continue
			}
			if eRes != nil {
				if nn, known := flow.ErrNonNil([]flow.Cond{cd}, eRes); known && !nn {
					errOK = true
				}
			}
			// n == len(buf)
			if bo.Op == token.EQL && cd.Pol {
				for _, pair := range [][2]ssa.Value{{bo.X, bo.Y}, {bo.Y, bo.X}} {
					if pair[0] == nRes {
						if lc, ok := pair[1].(*ssa.Call); ok {
							if bi, ok := lc.Call.Value.(*ssa.Builtin); ok && bi.Name() == "len" && lc.Call.Args[0] == buf {
								fullOK = true
							}
						}
						if k, ok := flow.ConstInt(pair[1]); ok && k == 64 {
							fullOK = true
						}
					}
					// hash == string(buf)
					if cv, ok := pair[1].(*ssa.Convert); ok && cv.X == buf {
						if prm, ok := pair[0].(*ssa.Parameter); ok && prm == fn.Params[1] {
							eqOK = true
						}
					}
				}
			}
		}
		if flow.CalleeIs(readCall, "io", "ReadFull") {
			fullOK = fullOK || errOK // ReadFull returns an error unless the buffer was filled
		}
		r.Check(errOK && fullOK && eqOK, "E3.fullhash", "doObjdump/reuse-guard", p.Pos(ret.Pos()),
			"reuse is dominated by a successful, complete read of the marker and its equality with the binary's hash",
			fmt.Sprintf("the cached dump is reused without the full guard (read error checked=%v, complete read=%v, hash equality with the hash parameter=%v)", errOK, fullOK, eqOK))
	}
	r.Floor("E3.fullhash(cache-hit returns)", n, 1)
	// hashBinary produces hex(sha256)
	if hb := p.Func(load.PkgProfiler, "hashBinary"); hb != nil {
		sha := len(callsTo(hb, "crypto/sha256", "New")) > 0
		hexe := len(callsTo(hb, "encoding/hex", "EncodeToString")) > 0
		r.Check(sha && hexe, "E3.fullhash", "hashBinary/digest", p.Pos(hb.Pos()), "the hash is hex(SHA-256): 64 characters", "hashBinary is not hex(SHA-256): the marker length check does not fit")
	}
}

// failEdgeReturnsErrorAllow is failEdgeReturnsError with additional calls tolerated on the failure edge.
func failEdgeReturnsErrorAllow(e *Env, p *load.Program, rule, key string, call *ssa.Call, nilFirst bool, allow func(ssa.CallInstruction) bool) bool {
	old := extraPure
	extraPure = allow
	defer func() { extraPure = old }()
	return failEdgeReturnsError(e, p, rule, key, call, nilFirst)
}
