package rules

import (
	"fmt"
	"go/ast"
	"go/constant"
	"go/token"
	"go/types"
	"sort"
	"strings"

	"golang.org/x/tools/go/ssa"

	"sbpfcheck/emit"
	"sbpfcheck/flow"
	"sbpfcheck/load"
	"sbpfcheck/origin"
	"sbpfcheck/tables"
)

// ------------------------------------------------------------------ shared analyses on whole programs

type wctx struct {
	e   *Env
	m   *e1Model
	w   *emit.Whole
	pe  *emit.PolicyEval
	cls map[*emit.WNode]instClass
	acc map[*emit.WNode]string // accumulator type on entry to the node
	jt  map[int64]string
}

func (m *e1Model) variants() []string {
	var names []string
	for k := range m.wholes {
		names = append(names, k)
	}
	sort.Strings(names)
	return names
}

func newWctx(e *Env, m *e1Model, name string) *wctx {
	c := &wctx{e: e, m: m, w: m.wholes[name], pe: m.evals[name], cls: map[*emit.WNode]instClass{}, jt: jumpTests(m.p)}
	for _, n := range c.w.Nodes {
		end := 0
		if n.Emit != nil {
			end = n.Emit.EndianOf()
		}
		c.cls[n] = m.classify(n.Lit, end)
	}
	c.accumulator()
	return c
}

// accumulator: forward must-analysis of what the A register holds on entry to each instruction.
func (c *wctx) accumulator() {
	c.acc = map[*emit.WNode]string{}
	out := func(n *emit.WNode, in string) string {
		cl := c.cls[n]
		switch cl.Kind {
		case "ld_nr":
			return "NR"
		case "ld_arch":
			return "ARCH"
		case "ld_arg":
			return "ARG:" + cl.Word + ":" + cl.ArgBase
		case "ld_other":
			return "OTHER"
		}
		return in
	}
	var work []*emit.WNode
	for _, s := range c.w.Start {
		if s != nil {
			c.acc[s] = "UNINIT"
			work = append(work, s)
		}
	}
	for len(work) > 0 {
		n := work[len(work)-1]
		work = work[:len(work)-1]
		o := out(n, c.acc[n])
		for _, ed := range c.w.Edges[n] {
			if ed.To == nil {
				continue
			}
			cur, seen := c.acc[ed.To]
			nv := o
			if seen && cur != o {
				nv = "CONFLICT"
			}
			if !seen || cur != nv {
				if seen && cur == "CONFLICT" {
					continue
				}
				c.acc[ed.To] = nv
				work = append(work, ed.To)
			}
		}
	}
}

// checkAcc: every comparison sees the value it is meant to compare.
func (c *wctx) checkAcc(rule string, only func(cl instClass) bool) int {
	r := c.e.R
	n := 0
	for _, nd := range c.w.Nodes {
		cl := c.cls[nd]
		if cl.Kind != "jmp" || (only != nil && !only(cl)) {
			continue
		}
		a, reached := c.acc[nd]
		if !reached {
			continue
		}
		want := ""
		switch {
		case cl.Operand == "nr" || cl.Operand == "x32mask":
			want = "NR"
		case cl.Operand == "arch":
			want = "ARCH"
		case strings.HasPrefix(cl.Operand, "hi:"):
			want = "ARG:hi:" + strings.TrimPrefix(cl.Operand, "hi:")
		case strings.HasPrefix(cl.Operand, "lo:"):
			want = "ARG:lo:" + strings.TrimPrefix(cl.Operand, "lo:")
		default:
			continue
		}
		n++
		key := siteName(nd) + "/acc/" + operandKind(cl.Operand) + opsSuffix(nd)
		good := a == want
		if !good && strings.HasPrefix(want, "ARG:") && strings.HasPrefix(a, "ARG:?:") {
			// byte-order world not yet fixed on this path: accept when the condition matches
			good = strings.TrimPrefix(a, "ARG:?:") == want[len("ARG:hi:"):]
		}
		r.Check(good, rule, key, nodePos(c.m.p, nd),
			"the accumulator holds "+accName(want)+" on every path to this comparison",
			fmt.Sprintf("a comparison against %s is reached with the accumulator holding %s (variant %s): %s", operandKind(cl.Operand), accName(a), c.w.Variant, accWhy(want, a)))
	}
	return n
}

func operandKind(op string) string {
	if i := strings.Index(op, ":"); i >= 0 && (strings.HasPrefix(op, "hi:") || strings.HasPrefix(op, "lo:")) {
		return op[:i] + "-word-of-operand"
	}
	return op
}

func opsSuffix(n *emit.WNode) string {
	if n.Emit != nil && n.Emit.Ops != "" {
		s := "/op=" + n.Emit.Ops
		return s
	}
	return ""
}

func accName(a string) string {
	switch {
	case a == "NR":
		return "the syscall number"
	case a == "ARCH":
		return "the architecture word"
	case a == "UNINIT":
		return "nothing (no load yet)"
	case a == "CONFLICT":
		return "different values on different paths"
	case strings.HasPrefix(a, "ARG:hi:"):
		return "the high word of the condition's argument"
	case strings.HasPrefix(a, "ARG:lo:"):
		return "the low word of the condition's argument"
	case strings.HasPrefix(a, "ARG:"):
		return "an argument word"
	}
	return a
}

func accWhy(want, got string) string {
	if want == "NR" && strings.HasPrefix(got, "ARG") || want == "NR" && got == "CONFLICT" {
		return "after an argument check the syscall number is not reloaded, so an argument value can make a rule for another syscall match"
	}
	return "the comparison decides on the wrong data"
}

// ------------------------------------------------------------------ C01

func init() {
	Specs["C01"] = &Spec{
		Level: "other",
		Explanation: "The emitter functions are turned into a finite automaton of emission events (path-sensitive over the operation, last-iteration, emptiness, byte-order, architecture and jump-form predicates); labels are " +
			"resolved on it and the policy-level concatenation (prologue, x32 guard, group fragments in a loop, final return) is added with symbolic lengths, giving an object-level graph into which every concrete label-level " +
			"program maps. On it: the group loop appends fragments in policy order; an unconditional entry is one equality jump on the table number whose true edge is that group's action return; walking only no-match edges " +
			"(every number comparison unequal) from the entry reaches every rule entry and ends only in the default return; the accumulator holds the syscall number at every number comparison; the return builder ORs EPERM into errno only. " +
			"Label level: its equality with the emitted list beyond 255 instructions is C06.",
		Trusted:     []string{"go/ssa (x/tools v0.29.0)", "cBPF semantics of ld/jeq/jgt/jge/jset/ja/ret", "the syscall tables (C12)", "Program.Assemble preserves label-level meaning (C06: necessary conditions only)"},
		Assumptions: []string{"label-level statement: for programs whose jump distances all fit in 8 bits the patcher only computes dest-index-1 (checked by C06); beyond that the result depends on C06"},
		Run:         runC01,
	}
}

func e1Preamble(e *Env, rule string) *e1Model {
	r := e.R
	m := e.E1()
	for _, p := range m.problems {
		r.Unknown(rule, "E1/model", "", p)
	}
	if m.fragG == nil {
		return nil
	}
	for _, p := range m.fragG.Problem {
		r.Unknown(rule, "E1/unmodelled-construct", "", "the emitter uses a construct the analysis does not model: "+p)
	}
	for _, o := range m.polObjs {
		for _, p := range o.G.Problem {
			r.Unknown(rule, "E1/unmodelled-construct", "", "the emitter uses a construct the analysis does not model: "+p)
		}
	}
	for _, name := range m.variants() {
		for _, p := range m.evals[name].Problems {
			r.Unknown(rule, "E1/policy-sequence", "", fmt.Sprintf("variant %s: %s", name, p))
		}
	}
	r.Count("emitter functions", len(m.b.Emitters()))
	r.Count("event nodes of the group fragment automaton", len(m.fragG.Nodes))
	r.Count("emission instances (group fragment)", len(m.frag.Emits))
	r.Count("policy-level variants (arch x jump form)", len(m.wholes))
	r.Floor("E1(emitter functions)", len(m.b.Emitters()), 4)
	r.Floor("E1(emission instances)", len(m.frag.Emits), 20)
	r.Floor("E1(variants)", len(m.wholes), 4)
	return m
}

func runC01(e *Env) {
	r := e.R
	// first, so that it is reported even when the automaton cannot be built for a reorganised emitter
	checkPolicyReadOnly(e, e.Host(), "E1.readonly")
	m := e1Preamble(e, "E1.spine")
	if m == nil {
		return
	}
	p := m.p
	checkGroupOrder(e, m)
	checkNumOrigin(e, m)
	checkRetContract(e, m, "E1.retc")
	checkRetLiterals(e, m, "E1.retc")
	checkPatcherBridgeKinds(e, m, "E1.retc")
	nEntries, nAcc := 0, 0
	for _, name := range m.variants() {
		c := newWctx(e, m, name)
		// ---- entries and actions
		for _, nd := range c.w.Nodes {
			cl := c.cls[nd]
			if cl.Kind != "jmp" || cl.Operand != "nr" || nd.Emit == nil || nd.Emit.InCond {
				continue
			}
			test := c.jt[cl.Cond]
			var tTargets, fTargets []*emit.WNode
			for _, ed := range c.w.Edges[nd] {
				if ed.Kind == "true" {
					tTargets = append(tTargets, ed.To)
				} else if ed.Kind == "false" {
					fTargets = append(fTargets, ed.To)
				}
			}
			allRet := func(ts []*emit.WNode, cls string) bool {
				if len(ts) == 0 {
					return false
				}
				for _, t := range ts {
					if t == nil || c.cls[t].Kind != "ret" || c.cls[t].Ret != cls {
						return false
					}
				}
				return true
			}
			isNext := func(ts []*emit.WNode) bool {
				if len(ts) == 0 {
					return false
				}
				for _, t := range ts {
					ok := false
					for _, nx := range c.w.Next[nd] {
						if nx == t {
							ok = true
						}
					}
					if !ok {
						return false
					}
				}
				return true
			}
			switch test {
			case "JumpEqual":
				nEntries++
				// unconditional entry: true -> this group's action, false -> next instruction
				r.Check(allRet(tTargets, "act:group") && isNext(fTargets), "E1.entry", siteName(nd)+"/unconditional/"+name, nodePos(p, nd),
					"jeq number -> this group's action return; otherwise fall through to the next entry",
					"an unconditional entry does not jump to its own group's action on equality and fall through otherwise (a listed syscall would get another decision)")
			case "JumpNotEqual":
				nEntries++
				// conditional entry: true (different number) must skip the whole entry; false continues with its conditions
				okT := len(tTargets) > 0
				for _, t := range tTargets {
					if t == nil {
						continue
					}
					if t.Emit != nil && t.Emit.InCond {
						okT = false
					}
				}
				okF := isNext(fTargets)
				for _, t := range fTargets {
					if t == nil || t.Emit == nil || !t.Emit.IterStart {
						okF = false
					}
				}
				r.Check(okT && okF, "E1.entry", siteName(nd)+"/conditional/"+name, nodePos(p, nd),
					"jne number -> past the entry's conditions; otherwise the first condition follows",
					"a conditional entry does not skip all of its conditions for other syscalls / does not continue with its first condition for its own")
			default:
				r.Bad("E1.entry", siteName(nd)+"/test/"+name, nodePos(p, nd), fmt.Sprintf("a rule entry compares the syscall number with test %q: only equality decides membership (an ordering test would match unlisted numbers)", test))
			}
		}
		// ---- spine: with every number comparison unequal, every entry is reached and only the default return
		reach := c.noMatchReach()
		for _, nd := range c.w.Nodes {
			cl := c.cls[nd]
			if cl.Kind == "jmp" && cl.Operand == "nr" {
				r.Check(reach[nd], "E1.spine", siteName(nd)+"/reached"+inCondSuffix(nd)+"/"+name, nodePos(p, nd),
					"reachable along no-match edges: an event matching no earlier rule is still compared with this one",
					"this rule entry cannot be reached by an event that matched no earlier rule (dead rule: e.g. an earlier group returns the default action)")
			}
			if cl.Kind == "ret" && reach[nd] {
				r.Check(cl.Ret == "act:default", "E1.spine", siteName(nd)+"/no-match-return/"+cl.Ret+"/"+name, nodePos(p, nd),
					"an event that matches no rule ends in the default action",
					fmt.Sprintf("an event that matches no rule can end in a return of %s instead of the default action", cl.Ret))
			}
		}
		// the spine must end somewhere
		endsDefault := false
		for nd := range reach {
			if c.cls[nd].Kind == "ret" && c.cls[nd].Ret == "act:default" {
				endsDefault = true
			}
		}
		r.Check(endsDefault, "E1.spine", "Policy.Assemble/spine-ends-in-default/"+name, "", "the no-match spine ends in the default return", "the no-match spine never reaches a default return")
		nAcc += c.checkAcc("E1.acc", func(cl instClass) bool { return cl.Operand == "nr" })
	}
	r.Floor("E1.entry(entry instances)", nEntries, 2)
	r.Floor("E1.acc(number comparisons)", nAcc, 2)
}

func inCondSuffix(n *emit.WNode) string {
	if n.Emit != nil && n.Emit.EndianOf() != 0 {
		return fmt.Sprintf("/world%+d", n.Emit.EndianOf())
	}
	return ""
}

// noMatchReach: nodes reachable from the first syscall-number load when every comparison with the number is
// unequal (other comparisons may go either way), on the matching-architecture, non-x32 path.
func (c *wctx) noMatchReach() map[*emit.WNode]bool {
	reach := map[*emit.WNode]bool{}
	var work []*emit.WNode
	for _, s := range c.w.Start {
		if s != nil {
			work = append(work, s)
		}
	}
	for len(work) > 0 {
		n := work[len(work)-1]
		work = work[:len(work)-1]
		if reach[n] {
			continue
		}
		reach[n] = true
		cl := c.cls[n]
		for _, ed := range c.w.Edges[n] {
			if ed.To == nil {
				continue
			}
			if cl.Kind == "jmp" {
				test := c.jt[cl.Cond]
				switch cl.Operand {
				case "nr":
					// unequal number: JumpEqual false, JumpNotEqual true; other tests: both
					if (test == "JumpEqual" && ed.Kind == "true") || (test == "JumpNotEqual" && ed.Kind == "false") {
						continue
					}
				case "arch":
					// matching architecture
					if (test == "JumpNotEqual" && ed.Kind == "true") || (test == "JumpEqual" && ed.Kind == "false") {
						continue
					}
				case "x32mask":
					// number below the x32 bit
					if (test == "JumpGreaterOrEqual" || test == "JumpGreaterThan") && ed.Kind == "true" {
						continue
					}
				}
			}
			work = append(work, ed.To)
		}
	}
	return reach
}

// checkGroupOrder (E1.order): fragments are appended in policy order; names in list order.
func checkGroupOrder(e *Env, m *e1Model) {
	r := e.R
	checkGroupUnit(e, m, "E1.order", "Policy.Assemble/groups-in-policy-order",
		"groups are compiled by a range loop over p.Syscalls and each fragment is appended at the end of the accumulator: policy order",
		"the compiled group is not the element of a range over p.Syscalls (the first matching group in policy order would not decide)")
	for _, name := range m.variants() {
		pe := m.evals[name]
		nStar := 0
		for _, it := range pe.Items {
			if it.Kind == "star" {
				nStar++
			}
		}
		r.Check(nStar == 1, "E1.order", "Policy.Assemble/one-fragment-loop/"+name, "", "exactly one loop contributes group fragments to the program", fmt.Sprintf("%d fragment loops found", nStar))
	}
	checkGroupOrderRest(e, m)
}

// checkGroupUnit: the group that is validated and compiled is an element of a range over the policy's own p.Syscalls.
func checkGroupUnit(e *Env, m *e1Model, rule, key, okd, badd string) {
	r := e.R
	p := m.p
	res := origin.NewResolver()
	// Policy.Assemble: the star item's call receives the element p.Syscalls[i] of a range loop
	for _, c := range callsToFn(m.polFn, m.fragFn) {
		o := res.Of(c.Call.Args[0], nil, c) // &group (alloc) : find the whole store
		good := false
		if o.Kind == origin.KAlloc {
			if al, ok := o.Val.(*ssa.Alloc); ok {
				for _, ref := range *al.Referrers() {
					if st, ok := ref.(*ssa.Store); ok && st.Addr == ssa.Value(al) {
						so := res.Of(st.Val, nil, st)
						if so.Kind == origin.KElem && so.Args[1].Kind == origin.KRangeKey && strings.HasSuffix(so.Args[0].String(), ".Syscalls") && strings.Contains(so.Args[0].String(), "param:"+m.polFn.Params[0].Name()) {
							good = true
						}
					}
				}
			}
		}
		r.Check(good, rule, key, p.Pos(c.Pos()), okd, badd)
	}
}

func checkGroupOrderRest(e *Env, m *e1Model) {
	r := e.R
	p := m.p
	res := origin.NewResolver()
	// SyscallGroup.Assemble: entries are emitted by a range over the list returned by toSyscallsWithConditions
	ts := p.Func(load.PkgRoot, "SyscallGroup.toSyscallsWithConditions")
	if ts == nil {
		r.Unknown("E1.order", "SyscallGroup.Assemble/entries", "", "the function that builds the entry list was not found")
		return
	}
	nEntryCalls := 0
	for _, ci := range flow.Calls(m.fragFn) {
		c, ok := ci.(*ssa.Call)
		if !ok || flow.Callee(c) == nil || !m.b.IsEmitter(flow.Callee(c)) {
			continue
		}
		if recv := flow.Callee(c).Signature.Recv(); recv != nil {
			if pt, ok := recv.Type().(*types.Pointer); ok && isNamed(pt.Elem(), load.PkgRoot, "Program") {
				continue // builder method
			}
		}
		takesProgram := false
		for _, a := range c.Call.Args {
			if pt, ok := a.Type().Underlying().(*types.Pointer); ok && isNamed(pt.Elem(), load.PkgRoot, "Program") {
				takesProgram = true
			}
		}
		if !takesProgram || len(c.Call.Args) == 0 {
			continue // e.g. the constructor of the program object
		}
		nEntryCalls++
		o := res.Of(c.Call.Args[0], nil, c)
		good := o.Kind == origin.KElem && o.Args[1].Kind == origin.KRangeKey && o.Args[0].Kind == origin.KCall && o.Args[0].Callee == ts && o.Args[0].Index == 0
		r.Check(good, "E1.order", "SyscallGroup.Assemble/entries-in-list-order", p.Pos(c.Pos()), "entries are emitted by a range over the validated list, in its order", "entries are not emitted in the order of the list built from the group ("+o.String()+")")
		// every element gets its entry: the call is not under any condition besides the loop's
		r.Check(noCondInsideLoop(c.Block()), "E1.nodrop", "SyscallGroup.Assemble/every-entry-emitted", p.Pos(c.Pos()), "every element of the entry list is emitted (no condition besides the range loop)", "an entry of the validated list is emitted only under an additional condition: a listed syscall can be left out of the program silently")
	}
	r.Check(nEntryCalls >= 1, "E1.order", "SyscallGroup.Assemble/entry-emission-found", p.Pos(m.fragFn.Pos()), "entry emission call found", "no call that emits the entries of the group was found")
	checkNoDrop(e, m, ts)
	// toSyscallsWithConditions: the result accumulator only grows by append (order of g.Names, then conditional names)
	for _, ret := range flow.Returns(ts) {
		rs := flow.RetResults(ret)
		if flow.IsNilConst(rs[0]) {
			continue
		}
		apps, ok := accumulatorAppends(rs[0])
		r.Check(ok && len(apps) >= 1, "E1.order", "toSyscallsWithConditions/append-only", p.Pos(ret.Pos()), "the entry list only grows by append in source order of the names", "the entry list is built other than by appending in name order (sorted, prepended or rewritten)")
	}
}

// noCondInsideLoop: within its innermost enclosing range loop, block b is executed on every iteration (the only
// dominating condition that lies inside the loop is the loop's own header test).
func noCondInsideLoop(b *ssa.BasicBlock) bool {
	// innermost loop header dominating b
	var header *ssa.BasicBlock
	for d := b; d != nil; d = d.Idom() {
		isHeader := false
		for _, pr := range d.Preds {
			if d.Dominates(pr) {
				isHeader = true
			}
		}
		if isHeader && d != b {
			header = d
			break
		}
	}
	if header == nil {
		return false
	}
	for _, cd := range flow.DomConds(b) {
		blk := cd.At.Block()
		if blk == header {
			continue
		}
		if header.Dominates(blk) {
			return false // a condition inside the loop guards b
		}
	}
	return true
}

// checkNoDrop (E1.nodrop): a group that lists names never compiles to nothing, and every plain name ends in
// exactly one of {entry, problem}.
func checkNoDrop(e *Env, m *e1Model, ts *ssa.Function) {
	r := e.R
	p := m.p
	res := origin.NewResolver()
	// (a) success returns of the fragment function
	for _, ret := range flow.Returns(m.fragFn) {
		rs := flow.RetResults(ret)
		if len(rs) != 2 || flow.KnownNonNilError(rs[1], ret.Block()) {
			continue
		}
		if ex, ok := rs[0].(*ssa.Extract); ok {
			if c, ok := ex.Tuple.(*ssa.Call); ok && flow.Callee(c) != nil && flow.Callee(c).Name() == "Assemble" {
				continue // the program object's result
			}
		}
		if !flow.IsNilConst(rs[0]) || !flow.IsNilConst(rs[1]) {
			r.Bad("E1.nodrop", "SyscallGroup.Assemble/success-return", p.Pos(ret.Pos()), "a success return that is neither the assembled program object nor the empty fragment")
			continue
		}
		// (nil, nil): only when the group lists nothing
		names, conds := false, false
		other := 0
		for _, cd := range flow.DomConds(ret.Block()) {
			arg, pr, ok := flow.LenPred(cd.V, cd.Pol)
			if !ok {
				// a sum of lengths that is zero (directly, or computed by a helper of the group such as `g.Len()`): every
				// term is zero
				if ip, ok2 := flow.AsIntPred(cd.V, cd.Pol); ok2 && ip.OnlyZero() {
					if fields, ok3 := lenSumFields(flow.StripConv(ip.X), m.fragFn.Params[0], 0); ok3 {
						for _, f := range fields {
							switch f {
							case "Names":
								names = true
							case "NamesWithCondtions":
								conds = true
							}
						}
						continue
					}
				}
				other++
				continue
			}
			zero := pr.OnlyZero()
			o := res.Of(arg, nil, nil)
			switch {
			case zero && o.Kind == origin.KField && o.Field.Name() == "Names":
				names = true
			case zero && o.Kind == origin.KField && o.Field.Name() == "NamesWithCondtions":
				conds = true
			default:
				other++
			}
		}
		r.Check(names && conds, "E1.nodrop", "SyscallGroup.Assemble/empty-fragment-only-for-empty-group", p.Pos(ret.Pos()),
			"the empty fragment is returned only for a group that lists no names at all",
			fmt.Sprintf("a group can compile to nothing although it lists syscalls (empty fragment returned without `len(Names)==0 && len(NamesWithCondtions)==0`: names-empty=%v conditional-names-empty=%v): its syscalls fall through to later groups or the default action, so the first matching group no longer decides", names, conds))
	}
	// (b) plain names: exactly one outcome per name
	var header *ssa.BasicBlock
	for _, b := range ts.Blocks {
		ifi, ok := flow.LastIf(b)
		if !ok {
			continue
		}
		bo, ok := ifi.Cond.(*ssa.BinOp)
		if !ok || bo.Op != token.LSS {
			continue
		}
		lc, ok := bo.Y.(*ssa.Call)
		if !ok {
			continue
		}
		if bi, ok := lc.Call.Value.(*ssa.Builtin); !ok || bi.Name() != "len" {
			continue
		}
		if strings.HasSuffix(res.Of(lc.Call.Args[0], nil, lc).String(), ".Names") {
			header = b
		}
	}
	if header == nil {
		r.Unknown("E1.nodrop", "toSyscallsWithConditions/names-loop", p.Pos(ts.Pos()), "loop over the plain names not found")
		return
	}
	min, max := outcomesPerIteration(ts, header, func(in ssa.Instruction) bool {
		c, ok := in.(*ssa.Call)
		if !ok {
			return false
		}
		app := isAppend(c)
		if app == nil {
			return false
		}
		st, _ := app.Type().Underlying().(*types.Slice)
		return st != nil && (isProblemElem(st.Elem()) || isNamed(st.Elem(), load.PkgRoot, "SyscallWithConditions"))
	})
	r.Check(min == 1 && max == 1, "E1.nodrop", "toSyscallsWithConditions/one-outcome-per-plain-name", p.Pos(header.Instrs[0].Pos()),
		"every plain name ends in exactly one of {entry appended, problem recorded}",
		fmt.Sprintf("a plain name can end in %d..%d outcomes (want exactly 1): a listed name can be skipped silently or entered twice", min, max))
}

// outcomesPerIteration counts, over all paths through one iteration of the loop with the given header, how many
// instructions satisfying isOutcome are executed (min, max).
func outcomesPerIteration(fn *ssa.Function, header *ssa.BasicBlock, isOutcome func(ssa.Instruction) bool) (int, int) {
	g := flow.G(fn)
	body := header.Succs[0]
	term := map[*ssa.BasicBlock]int{}
	for _, b := range fn.Blocks {
		if !g.Live(b) || !g.Dominates(body, b) {
			continue
		}
		for _, in := range b.Instrs {
			if isOutcome(in) {
				term[b]++
			}
			// a helper of the module that records a problem on every path (`found.addf(...)` on a collector type) is the
			// outcome "problem recorded"
			if c, ok := in.(*ssa.Call); ok && isAppend(c) == nil && !isOutcome(in) && c.Call.StaticCallee() != nil && recordsProblem(in, 0) {
				term[b]++
			}
			// a call of a local closure: the outcomes in its (branch-free) body happen here
			if c, ok := in.(*ssa.Call); ok {
				if mc, ok := c.Call.Value.(*ssa.MakeClosure); ok {
					if cf, ok := mc.Fn.(*ssa.Function); ok && len(cf.Blocks) == 1 {
						for _, cin := range cf.Blocks[0].Instrs {
							if isOutcome(cin) {
								term[b]++
							}
						}
					}
				}
			}
		}
	}
	type mm struct{ min, max int }
	memo := map[*ssa.BasicBlock]mm{}
	var walk func(b *ssa.BasicBlock, depth int) mm
	walk = func(b *ssa.BasicBlock, depth int) mm {
		if b == header {
			return mm{0, 0}
		}
		if v, ok := memo[b]; ok {
			return v
		}
		if depth > 200 {
			return mm{0, 99}
		}
		memo[b] = mm{0, 99}
		res := mm{1 << 30, -1}
		for _, s := range g.Succs(b) {
			if !g.Dominates(body, s) && s != header {
				continue
			}
			v := walk(s, depth+1)
			if v.min < res.min {
				res.min = v.min
			}
			if v.max > res.max {
				res.max = v.max
			}
		}
		if res.max < 0 {
			res = mm{0, 0}
		}
		res.min += term[b]
		res.max += term[b]
		memo[b] = res
		return res
	}
	v := walk(body, 0)
	return v.min, v.max
}

// checkNumOrigin (E1.num): SyscallWithConditions.Num is always uint32(table[name] | mask) under `found`.
func checkNumOrigin(e *Env, m *e1Model) {
	r := e.R
	p := m.p
	res := origin.NewResolver()
	n := 0
	for _, fn := range p.SrcFuncs(load.PkgRoot) {
		for _, b := range fn.Blocks {
			for _, in := range b.Instrs {
				st, ok := in.(*ssa.Store)
				if !ok {
					continue
				}
				fa, ok := st.Addr.(*ssa.FieldAddr)
				if !ok {
					continue
				}
				pt := fa.X.Type().Underlying().(*types.Pointer)
				if !isNamed(pt.Elem(), load.PkgRoot, "SyscallWithConditions") {
					continue
				}
				if pt.Elem().Underlying().(*types.Struct).Field(fa.Field).Name() != "Num" {
					continue
				}
				n++
				good, detail := numberOrigin(res, st.Val, st, b, 0)
				r.Check(good, "E1.num", load.FuncName(fn)+"/Num", p.Pos(st.Pos()),
					"Num = uint32(arch.SyscallNames[name] | arch.SeccompMask) on the `found` edge, for the ranged name",
					"the compared number is not uint32(table[name] | mask) of the group's architecture under `found` ("+detail+")")
			}
		}
	}
	r.Floor("E1.num(stores to SyscallWithConditions.Num)", n, 1)
}

// numberOrigin: v, used in block b, is uint32(arch.SyscallNames[name] | arch.SeccompMask) for a name taken from the group's
// name lists, and b is only reached when the lookup found the name - either directly, or through a helper of the package
// that returns (number, found): then the helper's number is that expression over its name parameter, returned together with
// the lookup's own `found`, and the use is dominated by the helper's second result being true.
func numberOrigin(res *origin.Resolver, v ssa.Value, at ssa.Instruction, b *ssa.BasicBlock, depth int) (bool, string) {
	o := stripConvO(res.Of(v, nil, at))
	detail := o.String()
	if o.Kind == origin.KBin && o.Op == token.OR {
		var lk, mask *origin.O
		for _, a := range o.Args {
			a = stripConvO(a)
			if a.Kind == origin.KLookup && a.Index == 0 {
				lk = a
			}
			if a.Kind == origin.KField && a.Field.Name() == "SeccompMask" {
				mask = a
			}
		}
		if lk != nil && mask != nil {
			tbl := lk.Args[0]
			key := lk.Args[1]
			tblOK := tbl.Kind == origin.KField && tbl.Field.Name() == "SyscallNames" && origin.Equal(tbl.Args[0], mask.Args[0])
			keyOK := strings.Contains(key.String(), ".Names[") || strings.HasSuffix(key.String(), ".Name") || (depth > 0 && key.Kind == origin.KParam)
			// under found
			foundOK := false
			for _, cd := range flow.DomConds(b) {
				if ex, ok := cd.V.(*ssa.Extract); ok && ex.Index == 1 && cd.Pol {
					if l, ok := ex.Tuple.(*ssa.Lookup); ok && l == lk.Val.(*ssa.Extract).Tuple {
						foundOK = true
					}
				}
			}
			if depth > 0 {
				foundOK = true // judged by the caller on the helper's second result (see below)
			}
			return tblOK && keyOK && foundOK, fmt.Sprintf("table=%v key-from-names=%v found-edge=%v", tblOK, keyOK, foundOK)
		}
		return false, detail
	}
	// (number, found) := helper(name)
	if depth == 0 && o.Kind == origin.KCall && o.Callee != nil && o.Index == 0 && len(o.Callee.Blocks) > 0 && o.Callee.Signature.Results().Len() == 2 {
		h := o.Callee
		call, _ := o.Val.(*ssa.Extract)
		if call == nil {
			return false, detail
		}
		hc, _ := call.Tuple.(*ssa.Call)
		if hc == nil {
			return false, detail
		}
		// the name argument comes from the group's name lists
		keyOK := false
		for _, a := range o.Args {
			ks := a.String()
			if strings.Contains(ks, ".Names[") || strings.HasSuffix(ks, ".Name") {
				keyOK = true
			}
		}
		// the use is on the edge where the helper's second result is true
		useOK := false
		second := flow.ResultN(hc, 1)
		if second != nil {
			if pol, known := flow.CondHolds(flow.DomConds(b), second); known && pol {
				useOK = true
			}
		}
		// in the helper: every return whose second result can be true returns the number expression under the lookup's found
		hres := origin.NewResolver()
		helperOK := true
		nTrue := 0
		for _, ret := range flow.Returns(h) {
			rs := flow.RetResults(ret)
			if k, ok := rs[1].(*ssa.Const); ok && k.Value != nil && !constant.BoolVal(k.Value) {
				continue // (_, false)
			}
			nTrue++
			okNum, _ := numberOrigin(hres, rs[0], ret, ret.Block(), 1)
			// found: the second result is the lookup's own found, or the constant true under it
			okFound := false
			if ex, ok := rs[1].(*ssa.Extract); ok && ex.Index == 1 {
				if _, isLk := ex.Tuple.(*ssa.Lookup); isLk {
					okFound = true
				}
			}
			if k, ok := rs[1].(*ssa.Const); ok && k.Value != nil && constant.BoolVal(k.Value) {
				for _, cd := range flow.DomConds(ret.Block()) {
					if ex, ok := cd.V.(*ssa.Extract); ok && ex.Index == 1 && cd.Pol {
						if _, isLk := ex.Tuple.(*ssa.Lookup); isLk {
							okFound = true
						}
					}
				}
			}
			if !okNum || !okFound {
				helperOK = false
			}
		}
		return keyOK && useOK && helperOK && nTrue > 0, fmt.Sprintf("through %s: key-from-names=%v used-under-found=%v helper-returns-table-number=%v", h.Name(), keyOK, useOK, helperOK && nTrue > 0)
	}
	return false, detail
}

// returnBuilder: the function that turns an Action into a return instruction: Program.Ret, or - when Ret delegates - the
// one function of the package that builds a RetConstant whose value comes from an Action parameter.
func returnBuilder(p *load.Program) *ssa.Function {
	builds := func(fn *ssa.Function) bool {
		if fn == nil {
			return false
		}
		hasAction := false
		for _, prm := range fn.Params {
			if isNamed(prm.Type(), load.PkgRoot, "Action") {
				hasAction = true
			}
		}
		if !hasAction {
			return false
		}
		for _, b := range fn.Blocks {
			for _, in := range b.Instrs {
				if st, ok := in.(*ssa.Store); ok {
					if fa, ok := st.Addr.(*ssa.FieldAddr); ok && isNamed(fa.X.Type().Underlying().(*types.Pointer).Elem(), "golang.org/x/net/bpf", "RetConstant") {
						if _, isK := flow.ConstInt(st.Val); !isK {
							return true
						}
					}
				}
			}
		}
		return false
	}
	ret := p.Func(load.PkgRoot, "Program.Ret")
	if builds(ret) {
		return ret
	}
	var found []*ssa.Function
	for _, fn := range p.SrcFuncs(load.PkgRoot) {
		if builds(fn) {
			found = append(found, fn)
		}
	}
	if len(found) == 1 {
		return found[0]
	}
	return ret
}

// lenSumFields: v is len(recv.F1) + len(recv.F2) + ... (any number of terms, lengths of fields of the group `recv`),
// written out or computed by a single-return method of the group; returns the field names.
func lenSumFields(v ssa.Value, recv ssa.Value, depth int) ([]string, bool) {
	if depth > 4 {
		return nil, false
	}
	switch x := v.(type) {
	case *ssa.BinOp:
		if x.Op != token.ADD {
			return nil, false
		}
		a, ok1 := lenSumFields(flow.StripConv(x.X), recv, depth+1)
		b, ok2 := lenSumFields(flow.StripConv(x.Y), recv, depth+1)
		return append(a, b...), ok1 && ok2
	case *ssa.Call:
		if bi, ok := x.Call.Value.(*ssa.Builtin); ok && bi.Name() == "len" && len(x.Call.Args) == 1 {
			// len(*(&recv.F))
			if ld, ok := x.Call.Args[0].(*ssa.UnOp); ok && ld.Op == token.MUL {
				if fa, ok := ld.X.(*ssa.FieldAddr); ok && fa.X == recv {
					st := fa.X.Type().Underlying().(*types.Pointer).Elem().Underlying().(*types.Struct)
					return []string{st.Field(fa.Field).Name()}, true
				}
			}
			return nil, false
		}
		h := flow.Callee(x)
		if h == nil || len(h.Blocks) == 0 || h.Pkg == nil || h.Pkg.Pkg.Path() != load.PkgRoot || len(x.Call.Args) != 1 || len(h.Params) != 1 || x.Call.Args[0] != recv {
			return nil, false
		}
		rets := flow.Returns(h)
		if len(rets) != 1 || len(flow.RetResults(rets[0])) != 1 {
			return nil, false
		}
		return lenSumFields(flow.StripConv(flow.RetResults(rets[0])[0]), h.Params[0], depth+1)
	}
	return nil, false
}

// checkRetContract: the return builder emits Val = uint32(a) with a = action | EPERM iff action == ActionErrno.
func checkRetContract(e *Env, m *e1Model, rule string) {
	r := e.R
	p := m.p
	or := e.Oracle()
	fn := returnBuilder(p)
	if fn == nil {
		r.Unknown(rule, "Program.Ret", "", "not found")
		return
	}
	// the store of the literal's Val
	var val ssa.Value
	for _, b := range fn.Blocks {
		for _, in := range b.Instrs {
			if st, ok := in.(*ssa.Store); ok {
				if fa, ok := st.Addr.(*ssa.FieldAddr); ok {
					if isNamed(fa.X.Type().Underlying().(*types.Pointer).Elem(), "golang.org/x/net/bpf", "RetConstant") {
						val = st.Val
					}
				}
			}
		}
	}
	if val == nil {
		r.Unknown(rule, "Program.Ret/literal", p.Pos(fn.Pos()), "no RetConstant literal")
		return
	}
	v := flow.StripConv(val)
	var action *ssa.Parameter
	for _, prm := range fn.Params {
		if isNamed(prm.Type(), load.PkgRoot, "Action") {
			action = prm
		}
	}
	if action == nil {
		r.Unknown(rule, "Program.Ret/literal", p.Pos(fn.Pos()), "the return builder has no Action parameter")
		return
	}
	good := false
	detail := "shape not recognised"
	if ph, ok := v.(*ssa.Phi); ok && len(ph.Edges) == 2 {
		var plain, ored ssa.Value
		var oredPred *ssa.BasicBlock
		for i, ed := range ph.Edges {
			if ed == ssa.Value(action) {
				plain = ed
			} else {
				ored = ed
				oredPred = ph.Block().Preds[i]
			}
		}
		if plain != nil && ored != nil {
			bo, ok := ored.(*ssa.BinOp)
			if ok && bo.Op == token.OR && bo.X == ssa.Value(action) {
				k, isK := flow.ConstInt(bo.Y)
				eperm := isK && uint64(k) == or.Consts["EPERM"]
				// the or-ed edge is taken exactly when action == ActionErrno
				condOK := false
				for _, cd := range append(flow.DomConds(oredPred), condsOfEdge(oredPred)...) {
					cb, ok := cd.V.(*ssa.BinOp)
					if !ok || cb.Op != token.EQL || !cd.Pol {
						continue
					}
					if cb.X == ssa.Value(action) {
						if kk, ok := flow.ConstInt(cb.Y); ok && uint64(kk) == or.Consts["SECCOMP_RET_ERRNO"] {
							condOK = true
						}
					}
				}
				good = eperm && condOK
				detail = fmt.Sprintf("ORs EPERM=%v, exactly under action == ActionErrno=%v", eperm, condOK)
			}
		}
	} else if v == ssa.Value(action) {
		detail = "errno is returned without EPERM in the data field"
	}
	r.Check(good, rule, "Program.Ret/errno-carries-EPERM", p.Pos(fn.Pos()),
		"Val = action, with EPERM (1) in the data field exactly for ActionErrno: every other action is its exact kernel constant",
		"the return builder does not produce `action | EPERM` exactly for errno: "+detail)
}

// checkRetLiterals: every RetConstant built anywhere in the package gets its value from the return builder
// (whose contract is checked) or is the constant ERRNO|ENOSYS literal of the x32 guard.
func checkRetLiterals(e *Env, m *e1Model, rule string) {
	r := e.R
	p := m.p
	or := e.Oracle()
	retFn := returnBuilder(p)
	n := 0
	for _, fn := range p.SrcFuncs(load.PkgRoot) {
		for _, b := range fn.Blocks {
			for _, in := range b.Instrs {
				st, ok := in.(*ssa.Store)
				if !ok {
					continue
				}
				fa, ok := st.Addr.(*ssa.FieldAddr)
				if !ok || !isNamed(fa.X.Type().Underlying().(*types.Pointer).Elem(), "golang.org/x/net/bpf", "RetConstant") {
					continue
				}
				n++
				if fn == retFn {
					continue
				}
				k, isK := flow.ConstInt(st.Val)
				good := isK && uint64(k) == or.Consts["SECCOMP_RET_ERRNO"]|e.ENOSYS()
				r.Check(good, rule, load.FuncName(fn)+"/return-literal", p.Pos(st.Pos()), "the x32 guard's constant ERRNO|ENOSYS",
					"a return instruction is built outside the return builder with a value that is not the x32 guard's constant: an errno action would not carry EPERM there (and the return set is no longer closed)")
			}
		}
	}
	r.Floor(rule+"(return literals)", n, 1)
}

// condsOfEdge: conditions established by b's own dominating branch when b is a branch arm.
func condsOfEdge(b *ssa.BasicBlock) []flow.Cond {
	return flow.DomConds(b)
}

// ------------------------------------------------------------------ C02

func init() {
	Specs["C02"] = &Spec{
		Level: "proof",
		Explanation: "For each of the eight operations the automaton path of one condition under `operation == K` is extracted (template: loads of the high/low argument word, comparisons with the high/low operand word, " +
			"jumps to the match / no-match labels) and evaluated over the finite set of (high-word ordering, low-word ordering) classes {<,=,>}^2 resp. bit-test outcomes {0,1}^2, which partition all 2^128 (argument, operand) " +
			"pairs; the outcome must equal the unsigned 64-bit relation on every class, in both byte-order worlds, for last and non-last conditions. Word selection: the load offsets are derived as affine forms 16+8*arg+d " +
			"with d decided per byte-order branch and compared with the layout of struct seccomp_data; the byte-order detection assigns LittleEndian to the case whose first byte is the low byte.",
		Trusted:     []string{"go/ssa", "cBPF jump test semantics (JumpEqual .. JumpBitsNotSet, resolved from golang.org/x/net/bpf)", "struct seccomp_data: args[a] at 16+8a, native-endian u64"},
		Assumptions: []string{"label level (C06 transports it to emitted programs)"},
		Run:         runC02,
	}
}

// expected 64-bit relation on ordering classes: hi, lo in {-1,0,1} (argument word vs operand word)
var ordExpect = map[string]func(hi, lo int) bool{
	"Equal":          func(hi, lo int) bool { return hi == 0 && lo == 0 },
	"NotEqual":       func(hi, lo int) bool { return !(hi == 0 && lo == 0) },
	"GreaterThan":    func(hi, lo int) bool { return hi > 0 || (hi == 0 && lo > 0) },
	"GreaterOrEqual": func(hi, lo int) bool { return hi > 0 || (hi == 0 && lo >= 0) },
	"LessThan":       func(hi, lo int) bool { return hi < 0 || (hi == 0 && lo < 0) },
	"LessOrEqual":    func(hi, lo int) bool { return hi < 0 || (hi == 0 && lo <= 0) },
}

// bit classes: hi, lo in {0,1}: whether word & operand-word != 0
var bitExpect = map[string]func(hi, lo int) bool{
	"BitsSet":    func(hi, lo int) bool { return hi == 1 || lo == 1 },
	"BitsNotSet": func(hi, lo int) bool { return hi == 0 && lo == 0 },
}

// evalTest: outcome of a cBPF test on an ordering class / bit class; ok=false if the test is not decided by the class.
func evalTest(test string, ord int, bit int, bitDomain bool) (bool, bool) {
	if bitDomain {
		switch test {
		case "JumpBitsSet":
			return bit == 1, true
		case "JumpBitsNotSet":
			return bit == 0, true
		}
		return false, false
	}
	switch test {
	case "JumpEqual":
		return ord == 0, true
	case "JumpNotEqual":
		return ord != 0, true
	case "JumpGreaterThan":
		return ord > 0, true
	case "JumpLessThan":
		return ord < 0, true
	case "JumpGreaterOrEqual":
		return ord >= 0, true
	case "JumpLessOrEqual":
		return ord <= 0, true
	}
	return false, false
}

func runC02(e *Env) {
	r := e.R
	// first, so that it is reported even when the automaton cannot be built for a reorganised emitter
	checkPolicyReadOnly(e, e.Host(), "E1.readonly")
	m := e1Preamble(e, "E1.template")
	if m == nil {
		return
	}
	p := m.p
	checkTargetConsts(e, p, load.Module, "E1.template", m.polFn, m.fragFn)
	name := "x86_64=true,short=true"
	c := newWctx(e, m, name)
	var swc *ssa.Function
	// iteration starts by (op, last, world)
	type tkey struct {
		op    string
		last  int8
		world int
	}
	starts := map[tkey][]*emit.WNode{}
	for _, nd := range c.w.Nodes {
		if nd.Emit != nil && nd.Emit.IterStart {
			k := tkey{nd.Emit.Ops, nd.Emit.Last, nd.Emit.EndianOf()}
			starts[k] = append(starts[k], nd)
		}
	}
	nTemplates, nRows := 0, 0
	opsSeen := map[string]bool{}
	var keys []tkey
	for k := range starts {
		keys = append(keys, k)
	}
	sort.Slice(keys, func(i, j int) bool {
		if keys[i].op != keys[j].op {
			return keys[i].op < keys[j].op
		}
		if keys[i].last != keys[j].last {
			return keys[i].last < keys[j].last
		}
		return keys[i].world < keys[j].world
	})
	for _, k := range keys {
		if strings.Contains(k.op, "|") || k.op == "" {
			for _, nd := range starts[k] {
				r.Unknown("E1.template", "template/ambiguous-operation", nodePos(p, nd), fmt.Sprintf("an emission happens while the operation is only known to be one of {%s}", k.op))
			}
			continue
		}
		opsSeen[k.op] = true
		_, isOrd := ordExpect[k.op]
		_, isBit := bitExpect[k.op]
		if !isOrd && !isBit {
			r.Unknown("E1.template", "template/"+k.op+"/no-reference", "", fmt.Sprintf("operation %q has a lowering but no reference relation is known for it", k.op))
			continue
		}
		for _, st := range starts[k] {
			nTemplates++
			tkeyS := fmt.Sprintf("template/%s/%s/world%+d", k.op, lastName(k.last), k.world)
			domain := []int{-1, 0, 1}
			if isBit {
				domain = []int{0, 1}
			}
			bad := 0
			for _, hi := range domain {
				for _, lo := range domain {
					nRows++
					got, why := c.runTemplate(st, swc, hi, lo, isBit)
					var want bool
					if isBit {
						want = bitExpect[k.op](hi, lo)
					} else {
						want = ordExpect[k.op](hi, lo)
					}
					wantS := "noMatch"
					if want {
						wantS = "match"
					}
					if got != wantS {
						bad++
						r.Bad("E1.template", tkeyS+fmt.Sprintf("/class(hi%s,lo%s)", clsName(hi, isBit), clsName(lo, isBit)), nodePos(p, st),
							fmt.Sprintf("operation %s on the class (high words %s, low words %s): the lowering ends in %s, the unsigned 64-bit relation says %s%s", k.op, clsName(hi, isBit), clsName(lo, isBit), got, wantS, why))
					}
				}
			}
			if bad == 0 {
				r.OK("E1.template", tkeyS, nodePos(p, st), fmt.Sprintf("%d classes agree with the unsigned 64-bit relation", len(domain)*len(domain)))
			}
		}
	}
	// exhaustiveness: every declared operation has a template
	for _, op := range m.allOps {
		r.Check(opsSeen[op], "E1.template", "template/"+op+"/exists", "", "lowering found", fmt.Sprintf("operation %q is declared but no lowering for it is reachable in the emitter", op))
	}
	r.Count("templates evaluated (operation x last/non-last x byte-order world)", nTemplates)
	r.Count("class rows evaluated", nRows)
	r.Floor("E1.template(templates)", nTemplates, 32)
	r.Floor("E1.template(rows)", nRows, 248)
	r.Extra("exhaustive_class_split", "6 ordering operations x 9 classes + 2 bit operations x 4 classes = 62 rows per (last, world) combination")
	// accumulator typing inside templates
	nAcc := c.checkAcc("E1.acc", func(cl instClass) bool {
		return strings.HasPrefix(cl.Operand, "hi:") || strings.HasPrefix(cl.Operand, "lo:")
	})
	r.Floor("E1.acc(word comparisons)", nAcc, 32)
	checkWordOffsets(e, m)
	checkEndianDetect(e, m)
}

func lastName(l int8) string {
	switch {
	case l > 0:
		return "last"
	case l < 0:
		return "not-last"
	}
	return "unknown-position"
}

func clsName(v int, bit bool) string {
	if bit {
		if v == 1 {
			return "&!=0"
		}
		return "&==0"
	}
	switch {
	case v < 0:
		return "<"
	case v > 0:
		return ">"
	}
	return "="
}

// runTemplate follows one condition's lowering for a class over ALL layout alternatives (an emission that
// happens only under some untracked condition yields several paths) and reports the set of outcomes:
// "match", "noMatch" or a failure description; the second result explains a disagreement.
func (c *wctx) runTemplate(start *emit.WNode, swc *ssa.Function, hi, lo int, bit bool) (string, string) {
	outcomes := map[string]bool{}
	var walk func(n *emit.WNode, acc string, steps int)
	walk = func(n *emit.WNode, acc string, steps int) {
		if steps > 40 {
			outcomes["no-decision-after-40-steps"] = true
			return
		}
		if n == nil {
			outcomes["leaves-the-program"] = true
			return
		}
		cl := c.cls[n]
		if steps > 0 && n.Emit != nil && (n.Emit.IterStart || !n.Emit.InCond) {
			if n.Emit.IterStart {
				outcomes["match"] = true // fell through into the next condition
			} else {
				outcomes["falls-out-of-the-condition"] = true
			}
			return
		}
		switch cl.Kind {
		case "ld_arg":
			for _, nx := range c.w.Next[n] {
				walk(nx, cl.Word, steps+1)
			}
			if len(c.w.Next[n]) == 0 {
				outcomes["dead-end"] = true
			}
		case "jmp":
			test := c.jt[cl.Cond]
			var outcome, ok bool
			switch {
			case strings.HasPrefix(cl.Operand, "hi:"):
				if acc != "hi" {
					outcomes["compares-the-operand's-high-word-with-the-argument's-"+acc+"-word"] = true
					return
				}
				outcome, ok = evalTest(test, hi, hi, bit)
			case strings.HasPrefix(cl.Operand, "lo:"):
				if acc != "lo" {
					outcomes["compares-the-operand's-low-word-with-the-argument's-"+acc+"-word"] = true
					return
				}
				outcome, ok = evalTest(test, lo, lo, bit)
			default:
				outcomes["compares-with-"+cl.Operand] = true
				return
			}
			if !ok {
				outcomes["test-"+test+"-not-decided-by-the-class"] = true
				return
			}
			kind := "false"
			if outcome {
				kind = "true"
			}
			var lab *emit.LabelVal
			if n.Emit != nil && n.Emit.Jrec != nil {
				if outcome {
					lab = n.Emit.Jrec.LT
				} else {
					lab = n.Emit.Jrec.LF
				}
			}
			if lab == nil {
				outcomes["jump-without-label"] = true
				return
			}
			switch labelRole(lab) {
			case "next-cond":
				outcomes["match"] = true
				return
			case "list-failed":
				outcomes["noMatch"] = true
				return
			case "entry-exit", "other":
				outcomes["jumps-to-the-entry-exit-label"] = true
				return
			case "group":
				outcomes["match"] = true // the action label, through the match phi of the last condition
				return
			}
			// internal fall-through label: continue with the target(s)
			any := false
			for _, ed := range c.w.Edges[n] {
				if ed.Kind == kind {
					any = true
					walk(ed.To, acc, steps+1)
				}
			}
			if !any {
				outcomes["no-target"] = true
			}
		default:
			outcomes["unexpected-"+cl.Kind+"-in-template"] = true
		}
	}
	walk(start, "", 0)
	var list []string
	for o := range outcomes {
		list = append(list, o)
	}
	sort.Strings(list)
	if len(list) == 1 {
		return list[0], ""
	}
	return strings.Join(list, " or "), " (the emitted sequence differs between policies: some instruction of the lowering is emitted only conditionally)"
}

// checkWordOffsets: LdHi/LdLo offsets as affine forms per byte-order branch.
func checkWordOffsets(e *Env, m *e1Model) {
	r := e.R
	p := m.p
	n := 0
	for _, spec := range []struct {
		fn      string
		hiWord  bool
		display string
	}{{"Program.LdHi", true, "most significant"}, {"Program.LdLo", false, "least significant"}} {
		fn := p.Func(load.PkgRoot, spec.fn)
		if fn == nil {
			r.Unknown("E1.ldword", spec.fn, "", "not found")
			continue
		}
		// per branch world: evaluate the offset stored into the LoadAbsolute literal
		for _, world := range []int{1, -1} {
			n++
			off, size, ok := loadLiteralUnder(fn, world)
			wname := "little-endian"
			if world < 0 {
				wname = "big-endian"
			}
			key := fmt.Sprintf("%s/%s", spec.fn, wname)
			if !ok {
				// the literal is built by helpers of the load function: use the instances of the emitter automaton (the offset
				// is resolved there per byte-order world through the helpers the walker explored)
				marker := ">" + fn.Name() + "@"
				seenInst, good, bad := 0, true, ""
				for _, nd := range m.fragG.Nodes {
					if nd.Kind != emit.EvEmit || nd.Lit == nil || nd.Lit.Type != "LoadAbsolute" || !strings.Contains(nd.Ctx, marker) || nd.EndianOf() != world {
						continue
					}
					seenInst++
					k, arg, okA := affineOffset(nd.Lit.Fields["Off"])
					sz, okS := int64(0), false
					if so := nd.Lit.Fields["Size"]; so != nil {
						sz, okS = so.IsConstInt()
					}
					want := int64(16)
					if (spec.hiWord && world > 0) || (!spec.hiWord && world < 0) {
						want = 20
					}
					if !(okA && arg != nil && k == want && okS && sz == 4) {
						good = false
						bad = fmt.Sprintf("offset %d + 8*arg (affine=%v), size %d, want %d + 8*arg, size 4", k, okA && arg != nil, sz, want)
					}
				}
				if seenInst == 0 {
					r.Unknown("E1.ldword", key, p.Pos(fn.Pos()), "the load literal or its byte-order branch was not recognised")
					continue
				}
				r.Check(good, "E1.ldword", key, p.Pos(fn.Pos()),
					fmt.Sprintf("%d instances of the emitter automaton: the %s word on a %s seccomp_data", seenInst, spec.display, wname),
					fmt.Sprintf("%s on a %s layout loads %s", spec.fn, wname, bad))
				continue
			}
			res := origin.NewResolver()
			k, arg, okA := affineOffset(res.Of(off, nil, nil))
			if okA && arg == nil {
				okA = false
			}
			// struct seccomp_data: args[a] is a native-endian u64 at 16+8a: high word at +4 on little-endian, +0 on big-endian
			want := int64(16)
			if (spec.hiWord && world > 0) || (!spec.hiWord && world < 0) {
				want = 20
			}
			argOK := okA && arg != nil && arg.Kind == origin.KParam && arg.Param == fn.Params[1]
			r.Check(okA && argOK && k == want && size == 4, "E1.ldword", key, p.Pos(fn.Pos()),
				fmt.Sprintf("offset = %d + 8*arg, size 4: the %s word on a %s seccomp_data", want, spec.display, wname),
				fmt.Sprintf("%s on a %s layout loads offset %d + 8*arg (size %d); the %s word of args[arg] is at %d + 8*arg", spec.fn, wname, k, size, spec.display, want))
		}
	}
	r.Floor("E1.ldword(offset obligations)", n, 4)
}

// loadLiteralUnder returns the Off value and Size of the LoadAbsolute literal of fn when the byte-order test
// takes the given world (+1 little, -1 big), resolving the offset phi by the branch.
func loadLiteralUnder(fn *ssa.Function, world int) (ssa.Value, int64, bool) {
	var offStore, sizeStore *ssa.Store
	for _, b := range fn.Blocks {
		for _, in := range b.Instrs {
			st, ok := in.(*ssa.Store)
			if !ok {
				continue
			}
			fa, ok := st.Addr.(*ssa.FieldAddr)
			if !ok || !isNamed(fa.X.Type().Underlying().(*types.Pointer).Elem(), "golang.org/x/net/bpf", "LoadAbsolute") {
				continue
			}
			switch fa.X.Type().Underlying().(*types.Pointer).Elem().Underlying().(*types.Struct).Field(fa.Field).Name() {
			case "Off":
				offStore = st
			case "Size":
				sizeStore = st
			}
		}
	}
	if offStore == nil || sizeStore == nil {
		return nil, 0, false
	}
	size, ok := flow.ConstInt(sizeStore.Val)
	if !ok {
		return nil, 0, false
	}
	v := offStore.Val
	ph, isPhi := v.(*ssa.Phi)
	if !isPhi {
		return v, size, true // no byte-order dependence at all
	}
	// find the byte-order branch
	for i, pred := range ph.Block().Preds {
		conds := flow.DomConds(pred)
		// include the branch whose arm is pred itself
		taken := 0
		for _, cd := range conds {
			bo, ok := cd.V.(*ssa.BinOp)
			if !ok {
				continue
			}
			w := endianOfTest(bo)
			if w == 0 {
				continue
			}
			if bo.Op == token.NEQ {
				w = -w
			}
			if !cd.Pol {
				w = -w
			}
			taken = w
		}
		if taken == 0 {
			// pred is the block that holds the test (the phi edge is the test's other arm)
			if ifi, ok := flow.LastIf(pred); ok {
				if bo, ok := ifi.Cond.(*ssa.BinOp); ok {
					w := endianOfTest(bo)
					if bo.Op == token.NEQ {
						w = -w
					}
					if w != 0 {
						// edge pred -> phi block is the false arm if Succs[1] is the phi block
						if pred.Succs[1] == ph.Block() {
							w = -w
						}
						taken = w
					}
				}
			}
		}
		if taken == world {
			return ph.Edges[i], size, true
		}
	}
	return nil, 0, false
}

func endianOfTest(bo *ssa.BinOp) int {
	isNative := func(v ssa.Value) bool {
		ld, ok := v.(*ssa.UnOp)
		if !ok {
			return false
		}
		g, ok := ld.X.(*ssa.Global)
		return ok && g.Name() == "nativeEndian"
	}
	which := func(v ssa.Value) int {
		if mi, ok := v.(*ssa.MakeInterface); ok {
			v = mi.X
		}
		ld, ok := v.(*ssa.UnOp)
		if !ok {
			return 0
		}
		g, ok := ld.X.(*ssa.Global)
		if !ok || g.Pkg == nil || g.Pkg.Pkg.Path() != "encoding/binary" {
			return 0
		}
		switch g.Name() {
		case "LittleEndian":
			return 1
		case "BigEndian":
			return -1
		}
		return 0
	}
	if bo.Op != token.EQL && bo.Op != token.NEQ {
		return 0
	}
	if isNative(bo.X) {
		return which(bo.Y)
	}
	if isNative(bo.Y) {
		return which(bo.X)
	}
	return 0
}

// checkEndianDetect: init stores uint16(0xABCD) and assigns LittleEndian to the case whose byte 0 is the low byte.
func checkEndianDetect(e *Env, m *e1Model) {
	r := e.R
	p := m.p
	pk := p.Pkgs[load.PkgRoot]
	// AST: the switch over the two-byte buffer in an init function of the file that declares nativeEndian
	found := false
	for _, f := range pk.Syntax {
		for _, d := range f.Decls {
			fd, ok := d.(*ast.FuncDecl)
			if !ok || fd.Name.Name != "init" || fd.Body == nil {
				continue
			}
			var stored uint64
			haveStore := false
			ast.Inspect(fd.Body, func(n ast.Node) bool {
				as, ok := n.(*ast.AssignStmt)
				if ok && len(as.Rhs) == 1 {
					if v := tables.ConstOf(pk, as.Rhs[0]); v != nil {
						if u, ok := tables.Uint64(v); ok && u > 0xFF && u <= 0xFFFF {
							if _, isStar := as.Lhs[0].(*ast.StarExpr); isStar {
								stored, haveStore = u, true
							}
						}
					}
				}
				return true
			})
			if !haveStore {
				continue
			}
			ast.Inspect(fd.Body, func(n ast.Node) bool {
				sw, ok := n.(*ast.SwitchStmt)
				if !ok {
					return true
				}
				for _, cc := range sw.Body.List {
					clause := cc.(*ast.CaseClause)
					if len(clause.List) != 1 || len(clause.Body) != 1 {
						continue
					}
					cl, ok := clause.List[0].(*ast.CompositeLit)
					if !ok || len(cl.Elts) != 2 {
						continue
					}
					b0, ok0 := tables.Uint64(tables.ConstOf(pk, cl.Elts[0]))
					b1, ok1 := tables.Uint64(tables.ConstOf(pk, cl.Elts[1]))
					as, okA := clause.Body[0].(*ast.AssignStmt)
					if !ok0 || !ok1 || !okA || len(as.Rhs) != 1 {
						continue
					}
					lhs, _ := as.Lhs[0].(*ast.Ident)
					sel, _ := as.Rhs[0].(*ast.SelectorExpr)
					if lhs == nil || sel == nil || lhs.Name != "nativeEndian" {
						continue
					}
					found = true
					lowFirst := b0 == stored&0xFF && b1 == stored>>8
					highFirst := b0 == stored>>8 && b1 == stored&0xFF
					want := ""
					if lowFirst {
						want = "LittleEndian"
					} else if highFirst {
						want = "BigEndian"
					}
					r.Check(want != "" && sel.Sel.Name == want, "E1.endian", "init/case-"+fmt.Sprintf("%02X%02X", b0, b1), p.Pos(clause.Pos()),
						fmt.Sprintf("bytes {%#x,%#x} of uint16(%#x) -> %s", b0, b1, stored, want),
						fmt.Sprintf("the byte pattern {%#x,%#x} of uint16(%#x) is assigned binary.%s, it denotes %s: high and low argument words would be exchanged on every machine", b0, b1, stored, sel.Sel.Name, want))
				}
				return true
			})
		}
	}
	// whatever the detection looks like: the variable is only ever given one of the two values the load helpers compare it with
	if sp := p.SSAPkg[load.PkgRoot]; sp != nil {
		if g, ok := sp.Members["nativeEndian"].(*ssa.Global); ok {
			fns := append([]*ssa.Function{}, p.SrcFuncs(load.PkgRoot)...)
			if ini := sp.Func("init"); ini != nil {
				fns = append(fns, ini)
			}
			for _, fn := range fns {
				for _, b := range fn.Blocks {
					for _, in := range b.Instrs {
						st, ok := in.(*ssa.Store)
						if !ok || st.Addr != ssa.Value(g) {
							continue
						}
						v := st.Val
						if mi, ok := v.(*ssa.MakeInterface); ok {
							v = mi.X
						}
						name := ""
						if ld, ok := v.(*ssa.UnOp); ok {
							if gg, ok := ld.X.(*ssa.Global); ok && gg.Pkg != nil && gg.Pkg.Pkg.Path() == "encoding/binary" {
								name = gg.Name()
							}
						}
						r.Check(name == "LittleEndian" || name == "BigEndian", "E1.endian", load.FuncName(fn)+"/assigned-value", p.Pos(st.Pos()),
							"nativeEndian is assigned binary."+name,
							"nativeEndian is assigned something other than binary.LittleEndian or binary.BigEndian (for example binary.NativeEndian, which has its own type): the comparisons in the word-selection helpers are then both false, high and low word are loaded from the same offset, and every 64-bit comparison is wrong on the real kernel")
					}
				}
			}
		}
	}
	if !found {
		// the order fixed at compile time from a per-GOARCH constant: it must be this target's (C19 `E4.endian` repeats the
		// question under every target)
		if pkRoot := p.Pkgs[load.PkgRoot]; pkRoot != nil {
			if chosen := compileTimeByteOrder(pkRoot); chosen != "" {
				want := "little"
				if bigEndianGOARCH[p.GOARCH] {
					want = "big"
				}
				found = true
				r.Check(chosen == want, "E1.endian", "init/compile-time-byte-order", "", "the byte order chosen at compile time is the target's ("+want+"-endian)",
					"the package initialisation chooses "+chosen+"-endian argument words at compile time for "+p.GOARCH+", which is "+want+"-endian: high and low argument words are exchanged")
			}
		}
	}
	if !found {
		r.Unknown("E1.endian", "init/byte-order-detection", "", "byte-order detection switch not found")
	}
	// no write to nativeEndian outside init (non-test code)
	for _, fn := range p.SrcFuncs(load.PkgRoot) {
		if strings.HasPrefix(fn.Name(), "init") {
			continue
		}
		for _, b := range fn.Blocks {
			for _, in := range b.Instrs {
				if st, ok := in.(*ssa.Store); ok {
					if g, ok := st.Addr.(*ssa.Global); ok && g.Name() == "nativeEndian" {
						r.Bad("E1.endian", load.FuncName(fn)+"/writes-nativeEndian", p.Pos(st.Pos()), "nativeEndian is written outside init")
					}
				}
			}
		}
	}
}
