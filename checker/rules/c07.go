package rules

import (
	"fmt"
	"go/token"
	"go/types"
	"sort"
	"strings"

	"golang.org/x/tools/go/ssa"

	"sbpfcheck/flow"
	"sbpfcheck/load"
	"sbpfcheck/nopanic"
	"sbpfcheck/origin"
)

func init() {
	Specs["C07"] = &Spec{
		Level: "other",
		Explanation: "Each rejection the statement lists exists as a guard of the required shape (resolved on values, not text), precedes emission on every path and leads to `(nil, error)`: unknown default action and empty policy " +
			"(Policy.Validate, which dominates everything in Policy.Assemble), unknown names in both name loops, duplicates, conditional+unconditional, argument index above 5, unsupported architecture; every error return of the " +
			"compile call graph carries a nil program. Exhaustiveness of operations by sibling agreement of four tables: the Operation constants, the Operations slice (what Unpack accepts), the operations validation lets " +
			"through, and the operations the lowering chain handles (accepted is a subset of handled; unknown ones are reported, not dropped). For policies free of the listed defects the patcher's two error sites are " +
			"unreachable at label level (no jump has both targets on the next instruction; no label is used after it was bound). Panic sites: the compiler's unproven bounds checks, type assertions and nil dereferences " +
			"reachable from Policy.Assemble are enumerated; those inside the patcher's index bookkeeping are assumed under C06, the rest must be guarded (in every module package the compile path reaches; plus value-dependent panics: make, Repeat, Grow, Must*, division). " +
			"The converse clause (policies free of the listed defects are accepted) is decided as a closed-world statement, E3.accept-closed: every place where the compile call graph originates an error or records a problem is, on the nearest branch of every way into it, the rejecting side of one of the listed defect classes.",
		Trusted:     []string{"go/ssa, dominators", "the gc prove pass (bounds-check listing)", "E1 automaton (shared with C01-C05)"},
		Assumptions: []string{"absence of panics inside the patcher's slice arithmetic and type assertions depends on C06's invariants (listed, not proved)", "the 4096-instruction limit is the kernel's; not analysed"},
		Run:         runC07,
	}
}

func runC07(e *Env) {
	r := e.R
	m := e1Preamble(e, "E1.ops")
	if m == nil {
		return
	}
	p := m.p
	res := origin.NewResolver()
	pa := m.polFn
	// ---------------- validate-first
	val := p.Func(load.PkgRoot, "Policy.Validate")
	vcalls := callsToFn(pa, val)
	if val == nil || len(vcalls) != 1 {
		r.Bad("E3.validate-first", "Policy.Assemble/calls-Validate", p.Pos(pa.Pos()), "Policy.Assemble does not call Policy.Validate exactly once")
	} else {
		vc := vcalls[0]
		failEdgeReturnsError(e, p, "E3.validate-first", "Policy.Assemble/Validate-error", vc, true)
		// dominates every other call of the module
		errv := flow.ErrResult(vc)
		for _, c := range flow.Calls(pa) {
			call, ok := c.(*ssa.Call)
			if !ok || call == vc {
				continue
			}
			cal := flow.Callee(call)
			if cal == nil || cal.Pkg == nil || !strings.HasPrefix(cal.Pkg.Pkg.Path(), load.Module) {
				continue
			}
			nn, known := flow.ErrKnownAt(errv, call)
			r.Check(known && !nn, "E3.validate-first", "Policy.Assemble/"+calleeName(call)+"-after-Validate", p.Pos(call.Pos()), "runs only behind Validate() == nil", calleeName(call)+" can run although validation failed or has not run")
		}
		// inside Validate
		nV := 0
		for _, b := range val.Blocks {
			ifi, ok := flow.LastIf(b)
			if !ok {
				continue
			}
			c := flow.Norm(flow.Cond{V: ifi.Cond, Pol: true})
			arm := func(pol bool) *ssa.BasicBlock {
				if pol == c.Pol {
					return b.Succs[0]
				}
				return b.Succs[1]
			}
			returnsErr := func(blk *ssa.BasicBlock) bool {
				reg := flow.Region(b, blk)
				n := 0
				gv := flow.G(val)
				for x := range reg {
					if ret, ok := x.Instrs[len(x.Instrs)-1].(*ssa.Return); ok {
						n++
						if !flow.KnownNonNilError(flow.RetResults(ret)[0], x) {
							return false
						}
					}
					// nothing leaves the region: a further condition inside it (`len == 0 && something`) whose other arm
					// goes on with validation makes the rejection conditional
					for _, sx := range gv.Succs(x) {
						if !reg[sx] {
							return false
						}
					}
				}
				return n > 0
			}
			switch x := c.V.(type) {
			case *ssa.Extract:
				// found of actionNames[p.DefaultAction]
				if lk, ok := x.Tuple.(*ssa.Lookup); ok && x.Index == 1 {
					g := loadOfGlobal(lk.X)
					ko := res.Of(lk.Index, nil, lk)
					if g != nil && g.Name() == "actionNames" && ko.Kind == origin.KField && ko.Field.Name() == "DefaultAction" {
						nV++
						r.Check(returnsErr(arm(false)), "E3.reject-inventory", "Policy.Validate/unknown-default-action", p.Pos(ifi.Pos()), "a default action that is not in the action table is an error", "an unknown default action does not lead to an error")
					}
				}
			case *ssa.BinOp:
				if lc, ok := x.X.(*ssa.Call); ok {
					if bi, ok := lc.Call.Value.(*ssa.Builtin); ok && bi.Name() == "len" {
						o := res.Of(lc.Call.Args[0], nil, lc)
						if o.Kind == origin.KField && o.Field.Name() == "Syscalls" {
							if k, ok := flow.ConstInt(x.Y); ok && k == 0 && x.Op == token.EQL {
								nV++
								r.Check(returnsErr(arm(true)), "E3.reject-inventory", "Policy.Validate/no-groups", p.Pos(ifi.Pos()), "a policy without groups is an error", "a policy without groups does not lead to an error")
							}
						}
					}
				}
			}
		}
		r.Check(nV == 2, "E3.reject-inventory", "Policy.Validate/checks-present", p.Pos(val.Pos()), "both checks (default action known, at least one group) are present", fmt.Sprintf("%d of the 2 required checks found in Policy.Validate (default action in the action table; at least one group)", nV))
	}
	// ---------------- rejection classes in toSyscallsWithConditions
	ts := p.Func(load.PkgRoot, "SyscallGroup.toSyscallsWithConditions")
	if ts == nil {
		r.Unknown("E3.reject-inventory", "toSyscallsWithConditions", "", "not found")
	} else {
		// "never silently drops a rule", "an unknown name is an error": every listed name - plain or conditional - ends in
		// exactly one of {entry, merge, problem}; a name that is skipped before it is looked up is neither compiled nor
		// reported (the same rules decide C01's and C03's "every listed syscall")
		checkNoDrop(e, m, ts)
		checkMerge(e, m)
		// "a name duplicated within a group", "listed both with and without conditions in one group": the unit these rules
		// are applied to is the policy's own group - groups that were merged or split before validation are judged by
		// another unit, and policies free of the listed defects are refused (or defective ones accepted)
		checkGroupUnit(e, m, "E1.unit", "Policy.Assemble/validated-group-is-the-policy's",
			"the group that is validated and compiled is the element of a range over p.Syscalls",
			"the group that is validated and compiled is not an element of the policy's own p.Syscalls: the within-a-group rules (duplicate name, conditional and unconditional) are applied to a different unit than the policy's group, so a policy free of the listed defects can be refused")
		classes := map[string]int{}
		for _, b := range ts.Blocks {
			ifi, ok := flow.LastIf(b)
			if !ok {
				continue
			}
			c := flow.Norm(flow.Cond{V: ifi.Cond, Pol: true})
			arm := func(pol bool) *ssa.BasicBlock {
				if pol == c.Pol {
					return b.Succs[0]
				}
				return b.Succs[1]
			}
			switch x := c.V.(type) {
			case *ssa.Extract:
				if lk, ok := x.Tuple.(*ssa.Lookup); ok && x.Index == 1 {
					mo := res.Of(lk.X, nil, lk)
					ko := res.Of(lk.Index, nil, lk)
					if mo.Kind == origin.KField && mo.Field.Name() == "SyscallNames" {
						loop := "Names"
						if strings.Contains(ko.String(), "NamesWithCondtions") {
							loop = "NamesWithCondtions"
						}
						okKey := strings.Contains(ko.String(), ".Names[") || strings.HasSuffix(ko.String(), ".Name")
						classes["unknown-name/"+loop]++
						r.Check(okKey && appendsStringProblem(b, arm(false)), "E3.reject-inventory", "toSyscallsWithConditions/unknown-name/"+loop, p.Pos(ifi.Pos()),
							"a name that is not in the architecture's table is reported", "an unknown syscall name in "+loop+" is not reported on the `!found` edge (it would be skipped silently)")
					}
				}
			case *ssa.BinOp:
				// `if err := found.err(); err != nil { return nil, err }`: the collected problems turned into an error by a
				// helper that returns nil exactly for the empty list
				if (x.Op == token.EQL || x.Op == token.NEQ) && (flow.IsNilConst(x.Y) || flow.IsNilConst(x.X)) {
					ev := x.X
					if flow.IsNilConst(x.X) {
						ev = x.Y
					}
					if hc, ok := ev.(*ssa.Call); ok && flow.IsErrorType(ev.Type()) && errIffNonEmpty(hc.Call.StaticCallee()) {
						nonNilArm := arm(x.Op == token.NEQ)
						nilArm := arm(x.Op == token.EQL)
						for _, ret := range flow.Returns(ts) {
							rs := flow.RetResults(ret)
							if flow.IsNilConst(rs[1]) && flow.EdgeDominates(b, nilArm, ret.Block()) {
								classes["problems-are-fatal"]++
								reg := flow.Region(b, nonNilArm)
								okErr := len(reg) > 0
								for blk := range reg {
									if rr, ok := blk.Instrs[len(blk.Instrs)-1].(*ssa.Return); ok {
										rrs := flow.RetResults(rr)
										if !flow.IsNilConst(rrs[0]) || !(rrs[1] == ev || flow.KnownNonNilError(rrs[1], blk)) {
											okErr = false
										}
									}
								}
								r.Check(okErr, "E3.reject-inventory", "toSyscallsWithConditions/problems-are-fatal", p.Pos(ifi.Pos()), "any recorded problem makes the group fail with (nil, error)", "recorded problems do not lead to (nil, error)")
							}
						}
					}
				}
				// getSyscall(...) == nil  /  != nil
				if (x.Op == token.EQL || x.Op == token.NEQ) && (flow.IsNilConst(x.Y) || flow.IsNilConst(x.X)) {
					v := x.X
					if flow.IsNilConst(x.X) {
						v = x.Y
					}
					if call, ok := v.(*ssa.Call); ok && flow.Callee(call) != nil && flow.Callee(call) == p.Func(load.PkgRoot, "getSyscall") {
						// in the Names loop a found entry is a duplicate
						inNamesLoop := false
						for _, cd := range flow.DomConds(b) {
							if ex, ok := cd.V.(*ssa.Extract); ok {
								if lk, ok := ex.Tuple.(*ssa.Lookup); ok {
									if ko := res.Of(lk.Index, nil, lk); strings.Contains(ko.String(), ".Names[") {
										inNamesLoop = true
									}
								}
							}
						}
						if inNamesLoop {
							classes["duplicate"]++
							nonNilArm := arm(x.Op == token.NEQ)
							r.Check(appendsStringProblem(b, nonNilArm), "E3.reject-inventory", "toSyscallsWithConditions/duplicate", p.Pos(ifi.Pos()), "a name listed twice in one group is reported", "a duplicated name is not reported")
						}
					}
				}
				// len(check.Conditions) == 0
				if lc, ok := x.X.(*ssa.Call); ok {
					if bi, ok := lc.Call.Value.(*ssa.Builtin); ok && bi.Name() == "len" {
						o := res.Of(lc.Call.Args[0], nil, lc)
						if o.Kind == origin.KField && o.Field.Name() == "Conditions" && originCalls(o, p.Func(load.PkgRoot, "getSyscall")) {
							if k, ok := flow.ConstInt(x.Y); ok && k == 0 && x.Op == token.EQL {
								classes["conditional+unconditional"]++
								r.Check(appendsStringProblem(b, arm(true)), "E3.reject-inventory", "toSyscallsWithConditions/conditional-and-unconditional", p.Pos(ifi.Pos()), "a syscall listed with and without conditions is reported", "a syscall listed both with and without conditions is not reported")
							}
						}
						// len(problems) > 0 -> error
						if st, ok := lc.Call.Args[0].Type().Underlying().(*types.Slice); ok && isProblemElem(st.Elem()) {
							if _, isPhi := lc.Call.Args[0].(*ssa.Phi); isPhi {
								if k, ok := flow.ConstInt(x.Y); ok && k == 0 && (x.Op == token.GTR || x.Op == token.NEQ) {
									// this is the final check if the success return is behind its false arm
									for _, ret := range flow.Returns(ts) {
										rs := flow.RetResults(ret)
										if flow.IsNilConst(rs[1]) && flow.EdgeDominates(b, arm(false), ret.Block()) {
											classes["problems-are-fatal"]++
											reg := flow.Region(b, arm(true))
											okErr := len(reg) > 0
											for blk := range reg {
												if rr, ok := blk.Instrs[len(blk.Instrs)-1].(*ssa.Return); ok {
													rrs := flow.RetResults(rr)
													if !flow.IsNilConst(rrs[0]) || !flow.KnownNonNilError(rrs[1], blk) {
														okErr = false
													}
												}
											}
											r.Check(okErr, "E3.reject-inventory", "toSyscallsWithConditions/problems-are-fatal", p.Pos(ifi.Pos()), "any recorded problem makes the group fail with (nil, error)", "recorded problems do not lead to (nil, error)")
										}
									}
								}
							}
						}
					}
				}
			}
		}
		// the same rejections, decided on the paths of one loop iteration instead of on the shape of one `if`: every path
		// that produces an entry has passed the positive tests (name found in the table; no earlier entry for the number;
		// an existing entry that is merged into has conditions).  With E1.nodrop (every name ends in exactly one of
		// {entry, problem}) a name failing a test must end in a problem.
		for cls, ok := range entryGuards(p, ts) {
			if ok && classes[cls] == 0 {
				classes[cls]++
				r.OK("E3.reject-inventory", "toSyscallsWithConditions/"+cls+"/by-paths", p.Pos(ts.Pos()), "every path that produces an entry has passed the corresponding test")
			}
		}
		for _, want := range []string{"unknown-name/Names", "unknown-name/NamesWithCondtions", "duplicate", "conditional+unconditional", "problems-are-fatal"} {
			r.Check(classes[want] >= 1, "E3.reject-inventory", "toSyscallsWithConditions/has/"+want, p.Pos(ts.Pos()), "check present", "the required rejection `"+want+"` was not found in toSyscallsWithConditions (removed, or its guard no longer has the required shape)")
		}
		// invalid argument conditions reported and the entry skipped
		r.Check(m.facts.ArgBounded && m.facts.ArgMax == 5, "E3.reject-inventory", "ArgumentConditions.Validate/argument-index", "", "argument indices above 5 are reported", fmt.Sprintf("argument indices are not rejected above exactly 5 (bounded=%v, accepted maximum=%d): indices 0-5 must be accepted and 6+ rejected", m.facts.ArgBounded, m.facts.ArgMax))
		r.Check(m.facts.Enforced, "E3.reject-inventory", "toSyscallsWithConditions/validation-enforced", "", "conditions reach the entry list only when Validate() reported nothing", "conditions whose Validate() reported problems can still reach the entry list")
	}
	// unsupported architecture
	checkGetInfo(e, p)
	checkAssembleGetInfoFirst(e, p, "E3.reject-inventory")
	// SyscallGroup.Assemble: error of toSyscallsWithConditions returned
	for _, c := range callsToFn(m.fragFn, ts) {
		failEdgeReturnsError(e, p, "E3.reject-inventory", "SyscallGroup.Assemble/problems-returned", c, true)
	}
	for _, c := range callsToFn(pa, m.fragFn) {
		failEdgeReturnsError(e, p, "E3.reject-inventory", "Policy.Assemble/group-error-returned", c, true)
	}
	// ---------------- nil-on-error over the compile call graph
	nRet := 0
	compile := map[*ssa.Function]bool{}
	var mark func(f *ssa.Function)
	mark = func(f *ssa.Function) {
		if f == nil || compile[f] || f.Pkg == nil || !strings.HasPrefix(f.Pkg.Pkg.Path(), load.Module) {
			return
		}
		compile[f] = true
		for _, c := range flow.Calls(f) {
			mark(flow.Callee(c))
		}
	}
	mark(pa)
	var cfns []*ssa.Function
	for f := range compile {
		cfns = append(cfns, f)
	}
	sort.Slice(cfns, func(i, j int) bool { return cfns[i].Pos() < cfns[j].Pos() })
	for _, f := range cfns {
		res := f.Signature.Results()
		if res.Len() != 2 || !flow.IsErrorType(res.At(1).Type()) {
			continue
		}
		for _, ret := range flow.Returns(f) {
			rs := flow.RetResults(ret)
			if flow.KnownNilError(rs[1], ret.Block()) {
				continue
			}
			nRet++
			zero := flow.IsNilConst(rs[0])
			if k, ok := flow.ConstInt(rs[0]); ok && k == 0 {
				zero = true
			}
			// the zero value of any type (`return bpf.JumpIf{}, err` in a helper that hands out one instruction)
			if k, ok := rs[0].(*ssa.Const); ok && k.Value == nil {
				zero = true
			}
			// `return g()` of a module function whose own error returns are checked here as well
			if e0, ok := rs[0].(*ssa.Extract); ok {
				if e1, ok := rs[1].(*ssa.Extract); ok && e0.Tuple == e1.Tuple {
					if c, ok := e0.Tuple.(*ssa.Call); ok && compile[flow.Callee(c)] {
						zero = true
					}
				}
			}
			r.Check(zero, "E3.nil-on-error", load.FuncName(f)+"/error-return", p.Pos(ret.Pos()), "an error comes with no program", "a return whose error may be non-nil also returns a (partial) program")
		}
	}
	r.Floor("E3.nil-on-error(error returns)", nRet, 3)
	r.Count("functions in the compile call graph", len(cfns))

	// ---------------- the converse: nothing but the listed defects makes the compiler fail
	checkAcceptClosed(e, m, cfns)

	// ---------------- operations: four tables
	checkOperations(e, p, p.Pkgs[load.PkgRoot])
	r.Check(m.facts.OpsRestricted && m.facts.Enforced, "E1.ops", "validation-restricts-operations", m.facts.OpsPos,
		"a condition whose operation is not one of Operations is reported by validation (never silently omitted)",
		"validation lets every operation string through: a condition with an operation the lowering does not implement emits nothing, so the rule is silently weakened (conditions [{arg0 \"Bogus\" 3},{arg1 Equal 5}] compile to just arg1==5)")
	// handled set: operations for which the automaton contains a lowering
	handled := map[string]bool{}
	for _, n := range m.fragG.Nodes {
		if n.Kind == 2 && n.IterStart && n.Ops != "" && !strings.Contains(n.Ops, "|") { // EvEmit
			handled[n.Ops] = true
		}
	}
	for _, op := range m.opsSlice {
		r.Check(handled[op], "E1.ops", "handled/"+op, "", "accepted and lowered", fmt.Sprintf("operation %q is accepted (in Operations) but the lowering chain has no branch for it", op))
	}
	r.Floor("E1.ops(operations)", len(m.opsSlice), 8)
	for _, pr := range m.frag.Problems {
		if pr.Rule == "E1.andor" {
			pos := ""
			if pr.Node != nil {
				pos = p.Pos(pr.Node.CallPos)
			}
			r.Bad("E1.ops", pr.Key, pos, pr.Detail)
		}
	}
	// ---------------- the patcher's own errors are unreachable for accepted policies (label level)
	nJ := 0
	for _, en := range m.frag.Emits {
		if en.Jrec == nil {
			continue
		}
		nJ++
		next := m.frag.Next[en]
		sub := func(ts []*nodeT) bool { return false }
		_ = sub
		both := subsetNodes(m.frag.TargetsT[en], next) && subsetNodes(m.frag.TargetsF[en], next)
		if both {
			r.Bad("E1.useless", load.FuncName(en.Fn)+"/both-targets-next/op="+en.Ops, p.Pos(en.CallPos), "a jump whose two targets are both the next instruction: the patcher rejects the policy with the unrelated error `useless jump found` although it has none of the listed defects")
		}
	}
	r.Check(nJ >= 40, "E1.useless", "jumps-examined", "", fmt.Sprintf("%d label jumps: none has both targets on the next instruction", nJ), "too few jumps examined")
	for _, pr := range m.frag.Problems {
		if pr.Rule == "E1.label" && strings.Contains(pr.Key, "used-after-bound") {
			r.Bad("E1.useless", pr.Key, "", "a backward jump is possible: the patcher rejects the policy with `backward jumps are not supported`")
		}
	}
	// ---------------- panic sites reachable from Policy.Assemble
	checkCompilePanics(e, m, cfns)
}

type nodeT = struct{}

func subsetNodes[T comparable](a, b []T) bool {
	if len(a) == 0 {
		return false
	}
	for _, x := range a {
		ok := false
		for _, y := range b {
			if x == y {
				ok = true
			}
		}
		if !ok {
			return false
		}
	}
	return true
}

// checkCompilePanics (E6 for the compile path)
func checkCompilePanics(e *Env, m *e1Model, fns []*ssa.Function) {
	r := e.R
	p := m.p
	// every package of the module that hosts a function of the compile call graph (the table lookups live in arch/;
	// a helper added there - a name suggestion for the error message, say - is on the compile path like anything in
	// the root package), not only the root package
	inCompile := map[*ssa.Function]bool{}
	pkgSet := map[string]bool{load.PkgRoot: true}
	for _, f := range fns {
		inCompile[f] = true
		if f.Pkg != nil {
			pkgSet[f.Pkg.Pkg.Path()] = true
		}
	}
	var pkgPaths []string
	for pp := range pkgSet {
		pkgPaths = append(pkgPaths, pp)
	}
	sort.Strings(pkgPaths)
	var bces []nopanic.BCE
	for _, pp := range pkgPaths {
		bs, err := nopanic.CompilerBCE(p.Dir, "./"+strings.TrimPrefix(strings.TrimPrefix(pp, load.Module), "/"))
		if err != nil {
			r.Unknown("E6.panic", "compiler-bce/"+baseName(pp), "", err.Error())
			return
		}
		bces = append(bces, bs...)
	}
	r.Count("packages on the compile path (bounds-check listing)", len(pkgPaths))
	patcher := map[*ssa.Function]bool{}
	if asm := p.Func(load.PkgRoot, "Program.Assemble"); asm != nil {
		var mark func(f *ssa.Function)
		mark = func(f *ssa.Function) {
			if f == nil || patcher[f] || f.Pkg == nil || f.Pkg.Pkg.Path() != load.PkgRoot {
				return
			}
			patcher[f] = true
			for _, c := range flow.Calls(f) {
				mark(flow.Callee(c))
			}
		}
		mark(asm)
	}
	var all []*ssa.Function
	for _, pp := range pkgPaths {
		all = append(all, p.SrcFuncs(pp)...)
	}
	nAssumed, nGuarded := 0, 0
	for _, b := range bces {
		site := nopanic.FindSite(p.Fset, all, b)
		posStr := fmt.Sprintf("%s:%d:%d", b.File, b.Line, b.Col)
		if site == nil {
			// inlined copy: attribute to the call
			matched := false
			for _, fn := range all {
				for _, c := range flow.Calls(fn) {
					if call, ok := c.(*ssa.Call); ok {
						ps := p.Fset.Position(call.Pos())
						if ps.Filename == b.File && ps.Line == b.Line && ps.Column == b.Col {
							matched = true
							if inCompile[fn] && !patcher[fn] {
								cal := flow.Callee(call)
								if cal != nil && patcher[cal] {
									nAssumed++
								} else if cal != nil && cal.Pkg != nil && strings.HasPrefix(cal.Pkg.Pkg.Path(), load.Module) {
									nGuarded++ // reported at the callee's own definition
								}
							} else if patcher[fn] {
								nAssumed++
							}
						}
					}
				}
			}
			if !matched {
				r.Unknown("E6.panic", "bounds/unmatched/"+filepathBase(b.File), posStr, "an unproven bounds check could not be matched to an instruction")
			}
			continue
		}
		if !inCompile[site.Fn] {
			continue // not reachable from Policy.Assemble (loader etc.)
		}
		key := fmt.Sprintf("%s/bounds/%s", load.FuncName(site.Fn), describeSite(site.Instr))
		if patcher[site.Fn] {
			nAssumed++
			continue
		}
		v, need, ok := nopanic.Need(site.Instr)
		if ok {
			if min, why := nopanic.MinLen(v, site.Instr.Block()); min >= need {
				nGuarded++
				r.OK("E6.panic", key, posStr, strings.Join(why, "; "))
				continue
			}
		}
		if why, good := indexInCountedLoop(site.Instr); good {
			nGuarded++
			r.OK("E6.panic", key, posStr, why)
			continue
		}
		{
			symWhy, symOK := "", false
			withCallSites(fns, func() { symWhy, symOK = symbolicBound(site.Instr) })
			if symOK {
				nGuarded++
				r.OK("E6.panic", key, posStr, symWhy)
				continue
			}
		}
		r.Bad("E6.panic", key, posStr, "an index or slice expression on the compile path outside the patcher has no dominating guard that implies its bound: a policy value can make the compiler panic instead of returning an error")
	}
	// type assertions / explicit panics / nil-map stores outside the patcher
	for _, f := range fns {
		if patcher[f] {
			continue
		}
		for _, b := range f.Blocks {
			for _, in := range b.Instrs {
				switch x := in.(type) {
				case *ssa.TypeAssert:
					if !x.CommaOk {
						r.Bad("E6.panic", load.FuncName(f)+"/typeassert", p.Pos(x.Pos()), "non-comma-ok type assertion on the compile path")
					}
				case *ssa.Panic:
					r.Bad("E6.panic", load.FuncName(f)+"/panic", p.Pos(x.Pos()), "explicit panic on the compile path")
				case *ssa.MapUpdate:
					if ld, ok := x.Map.(*ssa.UnOp); ok {
						if fa, ok := ld.X.(*ssa.FieldAddr); ok {
							// p.labels: initialised by NewProgram
							_ = fa
							continue
						}
					}
					if _, ok := x.Map.(*ssa.MakeMap); !ok {
						r.Bad("E6.panic", load.FuncName(f)+"/mapupdate", p.Pos(x.Pos()), "store into a map that may be nil")
					}
				case *ssa.IndexAddr, *ssa.Index, *ssa.Slice:
					// a check the compiler proved to fail is not in its listing of undecided checks
					if v, need, ok := nopanic.Need(in); ok && need > 0 {
						if ub, have := nopanic.MaxLen(v, b); have && ub < need {
							r.Bad("E6.panic", load.FuncName(f)+"/bounds-always-fail", p.Pos(in.Pos()),
								fmt.Sprintf("the expression needs len >= %d but the dominating conditions say len <= %d: it panics whenever it is reached", need, ub))
						}
					}
				}
			}
		}
	}
	checkArgPanics(e, p, fns, "E6.panic", func(f *ssa.Function) bool { return patcher[f] }, true)
	r.OK("E6.panic", "patcher-sites-assumed-under-C06", "", fmt.Sprintf("%d unproven bounds checks lie inside the patcher's index bookkeeping (Program.Assemble and callees): their safety follows from the invariants C06 checks necessary conditions of, and from E1.label (a used label is bound, so dest[0] exists); assumed, not proved", nAssumed))
	r.Count("unproven bounds checks on the compile path (patcher)", nAssumed)
	r.Count("unproven bounds checks on the compile path (guarded / elsewhere)", nGuarded)
	// NewProgram initialises the label map (no nil-map store in SetLabel)
	if np := p.Func(load.PkgRoot, "NewProgram"); np != nil {
		mk := false
		for _, b := range np.Blocks {
			for _, in := range b.Instrs {
				if _, ok := in.(*ssa.MakeMap); ok {
					mk = true
				}
			}
		}
		r.Check(mk, "E6.panic", "NewProgram/labels-map-made", p.Pos(np.Pos()), "the label map is made by the constructor", "NewProgram does not make the label map: SetLabel would store into a nil map")
	}
	checkArchNonNil(e, m)
}

// checkArchNonNil: p.arch / group.arch are non-nil wherever they are dereferenced in Policy.Assemble's call tree.
func checkArchNonNil(e *Env, m *e1Model) {
	r := e.R
	p := m.p
	pa := m.polFn
	res := origin.NewResolver()
	// nil tests on a field named arch
	type guard struct {
		ifi  *ssa.If
		base string
	}
	var guards []guard
	// Policy.Assemble itself and the helpers of the package it calls (an `ensureArch` method)
	fns := []*ssa.Function{pa}
	for _, c := range flow.Calls(pa) {
		if cal := flow.Callee(c); cal != nil && cal.Pkg != nil && cal.Pkg.Pkg.Path() == load.PkgRoot && len(cal.Blocks) > 0 && cal != m.fragFn {
			fns = append(fns, cal)
		}
	}
	for _, f := range fns {
		for _, b := range f.Blocks {
			ifi, ok := flow.LastIf(b)
			if !ok {
				continue
			}
			c := flow.Norm(flow.Cond{V: ifi.Cond, Pol: true})
			bo, ok := c.V.(*ssa.BinOp)
			if !ok || (bo.Op != token.EQL && bo.Op != token.NEQ) || !flow.IsNilConst(bo.Y) {
				continue
			}
			o := res.Of(bo.X, nil, bo)
			if o.Kind != origin.KField || o.Field.Name() != "arch" {
				continue
			}
			// the successor taken when the pointer is nil
			nilArm := b.Succs[0]
			if (bo.Op == token.EQL) != c.Pol {
				nilArm = b.Succs[1]
			}
			base := o.Args[0].String()
			if f != pa {
				base = "param:" + base // the helper's receiver is the policy
			}
			guards = append(guards, guard{ifi, base})
			// the nil arm must assign the field (or return an error) on every path
			reg := flow.Region(b, nilArm)
			assigned := false
			for blk := range reg {
				for _, in := range blk.Instrs {
					if st, ok := in.(*ssa.Store); ok {
						if fa, ok := st.Addr.(*ssa.FieldAddr); ok {
							stt := fa.X.Type().Underlying().(*types.Pointer).Elem().Underlying().(*types.Struct)
							if stt.Field(fa.Field).Name() == "arch" {
								if ld, ok := bo.X.(*ssa.UnOp); ok {
									if fa0, ok := ld.X.(*ssa.FieldAddr); ok && fa0.X == fa.X {
										assigned = true
									}
								}
							}
						}
					}
				}
			}
			if !assigned {
				// the architecture is kept in a local instead of being written back: local = phi(field [non-nil edge],
				// GetInfo(...) [behind err == nil]), and the field itself is never dereferenced in this function
				assigned = archLocalRoute(f, bo.X, nilArm)
			}
			r.Check(assigned, "E6.nil", "Policy.Assemble/arch-assigned-when-nil/"+baseName(base), p.Pos(ifi.Pos()), "a nil arch is replaced before use", "a nil architecture pointer is detected but not replaced")
		}
	}
	r.Check(len(guards) >= 2, "E6.nil", "Policy.Assemble/arch-nil-guards", p.Pos(pa.Pos()), "both the policy's and the group's architecture pointers are set before they are used", fmt.Sprintf("%d of the 2 nil guards on architecture pointers found: a nil pointer would be dereferenced while compiling", len(guards)))
}

// archLocalRoute: the tested pointer v (a load of an `arch` field) joins, in a phi, with values that are non-nil by
// construction (result 0 of a (value, error) function behind its checked success, a package-level table pointer), and no
// other load of that field is dereferenced in f - every use goes through the joined local.
func archLocalRoute(f *ssa.Function, v ssa.Value, nilArm *ssa.BasicBlock) bool {
	ld, ok := v.(*ssa.UnOp)
	if !ok || ld.Op != token.MUL {
		return false
	}
	fa0, ok := ld.X.(*ssa.FieldAddr)
	if !ok {
		return false
	}
	// conditions known on the edge pred -> succ
	edgeConds := func(pred, succ *ssa.BasicBlock) []flow.Cond {
		cs := append([]flow.Cond{}, flow.DomConds(pred)...)
		if ifi, ok := flow.LastIf(pred); ok && len(pred.Succs) == 2 && pred.Succs[0] != pred.Succs[1] {
			cs = append(cs, flow.Cond{V: ifi.Cond, Pol: pred.Succs[0] == succ, At: ifi})
		}
		return cs
	}
	var nonNil func(x ssa.Value, conds []flow.Cond, depth int) bool
	nonNil = func(x ssa.Value, conds []flow.Cond, depth int) bool {
		if depth > 4 {
			return false
		}
		switch y := x.(type) {
		case *ssa.Extract:
			if c, ok := y.Tuple.(*ssa.Call); ok && y.Index == 0 {
				if cal := flow.Callee(c); cal != nil && nilOnlyWithError(cal, 0) {
					if errv := flow.ErrResult(c); errv != nil {
						nn, known := flow.ErrNonNil(conds, errv)
						return known && !nn
					}
				}
			}
			return false
		case *ssa.Phi:
			for i, e := range y.Edges {
				if !nonNil(e, edgeConds(y.Block().Preds[i], y.Block()), depth+1) {
					return false
				}
			}
			return true
		case *ssa.UnOp:
			if g, ok := y.X.(*ssa.Global); ok && y.Op == token.MUL && g.Pkg != nil && g.Pkg.Pkg.Path() == load.PkgArch {
				return true
			}
		}
		// the tested value itself where `v != nil` holds
		if x == v {
			for _, cd := range conds {
				c := flow.Norm(cd)
				if bo, ok := c.V.(*ssa.BinOp); ok && bo.X == v && flow.IsNilConst(bo.Y) && ((bo.Op == token.NEQ && c.Pol) || (bo.Op == token.EQL && !c.Pol)) {
					return true
				}
			}
		}
		return false
	}
	joined := false
	for _, b := range f.Blocks {
		for _, in := range b.Instrs {
			ph, ok := in.(*ssa.Phi)
			if !ok {
				continue
			}
			uses := false
			for _, e := range ph.Edges {
				if e == v {
					uses = true
				}
			}
			if uses && nonNil(ph, flow.DomConds(b), 0) {
				joined = true
			}
		}
	}
	if !joined {
		return false
	}
	// no dereference through any load of the same field
	for _, b := range f.Blocks {
		for _, in := range b.Instrs {
			l2, ok := in.(*ssa.UnOp)
			if !ok || l2.Op != token.MUL {
				continue
			}
			fa, ok := l2.X.(*ssa.FieldAddr)
			if !ok || fa.Field != fa0.Field || fa.X != fa0.X || l2.Referrers() == nil {
				continue
			}
			for _, ref := range *l2.Referrers() {
				switch r := ref.(type) {
				case *ssa.FieldAddr:
					if r.X == ssa.Value(l2) {
						return false
					}
				case *ssa.UnOp:
					if r.Op == token.MUL && r.X == ssa.Value(l2) {
						return false
					}
				case *ssa.Call:
					// handed on as a receiver/argument: it may be dereferenced there
					if l2 != ld {
						return false
					}
				}
			}
		}
	}
	return true
}

func baseName(s string) string {
	if strings.Contains(s, ".Syscalls[") || strings.Contains(s, "alloc:") {
		return "group"
	}
	if strings.Contains(s, "param:") {
		return "policy"
	}
	return "other"
}

// entryGuards enumerates the paths of one iteration of the two name loops of the validation function and reports, per
// rejection class, whether every path that produces an entry (appends one, or merges conditions into an existing one)
// carries the guard that excludes the defect.
func entryGuards(p *load.Program, ts *ssa.Function) map[string]bool {
	out := map[string]bool{}
	res := origin.NewResolver()
	getSys := p.Func(load.PkgRoot, "getSyscall")
	g := flow.G(ts)
	type pathT struct {
		conds  []flow.Cond
		append bool // a new entry is appended
		merge  bool // conditions are stored into an existing entry
	}
	isFound := func(cd flow.Cond) bool {
		c := flow.Norm(cd)
		ex, ok := c.V.(*ssa.Extract)
		if !ok || ex.Index != 1 || !c.Pol {
			return false
		}
		switch t := ex.Tuple.(type) {
		case *ssa.Lookup:
			mo := res.Of(t.X, nil, t)
			return mo.Kind == origin.KField && mo.Field.Name() == "SyscallNames"
		case *ssa.Call:
			// (number, found) helper, verified by numberOrigin on the number it returns
			if h := flow.Callee(t); h != nil && h.Signature.Results().Len() == 2 {
				if num := flow.ResultN(t, 0); num != nil {
					// the helper analysis does not depend on the use site: ask for the helper part only
					ok, detail := numberOrigin(origin.NewResolver(), num, t, t.Block(), 0)
					return ok || strings.Contains(detail, "helper-returns-table-number=true")
				}
			}
		}
		return false
	}
	isNilCmp := func(cd flow.Cond) (call *ssa.Call, isNil bool, ok bool) {
		c := flow.Norm(cd)
		bo, isBo := c.V.(*ssa.BinOp)
		if !isBo || (bo.Op != token.EQL && bo.Op != token.NEQ) {
			return nil, false, false
		}
		v := bo.X
		if flow.IsNilConst(bo.X) {
			v = bo.Y
		} else if !flow.IsNilConst(bo.Y) {
			return nil, false, false
		}
		cl, isCall := v.(*ssa.Call)
		if !isCall || getSys == nil || flow.Callee(cl) != getSys {
			return nil, false, false
		}
		return cl, (bo.Op == token.EQL) == c.Pol, true
	}
	for _, l := range flow.CountedLoops(ts) {
		over := res.Of(l.Over, nil, nil).String()
		kind := ""
		switch {
		case strings.Contains(over, "NamesWithCondtions"):
			kind = "NamesWithCondtions"
		case strings.Contains(over, ".Names"):
			kind = "Names"
		default:
			continue
		}
		var paths []pathT
		var walk func(b *ssa.BasicBlock, cur pathT, seen map[*ssa.BasicBlock]bool)
		walk = func(b *ssa.BasicBlock, cur pathT, seen map[*ssa.BasicBlock]bool) {
			if len(paths) > 2048 || seen[b] {
				return
			}
			if b == l.Header {
				paths = append(paths, cur)
				return
			}
			seen[b] = true
			defer delete(seen, b)
			for _, in := range b.Instrs {
				switch x := in.(type) {
				case *ssa.Call:
					if a := isAppend(x); a != nil {
						if st, ok := a.Type().Underlying().(*types.Slice); ok && isNamed(st.Elem(), load.PkgRoot, "SyscallWithConditions") {
							cur.append = true
						}
					}
				case *ssa.Store:
					if fa, ok := x.Addr.(*ssa.FieldAddr); ok && fieldName(fa) == "Conditions" {
						if pt, ok := fa.X.Type().Underlying().(*types.Pointer); ok && isNamed(pt.Elem(), load.PkgRoot, "SyscallWithConditions") {
							if c, ok := fa.X.(*ssa.Call); ok && getSys != nil && flow.Callee(c) == getSys {
								cur.merge = true
							}
						}
					}
				}
			}
			succs := g.Succs(b)
			if len(succs) == 0 {
				return
			}
			if ifi, ok := flow.LastIf(b); ok && len(succs) == 2 && succs[0] != succs[1] {
				for k, pol := range []bool{true, false} {
					nc := pathT{append(append([]flow.Cond{}, cur.conds...), flow.Cond{V: ifi.Cond, Pol: pol, At: ifi}), cur.append, cur.merge}
					walk(succs[k], nc, seen)
				}
				return
			}
			for _, sx := range succs {
				walk(sx, cur, seen)
			}
		}
		walk(l.Body, pathT{}, map[*ssa.BasicBlock]bool{})
		nEntry := 0
		allFound, allNoDup, mergeGuarded := true, true, true
		for _, pt := range paths {
			if !pt.append && !pt.merge {
				continue
			}
			nEntry++
			found, nodup, existing, hasConds := false, false, false, false
			for _, cd := range pt.conds {
				if isFound(cd) {
					found = true
				}
				if _, isNil, ok := isNilCmp(cd); ok {
					if isNil {
						nodup = true
					} else {
						existing = true
					}
				}
				if arg, pr, ok := flow.LenPred(cd.V, cd.Pol); ok && pr.NonZero() {
					if o := res.Of(arg, nil, nil); o.Kind == origin.KField && o.Field.Name() == "Conditions" && originCalls(o, getSys) {
						hasConds = true
					}
				}
			}
			if !found {
				allFound = false
			}
			if pt.append && !nodup {
				allNoDup = false
			}
			if pt.merge && !(existing && hasConds) {
				mergeGuarded = false
			}
		}
		if nEntry == 0 {
			continue
		}
		out["unknown-name/"+kind] = allFound
		if kind == "Names" {
			out["duplicate"] = allNoDup
		} else {
			out["conditional+unconditional"] = mergeGuarded
		}
	}
	return out
}

// errIffNonEmpty: a helper of the module with one parameter (or receiver) of a []string type that returns a nil error exactly
// when that list is empty: every return of nil sits behind `len(list) == 0`, every other return is provably non-nil.
func errIffNonEmpty(h *ssa.Function) bool {
	if h == nil || len(h.Blocks) == 0 || h.Pkg == nil || !strings.HasPrefix(h.Pkg.Pkg.Path(), load.Module) || len(h.Params) != 1 {
		return false
	}
	st, ok := h.Params[0].Type().Underlying().(*types.Slice)
	if !ok || !isProblemElem(st.Elem()) {
		return false
	}
	res := h.Signature.Results()
	if res.Len() != 1 || !flow.IsErrorType(res.At(0).Type()) {
		return false
	}
	nNil, nErr := 0, 0
	for _, ret := range flow.Returns(h) {
		rv := flow.RetResults(ret)[0]
		emptyHere, nonEmptyHere := false, false
		for _, cd := range flow.DomConds(ret.Block()) {
			if arg, pr, ok := flow.LenPred(cd.V, cd.Pol); ok && flow.StripConv(arg) == ssa.Value(h.Params[0]) {
				if pr.OnlyZero() {
					emptyHere = true
				}
				if pr.NonZero() {
					nonEmptyHere = true
				}
			}
		}
		switch {
		case flow.IsNilConst(rv) && emptyHere:
			nNil++
		case !flow.IsNilConst(rv) && nonEmptyHere && flow.KnownNonNilError(rv, ret.Block()):
			nErr++
		default:
			return false
		}
	}
	return nNil >= 1 && nErr >= 1
}
