package rules

import (
	"fmt"
	"go/constant"
	"go/token"
	"go/types"
	"sort"
	"strings"

	"golang.org/x/tools/go/ssa"

	"sbpfcheck/effects"
	"sbpfcheck/flow"
	"sbpfcheck/load"
	"sbpfcheck/tables"
)

func init() {
	Specs["C13"] = &Spec{
		Level: "other",
		Explanation: "Effect analysis over everything reachable from the exported API of the root package and of arch (init functions excluded): (maporder) every range over a map is classified by its body as order-insensitive " +
			"(writes only cells determined by its own key/value, or a search whose match is unique because the literal's values are pairwise distinct) or order-sensitive (accumulates by append/concatenation, or exits on a " +
			"condition several entries can satisfy) - sensitive is a violation; (globals/owner) a field-insensitive inclusion-based points-to analysis with abstract CALLER / GLOBAL / OTHER memory shows that no store, map " +
			"update, append-into, copy-into or known mutating library call can touch memory reachable from a policy argument (one whitelisted unexported, idempotent cell: Policy.arch) or from a package-level variable; " +
			"(noconc) no goroutine, channel or sync/atomic use. Hence the output is a function of the input value and read-only tables, the input is not modified, and compilations of distinct policy values share no written location.",
		Trusted:     []string{"go/ssa", "purpose-built points-to analysis (effects package): field- and context-insensitive over-approximation; summaries for append/copy/delete, sort.*/slices.* mutators, and a list of read-only packages (fmt, strings, errors, strconv, x/net/bpf, syscall, ...)", "map literal values pairwise distinct (checked here for the maps that are searched or inverted)"},
		Assumptions: []string{"race-freedom is argued for distinct policy values (what the statement quantifies over); the same *Policy compiled concurrently writes the whitelisted cell Policy.arch", "slices stored under distinct keys of Program.labels do not alias (each is built by its own appends)"},
		Run:         runC13,
	}
}

var policyTypeNames = map[string]bool{"Policy": true, "SyscallGroup": true, "Filter": true, "NameWithConditions": true, "Condition": true, "ArgumentConditions": true, "SyscallWithConditions": true}

func isPolicyType(t types.Type) bool {
	seen := map[types.Type]bool{}
	var walk func(t types.Type) bool
	walk = func(t types.Type) bool {
		if seen[t] {
			return false
		}
		seen[t] = true
		switch x := t.(type) {
		case *types.Named:
			if x.Obj().Pkg() != nil && x.Obj().Pkg().Path() == load.PkgRoot && policyTypeNames[x.Obj().Name()] {
				return true
			}
			return walk(x.Underlying())
		case *types.Pointer:
			return walk(x.Elem())
		case *types.Slice:
			return walk(x.Elem())
		case *types.Array:
			return walk(x.Elem())
		}
		return false
	}
	return walk(t)
}

func exportedRoots(p *load.Program, pkgPath string) []*ssa.Function {
	var out []*ssa.Function
	for _, f := range p.SrcFuncs(pkgPath) {
		if f.Parent() != nil || f.Name() == "init" || strings.HasPrefix(f.Name(), "init#") {
			continue
		}
		obj, _ := f.Object().(*types.Func)
		if obj == nil || !obj.Exported() {
			continue
		}
		if recv := f.Signature.Recv(); recv != nil {
			t := recv.Type()
			if pt, ok := t.(*types.Pointer); ok {
				t = pt.Elem()
			}
			if n, ok := t.(*types.Named); ok && !n.Obj().Exported() {
				continue
			}
		}
		out = append(out, f)
	}
	return out
}

func runC13(e *Env) {
	r := e.R
	p := e.Host()
	a := effects.New(load.Module, isPolicyType)
	var all []*ssa.Function
	for _, pp := range []string{load.PkgRoot, load.PkgArch} {
		all = append(all, p.SrcFuncs(pp)...)
	}
	a.RegisterMethods(all)
	policyRoots := map[string]bool{"Policy.Assemble": true, "Policy.Validate": true, "Policy.Dump": true, "SyscallGroup.Assemble": true, "LoadFilter": true,
		"SyscallWithConditions.Assemble": true, "ArgumentConditions.Validate": true}
	var roots []*ssa.Function
	for _, pp := range []string{load.PkgRoot, load.PkgArch} {
		roots = append(roots, exportedRoots(p, pp)...)
	}
	nPolicy := 0
	for _, f := range roots {
		isP := f.Pkg.Pkg.Path() == load.PkgRoot && policyRoots[load.FuncName(f)]
		if isP {
			nPolicy++
		}
		a.AddRoot(f, isP)
	}
	a.Run()
	r.Count("API roots (exported functions and methods of the root package and arch)", len(roots))
	r.Count("policy entry points (their policy-typed parameters are caller-owned)", nPolicy)
	r.Count("functions reachable from the roots", len(a.Funcs))
	r.Count("stores and map updates classified", a.NStores)
	r.Floor("E5(roots)", len(roots), 10)
	r.Floor("E5(policy roots)", nPolicy, 3)
	r.Floor("E5(reachable functions)", len(a.Funcs), 15)
	r.Floor("E5(stores classified)", a.NStores, 10)

	// ---- writes
	type wkey struct{ rule, key string }
	seen := map[wkey]bool{}
	nWhite := 0
	sort.Slice(a.Writes, func(i, j int) bool { return a.Writes[i].Instr.Pos() < a.Writes[j].Instr.Pos() })
	callerDest := map[ssa.Instruction]bool{}
	for _, w := range a.Writes {
		if w.Obj.Kind == effects.Caller {
			callerDest[w.Instr] = true
		}
	}
	for _, w := range a.Writes {
		// field-insensitivity: a struct copied from the caller that also received a pointer to a table makes
		// everything loaded from it look "caller or global"; report such a write once, as caller-owned.
		if w.Obj.Kind == effects.Global && callerDest[w.Instr] {
			continue
		}
		fnName := load.FuncName(w.Fn)
		rule := "E5.owner"
		if w.Obj.Kind == effects.Global {
			rule = "E5.globals"
		}
		key := fnName + "/" + w.What
		if seen[wkey{rule, key}] {
			continue
		}
		seen[wkey{rule, key}] = true
		if rule == "E5.owner" && w.What == "store field Policy.arch" && idempotentArchDefault(w.Instr) {
			nWhite++
			r.OK(rule, key, p.Pos(w.Instr.Pos()), "whitelisted: unexported field, idempotent function of runtime.GOARCH, invisible through the API")
			continue
		}
		if rule == "E5.owner" {
			r.Bad(rule, key, p.Pos(w.Instr.Pos()), fmt.Sprintf("%s in %s may write memory reachable from the caller's policy: compiling modifies the caller's value (and races with a concurrent compilation of a copy that shares it)", w.What, fnName))
		} else {
			r.Bad(rule, key, p.Pos(w.Instr.Pos()), fmt.Sprintf("%s in %s may write package-level state after initialisation: results depend on call history and concurrent calls race", w.What, fnName))
		}
	}
	for _, u := range a.Undecided {
		r.Unknown("E5.owner", load.FuncName(u.Fn)+"/"+u.What, p.Pos(u.Instr.Pos()), u.What)
	}
	nBad := 0
	for _, o := range r.Obligations() {
		if (o.Rule == "E5.owner" || o.Rule == "E5.globals") && o.Status != "discharged" {
			nBad++
		}
	}
	if nBad == 0 {
		r.OK("E5.owner", "no-write-to-caller-memory", "", fmt.Sprintf("%d stores/map updates/appends in %d functions: none may write caller-owned memory (besides the whitelisted cell)", a.NStores, len(a.Funcs)))
		r.OK("E5.globals", "no-write-to-globals", "", "no reachable function outside init writes memory reachable from a package-level variable")
	}

	// ---- map ranges
	nRanges := 0
	var fns []*ssa.Function
	for f := range a.Funcs {
		fns = append(fns, f)
	}
	// invert runs during package initialisation only, but the tables it builds are what every lookup reads: classify it too
	if inv := p.Func(load.PkgArch, "invert"); inv != nil && !a.Funcs[inv] {
		fns = append(fns, inv)
	}
	sort.Slice(fns, func(i, j int) bool { return fns[i].Pos() < fns[j].Pos() })
	for _, f := range fns {
		for _, b := range f.Blocks {
			for _, in := range b.Instrs {
				rg, ok := in.(*ssa.Range)
				if !ok {
					continue
				}
				if _, isMap := rg.X.Type().Underlying().(*types.Map); !isMap {
					continue
				}
				nRanges++
				cls, why := classifyMapRange(e, p, f, rg)
				key := load.FuncName(f) + "/range-over-map"
				if cls == "insensitive" {
					r.OK("E5.maporder", key, p.Pos(rg.Pos()), why)
				} else if cls == "sensitive" {
					r.Bad("E5.maporder", key, p.Pos(rg.Pos()), "the result depends on map iteration order: "+why)
				} else {
					r.Unknown("E5.maporder", key, p.Pos(rg.Pos()), "map range not classified: "+why)
				}
			}
		}
	}
	r.Count("ranges over maps classified", nRanges)
	r.Floor("E5.maporder(map ranges)", nRanges, 1)

	// ---- no concurrency constructs
	nConc := 0
	for f := range a.Funcs {
		for _, b := range f.Blocks {
			for _, in := range b.Instrs {
				bad := ""
				switch x := in.(type) {
				case *ssa.Go:
					bad = "go statement"
				case *ssa.Send, *ssa.Select, *ssa.MakeChan:
					bad = "channel operation"
				case ssa.CallInstruction:
					if cal := flow.Callee(x); cal != nil && cal.Pkg != nil {
						pp := cal.Pkg.Pkg.Path()
						if pp == "sync" || pp == "sync/atomic" {
							bad = "use of " + pp
						}
					}
				}
				if bad != "" {
					nConc++
					r.Unknown("E5.noconc", load.FuncName(f)+"/"+bad, p.Pos(in.Pos()), bad+" in code reachable from the API: the race-freedom argument (no shared written location) no longer goes through as is")
				}
			}
		}
	}
	if nConc == 0 {
		r.OK("E5.noconc", "no-concurrency-constructs", "", "no go statement, channel operation or sync/atomic use in reachable code")
	}
}

// classifyMapRange decides whether the observable result of a range over a map can depend on iteration order.
func classifyMapRange(e *Env, p *load.Program, f *ssa.Function, rg *ssa.Range) (string, string) {
	// locate next, header, body
	var nx *ssa.Next
	for _, ref := range *rg.Referrers() {
		if n, ok := ref.(*ssa.Next); ok {
			nx = n
		}
	}
	if nx == nil {
		return "unknown", "no next"
	}
	H := nx.Block()
	ifi, ok := flow.LastIf(H)
	if !ok {
		return "unknown", "header without branch"
	}
	body := H.Succs[0]
	g := flow.G(f)
	inLoop := map[*ssa.BasicBlock]bool{}
	// loop body = blocks dominated by `body` from which H is reachable (or exits)
	for _, b := range f.Blocks {
		if g.Live(b) && g.EdgeDominates(H, body, b) {
			inLoop[b] = true
		}
	}
	_ = ifi
	var kv [3]ssa.Value
	for _, ref := range *nx.Referrers() {
		if ex, ok := ref.(*ssa.Extract); ok {
			kv[ex.Index] = ex
		}
	}
	// the iteration's value: the value variable of the range statement, or the ranged map looked up at the iteration's key
	isIterVal := func(v ssa.Value) bool {
		if kv[2] != nil && v == kv[2] {
			return true
		}
		lk, ok := v.(*ssa.Lookup)
		return ok && !lk.CommaOk && kv[1] != nil && lk.Index == kv[1] && (lk.X == rg.X || sameLoadedValue(lk.X, rg.X))
	}
	derived := func(v ssa.Value) bool {
		return derivesFromP(v, func(x ssa.Value) bool { return (kv[1] != nil && x == kv[1]) || isIterVal(x) }, 0)
	}
	// 1. loop-carried accumulators at the header
	for _, in := range H.Instrs {
		ph, ok := in.(*ssa.Phi)
		if !ok {
			continue
		}
		for i, ed := range ph.Edges {
			if !inLoop[H.Preds[i]] && H.Preds[i] != H {
				continue
			}
			if ed == ssa.Value(ph) {
				continue
			}
			// value changes inside the loop
			switch x := ed.(type) {
			case *ssa.Call:
				if isAppend(x) != nil {
					if !sortedBeforeUse(f, ph) {
						return "sensitive", fmt.Sprintf("%s accumulates by append in map order and is not sorted before use", nameOfPhi(ph))
					}
					continue
				}
			case *ssa.BinOp:
				if bt, ok := x.Type().Underlying().(*types.Basic); ok && bt.Info()&types.IsString != 0 && x.Op == token.ADD {
					return "sensitive", nameOfPhi(ph) + " is concatenated in map order"
				}
				if x.Op == token.ADD || x.Op == token.OR || x.Op == token.AND || x.Op == token.XOR || x.Op == token.MUL {
					continue // commutative and associative on integers / booleans
				}
				// other integer updates such as f ^= flag are XOR (handled); anything else:
				return "unknown", nameOfPhi(ph) + " is updated by a non-commutative operation"
			case *ssa.Phi:
				// nested join: examine its inputs conservatively
				for _, e2 := range x.Edges {
					if c2, ok := e2.(*ssa.Call); ok && isAppend(c2) != nil && !sortedBeforeUse(f, ph) {
						return "sensitive", fmt.Sprintf("%s accumulates by append in map order and is not sorted before use", nameOfPhi(ph))
					}
					if b2, ok := e2.(*ssa.BinOp); ok {
						if bt, ok := b2.Type().Underlying().(*types.Basic); ok && bt.Info()&types.IsString != 0 {
							return "sensitive", nameOfPhi(ph) + " is concatenated in map order"
						}
					}
				}
			default:
				return "unknown", fmt.Sprintf("%s changes in the loop by %T", nameOfPhi(ph), ed)
			}
		}
	}
	// 2. writes inside the body
	why := []string{}
	for b := range inLoop {
		for _, in := range b.Instrs {
			switch x := in.(type) {
			case *ssa.MapUpdate:
				if !derived(x.Key) {
					return "sensitive", "a map cell not determined by the iteration's own key/value is written (last writer wins)"
				}
				// a set insertion (`seen[x] = struct{}{}`, `seen[x] = true`): every writer of a cell writes the same constant,
				// so it does not matter who comes last
				if isConstOrEmptyStruct(x.Value) {
					why = append(why, "inserts into a set (constant cell value)")
					continue
				}
				// distinct iterations must write distinct keys: key derived from k is distinct; from v needs injective values
				if derivesFromP(x.Key, isIterVal, 0) {
					if ok, detail := injectiveSources(e, p, f, rg); !ok {
						return "sensitive", "cells are keyed by the ranged map's values, which are not pairwise distinct (" + detail + "): last writer wins"
					}
					why = append(why, "writes out[value] = key; values pairwise distinct in every table passed in")
				} else {
					why = append(why, "writes a cell keyed by the iteration's key")
				}
			case *ssa.Store:
				// element of the iteration's own value (in-place update of its slice), or the search result before an exit
				if ia, ok := x.Addr.(*ssa.IndexAddr); ok && derived(ia.X) {
					why = append(why, "updates elements of the iteration's own value")
					continue
				}
				if _, isAlloc := x.Addr.(*ssa.Alloc); isAlloc {
					continue
				}
				if ia, ok := x.Addr.(*ssa.IndexAddr); ok {
					if _, isAlloc := ia.X.(*ssa.Alloc); isAlloc {
						continue // varargs array
					}
				}
				// store followed by leaving the loop: a search
				exits := false
				for _, s := range g.Succs(b) {
					if !inLoop[s] && s != H {
						exits = true
					}
				}
				if len(g.Succs(b)) == 0 {
					exits = true
				}
				if exits && derived(x.Val) {
					if ok, detail := uniqueMatch(e, p, f, rg, b, kv); ok {
						why = append(why, "search: "+detail)
						continue
					} else {
						return "sensitive", "the loop stores the first matching entry and exits, and several entries can match (" + detail + ")"
					}
				}
				return "unknown", "store to " + x.Addr.String() + " inside the loop"
			case *ssa.Return:
				// returning inside the loop: result must not depend on which of several matches came first
				for _, res := range flow.RetResults(x) {
					if derived(res) {
						if ok, detail := uniqueMatch(e, p, f, rg, b, kv); !ok {
							return "sensitive", "returns the first matching entry and several can match (" + detail + ")"
						}
					}
				}
			}
		}
	}
	if len(why) == 0 {
		why = append(why, "no order-dependent effect in the body")
	}
	return "insensitive", strings.Join(why, "; ")
}

// isConstOrEmptyStruct: a compile-time constant, or a value of a type without content (struct{}).
func isConstOrEmptyStruct(v ssa.Value) bool {
	if _, ok := v.(*ssa.Const); ok {
		return true
	}
	if st, ok := v.Type().Underlying().(*types.Struct); ok && st.NumFields() == 0 {
		return true
	}
	return false
}

func nameOfPhi(ph *ssa.Phi) string {
	if ph.Comment != "" {
		return "variable " + ph.Comment
	}
	return "a loop-carried variable"
}

func derivesFrom(v, k, val ssa.Value, depth int) bool {
	return derivesFromP(v, func(x ssa.Value) bool { return (k != nil && x == k) || (val != nil && x == val) }, depth)
}

// derivesFromP: v is a leaf, or a projection / conversion of one.
func derivesFromP(v ssa.Value, leaf func(ssa.Value) bool, depth int) bool {
	if v == nil || depth > 8 {
		return false
	}
	if leaf(v) {
		return true
	}
	k, val := ssa.Value(nil), ssa.Value(nil)
	_ = k
	_ = val
	switch x := v.(type) {
	case *ssa.Convert:
		return derivesFromP(x.X, leaf, depth+1)
	case *ssa.ChangeType:
		return derivesFromP(x.X, leaf, depth+1)
	case *ssa.MakeInterface:
		return derivesFromP(x.X, leaf, depth+1)
	case *ssa.UnOp:
		return derivesFromP(x.X, leaf, depth+1)
	case *ssa.FieldAddr:
		return derivesFromP(x.X, leaf, depth+1)
	case *ssa.IndexAddr:
		return derivesFromP(x.X, leaf, depth+1)
	case *ssa.Field:
		return derivesFromP(x.X, leaf, depth+1)
	case *ssa.Slice:
		return derivesFromP(x.X, leaf, depth+1)
	}
	return false
}

// sortedBeforeUse: the accumulator's final value is handed to sort.* before any other use outside the loop.
func sortedBeforeUse(f *ssa.Function, ph *ssa.Phi) bool {
	var sortCall ssa.Instruction
	for _, ref := range *ph.Referrers() {
		if c, ok := ref.(*ssa.Call); ok {
			if cal := flow.Callee(c); cal != nil && cal.Pkg != nil && (cal.Pkg.Pkg.Path() == "sort" || cal.Pkg.Pkg.Path() == "slices") {
				sortCall = c
			}
		}
	}
	if sortCall == nil {
		return false
	}
	for _, ref := range *ph.Referrers() {
		if ref == sortCall {
			continue
		}
		if _, isPhi := ref.(*ssa.Phi); isPhi {
			continue
		}
		if c, ok := ref.(*ssa.Call); ok && isAppend(c) != nil {
			continue
		}
		if !flow.InstrDominates(sortCall, ref) {
			return false
		}
	}
	return true
}

// mapLiteralInjective: the package-level map literal has pairwise distinct values.
func mapLiteralInjective(p *load.Program, g *ssa.Global) (bool, string) {
	pk := p.Pkgs[g.Pkg.Pkg.Path()]
	if pk == nil {
		return false, "package of " + g.Name() + " not loaded"
	}
	for _, m := range tables.MapLits(pk) {
		if m.Obj != g.Object() {
			continue
		}
		seen := map[string]bool{}
		for _, row := range m.Rows {
			if row.Val == nil {
				return false, "non-constant value in " + g.Name()
			}
			s := row.Val.ExactString()
			if row.Val.Kind() == constant.String {
				s = constant.StringVal(row.Val)
			}
			if seen[s] {
				return false, fmt.Sprintf("%s lists %q twice", g.Name(), s)
			}
			seen[s] = true
		}
		return true, fmt.Sprintf("%s: %d pairwise distinct values", g.Name(), len(m.Rows))
	}
	return false, g.Name() + " is not a map literal"
}

// injectiveSources: every map value that can reach the ranged parameter is an injective literal.
func injectiveSources(e *Env, p *load.Program, f *ssa.Function, rg *ssa.Range) (bool, string) {
	if g := loadOfGlobal(rg.X); g != nil {
		return mapLiteralInjective(p, g)
	}
	prm, ok := rg.X.(*ssa.Parameter)
	if !ok {
		return false, "the ranged map is neither a package-level literal nor a parameter"
	}
	idx := -1
	for i, q := range f.Params {
		if q == prm {
			idx = i
		}
	}
	n := 0
	for _, pkgPath := range []string{load.PkgRoot, load.PkgArch} {
		fns := p.SrcFuncs(pkgPath)
		if sp := p.SSAPkg[pkgPath]; sp != nil {
			if init := sp.Func("init"); init != nil {
				fns = append(fns, init)
			}
		}
		for _, caller := range fns {
			for _, c := range callsToFn(caller, f) {
				n++
				g := loadOfGlobal(c.Call.Args[idx])
				if g == nil {
					return false, "a call passes a map that is not a package-level literal"
				}
				if ok, d := mapLiteralInjective(p, g); !ok {
					return false, d
				}
			}
		}
	}
	if n == 0 {
		return false, "no call site found"
	}
	return true, fmt.Sprintf("%d call sites, each passes an injective literal", n)
}

// uniqueMatch: the exit is guarded by an equality between the iteration's value (or key) and a loop-invariant
// value, and the ranged map's values are pairwise distinct: at most one entry matches.
func uniqueMatch(e *Env, p *load.Program, f *ssa.Function, rg *ssa.Range, b *ssa.BasicBlock, kv [3]ssa.Value) (bool, string) {
	for _, cd := range flow.DomConds(b) {
		bo, ok := cd.V.(*ssa.BinOp)
		if !ok || bo.Op != token.EQL || !cd.Pol {
			continue
		}
		for _, pair := range [][2]ssa.Value{{bo.X, bo.Y}, {bo.Y, bo.X}} {
			if pair[0] == kv[1] {
				return true, "exit guarded by key == x: keys are unique"
			}
			if pair[0] == kv[2] {
				if ok, d := injectiveSources(e, p, f, rg); ok {
					return true, "exit guarded by value == x; " + d
				} else {
					return false, d
				}
			}
		}
	}
	return false, "no equality guard on the iteration's key or value"
}

// sameLoadedValue: the same SSA value or two loads of the same address.
func sameLoadedValue(a, b ssa.Value) bool {
	if a == b {
		return true
	}
	la, ok1 := a.(*ssa.UnOp)
	lb, ok2 := b.(*ssa.UnOp)
	return ok1 && ok2 && la.Op == token.MUL && lb.Op == token.MUL && la.X == lb.X
}

// idempotentArchDefault: the store `p.arch = info` where info is the result of arch.GetInfo("") and the store is only
// reached when p.arch was nil: an unexported cell, set to a function of runtime.GOARCH, invisible through the API -
// wherever in the package it is written.
func idempotentArchDefault(in ssa.Instruction) bool {
	st, ok := in.(*ssa.Store)
	if !ok {
		return false
	}
	ex, ok := st.Val.(*ssa.Extract)
	if !ok || ex.Index != 0 {
		return false
	}
	c, ok := ex.Tuple.(*ssa.Call)
	if !ok || !flow.CalleeIs(c, load.PkgArch, "GetInfo") || len(c.Call.Args) != 1 {
		return false
	}
	if s, ok := flow.ConstString(c.Call.Args[0]); !ok || s != "" {
		return false
	}
	fa, ok := st.Addr.(*ssa.FieldAddr)
	if !ok {
		return false
	}
	for _, cd := range flow.DomConds(st.Block()) {
		cn := flow.Norm(cd)
		bo, ok := cn.V.(*ssa.BinOp)
		if !ok || !flow.IsNilConst(bo.Y) {
			continue
		}
		ld, ok := bo.X.(*ssa.UnOp)
		if !ok {
			continue
		}
		fa0, ok := ld.X.(*ssa.FieldAddr)
		if !ok || fa0.X != fa.X || fa0.Field != fa.Field {
			continue
		}
		if (bo.Op == token.EQL && cn.Pol) || (bo.Op == token.NEQ && !cn.Pol) {
			return true
		}
	}
	return false
}

// checkPolicyReadOnly (rule E1.readonly, used by C01 and C03): the statements about "the policy" and "the compiled program"
// assume one policy value: compiling must not write memory reachable from the caller's policy, or what a later group is
// compiled from is no longer what the caller wrote (an `append` to a caller-owned slice with spare capacity overwrites the
// names of a group that shares the array). Same effect analysis as C13's E5.owner, with the compile entry points as roots.
func checkPolicyReadOnly(e *Env, p *load.Program, rule string) {
	r := e.R
	a := effects.New(load.Module, isPolicyType)
	var all []*ssa.Function
	for _, pp := range []string{load.PkgRoot, load.PkgArch} {
		all = append(all, p.SrcFuncs(pp)...)
	}
	a.RegisterMethods(all)
	n := 0
	for _, name := range []string{"Policy.Assemble", "SyscallGroup.Assemble", "SyscallWithConditions.Assemble", "Policy.Validate"} {
		if f := p.Func(load.PkgRoot, name); f != nil {
			a.AddRoot(f, true)
			n++
		}
	}
	if n < 2 {
		r.Unknown(rule, "roots", "", "the compile entry points were not found")
		return
	}
	a.Run()
	seen := map[string]bool{}
	bad := 0
	sort.Slice(a.Writes, func(i, j int) bool { return a.Writes[i].Instr.Pos() < a.Writes[j].Instr.Pos() })
	for _, w := range a.Writes {
		if w.Obj.Kind == effects.Global {
			// the compiler as a function of the policy: E1's schema is extracted from the generator's code on the
			// assumption that nothing but the policy (and the constant tables) decides what is emitted. A write to
			// package-level state on the compile path - a cache of assembled groups, a counter, a "last architecture" -
			// makes the program compiled for one policy depend on what was compiled before (seed C05g: a cache whose key
			// prints the action with %s, so two unnamed actions share one entry and the second policy returns the
			// first one's action)
			key := load.FuncName(w.Fn) + "/package-state/" + w.What
			if seen[key] {
				continue
			}
			seen[key] = true
			bad++
			r.Bad(rule, key, p.Pos(w.Instr.Pos()), fmt.Sprintf("%s in %s may write package-level state while a policy is compiled: what is emitted for a policy can then depend on the policies compiled before it, which the label-level argument (one policy -> one program) does not cover", w.What, load.FuncName(w.Fn)))
			continue
		}
		if w.Obj.Kind != effects.Caller {
			continue
		}
		key := load.FuncName(w.Fn) + "/" + w.What
		if seen[key] {
			continue
		}
		seen[key] = true
		if w.What == "store field Policy.arch" && idempotentArchDefault(w.Instr) {
			continue
		}
		bad++
		r.Bad(rule, key, p.Pos(w.Instr.Pos()), fmt.Sprintf("%s in %s may write memory reachable from the caller's policy while it is being compiled: a group or entry that is compiled later (or that shares a backing array) is then not the one the caller wrote, so the program's decisions are not the policy's", w.What, load.FuncName(w.Fn)))
	}
	for _, u := range a.Undecided {
		key := load.FuncName(u.Fn) + "/" + u.What
		if seen[key] {
			continue
		}
		seen[key] = true
		bad++
		r.Unknown(rule, key, p.Pos(u.Instr.Pos()), u.What)
	}
	// the other half of "a function of the policy": a package-level variable that the compile path *reads* is written by
	// nothing but the package initialisation - not by an exported setter, a test hook compiled into the library, or the
	// loader (`SetDenyErrno(n)` feeding the return builder would make equal policies compile to different programs)
	{
		reads := map[*ssa.Global]bool{}
		for f := range a.Funcs {
			for _, b := range f.Blocks {
				for _, in := range b.Instrs {
					var ops []*ssa.Value
					for _, op := range in.Operands(ops) {
						if g, ok := (*op).(*ssa.Global); ok && g.Pkg != nil && strings.HasPrefix(g.Pkg.Pkg.Path(), load.Module) {
							reads[g] = true
						}
					}
				}
			}
		}
		rootOf := func(v ssa.Value) *ssa.Global {
			for i := 0; i < 8; i++ {
				switch x := v.(type) {
				case *ssa.Global:
					return x
				case *ssa.FieldAddr:
					v = x.X
				case *ssa.IndexAddr:
					v = x.X
				case *ssa.UnOp:
					v = x.X
				default:
					return nil
				}
			}
			return nil
		}
		isInit := func(f *ssa.Function) bool {
			for f != nil && f.Parent() != nil {
				f = f.Parent()
			}
			return f != nil && (f.Name() == "init" || strings.HasPrefix(f.Name(), "init#"))
		}
		nW := 0
		for _, f := range all {
			if isInit(f) {
				continue
			}
			for _, b := range f.Blocks {
				for _, in := range b.Instrs {
					var g *ssa.Global
					what := ""
					switch x := in.(type) {
					case *ssa.Store:
						g, what = rootOf(x.Addr), "store"
					case *ssa.MapUpdate:
						g, what = rootOf(x.Map), "map update"
					}
					if g == nil || !reads[g] {
						continue
					}
					key := load.FuncName(f) + "/writes-compile-input/" + g.Name()
					if seen[key] {
						continue
					}
					seen[key] = true
					nW++
					bad++
					r.Bad(rule, key, p.Pos(in.Pos()), fmt.Sprintf("%s to the package-level variable %s in %s, outside the package initialisation: the compile path reads %s, so what is emitted for a policy depends on calls made before - equal policies can compile to different programs", what, g.Name(), load.FuncName(f), g.Name()))
				}
			}
		}
		r.Count("package-level variables the compile path reads", len(reads))
	}
	if bad == 0 {
		r.OK(rule, "policy-not-written-while-compiled", "", fmt.Sprintf("%d stores/map updates/appends in %d functions reachable from the compile entry points: none may write memory reachable from the policy or package-level state", a.NStores, len(a.Funcs)))
	}
}
