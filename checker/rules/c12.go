package rules

import (
	"fmt"
	"go/ast"
	"go/constant"
	"go/parser"
	"go/token"
	"go/types"
	"path/filepath"
	"sort"
	"strings"

	"golang.org/x/tools/go/packages"
	"golang.org/x/tools/go/ssa"

	"sbpfcheck/flow"
	"sbpfcheck/load"
	"sbpfcheck/tables"
)

func init() {
	Specs["C12"] = &Spec{
		Level: "proof",
		Explanation: "Every row of every syscall table literal in arch/ is read from the type-checked source and compared by name with each vendored oracle of its ABI " +
			"(x/sys v0.19.0, v0.29.0 and v0.48.0 zsysnum, GOROOT syscall zsysnum, kernel UAPI unistd headers); every table is checked injective; the inversion helper, the Info literals " +
			"(name / audit constant / table pairing), the audit constants (vs linux/audit.h and x/sys) and the alias map with GetInfo's dominance condition are decided structurally. " +
			"Exhaustive over the literals; relative to the oracle files.",
		Trusted: []string{"go/types constant evaluation", "go/ssa (x/tools v0.29.0)", "/verif/oracle/oracle.json (x/sys v0.19.0/v0.29.0/v0.48.0, GOROOT/src/syscall, /usr/include UAPI headers)"},
		Assumptions: []string{"rows that no oracle lists (counted in coverage.unlisted_rows) are not compared",
			"map literal keys are distinct by the language (duplicate constant keys do not compile)"},
		Run: runC12,
	}
}

// abiOf maps the Linux architecture name of an Info literal to the oracle ABI
// and the kernel AUDIT_ARCH constant it must carry.
var abiOf = map[string]struct{ abi, audit string }{
	"x86_64":  {"x86_64", "X86_64"},
	"x32":     {"x32", "X86_64"},
	"i386":    {"i386", "I386"},
	"arm":     {"arm", "ARM"},
	"aarch64": {"aarch64", "AARCH64"},
	// no table in the library today; a table added later is compared with the oracle recorded for the port
	"riscv64": {"riscv64", "RISCV64"}, "loongarch64": {"loongarch64", "LOONGARCH64"}, "ppc64": {"ppc64", "PPC64"}, "ppc64le": {"ppc64le", "PPC64LE"},
	"s390x": {"s390x", "S390X"}, "mips": {"mips", "MIPS"}, "mipsel": {"mipsel", "MIPSEL"}, "mips64": {"mips64", "MIPS64"}, "mipsel64": {"mipsel64", "MIPSEL64"},
	"ppc": {"ppc", "PPC"}, "sparc64": {"sparc64", "SPARC64"},
}

// tableRequired: the architectures the property names as supported: their Info must carry a table.
var tableRequired = map[string]bool{"x86_64": true, "x32": true, "i386": true, "arm": true, "aarch64": true}

// goarchOf: the GOARCH spelling of a Linux architecture name, where the two differ (an alias key of that spelling is the
// documented way to select the table from runtime.GOARCH).
var goarchOf = map[string]string{"x86_64": "amd64", "i386": "386", "aarch64": "arm64", "loongarch64": "loong64", "mipsel": "mipsle", "mipsel64": "mips64le"}

// auditOf gives the AUDIT_ARCH name for the table-less Info literals.
var auditOf = map[string]string{
	"ppc": "PPC", "ppc64": "PPC64", "ppc64le": "PPC64LE", "s390": "S390", "s390x": "S390X",
	"mips": "MIPS", "mipsel": "MIPSEL", "mips64": "MIPS64", "mips64n32": "MIPS64N32",
	"mipsel64": "MIPSEL64", "mipsel64n32": "MIPSEL64N32",
}

// aliasClasses are the spellings the property names; each class must resolve to
// one Info object whose Name is the first element's expectation.
var aliasClasses = []struct {
	keys []string
	name string
}{
	{[]string{"amd64", "x86_64"}, "x86_64"},
	{[]string{"386", "i386"}, "i386"},
	{[]string{"arm64", "aarch64"}, "aarch64"},
	{[]string{"x32"}, "x32"},
	{[]string{"arm"}, "arm"},
}

type infoLit struct {
	v        *types.Var
	name     string
	idObj    types.Object
	table    types.Object // var used for SyscallNumbers
	invTable types.Object // var passed to invert() for SyscallNames
	invFn    types.Object
	mask     constant.Value
	pos      token.Pos
}

func archInfoLits(pk *packages.Package) []*infoLit {
	var out []*infoLit
	for v, e := range tables.PackageVarInits(pk) {
		sl := tables.AsStructLit(pk, e)
		if sl == nil || sl.Type == nil || sl.Type.Obj().Name() != "Info" {
			continue
		}
		il := &infoLit{v: v, pos: sl.Pos}
		if e, ok := sl.Fields["Name"]; ok {
			if c := tables.ConstOf(pk, e); c != nil && c.Kind() == constant.String {
				il.name = constant.StringVal(c)
			}
		}
		if e, ok := sl.Fields["ID"]; ok {
			il.idObj = tables.ObjOf(pk, e)
		}
		if e, ok := sl.Fields["SyscallNumbers"]; ok {
			il.table = tables.ObjOf(pk, e)
		}
		if e, ok := sl.Fields["SyscallNames"]; ok {
			if call, ok := ast.Unparen(e).(*ast.CallExpr); ok && len(call.Args) == 1 {
				il.invFn = tables.ObjOf(pk, call.Fun)
				il.invTable = tables.ObjOf(pk, call.Args[0])
			}
		}
		if e, ok := sl.Fields["SeccompMask"]; ok {
			il.mask = tables.ConstOf(pk, e)
		}
		out = append(out, il)
	}
	sort.Slice(out, func(i, j int) bool { return out[i].pos < out[j].pos })
	return out
}

func runC12(e *Env) {
	r := e.R
	p := e.Host()
	pk := p.Pkgs[load.PkgArch]
	if pk == nil {
		r.Unknown("E4.load", "package arch", "", "package arch not found")
		return
	}
	or := e.Oracle()

	// ---- tables: injectivity
	var tabs []*tables.MapLit
	for _, m := range tables.MapLits(pk) {
		kb, ok1 := m.Type.Key().Underlying().(*types.Basic)
		vb, ok2 := m.Type.Elem().Underlying().(*types.Basic)
		if ok1 && ok2 && kb.Info()&types.IsInteger != 0 && vb.Info()&types.IsString != 0 && strings.HasPrefix(m.Obj.Name(), "syscalls") {
			tabs = append(tabs, m)
		}
	}
	sort.Slice(tabs, func(i, j int) bool { return tabs[i].Pos < tabs[j].Pos })
	byObj := map[types.Object]*tables.MapLit{}
	rows := 0
	for _, t := range tabs {
		byObj[t.Obj] = t
		rows += len(t.Rows)
		seen := map[string]constant.Value{}
		dups := 0
		nonconst := 0
		for _, row := range t.Rows {
			if row.Val == nil || row.Key == nil {
				nonconst++
				continue
			}
			name := constant.StringVal(row.Val)
			if prev, dup := seen[name]; dup {
				dups++
				r.Bad("E4.inj", fmt.Sprintf("%s/%s", t.Obj.Name(), name), p.Pos(row.KeyPos),
					fmt.Sprintf("table %s lists name %q under two numbers (%s and %s): name->number lookup is ambiguous and depends on map iteration order", t.Obj.Name(), name, prev, row.Key))
				continue
			}
			seen[name] = row.Key
		}
		if nonconst > 0 {
			r.Unknown("E4.inj", t.Obj.Name()+"/nonconstant", p.Pos(t.Pos), fmt.Sprintf("%d rows of %s are not constant", nonconst, t.Obj.Name()))
		}
		if dups == 0 && nonconst == 0 {
			r.OK("E4.inj", t.Obj.Name(), p.Pos(t.Pos), fmt.Sprintf("%d rows, values pairwise distinct", len(t.Rows)))
		}
	}
	r.Floor("E4.inj(tables)", len(tabs), 5)
	r.Floor("E4.rows", rows, 1950)
	// E4.unified: since Linux 5.1 a new syscall gets one number on every architecture (424..511; 512..547 are x32's own).
	// The tables are each other's independent source there: a number in that range carries the same name in every table
	// that has it. This also reaches rows that are newer than every oracle on this machine.
	{
		byNum := map[int64]map[string][]string{}
		for _, t := range tabs {
			for _, row := range t.Rows {
				if row.Val == nil || row.Key == nil {
					continue
				}
				k, _ := constant.Int64Val(row.Key)
				if k < 424 || k > 511 {
					continue
				}
				if byNum[k] == nil {
					byNum[k] = map[string][]string{}
				}
				n := constant.StringVal(row.Val)
				byNum[k][n] = append(byNum[k][n], t.Obj.Name())
			}
		}
		var nums []int64
		for k := range byNum {
			nums = append(nums, k)
		}
		sort.Slice(nums, func(i, j int) bool { return nums[i] < nums[j] })
		bad := 0
		for _, k := range nums {
			if len(byNum[k]) > 1 {
				bad++
				var parts []string
				for n, ts := range byNum[k] {
					sort.Strings(ts)
					parts = append(parts, fmt.Sprintf("%q in %s", n, strings.Join(ts, ",")))
				}
				sort.Strings(parts)
				r.Bad("E4.unified", fmt.Sprintf("number/%d", k), "", fmt.Sprintf("syscall number %d, which the kernel assigns once for all architectures, has different names in the tables: %s", k, strings.Join(parts, "; ")))
			}
		}
		if bad == 0 {
			r.OK("E4.unified", "numbers-424-511", "", fmt.Sprintf("%d numbers of the architecture-independent range carry the same name in every table that lists them", len(nums)))
		}
		r.Floor("E4.unified(numbers)", len(nums), 20)
	}
	r.Count("syscall tables", len(tabs))
	r.Count("table rows", rows)

	// ---- invert helper
	checkInvert(e, p)
	checkTablesFrozen(e, p, load.PkgArch, "E4.frozen")

	// ---- Info literals, pairing and oracle comparison
	infos := archInfoLits(pk)
	r.Count("Info literals", len(infos))
	r.Floor("E4.info(literals)", len(infos), 16)
	invObj := pk.Types.Scope().Lookup("invert")
	unlisted := map[string]int{}
	compared := map[string]int{}
	withTable := 0
	infoByVar := map[types.Object]*infoLit{}
	for _, il := range infos {
		infoByVar[il.v] = il
		key := "Info/" + il.name
		pos := p.Pos(il.pos)
		if il.name == "" {
			r.Unknown("E4.info", "Info/"+il.v.Name(), pos, "Name is not a constant string")
			continue
		}
		// audit constant
		wantAudit := ""
		if a, ok := abiOf[il.name]; ok {
			wantAudit = a.audit
		} else if a, ok := auditOf[il.name]; ok {
			wantAudit = a
		} else if _, ok := or.AuditArch[strings.ToUpper(il.name)]; ok {
			wantAudit = strings.ToUpper(il.name) // an architecture added later: AUDIT_ARCH_<NAME> of the kernel headers
		}
		idc, _ := il.idObj.(*types.Const)
		if idc == nil {
			r.Bad("E4.info", key+"/ID", pos, "ID is not a named constant")
		} else if wantAudit == "" {
			r.Unknown("E4.info", key+"/ID", pos, fmt.Sprintf("no AUDIT_ARCH expectation recorded for architecture name %q", il.name))
		} else {
			got, _ := tables.Uint64(idc.Val())
			want, have := or.AuditArch[wantAudit]
			if !have {
				r.Unknown("E4.info", key+"/ID", pos, "oracle has no AUDIT_ARCH_"+wantAudit)
			} else {
				r.Check(got&0xFFFFFFFF == want, "E4.info", key+"/ID", pos,
					fmt.Sprintf("ID = %s = %#x = AUDIT_ARCH_%s", idc.Name(), got, wantAudit),
					fmt.Sprintf("Info %q carries ID %s = %#x but the kernel's AUDIT_ARCH_%s is %#x", il.name, idc.Name(), got, wantAudit, want))
			}
		}
		// mask
		maskV, _ := tables.Uint64(il.mask)
		if il.name == "x32" {
			r.Check(il.mask != nil && maskV == or.Consts["__X32_SYSCALL_BIT"], "E4.info", key+"/SeccompMask", pos,
				"SeccompMask = __X32_SYSCALL_BIT (0x40000000)", fmt.Sprintf("x32 SeccompMask is %#x, want __X32_SYSCALL_BIT %#x", maskV, or.Consts["__X32_SYSCALL_BIT"]))
		} else {
			r.Check(il.mask == nil || maskV == 0, "E4.info", key+"/SeccompMask", pos, "no mask", fmt.Sprintf("architecture %q has SeccompMask %#x; only x32 has one", il.name, maskV))
		}
		// tables
		a, hasABI := abiOf[il.name]
		if il.table == nil && il.invTable == nil {
			if hasABI && tableRequired[il.name] {
				r.Bad("E4.info", key+"/table", pos, fmt.Sprintf("architecture %q must have a syscall table but its Info has none", il.name))
			} else {
				r.OK("E4.info", key+"/table", pos, "table-less architecture (unsupported through GetInfo)")
			}
			continue
		}
		withTable++
		okPair := il.table != nil && il.table == il.invTable && il.invFn == invObj && invObj != nil
		r.Check(okPair, "E4.info", key+"/inverse-pair", pos,
			"SyscallNumbers is table T and SyscallNames is invert(T) of the same T",
			fmt.Sprintf("SyscallNumbers (%v) and SyscallNames (invert of %v) do not come from the same table", objName(il.table), objName(il.invTable)))
		t := byObj[il.table]
		if t == nil {
			r.Unknown("E4.info", key+"/table", pos, "SyscallNumbers is not one of the table literals")
			continue
		}
		if !hasABI {
			r.Unknown("E4.oracle", key, pos, fmt.Sprintf("architecture %q has a table but no oracle ABI is recorded for it", il.name))
			continue
		}
		// oracle comparison by name, keyed on the Info's architecture name (so a
		// literal wired to another table is caught here)
		srcs := or.Syscalls[a.abi]
		names := map[string]int64{}
		for _, row := range t.Rows {
			if row.Val == nil || row.Key == nil {
				continue
			}
			k, _ := constant.Int64Val(row.Key)
			names[constant.StringVal(row.Val)] = k // duplicates are reported by E4.inj; compare all rows below
		}
		mismatch := 0
		for _, row := range t.Rows {
			if row.Val == nil || row.Key == nil {
				continue
			}
			name := constant.StringVal(row.Val)
			k, _ := constant.Int64Val(row.Key)
			listed := false
			for _, src := range sortedKeys(srcs) {
				want, ok := srcs[src][name]
				if !ok {
					continue
				}
				listed = true
				compared[a.abi]++
				if int64(want) != k {
					// x32 duplicates: a row carrying the x86-64 number of a name whose x32 number differs
					mismatch++
					r.Bad("E4.oracle", fmt.Sprintf("%s/%s=%d", il.name, name, k), p.Pos(row.KeyPos),
						fmt.Sprintf("table of %q (%s) has %s = %d but oracle %s (%s) says %d", il.name, t.Obj.Name(), name, k, src, or.Sources[a.abi+"/"+src], want))
				}
			}
			if !listed {
				unlisted[a.abi]++
			}
		}
		if mismatch == 0 {
			r.OK("E4.oracle", key, pos, fmt.Sprintf("%d rows of %s agree with every oracle of ABI %s that lists them (%d comparisons, %d rows unlisted)", len(t.Rows), t.Obj.Name(), a.abi, compared[a.abi], unlisted[a.abi]))
		}
		// a table that shares < 250 names with the oracle is not that ABI's table
		if compared[a.abi] < 250 {
			r.Bad("E4.oracle", key+"/coverage", pos, fmt.Sprintf("only %d comparisons possible for %s: the table does not look like ABI %s", compared[a.abi], t.Obj.Name(), a.abi))
		}
	}
	r.Floor("E4.info(with table)", withTable, 5)
	r.Extra("unlisted_rows", unlisted)
	r.Extra("oracle_comparisons", compared)
	tot := 0
	for _, n := range compared {
		tot += n
	}
	r.Floor("E4.oracle(comparisons)", tot, 3500)

	// ---- audit constants
	nAudit := 0
	for _, name := range pk.Types.Scope().Names() {
		c, ok := pk.Types.Scope().Lookup(name).(*types.Const)
		if !ok || !strings.HasPrefix(name, "auditArch") {
			continue
		}
		suffix := strings.ToUpper(strings.TrimPrefix(name, "auditArch"))
		got, _ := tables.Uint64(c.Val())
		nAudit++
		w1, ok1 := or.AuditArch[suffix]
		w2, ok2 := or.AuditArchXsys[suffix]
		switch {
		case !ok1 && !ok2:
			r.Note("audit constant %s has no oracle entry (not compared)", name)
			r.OK("E4.audit", name, p.Pos(c.Pos()), "no oracle lists this constant; not used by an Info with a table")
		case ok1 && got != w1:
			r.Bad("E4.audit", name, p.Pos(c.Pos()), fmt.Sprintf("%s = %#x but linux/audit.h AUDIT_ARCH_%s = %#x", name, got, suffix, w1))
		case ok2 && got != w2:
			r.Bad("E4.audit", name, p.Pos(c.Pos()), fmt.Sprintf("%s = %#x but x/sys AUDIT_ARCH_%s = %#x", name, got, suffix, w2))
		default:
			r.OK("E4.audit", name, p.Pos(c.Pos()), fmt.Sprintf("%#x = AUDIT_ARCH_%s", got, suffix))
		}
	}
	r.Floor("E4.audit", nAudit, 29)
	if c, ok := tables.PkgConst(pk.Types, "x32SyscallMask"); ok {
		v, _ := tables.Uint64(c)
		r.Check(v == or.Consts["__X32_SYSCALL_BIT"], "E4.audit", "x32SyscallMask", "", "= __X32_SYSCALL_BIT", fmt.Sprintf("x32SyscallMask = %#x, want %#x", v, or.Consts["__X32_SYSCALL_BIT"]))
	}

	// ---- alias map
	var arches *tables.MapLit
	for _, m := range tables.MapLits(pk) {
		if m.Obj.Name() == "arches" {
			arches = m
		}
	}
	if arches == nil {
		r.Unknown("E4.alias", "arches", "", "alias map literal `arches` not found")
	} else {
		r.Count("alias keys", len(arches.Rows))
		r.Floor("E4.alias(keys)", len(arches.Rows), 22)
		target := map[string]types.Object{}
		for _, row := range arches.Rows {
			if row.Key == nil || row.Key.Kind() != constant.String {
				r.Unknown("E4.alias", "arches/nonconstant-key", p.Pos(row.KeyPos), "key is not a constant string")
				continue
			}
			k := constant.StringVal(row.Key)
			target[k] = row.ValObj
			r.Check(k == strings.ToLower(k), "E4.alias", "arches/lowercase/"+k, p.Pos(row.KeyPos), "lower-case key",
				fmt.Sprintf("key %q is not lower-case: GetInfo lower-cases its argument, so this spelling can never be found", k))
			il := infoByVar[row.ValObj]
			if il == nil {
				r.Bad("E4.alias", "arches/target/"+k, p.Pos(row.KeyPos), "value is not one of the package-level Info literals")
			}
		}
		for _, cl := range aliasClasses {
			var first types.Object
			ok := true
			detail := ""
			for _, k := range cl.keys {
				o, have := target[k]
				if !have {
					ok = false
					detail = fmt.Sprintf("alias %q is missing from the map", k)
					break
				}
				if first == nil {
					first = o
				} else if o != first {
					ok = false
					detail = fmt.Sprintf("aliases %v resolve to different Info objects (%s vs %s)", cl.keys, objName(first), objName(o))
					break
				}
				if il := infoByVar[o]; il == nil || il.name != cl.name {
					ok = false
					nm := "?"
					if il != nil {
						nm = il.name
					}
					detail = fmt.Sprintf("alias %q resolves to the Info named %q, want %q", k, nm, cl.name)
					break
				}
				if il := infoByVar[o]; il.table == nil {
					ok = false
					detail = fmt.Sprintf("alias %q resolves to an Info without a table", k)
				}
			}
			r.Check(ok, "E4.alias", "class/"+strings.Join(cl.keys, "="), p.Pos(arches.Pos), "all spellings resolve to the Info named "+cl.name, detail)
		}
		// every other key must point at the Info whose Name matches the key's architecture family:
		// a GOARCH spelled key resolving to a table-carrying Info of another family would compile
		// filters with the wrong numbers.
		for k, o := range target {
			il := infoByVar[o]
			if il == nil || il.table == nil {
				continue
			}
			okc := false
			for _, cl := range aliasClasses {
				for _, ck := range cl.keys {
					if ck == k && il.name == cl.name {
						okc = true
					}
				}
			}
			// an architecture beyond the documented classes: its own name, or its GOARCH spelling
			if !okc && !tableRequired[il.name] && (k == il.name || k == goarchOf[il.name]) {
				okc = true
			}
			r.Check(okc, "E4.alias", "arches/table-target/"+k, p.Pos(arches.Pos), "table-carrying target is the expected one",
				fmt.Sprintf("key %q resolves to the table of %q, which is not an alias the package documents", k, il.name))
		}
	}

	checkGetInfo(e, p)
	generatorNote(e, p)
}

func objName(o types.Object) string {
	if o == nil {
		return "<none>"
	}
	return o.Name()
}

func sortedKeys(m map[string]map[string]int) []string {
	var out []string
	for k := range m {
		out = append(out, k)
	}
	sort.Strings(out)
	return out
}

// checkInvert: invert allocates a fresh map, stores out[v] = k for every ranged
// pair of its parameter and returns that map.
func checkInvert(e *Env, p *load.Program) {
	r := e.R
	fn := p.Func(load.PkgArch, "invert")
	if fn == nil {
		r.Unknown("E4.invert", "invert", "", "function invert not found")
		return
	}
	pos := p.Pos(fn.Pos())
	var mk *ssa.MakeMap
	var rng *ssa.Range
	var upd []*ssa.MapUpdate
	other := 0
	for _, b := range fn.Blocks {
		for _, in := range b.Instrs {
			switch x := in.(type) {
			case *ssa.MakeMap:
				if mk != nil {
					other++
				}
				mk = x
			case *ssa.Range:
				if rng != nil {
					other++
				}
				rng = x
			case *ssa.MapUpdate:
				upd = append(upd, x)
			case *ssa.Store, *ssa.Call, *ssa.Go, *ssa.Defer:
				if c, ok := in.(*ssa.Call); ok {
					if bi, ok := c.Call.Value.(*ssa.Builtin); ok && bi.Name() == "len" {
						continue
					}
				}
				other++
			}
		}
	}
	ok := mk != nil && rng != nil && len(upd) == 1 && other == 0 && len(fn.Params) == 1 && rng.X == fn.Params[0]
	detail := "shape not recognised"
	if ok {
		u := upd[0]
		// the stored key must be the iteration's value (the range statement's value variable, or the parameter looked up
		// at the iteration's key), the stored value the iteration's key
		var nx *ssa.Next
		for _, ref := range *rng.Referrers() {
			if n, isN := ref.(*ssa.Next); isN {
				nx = n
			}
		}
		isKey := func(v ssa.Value) bool {
			ex, isx := v.(*ssa.Extract)
			return isx && ex.Index == 1 && nx != nil && ex.Tuple == ssa.Value(nx)
		}
		isVal := func(v ssa.Value) bool {
			if ex, isx := v.(*ssa.Extract); isx {
				return ex.Index == 2 && nx != nil && ex.Tuple == ssa.Value(nx)
			}
			lk, isl := v.(*ssa.Lookup)
			return isl && !lk.CommaOk && lk.X == ssa.Value(fn.Params[0]) && isKey(lk.Index)
		}
		ok = u.Map == ssa.Value(mk) && isVal(u.Key) && isKey(u.Value)
		if !ok {
			detail = "the map update is not out[value] = key of the ranged pair"
		}
		// unconditional inside the loop body: the update's block must be the range body (dominated by the `ok` edge only)
		if ok {
			conds := flow.DomConds(u.Block())
			for _, c := range conds {
				if ex, isx := c.V.(*ssa.Extract); isx && ex.Index == 0 {
					continue
				}
				ok = false
				detail = "the map update is conditional"
			}
		}
		if ok {
			for _, ret := range flow.Returns(fn) {
				if len(flow.RetResults(ret)) != 1 || flow.RetResults(ret)[0] != mk {
					ok = false
					detail = "a return does not return the freshly built map"
				}
			}
		}
	}
	r.Check(ok, "E4.invert", "invert", pos, "fresh map, out[v]=k for every ranged pair, returned: with an injective table the two maps are mutual inverses", "invert: "+detail)
}

// checkGetInfo: a non-nil *Info is returned only under found && len(SyscallNames) > 0,
// the lookup key is the lower-cased argument (or GOARCH), every other return carries an error.
func checkGetInfo(e *Env, p *load.Program) {
	r := e.R
	fn := p.Func(load.PkgArch, "GetInfo")
	if fn == nil {
		r.Unknown("E4.getinfo", "GetInfo", "", "function GetInfo not found")
		return
	}
	findLookups := func(f *ssa.Function) []*ssa.Lookup {
		var out []*ssa.Lookup
		for _, b := range f.Blocks {
			for _, in := range b.Instrs {
				if l, ok := in.(*ssa.Lookup); ok {
					if g, ok := derefGlobal(l.X); ok && g.Name() == "arches" {
						out = append(out, l)
					}
				}
			}
		}
		return out
	}
	lks := findLookups(fn)
	if len(lks) == 0 {
		// GetInfo as a dispatcher: every return hands on both results of one helper of the package that receives the key
		// (`return lookup(runtime.GOARCH)`, `return lookup(normalize(name))`): the helper is the lookup function, and what
		// GetInfo passes must be an admissible key
		var helper *ssa.Function
		deleg := true
		var keys []ssa.Value
		for _, ret := range flow.Returns(fn) {
			rs := flow.RetResults(ret)
			e0, ok0 := rs[0].(*ssa.Extract)
			e1, ok1 := rs[len(rs)-1].(*ssa.Extract)
			if len(rs) != 2 || !ok0 || !ok1 || e0.Tuple != e1.Tuple {
				deleg = false
				break
			}
			c, ok := e0.Tuple.(*ssa.Call)
			h := (*ssa.Function)(nil)
			if ok {
				h = flow.Callee(c)
			}
			if h == nil || h.Pkg == nil || h.Pkg.Pkg.Path() != load.PkgArch || len(h.Params) != 1 || len(c.Call.Args) != 1 || (helper != nil && helper != h) {
				deleg = false
				break
			}
			helper = h
			keys = append(keys, c.Call.Args[0])
		}
		if deleg && helper != nil && len(findLookups(helper)) > 0 {
			for i, k := range keys {
				why := ""
				var adm func(v ssa.Value, depth int) bool
				adm = func(v ssa.Value, depth int) bool {
					if depth > 5 {
						return false
					}
					switch x := v.(type) {
					case *ssa.Parameter:
						return x == fn.Params[0]
					case *ssa.Const:
						sv, ok := flow.ConstString(x)
						return ok && sv == p.GOARCH
					case *ssa.Phi:
						for _, ed := range x.Edges {
							if !adm(ed, depth+1) {
								return false
							}
						}
						return true
					case *ssa.Call:
						if flow.CalleeIs(x, "strings", "ToLower") && len(x.Call.Args) == 1 {
							return adm(x.Call.Args[0], depth+1)
						}
						h := flow.Callee(x)
						if h != nil && h.Pkg != nil && h.Pkg.Pkg.Path() == load.PkgArch && len(h.Blocks) > 0 && len(h.Params) == 1 && len(x.Call.Args) == 1 && h.Signature.Results().Len() == 1 {
							if !adm(x.Call.Args[0], depth+1) {
								return false
							}
							// the helper's result is its parameter or its lower-case form
							for _, ret := range flow.Returns(h) {
								rv := flow.RetResults(ret)[0]
								if rv == ssa.Value(h.Params[0]) {
									continue
								}
								if tc, ok := rv.(*ssa.Call); ok && flow.CalleeIs(tc, "strings", "ToLower") && tc.Call.Args[0] == ssa.Value(h.Params[0]) {
									continue
								}
								why = "the key is computed by " + h.Name()
								return false
							}
							return true
						}
						why = "the key is computed by " + calleeName(x)
					}
					return false
				}
				r.Check(adm(k, 0), "E4.getinfo", fmt.Sprintf("GetInfo/dispatch-key#%d", i), p.Pos(fn.Pos()), "GetInfo hands the name, its lower-case form or runtime.GOARCH to the lookup function",
					"GetInfo hands the lookup function a key that is not the name, its lower-case form or runtime.GOARCH ("+why+")")
			}
			fn = helper
			lks = findLookups(fn)
		}
	}
	if len(lks) == 0 {
		r.Unknown("E4.getinfo", "GetInfo/lookup", p.Pos(fn.Pos()), "no lookup in `arches` found")
		return
	}
	// every lookup key: strings.ToLower(name), runtime.GOARCH, or the name itself (the table's keys are lower-case - checked with
	// the alias classes - so a verbatim hit implies the name was lower-case already)
	for i, lk := range lks {
		keyOK := true
		kd := ""
		// name is the parameter that holds the requested name in the function being looked at (GetInfo, or a helper of
		// the package that GetInfo hands the name to and whose every result is again one of the three forms)
		var visit func(v ssa.Value, name *ssa.Parameter, depth int)
		visit = func(v ssa.Value, name *ssa.Parameter, depth int) {
			if depth > 6 {
				keyOK = false
				return
			}
			switch x := v.(type) {
			case *ssa.Phi:
				for _, ed := range x.Edges {
					visit(ed, name, depth+1)
				}
			case *ssa.Parameter:
				if x != name {
					keyOK = false
					kd = "key is another parameter"
				}
			case *ssa.Const:
				if s, ok := flow.ConstString(x); !ok || s != p.GOARCH {
					keyOK = false
					kd = "constant key is not runtime.GOARCH"
				}
			case *ssa.Call:
				if flow.CalleeIs(x, "strings", "ToLower") && len(x.Call.Args) == 1 {
					if x.Call.Args[0] == ssa.Value(name) {
						return
					}
					// the lower-case form of something that is itself an admissible key (the name, or GOARCH for "")
					visit(x.Call.Args[0], name, depth+1)
					return
				}
				h := flow.Callee(x)
				if h != nil && h.Pkg != nil && h.Pkg.Pkg.Path() == load.PkgArch && len(h.Blocks) > 0 && len(h.Params) == 1 && len(x.Call.Args) == 1 &&
					x.Call.Args[0] == ssa.Value(name) && h.Signature.Results().Len() == 1 && h != fn {
					for _, ret := range flow.Returns(h) {
						visit(flow.RetResults(ret)[0], h.Params[0], depth+1)
					}
					return
				}
				keyOK = false
				kd = "key is computed by " + calleeName(x) + ", not by strings.ToLower(name)"
			default:
				keyOK = false
				kd = fmt.Sprintf("key comes from %T", v)
			}
		}
		visit(lk.Index, fn.Params[0], 0)
		r.Check(keyOK, "E4.getinfo", fmt.Sprintf("GetInfo/key#%d", i), p.Pos(lk.Pos()), "lookup key is strings.ToLower(name), runtime.GOARCH or the name itself: any letter case resolves like its lower-case spelling",
			"GetInfo: "+kd+": a name can resolve to another architecture's table than its lower-case spelling (aliases and letter cases no longer agree)")
	}
	rets := flow.Returns(fn)
	nSucc := 0
	for _, ret := range rets {
		if len(flow.RetResults(ret)) != 2 {
			continue
		}
		key := "GetInfo/return"
		if flow.IsNilConst(flow.RetResults(ret)[0]) {
			// error return: the error must not be the nil constant
			r.Check(!flow.IsNilConst(flow.RetResults(ret)[1]), "E4.getinfo", key+"/error", p.Pos(ret.Pos()), "nil Info comes with a non-nil error", "GetInfo returns (nil, nil)")
			continue
		}
		nSucc++
		conds := flow.DomConds(ret.Block())
		good := false
		detail := ""
		for _, lk := range lks {
			if !lk.CommaOk {
				continue
			}
			var found, val ssa.Value
			for _, ref := range *lk.Referrers() {
				if ex, ok := ref.(*ssa.Extract); ok {
					if ex.Index == 1 {
						found = ex
					} else {
						val = ex
					}
				}
			}
			if val == nil || flow.RetResults(ret)[0] != val {
				continue
			}
			fpol, fok := flow.CondHolds(conds, found)
			lenOK := false
			for _, c := range conds {
				pr, ok := flow.AsIntPred(c.V, c.Pol)
				if ok && isLenOfField(pr.X, val, "SyscallNames") && pr.NonZero() {
					lenOK = true
				}
				if nonEmptyTableHelper(c, val) {
					lenOK = true
				}
			}
			detail = fmt.Sprintf("found-edge=%v len-guard=%v", fok && fpol, lenOK)
			if fok && fpol && lenOK {
				good = true
			}
		}
		if !good {
			// several lookups (as given, then lower-cased): the returned value and the tested flag are phis of the same
			// block whose corresponding edges are the (value, ok) pair of one lookup each
			if pv, ok := flow.RetResults(ret)[0].(*ssa.Phi); ok {
				for _, c := range conds {
					pf, ok := c.V.(*ssa.Phi)
					if !ok || !c.Pol || pf.Block() != pv.Block() || len(pf.Edges) != len(pv.Edges) {
						continue
					}
					paired := true
					for i := range pv.Edges {
						ev, ok1 := pv.Edges[i].(*ssa.Extract)
						ef, ok2 := pf.Edges[i].(*ssa.Extract)
						if !ok1 || !ok2 || ev.Tuple != ef.Tuple || ev.Index != 0 || ef.Index != 1 {
							paired = false
							break
						}
						isLk := false
						for _, lk := range lks {
							if ev.Tuple == ssa.Value(lk) {
								isLk = true
							}
						}
						if !isLk {
							paired = false
						}
					}
					lenOK := false
					for _, c2 := range conds {
						pr, ok := flow.AsIntPred(c2.V, c2.Pol)
						if ok && isLenOfField(pr.X, pv, "SyscallNames") && pr.NonZero() {
							lenOK = true
						}
					}
					detail = fmt.Sprintf("paired-lookups=%v len-guard=%v", paired, lenOK)
					if paired && lenOK {
						good = true
					}
				}
			}
		}
		r.Check(good && flow.IsNilConst(flow.RetResults(ret)[1]), "E4.getinfo", key+"/success", p.Pos(ret.Pos()),
			"the looked-up Info is returned only on the `found` edge and with a non-empty SyscallNames table: table-less architectures are unsupported",
			"GetInfo can return an Info that is not a lookup result under `found && len(SyscallNames) > 0` ("+detail+")")
	}
	r.Floor("E4.getinfo(success returns)", nSucc, 1)
}

func derefGlobal(v ssa.Value) (*ssa.Global, bool) {
	if u, ok := v.(*ssa.UnOp); ok && u.Op == token.MUL {
		g, ok := u.X.(*ssa.Global)
		return g, ok
	}
	return nil, false
}

// nonEmptyTableHelper: the condition is `base.method()` (with the polarity that makes it true) for a one-block boolean method
// of the package that returns `len(recv.SyscallNames) > 0` (`info.implemented()`).
func nonEmptyTableHelper(c flow.Cond, base ssa.Value) bool {
	cn := flow.Norm(c)
	call, ok := cn.V.(*ssa.Call)
	if !ok || !cn.Pol || len(call.Call.Args) != 1 || call.Call.Args[0] != base {
		return false
	}
	h := call.Call.StaticCallee()
	if h == nil || len(h.Blocks) != 1 || len(h.Params) != 1 || h.Pkg == nil || h.Pkg.Pkg.Path() != load.PkgArch {
		return false
	}
	rets := flow.Returns(h)
	if len(rets) != 1 {
		return false
	}
	pr, ok := flow.AsIntPred(flow.RetResults(rets[0])[0], true)
	return ok && isLenOfField(pr.X, h.Params[0], "SyscallNames") && pr.NonZero()
}

// isLenOfField: v == len(*(&base.field))
func isLenOfField(v ssa.Value, base ssa.Value, field string) bool {
	c, ok := v.(*ssa.Call)
	if !ok {
		return false
	}
	bi, ok := c.Call.Value.(*ssa.Builtin)
	if !ok || bi.Name() != "len" || len(c.Call.Args) != 1 {
		return false
	}
	u, ok := c.Call.Args[0].(*ssa.UnOp)
	if !ok || u.Op != token.MUL {
		return false
	}
	fa, ok := u.X.(*ssa.FieldAddr)
	if !ok || fa.X != base {
		return false
	}
	st := fa.X.Type().Underlying().(*types.Pointer).Elem().Underlying().(*types.Struct)
	return st.Field(fa.Field).Name() == field
}

// generatorNote parses the build-ignored generator and prints (never fails on)
// the ABI column filters, the root cause of duplicated x32 rows.
func generatorNote(e *Env, p *load.Program) {
	path := filepath.Join(p.Dir, "arch", "mk_syscalls_linux.go")
	fset := token.NewFileSet()
	f, err := parser.ParseFile(fset, path, nil, 0)
	if err != nil {
		e.R.Note("E4.gen: generator not parsed (%v)", err)
		return
	}
	for _, d := range f.Decls {
		fd, ok := d.(*ast.FuncDecl)
		if !ok || (fd.Name.Name != "buildX32" && fd.Name.Name != "buildX86_64") {
			continue
		}
		var lits []string
		ast.Inspect(fd, func(n ast.Node) bool {
			if b, ok := n.(*ast.BinaryExpr); ok && (b.Op == token.EQL || b.Op == token.NEQ) {
				if ix, ok := b.X.(*ast.IndexExpr); ok {
					if id, ok := ix.X.(*ast.Ident); ok && id.Name == "fields" {
						if bl, ok := b.Y.(*ast.BasicLit); ok {
							lits = append(lits, bl.Value)
						}
					}
				}
			}
			return true
		})
		e.R.Note("E4.gen (note only): %s filters ABI column values %v (kernel tables mark 64-bit-only rows \"64\", x32-only rows \"x32\")", fd.Name.Name, lits)
	}
}
