package rules

import (
	"fmt"
	"go/ast"
	"go/build"
	"go/constant"
	"go/token"
	"go/types"
	"golang.org/x/tools/go/packages"
	"os/exec"
	"path/filepath"
	"sort"
	"strings"
	"sync"

	"golang.org/x/tools/go/ssa"

	"sbpfcheck/load"
	"sbpfcheck/tables"
)

func init() {
	Specs["C19"] = &Spec{
		Level: "proof",
		Explanation: "For every GOOS/GOARCH pair of `go tool dist list` (quick: a representative subset) the root package, internal/unix and arch are type-checked with that target selected; " +
			"the values the type checker computes for the action, flag, mode, prctl and errno constants are compared with the vendored UAPI values; exactly one of the loader implementations is selected; " +
			"the non-Linux stubs contain no call expression at all and Supported returns the constant false; for every GOARCH either the alias map leads to an Info with a table or GetInfo's only " +
			"success return is unreachable (dominance), and Policy.Assemble returns GetInfo's error before any emission.",
		Trusted: []string{"go/types constant evaluation under the selected build context", "go list file selection (build constraints)", "/verif/oracle/oracle.json (linux/seccomp.h, linux/prctl.h, asm-generic/errno*.h; ENOSYS of mips from arch/mips/include/uapi/asm/errno.h)"},
		Run:     runC19,
	}
}

// exported / package-level names in the root package and the UAPI constant each must equal.
var rootConsts = map[string]string{
	"ActionKillThread": "SECCOMP_RET_KILL_THREAD", "ActionKillProcess": "SECCOMP_RET_KILL_PROCESS", "ActionTrap": "SECCOMP_RET_TRAP",
	"ActionErrno": "SECCOMP_RET_ERRNO", "ActionTrace": "SECCOMP_RET_TRACE", "ActionLog": "SECCOMP_RET_LOG", "ActionAllow": "SECCOMP_RET_ALLOW",
	"ActionUserNotify": "SECCOMP_RET_USER_NOTIF", "FilterFlagTSync": "SECCOMP_FILTER_FLAG_TSYNC", "FilterFlagLog": "SECCOMP_FILTER_FLAG_LOG",
}

// unexported root constants are matched through their initialiser `unix.<UAPI name>`.
var quickTargets = []string{"linux/amd64", "linux/386", "linux/arm64", "linux/mips", "linux/s390x", "darwin/arm64", "windows/amd64", "freebsd/386", "js/wasm", "android/arm"}

func distList(e *Env) []string {
	cmd := exec.Command("go", "tool", "dist", "list")
	cmd.Env = append(cmd.Environ(), "GOTOOLCHAIN=local", "GOFLAGS=-mod=mod")
	out, err := cmd.Output()
	if err != nil {
		panic(fmt.Sprintf("go tool dist list: %v", err))
	}
	var l []string
	for _, s := range strings.Fields(string(out)) {
		if strings.Contains(s, "/") {
			l = append(l, s)
		}
	}
	sort.Strings(l)
	return l
}

type targetResult struct {
	target string
	err    error
	obls   []func()
}

func runC19(e *Env) {
	r := e.R
	or := e.Oracle()
	all := distList(e)
	// 49 type-checks cost about 10 s on 16 cores, so both tiers analyse every target.
	targets := all
	_ = quickTargets
	r.Count("targets in `go tool dist list`", len(all))
	r.Count("targets analysed", len(targets))
	r.Floor("E4.api(targets that build)", len(targets), 49)

	checkPortableCore(e, all)

	var mu sync.Mutex
	var wg sync.WaitGroup
	sem := make(chan struct{}, 8)
	type rec struct {
		rule, key, pos, detail string
		ok, unknown            bool
	}
	results := map[string][]rec{}
	goarchSeen := map[string]bool{}
	for _, t := range targets {
		t := t
		parts := strings.SplitN(t, "/", 2)
		goarchSeen[parts[1]] = true
		wg.Add(1)
		go func() {
			defer wg.Done()
			sem <- struct{}{}
			defer func() { <-sem }()
			var recs []rec
			add := func(ok bool, rule, key, pos, okd, badd string) {
				d := okd
				if !ok {
					d = badd
				}
				recs = append(recs, rec{rule, key, pos, d, ok, false})
			}
			defer func() {
				if x := recover(); x != nil {
					recs = append(recs, rec{"E4.api", t + "/load", "", fmt.Sprintf("analysis of target failed: %v", x), false, true})
				}
				mu.Lock()
				results[t] = recs
				mu.Unlock()
			}()
			p, err := load.Load(e.Repo, parts[0], parts[1], false, ".", "./internal/unix", "./arch")
			if err != nil {
				recs = append(recs, rec{"E4.api", t + "/typecheck", "", fmt.Sprintf("the library does not type-check for %s: %v", t, err), false, false})
				return
			}
			root, ux, ar := p.Pkgs[load.PkgRoot], p.Pkgs[load.PkgUnix], p.Pkgs[load.PkgArch]
			if root == nil || ux == nil || ar == nil {
				recs = append(recs, rec{"E4.api", t + "/packages", "", "root, internal/unix or arch package missing", false, true})
				return
			}
			isLinux := parts[0] == "linux" || parts[0] == "android" // android satisfies the linux build constraint (same kernel interface)
			// byte order chosen at compile time: where the assignment of the package's byte-order variable sits behind
			// conditions the type checker folds to constants for this target (a per-GOARCH `IsBigEndian` constant from
			// build-constrained files), the order chosen must be the target's (seed C19h: `arm` missing from a copied list of
			// little-endian architectures). A run-time probe of memory is not a constant and is C02's business.
			{
				chosen := compileTimeByteOrder(root)
				if chosen != "" {
					want := "little"
					if bigEndianGOARCH[parts[1]] {
						want = "big"
					}
					add(chosen == want, "E4.endian", t+"/compile-time-byte-order", "", "the byte order chosen at compile time is the target's ("+want+"-endian)",
						fmt.Sprintf("under %s the package initialisation chooses %s-endian argument words at compile time, but %s is %s-endian: argument conditions read the wrong halves of the 64-bit arguments, and the same policy compiles to another program than on the other targets of that byte order", t, chosen, parts[1], want))
				}
			}
			// which loader is selected is read from what LoadFilter does, not from a file name: the stub contains no call
			realLoader := false
			nLoader := 0
			var files []string
			for _, f := range root.CompiledGoFiles {
				files = append(files, filepath.Base(f))
			}
			for _, f := range root.Syntax {
				for _, d := range f.Decls {
					fd, ok := d.(*ast.FuncDecl)
					if !ok || fd.Recv != nil || fd.Body == nil || fd.Name.Name != "LoadFilter" {
						continue
					}
					nLoader++
					ast.Inspect(fd.Body, func(n ast.Node) bool {
						if _, ok := n.(*ast.CallExpr); ok {
							realLoader = true
						}
						return true
					})
				}
			}
			add(nLoader == 1, "E4.api", t+"/one-loader", "", "exactly one loader implementation selected", fmt.Sprintf("%d declarations of LoadFilter selected for %s (files: %v)", nLoader, t, files))
			// the kernel interface exists on every Linux port and nowhere else: Linux targets get the real loader (a stub
			// there makes LoadFilter return nil without installing anything), all others the stub
			if isLinux {
				add(realLoader, "E4.api", t+"/loader-kind", "", "the Linux loader is selected", fmt.Sprintf("%s is a Linux target but the stub loader is selected (files: %v): LoadFilter returns nil there although no filter was installed", t, files))
			} else {
				add(!realLoader, "E4.api", t+"/loader-kind", "", "the stub loader is selected", fmt.Sprintf("%s is not a Linux target but the Linux loader is selected", t))
			}
			// the three API functions exist with the same signatures
			for _, fn := range []string{"Supported", "SetNoNewPrivs", "LoadFilter"} {
				o, _ := root.Types.Scope().Lookup(fn).(*types.Func)
				add(o != nil, "E4.api", t+"/func/"+fn, "", "declared", fn+" is not declared for "+t)
			}

			// internal/unix constants by their UAPI names
			nU := 0
			for _, name := range ux.Types.Scope().Names() {
				c, ok := ux.Types.Scope().Lookup(name).(*types.Const)
				if !ok {
					continue
				}
				got, isInt := tables.Uint64(c.Val())
				want, have := or.Consts[name]
				if per, okp := or.ConstsPerArch[name]; okp && isLinux {
					if w, okw := per[parts[1]]; okw {
						want = w
					}
				}
				if !have || !isInt {
					// helper constants of the package (shift amounts, masks written in lower camel case) are not UAPI names
					if name != strings.ToUpper(name) {
						continue
					}
					recs = append(recs, rec{"E4.const", t + "/unix." + name, p.Pos(c.Pos()), "constant has no UAPI oracle value", false, true})
					continue
				}
				nU++
				add(got == want, "E4.const", t+"/unix."+name, p.Pos(c.Pos()), fmt.Sprintf("%#x", got), fmt.Sprintf("internal/unix.%s = %#x under %s, the kernel's value is %#x", name, got, t, want))
			}
			add(nU >= 15, "E4.const", t+"/unix/count", "", fmt.Sprintf("%d constants compared", nU), fmt.Sprintf("only %d constants of internal/unix compared (15 expected)", nU))
			// root constants: exported by name table, unexported via initialiser
			for gn, un := range rootConsts {
				c, ok := root.Types.Scope().Lookup(gn).(*types.Const)
				if !ok {
					recs = append(recs, rec{"E4.const", t + "/" + gn, "", "exported constant not found", false, false})
					continue
				}
				got, _ := tables.Uint64(c.Val())
				add(got == or.Consts[un], "E4.const", t+"/"+gn, p.Pos(c.Pos()), fmt.Sprintf("%#x = %s", got, un), fmt.Sprintf("%s = %#x under %s but %s = %#x", gn, got, t, un, or.Consts[un]))
			}
			nInit := 0
			for _, f := range root.Syntax {
				for _, d := range f.Decls {
					gd, ok := d.(*ast.GenDecl)
					if !ok || gd.Tok != token.CONST {
						continue
					}
					for _, s := range gd.Specs {
						vs := s.(*ast.ValueSpec)
						for i, n := range vs.Names {
							if i >= len(vs.Values) {
								continue
							}
							ve := ast.Unparen(vs.Values[i])
							// a conversion T(unix.X) initialises from unix.X just as well
							if ce, isCall := ve.(*ast.CallExpr); isCall && len(ce.Args) == 1 {
								if tv, okT := root.TypesInfo.Types[ce.Fun]; okT && tv.IsType() {
									ve = ast.Unparen(ce.Args[0])
								}
							}
							sel, ok := ve.(*ast.SelectorExpr)
							if !ok {
								continue
							}
							tgt, _ := root.TypesInfo.Uses[sel.Sel].(*types.Const)
							if tgt == nil || tgt.Pkg() == nil || tgt.Pkg().Path() != load.PkgUnix {
								continue
							}
							nInit++
							if un, isExp := rootConsts[n.Name]; isExp {
								add(tgt.Name() == un, "E4.const", t+"/init/"+n.Name, p.Pos(n.Pos()), "initialised from unix."+un, fmt.Sprintf("%s is initialised from unix.%s, want unix.%s", n.Name, tgt.Name(), un))
								continue
							}
							// unexported: the Go name must be the camel-case of the UAPI name (errnoEPERM <- EPERM, prSetNoNewPrivs <- PR_SET_NO_NEW_PRIVS)
							// or, for names in the library's own style (ActionKill <- SECCOMP_RET_KILL, FilterFlagSpecAllow <-
							// SECCOMP_FILTER_FLAG_SPEC_ALLOW, filterFlagTSyncESRCH <- ..._TSYNC_ESRCH): what remains after the Go prefix is
							// the tail of the UAPI name
							want := strings.ToLower(strings.ReplaceAll(tgt.Name(), "_", ""))
							gotn := strings.ToLower(strings.TrimPrefix(n.Name, "errno"))
							if gotn != want {
								for _, pre := range []string{"action", "filterflag", "seccomp", "pr", "errno"} {
									if rest := strings.TrimPrefix(strings.ToLower(n.Name), pre); rest != strings.ToLower(n.Name) && len(rest) >= 3 && strings.HasSuffix(want, rest) {
										// the tail must start at a word boundary of the UAPI name
										head := want[:len(want)-len(rest)]
										for _, w := range []string{"seccompret", "seccompfilterflag", "seccomp", "pr", ""} {
											if head == w {
												gotn = want
											}
										}
									}
								}
							}
							add(gotn == want, "E4.const", t+"/init/"+n.Name, p.Pos(n.Pos()), "initialised from unix."+tgt.Name(),
								fmt.Sprintf("constant %s is initialised from unix.%s: the name says otherwise", n.Name, tgt.Name()))
						}
					}
				}
			}
			// whatever the initialisers look like: every root constant whose name is the camel-case of a UAPI name has the kernel's value
			nByName := 0
			norm := func(x string) string { return strings.ToLower(strings.ReplaceAll(x, "_", "")) }
			byNorm := map[string]string{}
			for un := range or.Consts {
				byNorm[norm(un)] = un
			}
			for _, gn := range root.Types.Scope().Names() {
				c, ok := root.Types.Scope().Lookup(gn).(*types.Const)
				if !ok {
					continue
				}
				if _, isExp := rootConsts[gn]; isExp {
					continue
				}
				un, ok := byNorm[norm(strings.TrimPrefix(gn, "errno"))]
				if !ok {
					continue
				}
				got, isInt := tables.Uint64(c.Val())
				if !isInt {
					continue
				}
				want := or.Consts[un]
				if per, okp := or.ConstsPerArch[un]; okp && isLinux {
					if w, okw := per[parts[1]]; okw {
						want = w
					}
				}
				nByName++
				add(got == want, "E4.const", t+"/value/"+gn, p.Pos(c.Pos()), fmt.Sprintf("%#x = %s", got, un), fmt.Sprintf("%s = %#x under %s but %s = %#x", gn, got, t, un, want))
			}
			// vacuity guard; the three helper constants that only the Linux loader uses may live in a Linux-only file
			minTied := 15
			if !realLoader {
				minTied = 12
			}
			add(nInit+nByName >= minTied, "E4.const", t+"/init/count", "", fmt.Sprintf("%d root constants initialised from internal/unix, %d compared with the kernel's value by name", nInit, nByName), fmt.Sprintf("only %d root constants are tied to internal/unix or to the kernel's values", nInit+nByName))

			// stubs
			if !realLoader {
				for _, f := range root.Syntax {
					for _, d := range f.Decls {
						fd, ok := d.(*ast.FuncDecl)
						if !ok || fd.Recv != nil || fd.Body == nil {
							continue
						}
						switch fd.Name.Name {
						case "Supported", "SetNoNewPrivs", "LoadFilter":
						default:
							continue
						}
						calls := 0
						ast.Inspect(fd.Body, func(n ast.Node) bool {
							switch n.(type) {
							case *ast.CallExpr, *ast.GoStmt, *ast.DeferStmt:
								calls++
							}
							return true
						})
						add(calls == 0, "E4.stub", t+"/"+fd.Name.Name+"/no-call", p.Pos(fd.Pos()), "no call expression: no system call is possible", fmt.Sprintf("stub %s contains %d call(s) on %s", fd.Name.Name, calls, t))
						if fd.Name.Name == "Supported" {
							okFalse := false
							nRet := 0
							ast.Inspect(fd.Body, func(n ast.Node) bool {
								if rs, ok := n.(*ast.ReturnStmt); ok {
									nRet++
									if len(rs.Results) == 1 {
										if v := tables.ConstOf(root, rs.Results[0]); v != nil && v.Kind() == constant.Bool && !constant.BoolVal(v) {
											okFalse = true
										} else {
											okFalse = false
										}
									}
								}
								return true
							})
							add(okFalse && nRet == 1, "E4.stub", t+"/Supported/false", p.Pos(fd.Pos()), "returns the constant false", "stub Supported does not return the constant false")
						}
					}
				}
			}
		}()
	}
	wg.Wait()
	sort.Strings(targets)
	nConst := 0
	for _, t := range targets {
		for _, rc := range results[t] {
			switch {
			case rc.unknown:
				r.Unknown(rc.rule, rc.key, rc.pos, rc.detail)
			case rc.ok:
				r.OK(rc.rule, rc.key, rc.pos, rc.detail)
			default:
				r.Bad(rc.rule, rc.key, rc.pos, rc.detail)
			}
			if rc.rule == "E4.const" {
				nConst++
			}
		}
	}
	r.Floor("E4.const", nConst, 30*len(targets))

	// E4.unsupported: for every GOARCH of the list, arches[GOARCH] has a table, or GetInfo("") fails.
	p := e.Host()
	checkGetInfo(e, p)
	pk := p.Pkgs[load.PkgArch]
	infos := map[types.Object]*infoLit{}
	for _, il := range archInfoLits(pk) {
		infos[il.v] = il
	}
	var arches *tables.MapLit
	for _, m := range tables.MapLits(pk) {
		if m.Obj.Name() == "arches" {
			arches = m
		}
	}
	if arches == nil {
		r.Unknown("E4.unsupported", "arches", "", "alias map not found")
	} else {
		tgt := map[string]*infoLit{}
		for _, row := range arches.Rows {
			if row.Key != nil && row.Key.Kind() == constant.String {
				tgt[constant.StringVal(row.Key)] = infos[row.ValObj]
			}
		}
		var goarches []string
		for _, t := range all {
			ga := strings.SplitN(t, "/", 2)[1]
			dup := false
			for _, x := range goarches {
				if x == ga {
					dup = true
				}
			}
			if !dup {
				goarches = append(goarches, ga)
			}
		}
		sort.Strings(goarches)
		for _, ga := range goarches {
			il, have := tgt[ga]
			switch {
			case !have:
				r.OK("E4.unsupported", "GOARCH/"+ga, "", "not in the alias map: GetInfo(\"\") takes the !found error return")
			case il == nil:
				r.Unknown("E4.unsupported", "GOARCH/"+ga, "", "alias value is not an Info literal")
			case il.table == nil:
				r.OK("E4.unsupported", "GOARCH/"+ga, "", fmt.Sprintf("Info %q has no table: GetInfo returns the unsupported-arch error (len(SyscallNames)==0 guard)", il.name))
			default:
				want, known := map[string]string{"amd64": "x86_64", "386": "i386", "arm": "arm", "arm64": "aarch64"}[ga]
				if !known {
					// a port that gets a table later: the table must be the one of that port (Linux name = GOARCH, or the
					// recorded spelling difference)
					for ln, g := range goarchOf {
						if g == ga {
							want, known = ln, true
						}
					}
					if !known {
						if _, ok := abiOf[ga]; ok {
							want, known = ga, true
						}
					}
				}
				r.Check(known && il.name == want, "E4.unsupported", "GOARCH/"+ga, "", fmt.Sprintf("compiles with the %s table", il.name),
					fmt.Sprintf("GOARCH %s compiles filters with the table of %q", ga, il.name))
			}
		}
		r.Floor("E4.unsupported(GOARCH values)", len(goarches), 12)
	}
	checkAssembleGetInfoFirst(e, p, "E4.unsupported")
}

// checkPortableCore (E4.portable): "a policy compiles to the same program wherever it is compiled". The functions the
// compiler entry points reach inside the module (static callees, closures, function values; resolved on linux/amd64) are
// declared in files that every target of `go tool dist list` builds: there is one version of the compiler's code. What
// differs per target is then only constants (compared with the kernel's under every target by E4.const) and type sizes
// (C02 E1.template.target).
func checkPortableCore(e *Env, targets []string) {
	r := e.R
	p := e.Host()
	var roots []*ssa.Function
	for _, n := range []string{"Policy.Assemble", "SyscallGroup.Assemble", "Policy.Validate", "Program.Assemble"} {
		if f := p.Func(load.PkgRoot, n); f != nil {
			roots = append(roots, f)
		}
	}
	if len(roots) < 2 {
		r.Unknown("E4.portable", "roots", "", "the compiler entry points were not found")
		return
	}
	seen := map[*ssa.Function]bool{}
	files := map[string][]string{}
	var visit func(f *ssa.Function)
	visit = func(f *ssa.Function) {
		if f == nil || seen[f] || f.Pkg == nil || !strings.HasPrefix(f.Pkg.Pkg.Path(), load.Module) {
			return
		}
		seen[f] = true
		if f.Pos().IsValid() {
			file := p.Fset.Position(f.Pos()).Filename
			files[file] = append(files[file], load.FuncName(f))
		}
		for _, b := range f.Blocks {
			for _, in := range b.Instrs {
				for _, op := range in.Operands(nil) {
					if g, ok := (*op).(*ssa.Function); ok {
						visit(g)
					}
				}
			}
		}
	}
	for _, f := range roots {
		visit(f)
	}
	var names []string
	for f := range files {
		names = append(names, f)
	}
	sort.Strings(names)
	bad := 0
	for _, file := range names {
		var missing []string
		for _, t := range targets {
			parts := strings.SplitN(t, "/", 2)
			ctx := build.Default
			ctx.GOOS, ctx.GOARCH, ctx.CgoEnabled, ctx.BuildTags = parts[0], parts[1], true, nil
			ok, err := ctx.MatchFile(filepath.Dir(file), filepath.Base(file))
			if err != nil || !ok {
				missing = append(missing, t)
			}
		}
		rel, _ := filepath.Rel(e.Repo, file)
		if len(missing) > 0 {
			bad++
			sort.Strings(files[file])
			// undecided rather than violated: the other targets' version of the code may be equivalent; it was not analysed
			r.Unknown("E4.portable", "file/"+rel, "", fmt.Sprintf("%s, which declares %s of the compiler, is not built for %d of %d targets (%s ...): those targets compile policies with other code, which was not analysed, so the program need not be the same there", rel, strings.Join(files[file], ", "), len(missing), len(targets), missing[0]))
		}
	}
	if bad == 0 {
		r.OK("E4.portable", "compiler-core", "", fmt.Sprintf("the %d functions the compiler entry points reach are declared in %d files that all %d targets build", len(seen), len(names), len(targets)))
	}
	r.Floor("E4.portable(functions of the compiler core)", len(seen), 15)
}

var bigEndianGOARCH = map[string]bool{"armbe": true, "arm64be": true, "m68k": true, "mips": true, "mips64": true, "mips64p32": true, "ppc": true, "ppc64": true, "s390": true, "s390x": true, "shbe": true, "sparc": true, "sparc64": true}

// compileTimeByteOrder: "little" or "big" when an init function of the package assigns the byte-order variable behind
// conditions that the type checker folds to constants for the target the package was loaded for; "" when the order is
// decided at run time (or not in this shape).
func compileTimeByteOrder(root *packages.Package) string {
	chosen := ""
	var walk func(stmts []ast.Stmt)
	walk = func(stmts []ast.Stmt) {
		for _, st := range stmts {
			switch x := st.(type) {
			case *ast.AssignStmt:
				if len(x.Lhs) == 1 && len(x.Rhs) == 1 {
					if id, ok := x.Lhs[0].(*ast.Ident); ok && id.Name == "nativeEndian" {
						if sel, ok := x.Rhs[0].(*ast.SelectorExpr); ok {
							switch sel.Sel.Name {
							case "LittleEndian":
								chosen = "little"
							case "BigEndian":
								chosen = "big"
							}
						}
					}
				}
			case *ast.BlockStmt:
				walk(x.List)
			case *ast.IfStmt:
				if x.Init != nil {
					continue
				}
				tv, ok := root.TypesInfo.Types[x.Cond]
				if !ok || tv.Value == nil || tv.Value.Kind() != constant.Bool {
					continue
				}
				if constant.BoolVal(tv.Value) {
					walk(x.Body.List)
				} else if x.Else != nil {
					walk([]ast.Stmt{x.Else})
				}
			}
		}
	}
	for _, f := range root.Syntax {
		for _, d := range f.Decls {
			if fd, ok := d.(*ast.FuncDecl); ok && fd.Recv == nil && fd.Body != nil && fd.Name.Name == "init" {
				walk(fd.Body.List)
			}
		}
	}
	return chosen
}
