package rules

import (
	"fmt"
	"go/ast"
	"go/constant"
	"go/token"
	"go/types"
	"sort"
	"strings"

	"golang.org/x/tools/go/ssa"

	"sbpfcheck/emit"
	"sbpfcheck/flow"
	"sbpfcheck/load"
	"sbpfcheck/origin"
	"sbpfcheck/tables"
)

// validationFacts are the guarantees of the validation code that the emitter analysis assumes
// (assume/guarantee: the guarantee side is an obligation of C07).
type validationFacts struct {
	OpsRestricted bool // an operation outside Operations is reported as a problem
	NonEmpty      bool // an empty condition list is reported as a problem
	ArgMax        int64
	ArgBounded    bool
	Enforced      bool // entries whose Validate() reported problems never reach the emitter
	Detail        []string
	OpsPos        string
}

// e1Model is the shared result of engine E1 for one tree.
type e1Model struct {
	p        *load.Program
	b        *emit.Builder
	allOps   []string          // constants of type Operation (string values)
	opConst  map[string]string // value -> constant name
	opsSlice []string          // Operations literal
	facts    validationFacts
	fragFn   *ssa.Function
	frag     *emit.Obj // the group fragment object (SyscallGroup.Assemble)
	fragG    *emit.Graph
	polFn    *ssa.Function
	polObjs  map[string]*emit.Obj
	wholes   map[string]*emit.Whole
	evals    map[string]*emit.PolicyEval
	problems []string
}

// labelRole classifies a label by where it is created in the inlined emitter tree of the group fragment, counted in
// loop levels across call boundaries (so that moving a loop body into a helper, or renaming, changes nothing):
// level 0 = the group's own labels (its action), 1 = inside the loop over entries (the entry's exit label),
// 2 = inside the loop over an entry's lists (list failed), 3 = inside the loop over a list's conditions (next
// condition).  Labels the builder's own methods create (the implicit fall-through of a one-armed jump) are "builder".
func labelRole(l *emit.LabelVal) string {
	switch {
	case l == nil:
		return ""
	case l.Builder:
		return "builder"
	}
	switch l.Cum {
	case 0:
		return "group"
	case 1:
		return "entry-exit"
	case 2:
		return "list-failed"
	case 3:
		return "next-cond"
	}
	return "other"
}

func (e *Env) E1() *e1Model {
	e.mu.Lock()
	m := e.e1
	e.mu.Unlock()
	if m != nil {
		return m
	}
	m = buildE1(e)
	e.mu.Lock()
	e.e1 = m
	e.mu.Unlock()
	return m
}

func operationTables(p *load.Program) (consts map[string]string, slice []string) {
	pk := p.Pkgs[load.PkgRoot]
	consts = map[string]string{}
	opType, _ := pk.Types.Scope().Lookup("Operation").(*types.TypeName)
	if opType == nil {
		return
	}
	for _, name := range pk.Types.Scope().Names() {
		c, ok := pk.Types.Scope().Lookup(name).(*types.Const)
		if ok && types.Identical(c.Type(), opType.Type()) && c.Val().Kind() == constant.String {
			consts[constant.StringVal(c.Val())] = name
		}
	}
	for _, ex := range tables.PackageVarInits(pk) {
		cl, ok := ast.Unparen(ex).(*ast.CompositeLit)
		if !ok {
			continue
		}
		st, ok := pk.TypesInfo.TypeOf(cl).Underlying().(*types.Slice)
		if !ok || !types.Identical(st.Elem(), opType.Type()) {
			continue
		}
		for _, el := range cl.Elts {
			if c := tables.ConstOf(pk, el); c != nil && c.Kind() == constant.String {
				slice = append(slice, constant.StringVal(c))
			}
		}
	}
	return
}

// problemsAppendOn: does the region entered by the edge from->to append to the function's problem accumulator
// (a []string that reaches a return)?
func appendsStringProblem(from, to *ssa.BasicBlock) bool {
	g := flow.G(to.Parent())
	seen := map[*ssa.BasicBlock]bool{}
	isHeader := func(b *ssa.BasicBlock) bool {
		for _, p := range g.Preds(b) {
			if g.Dominates(b, p) {
				return true
			}
		}
		return false
	}
	var must func(b *ssa.BasicBlock) bool
	must = func(b *ssa.BasicBlock) bool {
		if seen[b] {
			return true
		}
		seen[b] = true
		for _, in := range b.Instrs {
			if recordsProblem(in, 0) {
				return true
			}
			if c, ok := in.(*ssa.Call); ok {
				if a := isAppend(c); a != nil {
					if st, ok := a.Type().Underlying().(*types.Slice); ok && isProblemElem(st.Elem()) {
						return true
					}
				}
			}
		}
		if isHeader(b) || len(g.Succs(b)) == 0 {
			return false
		}
		for _, s := range g.Succs(b) {
			if !must(s) {
				return false
			}
		}
		return true
	}
	return must(to)
}

func computeValidationFacts(p *load.Program, opsSlice []string) validationFacts {
	var f validationFacts
	val := p.Func(load.PkgRoot, "ArgumentConditions.Validate")
	if val == nil {
		f.Detail = append(f.Detail, "ArgumentConditions.Validate not found")
		return f
	}
	recv := val.Params[0]
	scanValidationConds(p, val, recv, &f)
	// the argument index: decided on the paths of one iteration of the validation loop.  For a sample of index values the
	// feasible paths are those whose comparisons of the element's Argument with constants hold; an index is rejected when
	// every feasible path records a problem, accepted when some feasible path records none.
	f.ArgBounded, f.ArgMax = argumentBound(val, recv)
	// a loop that hands every condition to a helper and appends whatever it reports: the facts are those of the helper
	if h, prm := validationDelegate(val, recv); h != nil {
		var hf validationFacts
		scanValidationConds(p, h, nil, &hf)
		if hf.OpsRestricted && !f.OpsRestricted {
			f.OpsRestricted, f.OpsPos = true, hf.OpsPos
		}
		if !f.ArgBounded {
			f.ArgBounded, f.ArgMax = argumentBoundIn(h, h.Blocks[0], nil, func(v ssa.Value) bool { return isFieldOfParam(flow.StripConv(v), prm, "Argument") })
		}
	}
	validationEnforcement(p, val, &f)
	return f
}

// scanValidationConds looks at the tests of a validation function that run for every list / every condition.  recv is the
// list parameter (nil in a per-condition helper).
func scanValidationConds(p *load.Program, val *ssa.Function, recv *ssa.Parameter, fp *validationFacts) {
	res := origin.NewResolver()
	f := fp
	for _, b := range val.Blocks {
		ifi, ok := flow.LastIf(b)
		if !ok {
			continue
		}
		c := flow.Norm(flow.Cond{V: ifi.Cond, Pol: true})
		succ := func(pol bool) *ssa.BasicBlock {
			if pol == c.Pol {
				return b.Succs[0]
			}
			return b.Succs[1]
		}
		// the test itself must be executed for every list / every condition: nothing but the loop's own header test may
		// dominate it (a check nested under another condition protects only part of the inputs)
		unconditional := true
		for _, cd := range flow.DomConds(b) {
			isHeader := false
			for _, l := range flow.CountedLoops(val) {
				if cd.At != nil && cd.At.Block() == l.Header {
					isHeader = true
				}
			}
			if arg, _, ok := flow.LenPred(cd.V, cd.Pol); ok && recv != nil && arg == ssa.Value(recv) {
				isHeader = true // an emptiness guard on the list itself (early return for an empty list)
			}
			if !isHeader {
				unconditional = false
			}
		}
		if !unconditional {
			continue
		}
		switch x := c.V.(type) {
		case *ssa.BinOp:
			// len(a) == 0
			if lc, ok := x.X.(*ssa.Call); ok {
				if bi, ok := lc.Call.Value.(*ssa.Builtin); ok && bi.Name() == "len" && recv != nil && lc.Call.Args[0] == ssa.Value(recv) {
					if k, ok := flow.ConstInt(x.Y); ok && k == 0 && x.Op == token.EQL && appendsStringProblem(b, succ(true)) {
						f.NonEmpty = true
					}
					if k, ok := flow.ConstInt(x.Y); ok && k == 1 && x.Op == token.LSS && appendsStringProblem(b, succ(true)) {
						f.NonEmpty = true
					}
				}
			}
			_ = res
		case *ssa.Call:
			// isKnownOperation(condition.Operation)
			cal := flow.Callee(x)
			if cal == nil || cal.Pkg == nil || cal.Pkg.Pkg.Path() != load.PkgRoot || len(x.Call.Args) != 1 {
				continue
			}
			o := res.Of(x.Call.Args[0], nil, x)
			if o.Kind != origin.KField || o.Field.Name() != "Operation" {
				continue
			}
			if !appendsStringProblem(b, succ(false)) {
				continue
			}
			// callee returns true only under o == element of Operations
			ok := true
			nTrue := 0
			for _, ret := range flow.Returns(cal) {
				rv, isC := flow.RetResults(ret)[0].(*ssa.Const)
				if !isC {
					ok = false
					continue
				}
				if rv.Value != nil && constant.BoolVal(rv.Value) {
					nTrue++
					good := false
					for _, cd := range flow.DomConds(ret.Block()) {
						bo, isB := cd.V.(*ssa.BinOp)
						if !isB || bo.Op != token.EQL || !cd.Pol {
							continue
						}
						for _, pair := range [][2]ssa.Value{{bo.X, bo.Y}, {bo.Y, bo.X}} {
							if pair[0] == ssa.Value(cal.Params[0]) {
								eo := res.Of(pair[1], nil, bo)
								if eo.Kind == origin.KElem && eo.Args[0].Kind == origin.KGlobal && eo.Args[0].Global.Name() == "Operations" {
									good = true
								}
							}
						}
					}
					if !good {
						ok = false
					}
				}
			}
			if ok && nTrue > 0 {
				f.OpsRestricted = true
				f.OpsPos = p.Pos(x.Pos())
			}
		}
	}
}

// validationEnforcement: in toSyscallsWithConditions, Conditions reach the result only when Validate() returned nothing.
func validationEnforcement(p *load.Program, val *ssa.Function, fp *validationFacts) {
	f := fp
	res := origin.NewResolver()
	ts := p.Func(load.PkgRoot, "SyscallGroup.toSyscallsWithConditions")
	if ts != nil {
		vcalls := callsToFn(ts, val)
		enforced := len(vcalls) > 0
		for _, vc := range vcalls {
			// len(result) > 0 branch
			var guard *ssa.If
			var okEdge *ssa.BasicBlock
			for _, ref := range *vc.Referrers() {
				lc, ok := ref.(*ssa.Call)
				if !ok {
					continue
				}
				if bi, ok := lc.Call.Value.(*ssa.Builtin); !ok || bi.Name() != "len" {
					continue
				}
				for _, r2 := range *lc.Referrers() {
					bo, ok := r2.(*ssa.BinOp)
					if !ok {
						continue
					}
					k, isK := flow.ConstInt(bo.Y)
					if !isK || k != 0 {
						continue
					}
					for _, r3 := range *bo.Referrers() {
						ifi, ok := r3.(*ssa.If)
						if !ok {
							continue
						}
						guard = ifi
						switch bo.Op {
						case token.GTR, token.NEQ:
							okEdge = ifi.Block().Succs[1]
						case token.EQL:
							okEdge = ifi.Block().Succs[0]
						}
					}
				}
			}
			if guard == nil || okEdge == nil {
				enforced = false
				continue
			}
			// every use of nc.Conditions as a stored/appended value must be behind okEdge
			condArg := vc.Call.Args[0]
			co := res.Of(condArg, nil, vc).String()
			for _, b := range ts.Blocks {
				for _, in := range b.Instrs {
					var stored ssa.Value
					switch x := in.(type) {
					case *ssa.Store:
						stored = x.Val
					}
					if stored == nil {
						continue
					}
					if _, isAC := stored.Type().(*types.Named); !isAC || !strings.HasSuffix(stored.Type().String(), "ArgumentConditions") {
						continue
					}
					if res.Of(stored, nil, in).String() != co {
						continue
					}
					if !flow.EdgeDominates(guard.Block(), okEdge, b) {
						enforced = false
					}
				}
			}
		}
		f.Enforced = enforced
	}
}

// validationDelegate: the validation loop visits every element of the list, hands it (by address or by value) to one
// function of the package and appends everything that function returns to the list of problems, unconditionally.
// Returns the function and its parameter that holds the condition.
func validationDelegate(val *ssa.Function, recv *ssa.Parameter) (*ssa.Function, *ssa.Parameter) {
	for _, l := range flow.CountedLoops(val) {
		if l.Over != ssa.Value(recv) || !l.Unconditional() {
			continue
		}
		for _, b := range l.BodyBlocks() {
			for _, in := range b.Instrs {
				hc, ok := in.(*ssa.Call)
				if !ok {
					continue
				}
				h := flow.Callee(hc)
				if h == nil || h.Pkg == nil || h.Pkg.Pkg.Path() != load.PkgRoot || len(h.Blocks) == 0 || h.Signature.Results().Len() != 1 || !isStringSlice(h.Signature.Results().At(0).Type()) {
					continue
				}
				// the argument that is the current element
				var prm *ssa.Parameter
				for k, a := range hc.Call.Args {
					if k >= len(h.Params) {
						break
					}
					if ia, ok := a.(*ssa.IndexAddr); ok && ia.X == ssa.Value(recv) && l.IsIndex(ia.Index) {
						prm = h.Params[k]
					}
					if _, ok := l.ElementOf(a); ok {
						prm = h.Params[k]
					}
					if ld, ok := a.(*ssa.UnOp); ok && ld.Op == token.MUL {
						if ia, ok := ld.X.(*ssa.IndexAddr); ok && ia.X == ssa.Value(recv) && l.IsIndex(ia.Index) {
							prm = h.Params[k]
						}
					}
				}
				if prm == nil || hc.Referrers() == nil {
					continue
				}
				// its result is appended to a []string in a block that every iteration passes
				appended := false
				for _, ref := range *hc.Referrers() {
					ap, ok := ref.(*ssa.Call)
					if !ok || isAppend(ap) == nil || len(ap.Call.Args) != 2 || ap.Call.Args[1] != ssa.Value(hc) {
						continue
					}
					if flow.Dominates(l.Body, ap.Block()) && len(flow.DomConds(ap.Block())) <= len(flow.DomConds(l.Body)) {
						appended = true
					}
				}
				if appended && flow.Dominates(l.Body, hc.Block()) && len(flow.DomConds(hc.Block())) <= len(flow.DomConds(l.Body)) && returnsWhatItRecords(h) {
					return h, prm
				}
			}
		}
	}
	return nil, nil
}

// returnsWhatItRecords: the helper never returns nil (or a fresh empty list) after it has recorded a problem.
func returnsWhatItRecords(h *ssa.Function) bool {
	var recording []*ssa.BasicBlock
	for _, b := range h.Blocks {
		for _, in := range b.Instrs {
			if recordsProblem(in, 0) {
				recording = append(recording, b)
			}
		}
	}
	for _, ret := range flow.Returns(h) {
		v := flow.RetResults(ret)[0]
		derived := false
		var walk func(v ssa.Value, depth int)
		walk = func(v ssa.Value, depth int) {
			if depth > 6 {
				return
			}
			switch x := v.(type) {
			case *ssa.Phi:
				for _, e := range x.Edges {
					walk(e, depth+1)
				}
			case *ssa.Call:
				if isAppend(x) != nil {
					derived = true
				}
			}
		}
		walk(v, 0)
		if derived {
			continue
		}
		for _, b := range recording {
			if b == ret.Block() || flow.Reachable(b, nil)[ret.Block()] {
				return false
			}
		}
	}
	return true
}

// isFieldOfParam: v is <prm>.<field> (prm a struct or a pointer to one, possibly spilled at entry).
func isFieldOfParam(v ssa.Value, prm *ssa.Parameter, field string) bool {
	base := func(x ssa.Value) bool {
		if x == ssa.Value(prm) {
			return true
		}
		if al, ok := x.(*ssa.Alloc); ok {
			if st := flow.OnlyStore(al); st != nil && st.Val == ssa.Value(prm) {
				return true
			}
		}
		if ld, ok := x.(*ssa.UnOp); ok && ld.Op == token.MUL {
			if al, ok := ld.X.(*ssa.Alloc); ok {
				if st := flow.OnlyStore(al); st != nil && st.Val == ssa.Value(prm) {
					return true
				}
			}
		}
		return false
	}
	switch x := v.(type) {
	case *ssa.UnOp:
		if fa, ok := x.X.(*ssa.FieldAddr); ok && x.Op == token.MUL && base(fa.X) {
			st := fa.X.Type().Underlying().(*types.Pointer).Elem().Underlying().(*types.Struct)
			return st.Field(fa.Field).Name() == field
		}
	case *ssa.Field:
		if base(x.X) {
			st := x.X.Type().Underlying().(*types.Struct)
			return st.Field(x.Field).Name() == field
		}
	}
	return false
}

func buildE1(e *Env) *e1Model {
	p := e.Host()
	m := &e1Model{p: p, polObjs: map[string]*emit.Obj{}, wholes: map[string]*emit.Whole{}, evals: map[string]*emit.PolicyEval{}}
	m.opConst, m.opsSlice = operationTables(p)
	for v := range m.opConst {
		m.allOps = append(m.allOps, v)
	}
	sort.Strings(m.allOps)
	m.facts = computeValidationFacts(p, m.opsSlice)
	cfg := emit.Config{AllOps: m.allOps}
	if m.facts.OpsRestricted && m.facts.Enforced {
		cfg.ValidatedOps = append([]string{}, m.opsSlice...)
	}
	cfg.NonEmptyLists = m.facts.NonEmpty && m.facts.Enforced
	sp := p.SSAPkg[load.PkgRoot]
	all := p.SrcFuncs(load.PkgRoot)
	m.b = emit.NewBuilder(sp, all, cfg)
	// the group fragment
	m.fragFn = p.Func(load.PkgRoot, "SyscallGroup.Assemble")
	m.polFn = p.Func(load.PkgRoot, "Policy.Assemble")
	if m.fragFn == nil || m.polFn == nil {
		m.problems = append(m.problems, "SyscallGroup.Assemble or Policy.Assemble not found")
		return m
	}
	// an entry point that hands the work to a function of the package and returns that function's program untouched (a
	// length check, a counter, a second entry point sharing the body): the generator is the function it delegates to
	m.polFn = unwrapDelegation(m.polFn)
	m.fragFn = unwrapDelegation(m.fragFn)
	progAllocs := func(fn *ssa.Function) []*ssa.Alloc {
		var out []*ssa.Alloc
		for _, b := range fn.Blocks {
			for _, in := range b.Instrs {
				if al, ok := in.(*ssa.Alloc); ok && isNamed(al.Type().Underlying().(*types.Pointer).Elem(), load.PkgRoot, "Program") {
					out = append(out, al)
				}
			}
		}
		return out
	}
	fa := progAllocs(m.fragFn)
	if len(fa) != 1 {
		m.problems = append(m.problems, fmt.Sprintf("SyscallGroup.Assemble has %d Program objects, expected 1", len(fa)))
		return m
	}
	m.fragG = m.b.Build(m.fragFn, fa[0])
	m.frag = emit.Link(m.fragG)
	for _, arch := range []bool{true, false} {
		for _, short := range []bool{true, false} {
			name := fmt.Sprintf("x86_64=%v,short=%v", arch, short)
			pe := &emit.PolicyEval{Fn: m.polFn, B: m.b, Variant: map[string]bool{"x86_64": arch, "short": short}}
			pe.FragOf = func(c *ssa.Call) *emit.Obj {
				if flow.Callee(c) == m.fragFn {
					return m.frag
				}
				return nil
			}
			pe.ObjOf = func(al *ssa.Alloc, fr *emit.Frame) *emit.Obj {
				if !isNamed(al.Type().Underlying().(*types.Pointer).Elem(), load.PkgRoot, "Program") {
					return nil
				}
				k := fmt.Sprintf("%p/%s", al, emit.FrameID(fr))
				if o, ok := m.polObjs[k]; ok {
					return o
				}
				o := emit.Link(m.b.BuildIn(fr, al))
				m.polObjs[k] = o
				return o
			}
			pe.Eval()
			m.evals[name] = pe
			w := emit.AssembleWhole(name, pe.Items)
			w.BuildEdges(func(n *emit.WNode, field string) ([]*emit.WNode, bool) {
				return m.resolveSkip(pe, w, n, field)
			})
			m.wholes[name] = w
		}
	}
	return m
}

// resolveSkip turns the non-constant skip of a policy-level jump literal into targets: position + 1 + skip
// must be a constant number of instructions before the end.
func (m *e1Model) resolveSkip(pe *emit.PolicyEval, w *emit.Whole, n *emit.WNode, field string) ([]*emit.WNode, bool) {
	it := w.Items[n.Item]
	pos, ok := pe.PosOf[it]
	if !ok {
		return nil, false
	}
	o := n.Lit.Fields[field]
	if o == nil || o.Val == nil {
		return nil, false
	}
	skip := pe.IntForm(o.Val, it)
	if !skip.OK {
		return nil, false
	}
	target := pos.Add(skip, 1).AddConst(1)
	d := pe.Total.Add(target, -1)
	c, isC := d.IsConst()
	if !isC {
		w.Notes = append(w.Notes, fmt.Sprintf("%s: position %s + 1 + skip %s = %s; program length %s: the distance to the end is not constant", field, pos, skip, target, pe.Total))
		return nil, false
	}
	if c < 1 {
		return []*emit.WNode{nil}, true // at or past the end
	}
	nodes, under := w.FromEnd(int(c))
	w.Notes = append(w.Notes, fmt.Sprintf("%s of the jump at position %s: target = %s, program length = %s: lands %d from the end", field, pos, target, pe.Total, c))
	if under {
		nodes = append(nodes, nil)
		w.Bad = append(w.Bad, emit.Problem{Rule: "E1.arch", Key: "Policy.Assemble/arch-jump/underflow", Detail: fmt.Sprintf("the program can be shorter than the %d instructions the jump distance assumes: the jump leaves the program", c)})
	}
	return nodes, true
}

// ---------------------------------------------------------------- classification of literals

type instClass struct {
	Kind string // ld_nr, ld_arch, ld_arg, ld_other, jmp, ja, ret, other
	// ld_arg
	ArgBase string // identity of the condition whose Argument is loaded
	Word    string // "hi" / "lo" / "?" under the node's byte-order world
	Off     string
	// jmp
	Cond    int64
	CondOK  bool
	Operand string // "nr", "hi:<base>", "lo:<base>", "arch", "x32mask", "const:<v>", "other:<origin>"
	// ret
	Ret string // "act:default", "act:group", "const:<v>", "other"
}

func stripConvO(o *origin.O) *origin.O {
	for o != nil && o.Kind == origin.KConv {
		o = o.Args[0]
	}
	return o
}

// affineOffset decomposes an offset origin into const + 8*arg.
func affineOffset(o *origin.O) (c int64, arg *origin.O, ok bool) {
	o = stripConvO(o)
	if o == nil {
		return 0, nil, false
	}
	if k, isK := o.IsConstInt(); isK {
		return k, nil, true
	}
	if o.Kind == origin.KBin && o.Op == token.ADD {
		c1, a1, ok1 := affineOffset(o.Args[0])
		c2, a2, ok2 := affineOffset(o.Args[1])
		if !ok1 || !ok2 || (a1 != nil && a2 != nil) {
			return 0, nil, false
		}
		if a1 == nil {
			a1 = a2
		}
		return c1 + c2, a1, true
	}
	if o.Kind == origin.KBin && o.Op == token.MUL {
		for _, pair := range [][2]*origin.O{{o.Args[0], o.Args[1]}, {o.Args[1], o.Args[0]}} {
			if k, isK := pair[0].IsConstInt(); isK && k == 8 {
				return 0, stripConvO(pair[1]), true
			}
		}
	}
	return 0, nil, false
}

// condBase returns the identity of the Condition a field origin belongs to.
func condField(o *origin.O, field string) (string, bool) {
	o = stripConvO(o)
	if o != nil && o.Kind == origin.KField && o.Field.Name() == field {
		return o.Args[0].String(), true
	}
	return "", false
}

func (m *e1Model) classify(lit *emit.Literal, endian int) instClass {
	var c instClass
	switch lit.Type {
	case "LoadAbsolute":
		off := lit.Fields["Off"]
		k, arg, ok := affineOffset(off)
		c.Off = fmt.Sprint(off)
		switch {
		case ok && arg == nil && k == 0:
			c.Kind = "ld_nr"
		case ok && arg == nil && k == 4:
			c.Kind = "ld_arch"
		case ok && arg != nil:
			base, isArg := condField(arg, "Argument")
			if !isArg {
				c.Kind = "ld_other"
				break
			}
			c.Kind = "ld_arg"
			c.ArgBase = base
			delta := k - 16
			c.Word = "?"
			if endian != 0 && (delta == 0 || delta == 4) {
				hi := (delta == 4) == (endian > 0)
				if hi {
					c.Word = "hi"
				} else {
					c.Word = "lo"
				}
			}
			c.Off = fmt.Sprintf("16+8*arg%+d", delta)
		default:
			c.Kind = "ld_other"
		}
	case "JumpIf":
		c.Kind = "jmp"
		c.Cond, c.CondOK = emit.ConstField(lit, "Cond")
		c.Operand = m.operandClass(lit.Fields["Val"])
	case "Jump":
		c.Kind = "ja"
	case "RetConstant":
		c.Kind = "ret"
		c.Ret = m.retClass(lit.Fields["Val"])
	default:
		c.Kind = "other"
	}
	return c
}

func (m *e1Model) operandClass(o *origin.O) string {
	s := stripConvO(o)
	if s == nil {
		return "other:<nil>"
	}
	if k, ok := s.IsConstInt(); ok {
		return fmt.Sprintf("const:%d", k)
	}
	if s.Kind == origin.KField && s.Field.Name() == "Num" {
		return "nr"
	}
	if b, ok := condField(s, "Value"); ok {
		return "lo:" + b
	}
	if s.Kind == origin.KBin && s.Op == token.SHR {
		if k, ok := s.Args[1].IsConstInt(); ok && k == 32 {
			if b, ok := condField(s.Args[0], "Value"); ok {
				return "hi:" + b
			}
		}
	}
	if s.Kind == origin.KField && s.Field.Name() == "ID" && strings.Contains(s.Args[0].String(), ".arch") {
		return "arch"
	}
	if s.Kind == origin.KField && s.Field.Name() == "SeccompMask" && strings.Contains(s.Args[0].String(), "global:X32") {
		return "x32mask"
	}
	return "other:" + s.String()
}

func (m *e1Model) retClass(o *origin.O) string {
	s := stripConvO(o)
	if s == nil {
		return "other"
	}
	if k, ok := s.IsConstInt(); ok {
		return fmt.Sprintf("const:%d", k)
	}
	// the Ret contract: phi{ action , action | errnoEPERM }
	str := s.String()
	switch {
	case strings.Contains(str, ".DefaultAction") && !strings.Contains(str, ".Action)") && !strings.Contains(str, ".Action "):
		return "act:default"
	case strings.Contains(str, "param:defaultAction"):
		return "act:default-param"
	case strings.Contains(str, ".Action"):
		return "act:group"
	}
	return "other:" + str
}

// cBPF jump test constants of golang.org/x/net/bpf, resolved from the loaded package.
func jumpTests(p *load.Program) map[int64]string {
	out := map[int64]string{}
	for _, pk := range p.All {
		if pk.PkgPath != "golang.org/x/net/bpf" {
			continue
		}
		for _, n := range pk.Types.Scope().Names() {
			c, ok := pk.Types.Scope().Lookup(n).(*types.Const)
			if !ok || !strings.HasPrefix(n, "Jump") {
				continue
			}
			if named, ok := c.Type().(*types.Named); ok && named.Obj().Name() == "JumpTest" {
				if v, ok := constant.Int64Val(c.Val()); ok {
					out[v] = n
				}
			}
		}
	}
	return out
}

func nodePos(p *load.Program, n *emit.WNode) string {
	if n == nil || n.Lit == nil {
		return ""
	}
	if n.Emit != nil && n.Emit.CallPos.IsValid() {
		return p.Pos(n.Emit.CallPos)
	}
	return p.Pos(n.Lit.Pos)
}

func siteName(n *emit.WNode) string {
	if n == nil {
		return "<end>"
	}
	fn := "Policy.Assemble"
	if n.Lit != nil && n.Lit.Fn != nil {
		fn = load.FuncName(n.Lit.Fn)
	}
	if n.Emit != nil {
		fn = load.FuncName(n.Emit.Fn)
	}
	return fn + "/" + n.Lit.Type
}

// DumpE1 prints the model (development aid: `sbpfcheck -prop E1DUMP`).
func dumpCondSources(m *e1Model) {
	if m.fragG == nil {
		return
	}
	for pos, o := range m.fragG.CondSources {
		fmt.Printf("condsource %s: %s\n", m.p.Pos(pos), o.String())
	}
}

func DumpE1(e *Env) {
	m := e.E1()
	fmt.Println("problems:", m.problems)
	dumpCondSources(m)
	fmt.Printf("facts: %+v\n", m.facts)
	fmt.Println("ops:", m.allOps, "slice:", m.opsSlice)
	if m.fragG == nil {
		return
	}
	fmt.Printf("fragment graph: %d nodes, %d emits, problems=%v linkproblems=%d\n", len(m.fragG.Nodes), len(m.frag.Emits), m.fragG.Problem, len(m.frag.Problems))
	for _, pr := range m.frag.Problems {
		fmt.Println("  LINK:", pr.Rule, pr.Key, pr.Detail)
	}
	for _, n := range m.fragG.Nodes {
		d := ""
		switch n.Kind {
		case emit.EvEmit:
			c := m.classify(n.Lit, n.EndianOf())
			d = fmt.Sprintf("%s %+v", n.Lit.Type, c)
		case emit.EvJrec:
			d = fmt.Sprintf("T=%v F=%v", n.LT, n.LF)
		case emit.EvBind, emit.EvNew:
			d = fmt.Sprint(n.L)
		}
		var su []int
		for _, s := range n.Succ {
			su = append(su, s.ID)
		}
		fmt.Printf("  %3d %-4s %-28s ops=%-20s endian=%d -> %v  %s\n", n.ID, n.Kind, n.Fn.Name(), n.Ops, n.EndianOf(), su, d)
	}
	var names []string
	for k := range m.wholes {
		names = append(names, k)
	}
	sort.Strings(names)
	for _, k := range names {
		w := m.wholes[k]
		pe := m.evals[k]
		fmt.Printf("variant %s: items=%d nodes=%d total=%s problems=%v notes=%v bad=%v\n", k, len(w.Items), len(w.Nodes), pe.Total, pe.Problems, w.Notes, w.Bad)
		for i, it := range w.Items {
			fmt.Printf("   item %d %s syms=%v", i, it.Kind, it.Syms)
			if it.Lit != nil {
				fmt.Printf(" %s %+v pos=%s", it.Lit.Type, m.classify(it.Lit, 0), pe.PosOf[it])
			}
			fmt.Println()
		}
	}
}

// argumentBound: (every index above the largest accepted one is rejected, the largest accepted index).
func argumentBound(val *ssa.Function, recv *ssa.Parameter) (bool, int64) {
	var loop *flow.CountedLoop
	for _, l := range flow.CountedLoops(val) {
		if l.Over == ssa.Value(recv) {
			loop = l
		}
	}
	if loop == nil {
		return false, -1
	}
	return argumentBoundIn(val, loop.Body, loop.Header, func(v ssa.Value) bool {
		f, ok := loop.ElementOf(flow.StripConv(v))
		return ok && f == "Argument"
	})
}

// argumentBoundIn enumerates the paths from start to stop (or to a return) and decides which argument indices they accept.
func argumentBoundIn(val *ssa.Function, start, stop *ssa.BasicBlock, isArg func(v ssa.Value) bool) (bool, int64) {
	g := flow.G(val)
	type path struct {
		preds    []flow.IntPred
		appended bool
	}
	var paths []path
	blockAppends := func(b *ssa.BasicBlock) bool {
		for _, in := range b.Instrs {
			if recordsProblem(in, 0) {
				return true
			}
			if c, ok := in.(*ssa.Call); ok {
				if a := isAppend(c); a != nil {
					if st, ok := a.Type().Underlying().(*types.Slice); ok && isProblemElem(st.Elem()) {
						return true
					}
				}
			}
		}
		return false
	}
	var walk func(b *ssa.BasicBlock, cur path, seen map[*ssa.BasicBlock]bool)
	walk = func(b *ssa.BasicBlock, cur path, seen map[*ssa.BasicBlock]bool) {
		if len(paths) > 4096 {
			return
		}
		if b == stop {
			paths = append(paths, path{append([]flow.IntPred{}, cur.preds...), cur.appended})
			return
		}
		if seen[b] {
			return
		}
		seen[b] = true
		defer delete(seen, b)
		if blockAppends(b) {
			cur.appended = true
		}
		succs := g.Succs(b)
		if len(succs) == 0 {
			// leaves the function inside the loop (return): counts as a rejection only if it recorded a problem
			paths = append(paths, path{append([]flow.IntPred{}, cur.preds...), cur.appended})
			return
		}
		if ifi, ok := flow.LastIf(b); ok && len(succs) == 2 && succs[0] != succs[1] {
			for k, pol := range []bool{true, false} {
				nc := path{append([]flow.IntPred{}, cur.preds...), cur.appended}
				if pr, ok := flow.AsIntPred(ifi.Cond, pol); ok && isArg(pr.X) {
					nc.preds = append(nc.preds, pr)
				}
				walk(succs[k], nc, seen)
			}
			return
		}
		for _, sx := range succs {
			walk(sx, cur, seen)
		}
	}
	walk(start, path{}, map[*ssa.BasicBlock]bool{})
	if len(paths) == 0 {
		return false, -1
	}
	accepted := func(a int64) bool {
		for _, p := range paths {
			ok := true
			for _, pr := range p.preds {
				if !pr.Holds(a) {
					ok = false
				}
			}
			if ok && !p.appended {
				return true
			}
		}
		return false
	}
	max := int64(-1)
	samples := []int64{}
	for a := int64(0); a <= 64; a++ {
		samples = append(samples, a)
	}
	samples = append(samples, 100, 255, 256, 1<<16, 1<<31-1, 1<<31, 1<<32-1)
	for _, a := range samples {
		if accepted(a) && a > max {
			max = a
		}
	}
	// contiguous from 0
	for a := int64(0); a <= max && a <= 64; a++ {
		if !accepted(a) {
			return false, max
		}
	}
	return max >= 0 && max <= 64, max
}

// recordsProblem: the instruction appends to a list of problem strings - directly, or by calling a closure / method /
// function of the package on every path of which such an append happens (a `report(...)` helper).
func recordsProblem(in ssa.Instruction, depth int) bool {
	c, ok := in.(*ssa.Call)
	if !ok || depth > 2 {
		return false
	}
	if a := isAppend(c); a != nil {
		st, ok := a.Type().Underlying().(*types.Slice)
		return ok && isProblemElem(st.Elem())
	}
	h := c.Call.StaticCallee()
	if h == nil || len(h.Blocks) == 0 || h.Pkg == nil || !strings.HasPrefix(h.Pkg.Pkg.Path(), load.Module) {
		return false
	}
	// must-analysis: every path from the entry to a return passes a recording instruction
	g := flow.G(h)
	seen := map[*ssa.BasicBlock]bool{}
	var must func(b *ssa.BasicBlock) bool
	must = func(b *ssa.BasicBlock) bool {
		if seen[b] {
			return true
		}
		seen[b] = true
		for _, x := range b.Instrs {
			if recordsProblem(x, depth+1) {
				return true
			}
		}
		succs := g.Succs(b)
		if len(succs) == 0 {
			return false
		}
		for _, sx := range succs {
			if !must(sx) {
				return false
			}
		}
		return true
	}
	return must(h.Blocks[0])
}

// unwrapDelegation: fn calls exactly one function h of the package with the same results, every success return of fn returns
// h's program itself behind h's nil error, and every other return carries no program: h is returned (applied twice at most).
func unwrapDelegation(fn *ssa.Function) *ssa.Function {
	for round := 0; round < 2; round++ {
		var call *ssa.Call
		n := 0
		for _, ci := range flow.Calls(fn) {
			c, ok := ci.(*ssa.Call)
			if !ok {
				continue
			}
			h := c.Call.StaticCallee()
			if h == nil || h == fn || h.Pkg != fn.Pkg || len(h.Blocks) == 0 || !types.Identical(h.Signature.Results(), fn.Signature.Results()) {
				continue
			}
			n++
			call = c
		}
		if n != 1 || fn.Signature.Results().Len() != 2 {
			return fn
		}
		errv := flow.ErrResult(call)
		okAll, nSucc := true, 0
		for _, ret := range flow.Returns(fn) {
			rs := flow.RetResults(ret)
			if len(rs) != 2 {
				return fn
			}
			// `return h(...)`: both results handed on as they are
			if ex0, ok0 := rs[0].(*ssa.Extract); ok0 && ex0.Tuple == ssa.Value(call) && ex0.Index == 0 && rs[1] == errv {
				nSucc++
				continue
			}
			if flow.KnownNonNilError(rs[1], ret.Block()) || rs[1] == errv {
				// failure return: no program
				if k, isConst := rs[0].(*ssa.Const); !isConst || k.Value != nil {
					if ex, isEx := rs[0].(*ssa.Extract); !(isEx && ex.Tuple == ssa.Value(call) && rs[1] == errv) {
						okAll = false
					}
				}
				continue
			}
			ex, isEx := rs[0].(*ssa.Extract)
			if !isEx || ex.Tuple != ssa.Value(call) || ex.Index != 0 {
				okAll = false
				continue
			}
			// `return h(...)` directly, or a nil error behind h's nil error
			if rs[1] == errv {
				nSucc++
				continue
			}
			if !flow.IsNilConst(rs[1]) || errv == nil {
				okAll = false
				continue
			}
			if nn, known := flow.ErrKnown(errv, ret.Block()); !known || nn {
				okAll = false
				continue
			}
			nSucc++
		}
		if !okAll || nSucc == 0 {
			return fn
		}
		fn = call.Call.StaticCallee()
	}
	return fn
}
