package rules

import (
	"fmt"
	"go/token"
	"go/types"
	"sort"
	"strings"

	"golang.org/x/tools/go/ssa"

	"sbpfcheck/flow"
	"sbpfcheck/load"
	"sbpfcheck/origin"
)

// pureFailCallee lists the callees allowed on a failure edge before the
// return: they build the error value and have no other effect.
var extraPure func(ssa.CallInstruction) bool

func pureFailCall(c ssa.CallInstruction) bool { return pureFailCallDepth(c, 0) }

// a helper of the module that does nothing but what is allowed on a failure edge anyway (`removeTemp(name)` around a
// best-effort os.Remove) is allowed as well
func pureHelper(f *ssa.Function, depth int) bool {
	if f == nil || len(f.Blocks) == 0 || f.Pkg == nil || !strings.HasPrefix(f.Pkg.Pkg.Path(), load.Module) || depth > 2 {
		return false
	}
	for _, b := range f.Blocks {
		for _, in := range b.Instrs {
			switch x := in.(type) {
			case *ssa.Go, *ssa.Defer, *ssa.Send, *ssa.MapUpdate, *ssa.Panic:
				return false
			case *ssa.Store:
				if _, local := x.Addr.(*ssa.Alloc); !local {
					return false
				}
			case ssa.CallInstruction:
				if !pureFailCallDepth(x, depth+1) {
					return false
				}
			}
		}
	}
	return true
}

func pureFailCallDepth(c ssa.CallInstruction, depth int) bool {
	if extraPure != nil && extraPure(c) {
		return true
	}
	if _, isCall := c.(*ssa.Call); isCall && pureHelper(flow.Callee(c), depth) {
		return true
	}
	if flow.CalleeIs(c, "fmt", "Errorf") || flow.CalleeIs(c, "errors", "New") || flow.CalleeIs(c, "fmt", "Sprintf") || flow.CalleeIs(c, "strings", "Join") {
		return true
	}
	if bi, ok := c.Common().Value.(*ssa.Builtin); ok {
		switch bi.Name() {
		case "len", "cap", "append":
			return true
		}
	}
	return false
}

// failEdgeReturnsError checks that on the failure edge of the error check of
// `call` the function returns (zero..., non-nil error) without any other
// effect.  nilFirst demands that result 0 is the nil constant ("no program").
func failEdgeReturnsError(e *Env, p *load.Program, rule, key string, call *ssa.Call, nilFirst bool) bool {
	r := e.R
	mk := r.Mark()
	if failEdgeReturnsErrorDom(e, p, rule, key, call, nilFirst) {
		return true
	}
	// the dominator tree does not show it (a shared error variable, a check behind a join, a deferred rewrite of the
	// result): decide the same statement on the function's paths
	if nilFirst || flow.ErrResult(call) == nil {
		return false
	}
	ps := pathsOf(p, call.Parent())
	if good, _ := ps.failReturns(call, extraPure); good {
		r.Retract(mk, rule)
		r.OK(rule, key, p.Pos(call.Pos()), fmt.Sprintf("failure of %s leads, without other effects, to a return with a non-nil error on every path (%s)", calleeName(call), ps.describe()))
		return true
	}
	return false
}

func failEdgeReturnsErrorDom(e *Env, p *load.Program, rule, key string, call *ssa.Call, nilFirst bool) bool {
	r := e.R
	errv := flow.ErrResult(call)
	if errv == nil {
		r.Unknown(rule, key, p.Pos(call.Pos()), "call has no error result")
		return false
	}
	checks := flow.FindErrChecks(errv)
	if len(checks) == 0 {
		// the error may be returned directly: `return f()`
		direct := false
		for _, ref := range *errv.Referrers() {
			if ret, ok := ref.(*ssa.Return); ok {
				for _, res := range flow.RetResults(ret) {
					if res == errv {
						direct = true
					}
				}
			}
		}
		if direct {
			r.OK(rule, key, p.Pos(call.Pos()), "the callee's error is returned directly")
			return true
		}
		r.Bad(rule, key, p.Pos(call.Pos()), fmt.Sprintf("the error returned by %s is never compared with nil", calleeName(call)))
		return false
	}
	ok := true
	for _, ec := range checks {
		if !flow.InstrDominates(call, ec.If) {
			continue
		}
		region := flow.Region(ec.If.Block(), ec.Fail)
		if len(region) == 0 {
			r.Bad(rule, key, p.Pos(ec.If.Pos()), "the failure edge of the error check joins the success path (no separate failure handling)")
			ok = false
			continue
		}
		nret := 0
		for b := range region {
			for _, in := range b.Instrs {
				switch x := in.(type) {
				case ssa.CallInstruction:
					if !pureFailCall(x) {
						r.Bad(rule, key+"/effect", p.Pos(x.Pos()), fmt.Sprintf("call to %s on the failure edge of %s", calleeNameCI(x), calleeName(call)))
						ok = false
					}
				case *ssa.Return:
					nret++
					n := len(flow.RetResults(x))
					if n == 0 {
						r.Bad(rule, key, p.Pos(x.Pos()), "return without results on a failure edge")
						ok = false
						continue
					}
					errRes := flow.RetResults(x)[n-1]
					if !flow.IsErrorType(errRes.Type()) || !flow.KnownNonNilError(errRes, b) {
						r.Bad(rule, key, p.Pos(x.Pos()), fmt.Sprintf("after %s failed, a return is reached whose error is not provably non-nil", calleeName(call)))
						ok = false
					}
					if nilFirst && n >= 2 && !flow.IsNilConst(flow.RetResults(x)[0]) {
						r.Bad(rule, key, p.Pos(x.Pos()), fmt.Sprintf("after %s failed, a non-nil first result is returned together with the error", calleeName(call)))
						ok = false
					}
				}
			}
			// the region must not fall back into the success path
			for _, s := range flow.G(b.Parent()).Succs(b) {
				if !region[s] {
					r.Bad(rule, key, p.Pos(ec.If.Pos()), fmt.Sprintf("the failure edge of %s continues into the success path", calleeName(call)))
					ok = false
				}
			}
		}
		if nret == 0 {
			r.Bad(rule, key, p.Pos(ec.If.Pos()), "no return on the failure edge")
			ok = false
		}
	}
	if ok {
		r.OK(rule, key, p.Pos(call.Pos()), fmt.Sprintf("failure of %s leads, without other effects, to a return with a non-nil error", calleeName(call)))
	}
	return ok
}

func calleeName(c *ssa.Call) string { return calleeNameCI(c) }

func calleeNameCI(c ssa.CallInstruction) string {
	if f := flow.Callee(c); f != nil {
		if f.Pkg != nil {
			return f.Pkg.Pkg.Name() + "." + load.FuncName(f)
		}
		return load.FuncName(f)
	}
	if c.Common().IsInvoke() {
		return c.Common().Method.FullName()
	}
	// call through a function value: name it by where the value comes from, not by its SSA register
	if ld, ok := c.Common().Value.(*ssa.UnOp); ok {
		if fa, ok := ld.X.(*ssa.FieldAddr); ok {
			if pt, ok := fa.X.Type().Underlying().(*types.Pointer); ok {
				if st, ok := pt.Elem().Underlying().(*types.Struct); ok {
					return "(func field " + st.Field(fa.Field).Name() + ")"
				}
			}
		}
	}
	return "(func value)"
}

// callsTo returns the calls of fn that statically target pkgPath.name.
func callsTo(fn *ssa.Function, pkgPath, name string) []*ssa.Call {
	var out []*ssa.Call
	for _, c := range flow.Calls(fn) {
		if call, ok := c.(*ssa.Call); ok && flow.CalleeIs(call, pkgPath, name) {
			out = append(out, call)
		}
	}
	return out
}

// checkAssembleGetInfoFirst: in Policy.Assemble the (single) call to
// arch.GetInfo has its error returned with a nil program, and no group is
// compiled before it.
func checkAssembleGetInfoFirst(e *Env, p *load.Program, rule string) {
	r := e.R
	fn := p.Func(load.PkgRoot, "Policy.Assemble")
	if fn == nil {
		r.Unknown(rule, "Policy.Assemble", "", "function not found")
		return
	}
	gi := callsTo(fn, load.PkgArch, "GetInfo")
	var via *ssa.Call // the call in Policy.Assemble to the helper that looks the architecture up
	if len(gi) == 0 {
		// in a helper of the package that Policy.Assemble calls (`ensureArch`)
		for _, c := range flow.Calls(fn) {
			call, ok := c.(*ssa.Call)
			if !ok {
				continue
			}
			cal := flow.Callee(call)
			if cal == nil || cal.Pkg == nil || cal.Pkg.Pkg.Path() != load.PkgRoot || len(cal.Blocks) == 0 {
				continue
			}
			if hs := callsTo(cal, load.PkgArch, "GetInfo"); len(hs) == 1 {
				gi, via = hs, call
			}
		}
	}
	if len(gi) != 1 {
		r.Unknown(rule, "Policy.Assemble/GetInfo", p.Pos(fn.Pos()), fmt.Sprintf("expected exactly one call to arch.GetInfo, found %d", len(gi)))
		return
	}
	if via != nil {
		// the helper returns the lookup's error, and Policy.Assemble returns the helper's
		failEdgeReturnsError(e, p, rule, "Policy.Assemble/GetInfo-error", gi[0], false)
		failEdgeReturnsError(e, p, rule, "Policy.Assemble/GetInfo-error/propagated", via, true)
	} else {
		failEdgeReturnsError(e, p, rule, "Policy.Assemble/GetInfo-error", gi[0], true)
	}
	// GetInfo("") : the argument is the empty string constant (=> GOARCH)
	if s, ok := flow.ConstString(gi[0].Call.Args[0]); !ok || s != "" {
		r.Bad(rule, "Policy.Assemble/GetInfo-arg", p.Pos(gi[0].Pos()), "GetInfo is not called with the empty name (runtime.GOARCH)")
	} else {
		r.OK(rule, "Policy.Assemble/GetInfo-arg", p.Pos(gi[0].Pos()), `GetInfo("") selects runtime.GOARCH`)
	}
	anchor := gi[0]
	if via != nil {
		anchor = via
	}
	for _, c := range callsTo(fn, load.PkgRoot, "SyscallGroup.Assemble") {
		reach := flow.Reachable(c.Block(), nil)
		before := reach[anchor.Block()] && !(c.Block() == anchor.Block() && flow.InstrIndex(anchor) < flow.InstrIndex(c))
		r.Check(!before, rule, "Policy.Assemble/group-after-GetInfo", p.Pos(c.Pos()), "no group is compiled before the architecture lookup",
			"a group is compiled on a path that reaches the architecture lookup afterwards")
	}
}

// originCalls: the origin expression contains a call to f.
func originCalls(o *origin.O, f *ssa.Function) bool {
	if o == nil || f == nil {
		return false
	}
	if o.Kind == origin.KCall && o.Callee == f {
		return true
	}
	for _, a := range o.Args {
		if originCalls(a, f) {
			return true
		}
	}
	return false
}

// failEdgeNoReturn: in a command's main function the failure edge of the error check of `call` ends, on every path, in a
// call that does not return (log.Fatal, os.Exit with a non-zero status, a fatal helper) and never joins the success path.
func failEdgeNoReturn(e *Env, p *load.Program, rule, key string, call *ssa.Call) bool {
	r := e.R
	mk := r.Mark()
	if failEdgeNoReturnDom(e, p, rule, key, call) {
		return true
	}
	if flow.ErrResult(call) == nil {
		return false
	}
	// a shared error variable or a check behind a join: decide it on the function's paths (E9)
	ps := pathsOf(p, call.Parent())
	if good, _ := ps.failTerminates(call); good {
		r.Retract(mk, rule)
		r.OK(rule, key, p.Pos(call.Pos()), fmt.Sprintf("failure of %s terminates the command with a non-zero status on every path (%s)", calleeName(call), ps.describe()))
		return true
	}
	return false
}

func failEdgeNoReturnDom(e *Env, p *load.Program, rule, key string, call *ssa.Call) bool {
	r := e.R
	errv := flow.ErrResult(call)
	if errv == nil {
		r.Unknown(rule, key, p.Pos(call.Pos()), "call has no error result")
		return false
	}
	checks := flow.FindErrChecks(errv)
	if len(checks) == 0 {
		// handed to a helper that terminates the command unless the error is nil (`check(err)`)
		if refs := errv.Referrers(); refs != nil {
			for _, ref := range *refs {
				if c2, ok := ref.(*ssa.Call); ok && flow.InstrDominates(call, c2) {
					if next := nextInstr(c2); next != nil && flow.NilAssertedAt(errv, next) {
						// the helper's own exit must be non-zero
						if h := flow.Callee(c2); h != nil {
							g := flow.G(h)
							for _, b := range h.Blocks {
								if nr, dead := g.NoRet[b]; dead && g.Live(b) {
									if bad := zeroExit(nr, 0); bad != nil {
										r.Bad(rule, key+"/status", p.Pos(bad.Pos()), "the command exits with status 0 after "+calleeName(call)+" failed")
										return false
									}
								}
							}
						}
						r.OK(rule, key, p.Pos(call.Pos()), fmt.Sprintf("failure of %s terminates the command (through %s)", calleeName(call), calleeName(c2)))
						return true
					}
				}
			}
		}
		r.Bad(rule, key, p.Pos(call.Pos()), fmt.Sprintf("the error returned by %s is never compared with nil: the command goes on with a missing or partial result", calleeName(call)))
		return false
	}
	ok := true
	g := flow.G(call.Parent())
	for _, ec := range checks {
		if !flow.InstrDominates(call, ec.If) {
			continue
		}
		region := flow.Region(ec.If.Block(), ec.Fail)
		if len(region) == 0 {
			r.Bad(rule, key, p.Pos(ec.If.Pos()), fmt.Sprintf("after %s failed the command continues as if it had succeeded (the failure edge joins the success path)", calleeName(call)))
			ok = false
			continue
		}
		for b := range region {
			if nr, dead := g.NoRet[b]; dead {
				if bad := zeroExit(nr, 0); bad != nil {
					r.Bad(rule, key+"/status", p.Pos(bad.Pos()), "the command exits with status 0 after "+calleeName(call)+" failed")
					ok = false
				}
				continue
			}
			if len(g.Succs(b)) == 0 {
				r.Bad(rule, key, p.Pos(b.Instrs[len(b.Instrs)-1].Pos()), fmt.Sprintf("after %s failed the function returns normally instead of terminating with an error", calleeName(call)))
				ok = false
			}
			for _, sx := range g.Succs(b) {
				if !region[sx] {
					r.Bad(rule, key, p.Pos(ec.If.Pos()), fmt.Sprintf("after %s failed the command continues into the success path: it goes on with a missing or partial result", calleeName(call)))
					ok = false
				}
			}
		}
	}
	if ok {
		r.OK(rule, key, p.Pos(call.Pos()), fmt.Sprintf("failure of %s terminates the command with an error", calleeName(call)))
	}
	return ok
}

// nextInstr: the instruction after in, in its block (nil for the last one).
func nextInstr(in ssa.Instruction) ssa.Instruction {
	is := in.Block().Instrs
	for i, x := range is {
		if x == in && i+1 < len(is) {
			return is[i+1]
		}
	}
	return nil
}

// checkTablesFrozen (E4.frozen): the package-level tables that the rules read as literals (maps, slices, pointers to table
// structs) keep the value of their initialiser: no function of the package - including declared `func init()`s, which run
// after all package-level variables (and everything derived from them, such as an inverted table) were initialised -
// stores into them, deletes from them or re-assigns them.  only names the table-typed globals to look at (nil: all).
func checkTablesFrozen(e *Env, p *load.Program, pkgPath, rule string) {
	r := e.R
	sp := p.SSAPkg[pkgPath]
	if sp == nil {
		return
	}
	isTable := func(g *ssa.Global) bool {
		if g == nil || g.Pkg != sp {
			return false
		}
		switch t := g.Type().Underlying().(*types.Pointer).Elem().Underlying().(type) {
		case *types.Map, *types.Slice, *types.Array:
			return true
		case *types.Pointer:
			_, isStruct := t.Elem().Underlying().(*types.Struct)
			return isStruct
		}
		return false
	}
	// the global a value was loaded from (through field/index addressing)
	var rootGlobal func(v ssa.Value, depth int) *ssa.Global
	rootGlobal = func(v ssa.Value, depth int) *ssa.Global {
		if depth > 6 {
			return nil
		}
		switch x := v.(type) {
		case *ssa.Global:
			return x
		case *ssa.UnOp:
			if x.Op == token.MUL {
				return rootGlobal(x.X, depth+1)
			}
		case *ssa.FieldAddr:
			return rootGlobal(x.X, depth+1)
		case *ssa.IndexAddr:
			return rootGlobal(x.X, depth+1)
		case *ssa.Field:
			return rootGlobal(x.X, depth+1)
		case *ssa.Slice:
			return rootGlobal(x.X, depth+1)
		case *ssa.ChangeType:
			return rootGlobal(x.X, depth+1)
		}
		return nil
	}
	n := 0
	var funcs []*ssa.Function
	for path := range p.SSAPkg {
		if strings.HasPrefix(path, load.Module) {
			funcs = append(funcs, p.SrcFuncs(path)...)
		}
	}
	sort.Slice(funcs, func(i, j int) bool { return funcs[i].Pos() < funcs[j].Pos() })
	for _, f := range funcs {
		synthetic := f.Name() == "init" && f.Synthetic != "" && f.Pkg == sp
		for _, b := range f.Blocks {
			for _, in := range b.Instrs {
				var g *ssa.Global
				what := ""
				switch x := in.(type) {
				case *ssa.MapUpdate:
					g, what = rootGlobal(x.Map, 0), "an entry is stored into"
				case *ssa.Call:
					if bi, ok := x.Call.Value.(*ssa.Builtin); ok && bi.Name() == "delete" && len(x.Call.Args) > 0 {
						g, what = rootGlobal(x.Call.Args[0], 0), "an entry is deleted from"
					}
				case *ssa.Store:
					if gl, ok := x.Addr.(*ssa.Global); ok {
						if !synthetic {
							g, what = gl, "a new value is assigned to"
						}
					} else {
						g, what = rootGlobal(x.Addr, 0), "an element or field is overwritten in"
					}
				}
				if g == nil || !isTable(g) {
					continue
				}
				if synthetic {
					continue // the initialiser itself (a literal is built in a fresh value, but `x.f = ...` forms may appear)
				}
				n++
				// undecided rather than violated: the rules read the tables as literals, so a table that is written later is
				// outside what they can vouch for; whether the write breaks the property depends on what it stores
				r.Unknown(rule, g.Name()+"/written-in/"+load.FuncName(f), p.Pos(in.Pos()),
					fmt.Sprintf("%s the package-level table %s in %s: the table no longer has the value of its initialiser (which is what the rules compare with the oracle), and whatever was derived from it at initialisation (an inverted table, an alias map) does not see the change", what, g.Name(), load.FuncName(f)))
			}
		}
	}
	// the same through a helper: a function that writes through one of its parameters (directly or by handing it on),
	// called with a table
	var rootParam func(v ssa.Value, depth int) *ssa.Parameter
	rootParam = func(v ssa.Value, depth int) *ssa.Parameter {
		if depth > 6 {
			return nil
		}
		switch x := v.(type) {
		case *ssa.Parameter:
			return x
		case *ssa.UnOp:
			if x.Op == token.MUL {
				return rootParam(x.X, depth+1)
			}
		case *ssa.FieldAddr:
			return rootParam(x.X, depth+1)
		case *ssa.IndexAddr:
			return rootParam(x.X, depth+1)
		case *ssa.Field:
			return rootParam(x.X, depth+1)
		case *ssa.Slice:
			return rootParam(x.X, depth+1)
		case *ssa.ChangeType:
			return rootParam(x.X, depth+1)
		}
		return nil
	}
	paramIndex := func(f *ssa.Function, pr *ssa.Parameter) int {
		for i, q := range f.Params {
			if q == pr {
				return i
			}
		}
		return -1
	}
	type pkey struct {
		f *ssa.Function
		i int
	}
	written := map[pkey]token.Pos{}
	for _, f := range funcs {
		for _, b := range f.Blocks {
			for _, in := range b.Instrs {
				var pr *ssa.Parameter
				switch x := in.(type) {
				case *ssa.MapUpdate:
					pr = rootParam(x.Map, 0)
				case *ssa.Call:
					if bi, ok := x.Call.Value.(*ssa.Builtin); ok && bi.Name() == "delete" && len(x.Call.Args) > 0 {
						pr = rootParam(x.Call.Args[0], 0)
					}
				case *ssa.Store:
					pr = rootParam(x.Addr, 0)
				}
				if pr != nil {
					if i := paramIndex(f, pr); i >= 0 {
						if _, ok := written[pkey{f, i}]; !ok {
							written[pkey{f, i}] = in.Pos()
						}
					}
				}
			}
		}
	}
	for changed, round := true, 0; changed && round < 8; round++ {
		changed = false
		for _, f := range funcs {
			for _, b := range f.Blocks {
				for _, in := range b.Instrs {
					c, ok := in.(ssa.CallInstruction)
					if !ok {
						continue
					}
					cal := c.Common().StaticCallee()
					if cal == nil {
						continue
					}
					for ai, a := range c.Common().Args {
						pos, w := written[pkey{cal, ai}]
						if !w {
							continue
						}
						if pr := rootParam(a, 0); pr != nil {
							if i := paramIndex(f, pr); i >= 0 {
								if _, ok := written[pkey{f, i}]; !ok {
									written[pkey{f, i}] = pos
									changed = true
								}
							}
						}
					}
				}
			}
		}
	}
	for _, f := range funcs {
		if f.Name() == "init" && f.Synthetic != "" && f.Pkg == sp {
			continue // part of the initialisation itself
		}
		for _, b := range f.Blocks {
			for _, in := range b.Instrs {
				c, ok := in.(ssa.CallInstruction)
				if !ok {
					continue
				}
				cal := c.Common().StaticCallee()
				if cal == nil {
					continue
				}
				for ai, a := range c.Common().Args {
					pos, w := written[pkey{cal, ai}]
					if !w {
						continue
					}
					if g := rootGlobal(a, 0); g != nil && isTable(g) {
						n++
						r.Unknown(rule, g.Name()+"/written-through/"+load.FuncName(cal)+"/called-in/"+load.FuncName(f), p.Pos(in.Pos()),
							fmt.Sprintf("%s hands the package-level table %s to %s, which writes through that parameter (%s): the table no longer has the value of its initialiser (which is what the rules compare with the oracle), and the order of such writes may depend on map iteration", load.FuncName(f), g.Name(), load.FuncName(cal), p.Pos(pos)))
					}
				}
			}
		}
	}
	// the same through an alias: the tables of an arch.Info are exported map-valued fields, and a struct copy shares them
	if pkgPath == load.PkgArch {
		isTableField := func(v ssa.Value) (string, bool) {
			for i := 0; i < 6; i++ {
				switch x := v.(type) {
				case *ssa.UnOp:
					if x.Op != token.MUL {
						return "", false
					}
					v = x.X
				case *ssa.FieldAddr:
					st, ok := x.X.Type().Underlying().(*types.Pointer).Elem().Underlying().(*types.Struct)
					if ok && isNamed(x.X.Type().Underlying().(*types.Pointer).Elem(), load.PkgArch, "Info") {
						if fn := st.Field(x.Field).Name(); fn == "SyscallNumbers" || fn == "SyscallNames" {
							return fn, true
						}
					}
					return "", false
				case *ssa.Field:
					st, ok := x.X.Type().Underlying().(*types.Struct)
					if ok && isNamed(x.X.Type(), load.PkgArch, "Info") {
						if fn := st.Field(x.Field).Name(); fn == "SyscallNumbers" || fn == "SyscallNames" {
							return fn, true
						}
					}
					return "", false
				case *ssa.ChangeType:
					v = x.X
				default:
					return "", false
				}
			}
			return "", false
		}
		for _, f := range funcs {
			for _, b := range f.Blocks {
				for _, in := range b.Instrs {
					var m ssa.Value
					what := ""
					switch x := in.(type) {
					case *ssa.MapUpdate:
						m, what = x.Map, "an entry is stored into"
					case *ssa.Call:
						if bi, ok := x.Call.Value.(*ssa.Builtin); ok && bi.Name() == "delete" && len(x.Call.Args) > 0 {
							m, what = x.Call.Args[0], "an entry is deleted from"
						}
					}
					if m == nil {
						continue
					}
					if fld, ok := isTableField(m); ok {
						n++
						r.Unknown(rule, "Info."+fld+"/written-in/"+load.FuncName(f), p.Pos(in.Pos()),
							fmt.Sprintf("%s the %s table of an arch.Info in %s: the Info values of the package share their maps with every copy, so this changes the package's table after the other direction (and the oracle comparison) was fixed at initialisation", what, fld, load.FuncName(f)))
					}
				}
			}
		}
	}
	if n == 0 {
		r.OK(rule, "tables-frozen/"+sp.Pkg.Name(), "", "no function of the package (declared init functions included) writes to a package-level table")
	}
}

// isProblemElem: the element type of a list of recorded problems - descriptions (string) or error values.
func isProblemElem(t types.Type) bool {
	return types.Identical(t, types.Typ[types.String]) || flow.IsErrorType(t)
}
