package rules

import (
	"fmt"
	"go/constant"
	"go/types"
	"regexp"
	"strings"
	"text/template/parse"

	"golang.org/x/tools/go/ssa"

	"sbpfcheck/flow"
	"sbpfcheck/load"
)

func init() {
	Specs["C18"] = &Spec{
		Level: "other",
		Explanation: "The list handed to both emitters is computed as a set expression by abstract interpretation of the profiler (engine E7): every element-wise loop is summarised as `accumulator = init U { x in source | membership tests on x's path }`, " +
			"helper functions are followed, `if len(flag) > 0` joins are resolved by the emptiness of the flag, and the result is compared with (F \\ BL) U (AL & ARCH) - found minus blacklisted plus allowed names that exist for the architecture - " +
			"by a 16-row truth table over the membership bits of one arbitrary element (exact for all inputs, for disjoint flag sets as the property states). Duplicate-freeness (the list is rebuilt from a key set, or collected from " +
			"syscalls with distinct numbers), validity of every name (found in the binary or in the table) and sortedness (sort.Strings dominates the emitter on the same value, nothing writes in between) are attributes of the same " +
			"abstract value. The YAML literal and the Go template both say default errno / one allow group over the list; emitted keys are keys the loader reads; the YAML writers never put a document marker behind other output.",
		Trusted:     []string{"go/ssa, dominators", "sort.Strings sorts in place", "text/template/parse", "yaml.v2 key conventions; yaml.Marshal output contains no document marker", "C12 (tables injective) and C16 (Name = table[Num]) for duplicate-freeness of the collected names"},
		Assumptions: []string{"how go-ucfg / yaml.v2 parse a concrete emitted document (third-party run-time behaviour) is not analysed; only the document layout, keys and single-document condition are"},
		Run:         runC18,
	}
}

// appendedValues returns the values appended by append(acc, v1, v2...) (nil for append(acc, s...)).
func appendedValues(app *ssa.Call) []ssa.Value {
	if len(app.Call.Args) != 2 {
		return nil
	}
	sl, ok := app.Call.Args[1].(*ssa.Slice)
	if !ok {
		return nil
	}
	al, ok := sl.X.(*ssa.Alloc)
	if !ok {
		return nil
	}
	var out []ssa.Value
	for _, ref := range *al.Referrers() {
		if ia, ok := ref.(*ssa.IndexAddr); ok {
			for _, r2 := range *ia.Referrers() {
				if st, ok := r2.(*ssa.Store); ok && st.Addr == ia {
					out = append(out, st.Val)
				}
			}
		}
	}
	return out
}

func isAppend(v ssa.Value) *ssa.Call {
	c, ok := v.(*ssa.Call)
	if !ok {
		return nil
	}
	if bi, ok := c.Call.Value.(*ssa.Builtin); ok && bi.Name() == "append" {
		return c
	}
	return nil
}

// accumulatorAppends walks a loop accumulator (phi chain) and returns the append calls feeding it;
// ok=false if anything else flows in.
func accumulatorAppends(v ssa.Value) (apps []*ssa.Call, ok bool) {
	// a variable captured by a closure lives in a heap cell: look at every store into that cell, in the
	// function and in the closures that capture it
	if ld, isLoad := v.(*ssa.UnOp); isLoad {
		if al, isAlloc := ld.X.(*ssa.Alloc); isAlloc {
			return cellAppends(al)
		}
	}
	seen := map[ssa.Value]bool{}
	ok = true
	var walk func(x ssa.Value)
	walk = func(x ssa.Value) {
		if seen[x] {
			return
		}
		seen[x] = true
		switch y := x.(type) {
		case *ssa.Phi:
			for _, e := range y.Edges {
				walk(e)
			}
		case *ssa.Const:
			if !y.IsNil() {
				ok = false
			}
		case *ssa.MakeSlice:
			if k, isK := flow.ConstInt(y.Len); !isK || k != 0 {
				ok = false
			}
		case *ssa.Call:
			if a := isAppend(y); a != nil {
				apps = append(apps, a)
				walk(a.Call.Args[0])
			} else {
				ok = false
			}
		default:
			ok = false
		}
	}
	walk(v)
	return
}

// cellAppends: every store into the cell (directly or through the free variable of a closure that captures it)
// stores append(<load of the cell>, ...) or nil.
func cellAppends(al *ssa.Alloc) (apps []*ssa.Call, ok bool) {
	ok = true
	cells := []ssa.Value{al}
	for _, ref := range *al.Referrers() {
		if mc, isMC := ref.(*ssa.MakeClosure); isMC {
			fn := mc.Fn.(*ssa.Function)
			for i, b := range mc.Bindings {
				if b == ssa.Value(al) && i < len(fn.FreeVars) {
					cells = append(cells, fn.FreeVars[i])
				}
			}
		}
	}
	isCell := func(v ssa.Value) bool {
		for _, c := range cells {
			if c == v {
				return true
			}
		}
		return false
	}
	for _, c := range cells {
		for _, ref := range *c.Referrers() {
			st, isStore := ref.(*ssa.Store)
			if !isStore || st.Addr != c {
				continue
			}
			if k, isK := st.Val.(*ssa.Const); isK && k.IsNil() {
				continue
			}
			app := isAppend(st.Val)
			if app == nil {
				ok = false
				continue
			}
			ld, isLoad := app.Call.Args[0].(*ssa.UnOp)
			if !isLoad || !isCell(ld.X) {
				ok = false
				continue
			}
			apps = append(apps, app)
		}
	}
	return
}

func onlyLoopConds(b *ssa.BasicBlock) bool {
	for _, c := range flow.DomConds(b) {
		switch x := c.V.(type) {
		case *ssa.BinOp:
			// rangeindex bound test
			if ph, ok := x.X.(*ssa.BinOp); ok {
				if p2, ok := ph.X.(*ssa.Phi); ok && p2.Comment == "rangeindex" {
					continue
				}
			}
			return false
		case *ssa.Extract:
			if _, ok := x.Tuple.(*ssa.Next); ok && x.Index == 0 {
				continue
			}
			return false
		default:
			return false
		}
	}
	return true
}

// profileEmitters finds the functions that write a profile from a list of names: a []string parameter stored into the
// Names field of a seccomp.SyscallGroup or into a field called SyscallNames (the template's data).
func profileEmitters(p *load.Program) map[*ssa.Function]int {
	out := map[*ssa.Function]int{}
	for _, f := range p.SrcFuncs(load.PkgProfiler) {
		if f.Parent() != nil {
			continue
		}
		for k, prm := range f.Params {
			if !isStringSlice(prm.Type()) || prm.Referrers() == nil {
				continue
			}
			for _, ref := range *prm.Referrers() {
				st, ok := ref.(*ssa.Store)
				if !ok || st.Val != ssa.Value(prm) {
					continue
				}
				fa, ok := st.Addr.(*ssa.FieldAddr)
				if !ok {
					continue
				}
				stt, ok := fa.X.Type().Underlying().(*types.Pointer).Elem().Underlying().(*types.Struct)
				if !ok {
					continue
				}
				switch stt.Field(fa.Field).Name() {
				case "Names", "SyscallNames":
					out[f] = k
				}
			}
		}
	}
	return out
}

func runC18(e *Env) {
	r := e.R
	p := e.Host()
	mainFn := p.Func(load.PkgProfiler, "main")
	if mainFn == nil {
		r.Unknown("E7.seteq", "profiler", "", "main not found")
		return
	}
	checkELFArch(e, p)
	checkOutputOpen(e, p)
	// ---------------- E7: the emitted list as a set expression
	si := newSetInterp(p, load.PkgProfiler)
	ems := profileEmitters(p)
	r.Floor("E7.seteq(emitter functions)", len(ems), 2)
	want := sxU(sxD(sxBase("F"), sxBase("BL")), sxI(sxBase("AL"), sxBase("ARCH")))
	disjoint := func(env map[string]bool) bool { return !(env["BL"] && env["AL"]) }
	nCalls := 0
	var sets []*sx
	for _, f := range p.SrcFuncs(load.PkgProfiler) {
		for _, c := range flow.Calls(f) {
			call, ok := c.(*ssa.Call)
			if !ok {
				continue
			}
			k, isEm := ems[flow.Callee(call)]
			if !isEm || k >= len(call.Call.Args) {
				continue
			}
			nCalls++
			key := load.FuncName(f) + "/" + calleeName(call)
			fr, ok := si.frameOf(f, mainFn, 0)
			if !ok {
				r.Unknown("E7.seteq", key, p.Pos(call.Pos()), "the emitter is called from a function without a unique chain of call sites from main")
				continue
			}
			arg := call.Call.Args[k]
			c0 := si.eval(arg, fr)
			if !c0.known() {
				r.Unknown("E7.seteq", key, p.Pos(call.Pos()), "the list handed to the emitter could not be expressed over the base sets: "+c0.why)
				continue
			}
			sets = append(sets, c0.set)
			eq, cex := sxEqual(c0.set, want, disjoint)
			r.Check(eq, "E7.seteq", key, p.Pos(call.Pos()),
				fmt.Sprintf("the emitted list is %s, equal to (F \\ BL) U (AL & ARCH) for disjoint flag sets (16-row truth table over the base sets)", c0.set),
				fmt.Sprintf("the emitted list is %s, which differs from (found minus blacklisted) plus (allowed that exist for the architecture): %s", c0.set, cex))
			valid, _ := sxEqual(sxD(c0.set, sxU(sxBase("F"), sxBase("ARCH"))), sxEmpty, nil)
			r.Check(valid, "E7.valid", key, p.Pos(call.Pos()), "every emitted name was found in the binary (named from the table, C16) or exists in the architecture's table",
				"the emitted list can contain a name that is neither found in the binary nor in the architecture's table: the profile would not load")
			r.Check(c0.dupfree, "E7.dupfree", key, p.Pos(call.Pos()), "the emitted list is free of duplicates (rebuilt from a key set, or collected from syscalls with distinct numbers)",
				"the emitted list can contain a name twice (it is not rebuilt from a set and its source is not duplicate-free): the profile would be rejected as a duplicate syscall")
			srt := c0.sorted || si.sortedThrough(arg, call, fr, 0)
			r.Check(srt, "E3.sorted", key, p.Pos(call.Pos()), "sort.Strings was applied to the emitted list, dominates the emitter, and nothing else receives the list in between",
				"the emitter can run without the list having been sorted (or the list is handed to another function between sorting and emitting)")
		}
	}
	r.Floor("E7.seteq(emitter calls)", nCalls, 2)
	if si.archVal == nil {
		r.Unknown("E7.seteq", "profiler/found-syscalls", p.Pos(mainFn.Pos()), "no list derives from disasm.ExtractSyscalls")
	}
	for _, n := range si.notes {
		r.Note("%s", n)
	}
	checkFlagSplit(e, p, si)
	// ---------------- E4.profile
	checkSingleDocument(e, p)
	checkProfileLiteral(e, p)
	checkProfileTemplate(e, p)
	// keys written for a profile are keys the loader reads
	checkTags(e, p, p.Pkgs[load.PkgRoot])
	checkCmdKeys(e, p)
}

func valueOf(in ssa.Instruction) ssa.Value {
	v, _ := in.(ssa.Value)
	return v
}

// checkProfileLiteral: the seccomp.Policy value that the YAML emitter marshals says default errno, and has exactly one
// group, which allows the names handed to the emitter and carries no conditional entries.  Decided on the stores that
// build the value (go/ssa), so it does not matter whether it is written as one nested literal or assembled from locals.
func checkProfileLiteral(e *Env, p *load.Program) {
	r := e.R
	or := e.Oracle()
	// the emitter: a function with a []string parameter that ends up in the Names of a SyscallGroup
	var fn *ssa.Function
	var names *ssa.Parameter
	for f, k := range profileEmitters(p) {
		for _, ref := range *f.Params[k].Referrers() {
			if st, ok := ref.(*ssa.Store); ok {
				if fa, ok := st.Addr.(*ssa.FieldAddr); ok && fieldName(fa) == "Names" {
					fn, names = f, f.Params[k]
				}
			}
		}
	}
	if fn == nil {
		r.Unknown("E4.profile", "writeProfileConfig", "", "no function stores a []string parameter into the Names of a syscall group")
		return
	}
	key := load.FuncName(fn)
	// every store into a field of a seccomp.Policy / seccomp.SyscallGroup in this function
	type fieldStore struct {
		st    *ssa.Store
		field string
		owner string
		base  ssa.Value
	}
	var stores []fieldStore
	for _, b := range fn.Blocks {
		for _, in := range b.Instrs {
			st, ok := in.(*ssa.Store)
			if !ok {
				continue
			}
			fa, ok := st.Addr.(*ssa.FieldAddr)
			if !ok {
				continue
			}
			ot := fa.X.Type().Underlying().(*types.Pointer).Elem()
			switch {
			case isNamed(ot, load.PkgRoot, "Policy"):
				stores = append(stores, fieldStore{st, fieldName(fa), "Policy", fa.X})
			case isNamed(ot, load.PkgRoot, "SyscallGroup"):
				stores = append(stores, fieldStore{st, fieldName(fa), "SyscallGroup", fa.X})
			}
		}
	}
	constOf := func(v ssa.Value) (uint64, bool) {
		k, ok := flow.ConstInt(v)
		return uint64(uint32(k)), ok
	}
	nDefault, nAction, nNames, nCond, nSyscalls := 0, 0, 0, 0, 0
	groups := map[ssa.Value]bool{}
	policies := map[ssa.Value]bool{}
	for _, fs := range stores {
		switch fs.owner + "." + fs.field {
		case "Policy.DefaultAction":
			nDefault++
			policies[fs.base] = true
			da, ok := constOf(fs.st.Val)
			r.Check(ok && da == or.Consts["SECCOMP_RET_ERRNO"], "E4.profile", key+"/DefaultAction", p.Pos(fs.st.Pos()), "default action is errno", fmt.Sprintf("the emitted profile's default action is %#x, want errno (0x50000): unlisted syscalls would not be answered with errno", da))
		case "Policy.Syscalls":
			nSyscalls++
			policies[fs.base] = true
			// a slice literal with exactly one element
			n := int64(-1)
			if sl, ok := fs.st.Val.(*ssa.Slice); ok {
				if al, ok := sl.X.(*ssa.Alloc); ok {
					if at, ok := al.Type().Underlying().(*types.Pointer).Elem().Underlying().(*types.Array); ok && sl.Low == nil && sl.High == nil {
						n = at.Len()
					}
				}
			}
			r.Check(n == 1, "E4.profile", key+"/groups", p.Pos(fs.st.Pos()), "the profile has exactly one group", fmt.Sprintf("the profile literal does not have exactly one group (slice literal of length %d)", n))
		case "SyscallGroup.Action":
			nAction++
			groups[fs.base] = true
			ga, ok := constOf(fs.st.Val)
			r.Check(ok && ga == or.Consts["SECCOMP_RET_ALLOW"], "E4.profile", key+"/group-action", p.Pos(fs.st.Pos()), "the group's action is allow", fmt.Sprintf("the group's action is %#x, want allow", ga))
		case "SyscallGroup.Names":
			nNames++
			groups[fs.base] = true
			r.Check(fs.st.Val == ssa.Value(names), "E4.profile", key+"/group-names", p.Pos(fs.st.Pos()), "the group's names are the list parameter", "the group's Names are not the list handed to the emitter")
		case "SyscallGroup.NamesWithCondtions":
			nCond++
		}
	}
	r.Check(nDefault == 1 && nSyscalls == 1 && len(policies) == 1, "E4.profile", key+"/literal", p.Pos(fn.Pos()), "one seccomp.Policy value is built, with a default action and a group list",
		fmt.Sprintf("expected one seccomp.Policy value with one DefaultAction and one Syscalls assignment (found %d policies, %d / %d assignments)", len(policies), nDefault, nSyscalls))
	r.Check(nAction == 1 && nNames == 1 && len(groups) == 1, "E4.profile", key+"/one-group", p.Pos(fn.Pos()), "one syscall group is built, with an action and the names",
		fmt.Sprintf("expected one syscall group with one Action and one Names assignment (found %d groups, %d / %d assignments)", len(groups), nAction, nNames))
	r.Check(nCond == 0, "E4.profile", key+"/no-conditions", p.Pos(fn.Pos()), "no conditional entries", "the profile literal carries conditional entries")
}

func fieldName(fa *ssa.FieldAddr) string {
	st, ok := fa.X.Type().Underlying().(*types.Pointer).Elem().Underlying().(*types.Struct)
	if !ok {
		return ""
	}
	return st.Field(fa.Field).Name()
}

func checkProfileTemplate(e *Env, p *load.Program) {
	r := e.R
	pk := p.Pkgs[load.PkgProfiler]
	c, ok := pk.Types.Scope().Lookup("defaultTemplate").(*types.Const)
	if !ok || c.Val().Kind() != constant.String {
		r.Unknown("E4.profile", "defaultTemplate", "", "template constant not found")
		return
	}
	text := constant.StringVal(c.Val())
	t := parse.New("profile")
	t.Mode = parse.SkipFuncCheck
	if _, err := t.Parse(text, "", "", map[string]*parse.Tree{}); err != nil {
		r.Bad("E4.profile", "defaultTemplate/parse", p.Pos(c.Pos()), "the code template does not parse: "+err.Error())
		return
	}
	var flat strings.Builder
	ranges := 0
	rangeOK := false
	var walk func(n parse.Node, inRange bool)
	walk = func(n parse.Node, inRange bool) {
		switch x := n.(type) {
		case *parse.ListNode:
			if x == nil {
				return
			}
			for _, c := range x.Nodes {
				walk(c, inRange)
			}
		case *parse.TextNode:
			flat.Write(x.Text)
		case *parse.RangeNode:
			ranges++
			if strings.Contains(x.Pipe.String(), ".SyscallNames") {
				rangeOK = true
			}
			flat.WriteString("<RANGE>")
			walk(x.List, true)
			flat.WriteString("</RANGE>")
		case *parse.ActionNode:
			flat.WriteString("<" + x.Pipe.String() + ">")
		case *parse.IfNode:
			flat.WriteString("<IF>")
			walk(x.List, inRange)
			walk(x.ElseList, inRange)
		}
	}
	walk(t.Root, false)
	s := strings.Join(strings.Fields(flat.String()), " ")
	r.Check(strings.Contains(s, "DefaultAction: seccomp.ActionErrno"), "E4.profile", "defaultTemplate/DefaultAction", p.Pos(c.Pos()), "the generated code says DefaultAction: seccomp.ActionErrno", "the code template does not set DefaultAction: seccomp.ActionErrno")
	r.Check(strings.Count(s, "Action: seccomp.Action") == 2 && strings.Contains(s, " Action: seccomp.ActionAllow"), "E4.profile", "defaultTemplate/group-action", p.Pos(c.Pos()), "one group with Action: seccomp.ActionAllow", "the code template's group action is not seccomp.ActionAllow (or there is more than one group)")
	r.Check(ranges == 1 && rangeOK && strings.Contains(s, "Names: []string{<RANGE>"), "E4.profile", "defaultTemplate/names", p.Pos(c.Pos()), "Names ranges over .SyscallNames", "the code template does not fill Names by ranging over .SyscallNames")
	// writeGoTemplate passes the list as SyscallNames
	if fn := p.Func(load.PkgProfiler, "writeGoTemplate"); fn != nil {
		good := false
		for _, b := range fn.Blocks {
			for _, in := range b.Instrs {
				st, ok := in.(*ssa.Store)
				if !ok {
					continue
				}
				fa, ok := st.Addr.(*ssa.FieldAddr)
				if !ok {
					continue
				}
				stt := fa.X.Type().Underlying().(*types.Pointer).Elem().Underlying().(*types.Struct)
				if stt.Field(fa.Field).Name() == "SyscallNames" && st.Val == ssa.Value(fn.Params[len(fn.Params)-1]) {
					good = true
				}
			}
		}
		r.Check(good, "E4.profile", "writeGoTemplate/SyscallNames", p.Pos(fn.Pos()), "the template parameter SyscallNames is the list parameter", "writeGoTemplate does not pass its list parameter as SyscallNames")
	}
}

var fmtVerb = regexp.MustCompile(`%[-+# 0-9.*]*[a-zA-Z]`)

// yamlMarkerLine: after replacing format verbs by line breaks (a marshalled document ends in one), does the constant
// contain a line that is a YAML document marker?  Returns the byte offset of the first one, or -1.
func yamlMarkerLine(text string) int {
	t := fmtVerb.ReplaceAllStringFunc(text, func(v string) string { return strings.Repeat("\n", len(v)) })
	off := 0
	for _, line := range strings.SplitAfter(t, "\n") {
		l := strings.TrimRight(line, "\r\n")
		if l == "---" || strings.HasPrefix(l, "--- ") || l == "..." {
			return off
		}
		off += len(line)
	}
	return -1
}

// checkSingleDocument: what the YAML writers of the profiler put on the output is one YAML document (a necessary
// condition of "the emitted profile loads through the configuration path": the loader reads the first document only).
// The marshalled pieces never contain a document marker (yaml.v2 Marshal, trusted); so no constant written next to
// them may contain one - except at the very beginning of the output.
func checkSingleDocument(e *Env, p *load.Program) {
	r := e.R
	isWriter := func(t types.Type) bool {
		n, ok := t.(*types.Named)
		return ok && n.Obj().Pkg() != nil && n.Obj().Pkg().Path() == "io" && strings.HasPrefix(n.Obj().Name(), "Write")
	}
	writers := map[*ssa.Function]int{}
	for _, f := range p.SrcFuncs(load.PkgProfiler) {
		if f.Parent() != nil {
			continue
		}
		marshals := false
		for _, c := range flow.Calls(f) {
			if cal := flow.Callee(c); cal != nil && cal.Name() == "Marshal" && cal.Pkg != nil && strings.Contains(cal.Pkg.Pkg.Path(), "yaml") {
				marshals = true
			}
		}
		if !marshals {
			continue
		}
		for k, prm := range f.Params {
			if isWriter(prm.Type()) {
				writers[f] = k
			}
		}
	}
	r.Floor("E4.profile(YAML writer functions)", len(writers), 1)
	nWrites := 0
	for f, k := range writers {
		w := f.Params[k]
		var writes []ssa.CallInstruction
		for _, c := range flow.Calls(f) {
			args := c.Common().Args
			for _, a := range args {
				if a == ssa.Value(w) {
					writes = append(writes, c)
					break
				}
				if mi, ok := a.(*ssa.MakeInterface); ok && mi.X == ssa.Value(w) {
					writes = append(writes, c)
					break
				}
			}
			if c.Common().IsInvoke() && c.Common().Value == ssa.Value(w) {
				writes = append(writes, c)
			}
		}
		for _, c := range writes {
			nWrites++
			// constant strings among the arguments (format strings, literal text), also inside the variadic array
			var consts []string
			var collect func(v ssa.Value, depth int)
			collect = func(v ssa.Value, depth int) {
				if depth > 4 {
					return
				}
				if s, ok := flow.ConstString(v); ok {
					consts = append(consts, s)
					return
				}
				switch x := v.(type) {
				case *ssa.MakeInterface:
					collect(x.X, depth+1)
				case *ssa.Convert:
					collect(x.X, depth+1)
				case *ssa.Slice:
					if al, ok := x.X.(*ssa.Alloc); ok {
						for _, ref := range *al.Referrers() {
							if ia, ok := ref.(*ssa.IndexAddr); ok {
								for _, r2 := range *ia.Referrers() {
									if st, ok := r2.(*ssa.Store); ok && st.Addr == ssa.Value(ia) {
										collect(st.Val, depth+1)
									}
								}
							}
						}
					}
				}
			}
			for _, a := range c.Common().Args {
				collect(a, 0)
			}
			for _, text := range consts {
				off := yamlMarkerLine(text)
				if off < 0 {
					continue
				}
				// harmless only as the very first bytes of the whole output
				first := off == 0
				for _, o := range writes {
					if o != c && !flow.InstrDominates(c, o) {
						first = false
					}
				}
				if first {
					for _, g := range p.SrcFuncs(load.PkgProfiler) {
						var mine, others []ssa.CallInstruction
						for _, c2 := range flow.Calls(g) {
							if cal := flow.Callee(c2); cal == f {
								mine = append(mine, c2)
							} else if _, isW := writers[cal]; isW {
								others = append(others, c2)
							}
						}
						for _, m := range mine {
							for _, o := range others {
								if instrReachesNoRepeat(o, m, nil) {
									first = false
								}
							}
						}
					}
				}
				r.Check(first, "E4.profile", load.FuncName(f)+"/single-document", p.Pos(c.Pos()),
					"a document marker is written only as the very first bytes of the output",
					fmt.Sprintf("%s writes a YAML document marker (constant %q) behind other output: the file then holds several documents, the loader reads only the first one and does not find the `seccomp` key of the profile", load.FuncName(f), text))
			}
		}
	}
	// each writer reports a marshalling failure and returns nil only after it wrote the marshalled document; the command
	// terminates with an error when a writer (or opening the output) fails
	for f, k := range writers {
		w := f.Params[k]
		for _, c := range flow.Calls(f) {
			call, ok := c.(*ssa.Call)
			if !ok {
				continue
			}
			cal := flow.Callee(call)
			if cal == nil || cal.Name() != "Marshal" || cal.Pkg == nil || !strings.Contains(cal.Pkg.Pkg.Path(), "yaml") {
				continue
			}
			failEdgeReturnsError(e, p, "E4.profile", load.FuncName(f)+"/marshal-error", call, false)
			data := flow.ResultN(call, 0)
			// the write of the marshalled bytes
			var wr ssa.Instruction
			for _, c2 := range flow.Calls(f) {
				usesW, usesData := false, false
				for _, a := range c2.Common().Args {
					if a == ssa.Value(w) {
						usesW = true
					}
					if mi, ok := a.(*ssa.MakeInterface); ok && mi.X == ssa.Value(w) {
						usesW = true
					}
					if derivesFromValue(a, data, 0) {
						usesData = true
					}
				}
				if c2.Common().IsInvoke() && c2.Common().Value == ssa.Value(w) {
					usesW = true
				}
				if usesW && usesData {
					wr = c2
				}
			}
			good := wr != nil
			if good {
				for _, ret := range flow.Returns(f) {
					rs := flow.RetResults(ret)
					if len(rs) > 0 && flow.IsNilConst(rs[len(rs)-1]) && !flow.InstrDominates(wr, ret) {
						good = false
					}
				}
			}
			r.Check(good, "E4.profile", load.FuncName(f)+"/written-before-success", p.Pos(call.Pos()),
				"the marshalled document is written to the output on every path that reports success",
				load.FuncName(f)+" can return nil without having written the marshalled document: the output file is empty or partial and does not load")
		}
	}
	nFatal := 0
	ems := profileEmitters(p)
	// functions of the command through which a writer's failure travels to main
	reachMemo := map[*ssa.Function]int{}
	var reachesWriter func(f *ssa.Function) bool
	reachesWriter = func(f *ssa.Function) bool {
		if f == nil || f.Pkg == nil || f.Pkg.Pkg.Path() != load.PkgProfiler || len(f.Blocks) == 0 {
			return false
		}
		if _, ok := writers[f]; ok {
			return true
		}
		if _, ok := ems[f]; ok {
			return true
		}
		if v, ok := reachMemo[f]; ok {
			return v == 1
		}
		reachMemo[f] = 0
		for _, c := range flow.Calls(f) {
			if reachesWriter(flow.Callee(c)) {
				reachMemo[f] = 1
				return true
			}
		}
		return false
	}
	for _, g := range p.SrcFuncs(load.PkgProfiler) {
		if g.Parent() != nil {
			continue
		}
		isMain := g.Name() == "main"
		_, gW := writers[g]
		_, gE := ems[g]
		if !isMain && (gW || gE || !reachesWriter(g)) {
			continue // the writers' own error handling is decided above
		}
		for _, c := range flow.Calls(g) {
			call, ok := c.(*ssa.Call)
			if !ok || !sigHasError(call) {
				continue
			}
			cal := flow.Callee(call)
			opensOut := false
			if cal != nil && cal.Signature.Results().Len() == 2 {
				if n, ok := cal.Signature.Results().At(0).Type().(*types.Named); ok && n.Obj().Pkg() != nil && n.Obj().Pkg().Path() == "io" && strings.HasPrefix(n.Obj().Name(), "Write") {
					opensOut = cal.Pkg != nil && cal.Pkg.Pkg.Path() == load.PkgProfiler
				}
			}
			if !reachesWriter(cal) && !opensOut {
				continue
			}
			nFatal++
			if flow.ErrResult(call) == nil {
				r.Bad("E4.profile", load.FuncName(g)+"/"+calleeName(call)+"-failure", p.Pos(call.Pos()), "the error of "+calleeName(call)+" is discarded: the command goes on with a missing or partial profile")
				continue
			}
			if isMain {
				failEdgeNoReturn(e, p, "E4.profile", "main/"+calleeName(call)+"-failure", call)
			} else {
				// an intermediate function hands the failure on to its caller (which is examined in turn)
				failEdgeReturnsError(e, p, "E4.profile", load.FuncName(g)+"/"+calleeName(call)+"-failure", call, false)
			}
		}
	}
	r.Floor("E4.profile(writer calls of the command)", nFatal, 2)
	r.Count("writes of the YAML writers examined", nWrites)
	r.Floor("E4.profile(writes of the YAML writers)", nWrites, 1)
}

// derivesFromValue: v is x, or a conversion / interface wrapping / variadic packing of it.
func derivesFromValue(v, x ssa.Value, depth int) bool {
	if depth > 5 || v == nil || x == nil {
		return false
	}
	if v == x {
		return true
	}
	switch y := v.(type) {
	case *ssa.Convert:
		return derivesFromValue(y.X, x, depth+1)
	case *ssa.ChangeType:
		return derivesFromValue(y.X, x, depth+1)
	case *ssa.MakeInterface:
		return derivesFromValue(y.X, x, depth+1)
	case *ssa.Slice:
		if al, ok := y.X.(*ssa.Alloc); ok {
			for _, ref := range *al.Referrers() {
				if ia, ok := ref.(*ssa.IndexAddr); ok {
					for _, r2 := range *ia.Referrers() {
						if st, ok := r2.(*ssa.Store); ok && st.Addr == ssa.Value(ia) && derivesFromValue(st.Val, x, depth+1) {
							return true
						}
					}
				}
			}
		}
		return derivesFromValue(y.X, x, depth+1)
	}
	return false
}
