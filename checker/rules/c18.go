package rules

import (
	"fmt"
	"go/ast"
	"go/constant"
	"go/types"
	"strings"
	"text/template/parse"

	"golang.org/x/tools/go/ssa"

	"sbpfcheck/flow"
	"sbpfcheck/load"
	"sbpfcheck/origin"
	"sbpfcheck/tables"
)

func init() {
	Specs["C18"] = &Spec{
		Level: "other",
		Explanation: "Skeleton of the profile computation (the set equation itself is value-level and not claimed): names are collected from a map keyed by syscall number (numbers distinct) whose values come from the injective " +
			"tables; the blacklist set is built from exactly the -b flag elements and a name is kept only on the not-member edge of its own lookup; allow-list names enter only on the `found` edge of a lookup in the " +
			"architecture's name table and every input element is kept; the list handed to both emitters is the value sort.Strings was applied to, with the sort dominating the emitters and nothing writing in between; " +
			"the YAML literal and the Go template both say default errno / one allow group over the list; emitted keys are keys the loader reads.",
		Trusted:     []string{"go/ssa, dominators", "sort.Strings sorts in place", "text/template/parse", "yaml.v2 key conventions"},
		Assumptions: []string{"exactness of the set algebra as a function of the inputs is value-level and not decided"},
		Run:         runC18,
	}
}

// appendedValues returns the values appended by append(acc, v1, v2...) (nil for append(acc, s...)).
func appendedValues(app *ssa.Call) []ssa.Value {
	if len(app.Call.Args) != 2 {
		return nil
	}
	sl, ok := app.Call.Args[1].(*ssa.Slice)
	if !ok {
		return nil
	}
	al, ok := sl.X.(*ssa.Alloc)
	if !ok {
		return nil
	}
	var out []ssa.Value
	for _, ref := range *al.Referrers() {
		if ia, ok := ref.(*ssa.IndexAddr); ok {
			for _, r2 := range *ia.Referrers() {
				if st, ok := r2.(*ssa.Store); ok && st.Addr == ia {
					out = append(out, st.Val)
				}
			}
		}
	}
	return out
}

func isAppend(v ssa.Value) *ssa.Call {
	c, ok := v.(*ssa.Call)
	if !ok {
		return nil
	}
	if bi, ok := c.Call.Value.(*ssa.Builtin); ok && bi.Name() == "append" {
		return c
	}
	return nil
}

// accumulatorAppends walks a loop accumulator (phi chain) and returns the append calls feeding it;
// ok=false if anything else flows in.
func accumulatorAppends(v ssa.Value) (apps []*ssa.Call, ok bool) {
	// a variable captured by a closure lives in a heap cell: look at every store into that cell, in the
	// function and in the closures that capture it
	if ld, isLoad := v.(*ssa.UnOp); isLoad {
		if al, isAlloc := ld.X.(*ssa.Alloc); isAlloc {
			return cellAppends(al)
		}
	}
	seen := map[ssa.Value]bool{}
	ok = true
	var walk func(x ssa.Value)
	walk = func(x ssa.Value) {
		if seen[x] {
			return
		}
		seen[x] = true
		switch y := x.(type) {
		case *ssa.Phi:
			for _, e := range y.Edges {
				walk(e)
			}
		case *ssa.Const:
			if !y.IsNil() {
				ok = false
			}
		case *ssa.MakeSlice:
			if k, isK := flow.ConstInt(y.Len); !isK || k != 0 {
				ok = false
			}
		case *ssa.Call:
			if a := isAppend(y); a != nil {
				apps = append(apps, a)
				walk(a.Call.Args[0])
			} else {
				ok = false
			}
		default:
			ok = false
		}
	}
	walk(v)
	return
}

// cellAppends: every store into the cell (directly or through the free variable of a closure that captures it)
// stores append(<load of the cell>, ...) or nil.
func cellAppends(al *ssa.Alloc) (apps []*ssa.Call, ok bool) {
	ok = true
	cells := []ssa.Value{al}
	for _, ref := range *al.Referrers() {
		if mc, isMC := ref.(*ssa.MakeClosure); isMC {
			fn := mc.Fn.(*ssa.Function)
			for i, b := range mc.Bindings {
				if b == ssa.Value(al) && i < len(fn.FreeVars) {
					cells = append(cells, fn.FreeVars[i])
				}
			}
		}
	}
	isCell := func(v ssa.Value) bool {
		for _, c := range cells {
			if c == v {
				return true
			}
		}
		return false
	}
	for _, c := range cells {
		for _, ref := range *c.Referrers() {
			st, isStore := ref.(*ssa.Store)
			if !isStore || st.Addr != c {
				continue
			}
			if k, isK := st.Val.(*ssa.Const); isK && k.IsNil() {
				continue
			}
			app := isAppend(st.Val)
			if app == nil {
				ok = false
				continue
			}
			ld, isLoad := app.Call.Args[0].(*ssa.UnOp)
			if !isLoad || !isCell(ld.X) {
				ok = false
				continue
			}
			apps = append(apps, app)
		}
	}
	return
}

func onlyLoopConds(b *ssa.BasicBlock) bool {
	for _, c := range flow.DomConds(b) {
		switch x := c.V.(type) {
		case *ssa.BinOp:
			// rangeindex bound test
			if ph, ok := x.X.(*ssa.BinOp); ok {
				if p2, ok := ph.X.(*ssa.Phi); ok && p2.Comment == "rangeindex" {
					continue
				}
			}
			return false
		case *ssa.Extract:
			if _, ok := x.Tuple.(*ssa.Next); ok && x.Index == 0 {
				continue
			}
			return false
		default:
			return false
		}
	}
	return true
}

func runC18(e *Env) {
	r := e.R
	p := e.Host()
	res := origin.NewResolver()
	mainFn := p.Func(load.PkgProfiler, "main")
	fb := p.Func(load.PkgProfiler, "filterBlacklist")
	aw := p.Func(load.PkgProfiler, "addWhitelist")
	if mainFn == nil || fb == nil || aw == nil {
		r.Unknown("E3.sorted", "profiler", "", "main, filterBlacklist or addWhitelist not found")
		return
	}
	// ---------------- E3.sorted
	sorts := callsTo(mainFn, "sort", "Strings")
	var emitters []*ssa.Call
	for _, n := range []string{"writeGoTemplate", "writeProfileConfig"} {
		emitters = append(emitters, callsTo(mainFn, load.PkgProfiler, n)...)
	}
	r.Floor("E3.sorted(emitter calls)", len(emitters), 2)
	if len(sorts) != 1 {
		r.Bad("E3.sorted", "main/sort", p.Pos(mainFn.Pos()), fmt.Sprintf("expected exactly one sort.Strings call on the name list before the emitters, found %d: the emitted list is not guaranteed sorted", len(sorts)))
	} else {
		S := sorts[0].Call.Args[0]
		for _, em := range emitters {
			arg := em.Call.Args[len(em.Call.Args)-1]
			key := "main/" + calleeName(em)
			r.Check(arg == S, "E3.sorted", key+"/same-slice", p.Pos(em.Pos()), "the emitter receives the slice value that was sorted", "the emitter receives a list other than the one sort.Strings was applied to")
			r.Check(flow.InstrDominates(sorts[0], em), "E3.sorted", key+"/after-sort", p.Pos(em.Pos()), "sort.Strings dominates the emitter", "the emitter can run without the list having been sorted")
		}
		// nothing else may receive S (a write between sort and emit) except readers
		for _, ref := range *S.Referrers() {
			c, ok := ref.(*ssa.Call)
			if !ok || c == sorts[0] {
				continue
			}
			isEm := false
			for _, em := range emitters {
				if em == c {
					isEm = true
				}
			}
			if isEm {
				continue
			}
			if bi, ok := c.Call.Value.(*ssa.Builtin); ok && (bi.Name() == "len" || bi.Name() == "cap") {
				continue
			}
			if flow.CalleeIs(c, "strings", "Join") {
				continue
			}
			// another call with S after the sort
			if flow.InstrDominates(sorts[0], c) || instrReaches(sorts[0], c) {
				r.Bad("E3.sorted", "main/write-after-sort/"+calleeName(c), p.Pos(c.Pos()), "the sorted list is handed to another function between sorting and emitting")
			}
		}
		// provenance of S
		o := res.Of(S, nil, sorts[0])
		var alts []*origin.O
		var flat func(x *origin.O)
		flat = func(x *origin.O) {
			if x.Kind == origin.KPhi {
				for _, a := range x.Args {
					flat(a)
				}
				return
			}
			alts = append(alts, x)
		}
		flat(o)
		for _, a := range alts {
			good := false
			desc := a.String()
			if a.Kind == origin.KCall && a.Index == 0 && (a.Callee == fb || a.Callee == aw) {
				good = true
				desc = a.Callee.Name() + "(...)#0"
			}
			if a.Kind == origin.KCall && a.Name == "append" {
				good = true // the dedup accumulation, checked below
				desc = "dedup accumulation"
			}
			if a.Kind == origin.KUnknown && strings.HasPrefix(a.Name, "loop:") {
				good = true
				desc = "dedup accumulation"
			}
			if a.Kind == origin.KNil {
				good = true
				desc = "empty"
			}
			if !good {
				desc = "other"
			}
			r.Check(good, "E3.sorted", "main/provenance/"+desc, p.Pos(sorts[0].Pos()), "the sorted list is the deduplicated list, optionally passed through filterBlacklist / addWhitelist", "the sorted list has an unexpected source: "+a.String())
		}
	}
	// dedup: map keyed by number
	nDedup := 0
	for _, b := range mainFn.Blocks {
		for _, in := range b.Instrs {
			mu, ok := in.(*ssa.MapUpdate)
			if !ok {
				continue
			}
			mt, ok := mu.Map.Type().Underlying().(*types.Map)
			if !ok || !isNamed(mt.Elem(), load.PkgDisasm, "Syscall") {
				continue
			}
			nDedup++
			ko := res.Of(mu.Key, nil, mu)
			vo := res.Of(mu.Value, nil, mu)
			good := ko.Kind == origin.KField && ko.Field.Name() == "Num" && origin.Equal(ko.Args[0], vo) && strings.Contains(vo.String(), "ExtractSyscalls")
			r.Check(good, "E3.sorted", "main/dedup-by-number", p.Pos(mu.Pos()), "found syscalls are deduplicated in a map keyed by their own number", fmt.Sprintf("the dedup map is keyed by %s for value %s", ko, vo))
			// names come from the values of that map
			for _, b2 := range mainFn.Blocks {
				for _, in2 := range b2.Instrs {
					app := isAppend(valueOf(in2))
					if app == nil {
						continue
					}
					if st, ok := app.Type().Underlying().(*types.Slice); !ok || !types.Identical(st.Elem(), types.Typ[types.String]) {
						continue
					}
					vals := appendedValues(app)
					if len(vals) != 1 {
						continue
					}
					ao := res.Of(vals[0], nil, app)
					if ao.Kind == origin.KField && ao.Field.Name() == "Name" && ao.Args[0].Kind == origin.KRangeVal {
						rv := ao.Args[0]
						r.Check(rv.Args[0].Val == mu.Map || origin.Equal(rv.Args[0], res.Of(mu.Map, nil, mu)), "E3.sorted", "main/names-from-dedup", p.Pos(app.Pos()), "names are the Name fields of the dedup map's values: duplicate-free given injective tables (C12) and Name = table[Num] (C16)", "names are not collected from the dedup map")
					}
				}
			}
		}
	}
	r.Floor("E3.sorted(dedup map)", nDedup, 1)

	// ---------------- E3.blacklist
	{
		var set *ssa.MakeMap
		var lk *ssa.Lookup
		for _, b := range fb.Blocks {
			for _, in := range b.Instrs {
				if l, ok := in.(*ssa.Lookup); ok && l.CommaOk {
					if mm, ok := l.X.(*ssa.MakeMap); ok {
						set, lk = mm, l
					}
				}
			}
		}
		if set == nil {
			r.Unknown("E3.blacklist", "filterBlacklist/set", p.Pos(fb.Pos()), "membership lookup in a locally built set not found")
		} else {
			nUpd := 0
			for _, ref := range *set.Referrers() {
				mu, ok := ref.(*ssa.MapUpdate)
				if !ok {
					continue
				}
				nUpd++
				ko := res.Of(mu.Key, nil, mu)
				good := ko.Kind == origin.KElem && ko.Args[0].Kind == origin.KGlobal && ko.Args[0].Global.Name() == "blacklist" && ko.Args[1].Kind == origin.KRangeKey && onlyLoopConds(mu.Block())
				r.Check(good, "E3.blacklist", "filterBlacklist/set-elements", p.Pos(mu.Pos()), "the set holds exactly the elements of the -b flag (unconditional insert per element)", "the blacklist set is filled from "+ko.String()+" or conditionally")
			}
			r.Floor("E3.blacklist(set inserts)", nUpd, 1)
			var found ssa.Value
			for _, ref := range *lk.Referrers() {
				if ex, ok := ref.(*ssa.Extract); ok && ex.Index == 1 {
					found = ex
				}
			}
			// result 0
			for _, ret := range flow.Returns(fb) {
				rs := flow.RetResults(ret)
				apps, ok := accumulatorAppends(rs[0])
				if !ok || len(apps) == 0 {
					r.Bad("E3.blacklist", "filterBlacklist/kept", p.Pos(ret.Pos()), "the kept list is not an append-only accumulation")
					continue
				}
				for _, app := range apps {
					vals := appendedValues(app)
					pol, known := flow.CondHolds(flow.DomConds(app.Block()), found)
					sameElem := len(vals) == 1 && vals[0] == lk.Index
					inputElem := false
					if sameElem {
						eo := res.Of(vals[0], nil, app)
						inputElem = eo.Kind == origin.KElem && eo.Args[0].Kind == origin.KParam && eo.Args[0].Param == fb.Params[0]
					}
					r.Check(known && !pol && sameElem && inputElem, "E3.blacklist", "filterBlacklist/kept-guard", p.Pos(app.Pos()),
						"an input name is kept only on the not-member edge of the lookup of that same name",
						fmt.Sprintf("a name is appended to the kept list without `!found` of its own lookup (guard known=%v polarity=%v same element=%v input element=%v)", known, pol, sameElem, inputElem))
				}
			}
		}
	}
	// ---------------- E3.allow
	{
		var m *ssa.MakeMap
		for _, b := range aw.Blocks {
			for _, in := range b.Instrs {
				if mm, ok := in.(*ssa.MakeMap); ok {
					m = mm
				}
			}
		}
		if m == nil {
			r.Unknown("E3.allow", "addWhitelist/set", p.Pos(aw.Pos()), "set not found")
		} else {
			nIn, nAllow := 0, 0
			for _, ref := range *m.Referrers() {
				mu, ok := ref.(*ssa.MapUpdate)
				if !ok {
					continue
				}
				ko := res.Of(mu.Key, nil, mu)
				switch {
				case ko.Kind == origin.KElem && ko.Args[0].Kind == origin.KParam && ko.Args[0].Param == aw.Params[1]:
					nIn++
					r.Check(onlyLoopConds(mu.Block()), "E3.allow", "addWhitelist/keep-input", p.Pos(mu.Pos()), "every element of the input list is kept (unconditional insert)", "an input element is inserted only conditionally: found syscalls could be dropped")
				case ko.Kind == origin.KElem && ko.Args[0].Kind == origin.KGlobal && ko.Args[0].Global.Name() == "allowList":
					nAllow++
					// guard: found of Lookup(archInfo.SyscallNames, same key)
					good := false
					for _, cd := range flow.DomConds(mu.Block()) {
						ex, ok := cd.V.(*ssa.Extract)
						if !ok || ex.Index != 1 || !cd.Pol {
							continue
						}
						l, ok := ex.Tuple.(*ssa.Lookup)
						if !ok || l.Index != mu.Key {
							continue
						}
						mo := res.Of(l.X, nil, l)
						if mo.Kind == origin.KField && mo.Field.Name() == "SyscallNames" && mo.Args[0].StripConv().Kind == origin.KUn || (mo.Kind == origin.KField && mo.Field.Name() == "SyscallNames") {
							good = true
						}
					}
					r.Check(good, "E3.allow", "addWhitelist/guarded-by-arch-table", p.Pos(mu.Pos()), "an allow-list name enters only on the `found` edge of its lookup in archInfo.SyscallNames", "an allow-list name is added without checking that it exists for the architecture: an invalid name would be emitted and the profile would not load")
				default:
					r.Bad("E3.allow", "addWhitelist/other-insert", p.Pos(mu.Pos()), "the result set receives "+ko.String())
				}
			}
			r.Floor("E3.allow(input inserts)", nIn, 1)
			r.Floor("E3.allow(allow-list inserts)", nAllow, 1)
			for _, ret := range flow.Returns(aw) {
				rs := flow.RetResults(ret)
				apps, ok := accumulatorAppends(rs[0])
				good := ok && len(apps) > 0
				for _, app := range apps {
					vals := appendedValues(app)
					if len(vals) != 1 {
						good = false
						continue
					}
					vo := res.Of(vals[0], nil, app)
					if !(vo.Kind == origin.KRangeKey && vo.Args[0].Val == ssa.Value(m)) {
						good = false
					}
				}
				r.Check(good, "E3.allow", "addWhitelist/result-from-set", p.Pos(ret.Pos()), "the result is rebuilt from the key set of the map: duplicate-free", "the result list is not the key set of the membership map")
			}
		}
	}
	// ---------------- E4.profile
	checkProfileLiteral(e, p)
	checkProfileTemplate(e, p)
	// keys written for a profile are keys the loader reads
	checkTags(e, p, p.Pkgs[load.PkgRoot])
	checkCmdKeys(e, p)
}

func valueOf(in ssa.Instruction) ssa.Value {
	v, _ := in.(ssa.Value)
	return v
}

func checkProfileLiteral(e *Env, p *load.Program) {
	r := e.R
	pk := p.Pkgs[load.PkgProfiler]
	or := e.Oracle()
	var fd *ast.FuncDecl
	for _, f := range pk.Syntax {
		for _, d := range f.Decls {
			if x, ok := d.(*ast.FuncDecl); ok && x.Name.Name == "writeProfileConfig" {
				fd = x
			}
		}
	}
	if fd == nil {
		r.Unknown("E4.profile", "writeProfileConfig", "", "not found")
		return
	}
	var param types.Object
	for _, f := range fd.Type.Params.List {
		for _, n := range f.Names {
			if st, ok := pk.TypesInfo.TypeOf(f.Type).Underlying().(*types.Slice); ok && types.Identical(st.Elem(), types.Typ[types.String]) {
				param = pk.TypesInfo.Defs[n]
			}
		}
	}
	found := false
	ast.Inspect(fd.Body, func(n ast.Node) bool {
		cl, ok := n.(*ast.CompositeLit)
		if !ok || !isNamed(pk.TypesInfo.TypeOf(cl), load.PkgRoot, "Policy") {
			return true
		}
		found = true
		sl := tables.AsStructLit(pk, cl)
		da, _ := tables.Uint64(tables.ConstOf(pk, sl.Fields["DefaultAction"]))
		r.Check(sl.Fields["DefaultAction"] != nil && da == or.Consts["SECCOMP_RET_ERRNO"], "E4.profile", "writeProfileConfig/DefaultAction", p.Pos(cl.Pos()), "default action is errno", fmt.Sprintf("the emitted profile's default action is %#x, want errno (0x50000): unlisted syscalls would not be answered with errno", da))
		groups, _ := ast.Unparen(sl.Fields["Syscalls"]).(*ast.CompositeLit)
		if groups == nil || len(groups.Elts) != 1 {
			r.Bad("E4.profile", "writeProfileConfig/groups", p.Pos(cl.Pos()), "the profile literal does not have exactly one group")
			return false
		}
		gcl, _ := groups.Elts[0].(*ast.CompositeLit)
		if gcl == nil {
			r.Unknown("E4.profile", "writeProfileConfig/groups", p.Pos(cl.Pos()), "group element is not a literal")
			return false
		}
		gf := map[string]ast.Expr{}
		for _, el := range gcl.Elts {
			if kv, ok := el.(*ast.KeyValueExpr); ok {
				gf[kv.Key.(*ast.Ident).Name] = kv.Value
			}
		}
		ga, _ := tables.Uint64(tables.ConstOf(pk, gf["Action"]))
		r.Check(gf["Action"] != nil && ga == or.Consts["SECCOMP_RET_ALLOW"], "E4.profile", "writeProfileConfig/group-action", p.Pos(gcl.Pos()), "the group's action is allow", fmt.Sprintf("the group's action is %#x, want allow", ga))
		id, _ := ast.Unparen(gf["Names"]).(*ast.Ident)
		r.Check(id != nil && pk.TypesInfo.Uses[id] == param && param != nil, "E4.profile", "writeProfileConfig/group-names", p.Pos(gcl.Pos()), "the group's names are the list parameter", "the group's Names are not the list handed to the emitter")
		_, hasCond := gf["NamesWithCondtions"]
		r.Check(!hasCond, "E4.profile", "writeProfileConfig/no-conditions", p.Pos(gcl.Pos()), "no conditional entries", "the profile literal carries conditional entries")
		return false
	})
	if !found {
		r.Unknown("E4.profile", "writeProfileConfig/literal", p.Pos(fd.Pos()), "no seccomp.Policy literal")
	}
}

func checkProfileTemplate(e *Env, p *load.Program) {
	r := e.R
	pk := p.Pkgs[load.PkgProfiler]
	c, ok := pk.Types.Scope().Lookup("defaultTemplate").(*types.Const)
	if !ok || c.Val().Kind() != constant.String {
		r.Unknown("E4.profile", "defaultTemplate", "", "template constant not found")
		return
	}
	text := constant.StringVal(c.Val())
	t := parse.New("profile")
	t.Mode = parse.SkipFuncCheck
	if _, err := t.Parse(text, "", "", map[string]*parse.Tree{}); err != nil {
		r.Bad("E4.profile", "defaultTemplate/parse", p.Pos(c.Pos()), "the code template does not parse: "+err.Error())
		return
	}
	var flat strings.Builder
	ranges := 0
	rangeOK := false
	var walk func(n parse.Node, inRange bool)
	walk = func(n parse.Node, inRange bool) {
		switch x := n.(type) {
		case *parse.ListNode:
			if x == nil {
				return
			}
			for _, c := range x.Nodes {
				walk(c, inRange)
			}
		case *parse.TextNode:
			flat.Write(x.Text)
		case *parse.RangeNode:
			ranges++
			if strings.Contains(x.Pipe.String(), ".SyscallNames") {
				rangeOK = true
			}
			flat.WriteString("<RANGE>")
			walk(x.List, true)
			flat.WriteString("</RANGE>")
		case *parse.ActionNode:
			flat.WriteString("<" + x.Pipe.String() + ">")
		case *parse.IfNode:
			flat.WriteString("<IF>")
			walk(x.List, inRange)
			walk(x.ElseList, inRange)
		}
	}
	walk(t.Root, false)
	s := strings.Join(strings.Fields(flat.String()), " ")
	r.Check(strings.Contains(s, "DefaultAction: seccomp.ActionErrno"), "E4.profile", "defaultTemplate/DefaultAction", p.Pos(c.Pos()), "the generated code says DefaultAction: seccomp.ActionErrno", "the code template does not set DefaultAction: seccomp.ActionErrno")
	r.Check(strings.Count(s, "Action: seccomp.Action") == 2 && strings.Contains(s, " Action: seccomp.ActionAllow"), "E4.profile", "defaultTemplate/group-action", p.Pos(c.Pos()), "one group with Action: seccomp.ActionAllow", "the code template's group action is not seccomp.ActionAllow (or there is more than one group)")
	r.Check(ranges == 1 && rangeOK && strings.Contains(s, "Names: []string{<RANGE>"), "E4.profile", "defaultTemplate/names", p.Pos(c.Pos()), "Names ranges over .SyscallNames", "the code template does not fill Names by ranging over .SyscallNames")
	// writeGoTemplate passes the list as SyscallNames
	if fn := p.Func(load.PkgProfiler, "writeGoTemplate"); fn != nil {
		good := false
		for _, b := range fn.Blocks {
			for _, in := range b.Instrs {
				st, ok := in.(*ssa.Store)
				if !ok {
					continue
				}
				fa, ok := st.Addr.(*ssa.FieldAddr)
				if !ok {
					continue
				}
				stt := fa.X.Type().Underlying().(*types.Pointer).Elem().Underlying().(*types.Struct)
				if stt.Field(fa.Field).Name() == "SyscallNames" && st.Val == ssa.Value(fn.Params[len(fn.Params)-1]) {
					good = true
				}
			}
		}
		r.Check(good, "E4.profile", "writeGoTemplate/SyscallNames", p.Pos(fn.Pos()), "the template parameter SyscallNames is the list parameter", "writeGoTemplate does not pass its list parameter as SyscallNames")
	}
}
