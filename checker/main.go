// sbpfcheck decides the properties C01..C19 of elastic/go-seccomp-bpf by static
// analysis of the source tree in $SBPF_REPO (default /repo).  It never imports,
// links or runs a package of that tree.
//
//	sbpfcheck -prop C12 -tier quick|thorough
//	sbpfcheck explain <replay.json>
package main

import (
	"encoding/json"
	"flag"
	"fmt"
	"os"
	"path/filepath"
	"runtime/debug"
	"runtime/pprof"
	"strconv"
	"strings"

	"sbpfcheck/core"
	"sbpfcheck/rules"
)

func main() {
	if len(os.Args) > 1 && os.Args[1] == "explain" {
		explain(os.Args[2:])
		return
	}
	prop := flag.String("prop", "", "property id (C01..C19)")
	tier := flag.String("tier", os.Getenv("VERIF_TIER"), "quick or thorough")
	repo := flag.String("repo", "", "tree to analyse (default $SBPF_REPO or /repo)")
	verif := flag.String("verif", "", "verif directory (default $SBPF_VERIF or /verif)")
	only := flag.String("rule", "", "restrict the report to one rule (used by explain)")
	flag.Parse()
	if *tier == "" {
		*tier = "quick"
	}
	if *tier != "quick" && *tier != "thorough" {
		fmt.Fprintln(os.Stderr, "tier must be quick or thorough")
		os.Exit(2)
	}
	if *repo == "" {
		*repo = os.Getenv("SBPF_REPO")
	}
	if *repo == "" {
		*repo = "/repo"
	}
	if *verif == "" {
		*verif = os.Getenv("SBPF_VERIF")
	}
	if *verif == "" {
		*verif = "/verif"
	}
	abs, err := filepath.Abs(*repo)
	if err == nil {
		*repo = abs
	}
	seed := 0
	if s := os.Getenv("VERIF_SEED"); s != "" {
		seed, _ = strconv.Atoi(s)
	}
	if *prop == "E1DUMP" {
		run := core.NewRun("E1", *tier, seed, "other", *verif, *repo)
		rules.DumpE1(rules.NewEnv(run))
		return
	}
	spec, ok := rules.Specs[*prop]
	if !ok {
		fmt.Fprintf(os.Stderr, "unknown or unclaimed property %q\n", *prop)
		os.Exit(2)
	}
	run := core.NewRun(*prop, *tier, seed, spec.Level, *verif, *repo)
	run.Cmd = fmt.Sprintf("/verif/check.sh %s %s   (= bin/sbpfcheck -prop %s -tier %s, SBPF_REPO=%s)", *prop, *tier, *prop, *tier, *repo)
	run.Explanation = spec.Explanation
	run.Trusted = spec.Trusted
	run.Assumptions = spec.Assumptions
	_ = only

	if pf := os.Getenv("SBPF_CPUPROFILE"); pf != "" {
		if f, err := os.Create(pf); err == nil {
			pprof.StartCPUProfile(f)
			defer pprof.StopCPUProfile()
		}
	}
	func() {
		defer func() {
			if e := recover(); e != nil {
				run.Unknown("core", "checker-panic", "", fmt.Sprintf("the checker panicked (%v); nothing it says is believed\n%s", e, debug.Stack()))
			}
		}()
		env := rules.NewEnv(run)
		var also []string
		if *tier == "thorough" {
			also = rules.ThoroughTargets(*prop)
		}
		rules.RunAll(env, *prop, spec, also)
		if *tier == "thorough" {
			rules.Thorough(env, *prop, spec)
		}
	}()
	code := run.Finish()
	pprof.StopCPUProfile()
	os.Exit(code)
}

// explain re-runs the property of a replay file on the current tree and prints
// the obligations of the recorded rule.
func explain(args []string) {
	if len(args) != 1 {
		fmt.Fprintln(os.Stderr, "usage: sbpfcheck explain <replay.json>")
		os.Exit(2)
	}
	b, err := os.ReadFile(args[0])
	if err != nil {
		fmt.Fprintln(os.Stderr, err)
		os.Exit(2)
	}
	var rp struct {
		Property, Rule, Key, Pos, Status, Detail, Tier, Repo string
	}
	if err := json.Unmarshal(b, &rp); err != nil {
		fmt.Fprintln(os.Stderr, err)
		os.Exit(2)
	}
	fmt.Printf("recorded: property=%s rule=%s key=%s\n  at %s\n  %s: %s\n", rp.Property, rp.Rule, rp.Key, rp.Pos, rp.Status, rp.Detail)
	spec, ok := rules.Specs[rp.Property]
	if !ok {
		os.Exit(2)
	}
	repo := os.Getenv("SBPF_REPO")
	if repo == "" {
		repo = "/repo"
	}
	verif := os.Getenv("SBPF_VERIF")
	if verif == "" {
		verif = "/verif"
	}
	tmp, _ := os.MkdirTemp("", "sbpf-explain")
	defer os.RemoveAll(tmp)
	// Re-run into a scratch verif dir so that the evidence of the real run is not touched,
	// but with the real known-findings file.
	if kf, err := os.ReadFile(filepath.Join(verif, "known_findings.json")); err == nil {
		os.WriteFile(filepath.Join(tmp, "known_findings.json"), kf, 0o644)
	}
	run := core.NewRun(rp.Property, rp.Tier, 0, spec.Level, tmp, repo)
	func() {
		defer func() {
			if e := recover(); e != nil {
				run.Unknown("core", "checker-panic", "", fmt.Sprint(e))
			}
		}()
		rules.RunAll(rules.NewEnv(run), rp.Property, spec, nil)
	}()
	fmt.Printf("on the current tree (%s), rule %s:\n", repo, rp.Rule)
	hit := false
	for _, o := range run.Obligations() {
		if o.Rule == rp.Rule && (o.Key == rp.Key || o.Status != core.Discharged) {
			fmt.Printf("  [%s] %s @%s\n      %s\n", o.Status, o.Key, o.Pos, strings.ReplaceAll(o.Detail, "\n", "\n      "))
			if o.Key == rp.Key && o.Status != core.Discharged {
				hit = true
			}
		}
	}
	if hit {
		fmt.Println("=> still reproduces")
		os.Exit(1)
	}
	fmt.Println("=> does not reproduce on the current tree")
}
