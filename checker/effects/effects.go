// Package effects is engine E5: a small inclusion-based (Andersen style),
// field-insensitive, context-insensitive points-to analysis over the module's
// functions reachable from a set of API roots, with three abstract memory
// classes besides allocation sites: CALLER (everything reachable from a
// policy-typed parameter of a root), GLOBAL (package-level variables and what
// they reach) and OTHER (other parameters of roots).  It reports every write
// event (store, map update, append into, copy into, known mutating library
// call) whose destination may be CALLER or GLOBAL memory.
package effects

import (
	"fmt"
	"go/token"
	"go/types"
	"sort"
	"strings"

	"golang.org/x/tools/go/ssa"
)

type Kind int

const (
	Fresh Kind = iota
	Caller
	Global
	Other
)

func (k Kind) String() string { return [...]string{"fresh", "caller-owned", "global", "other"}[k] }

// Obj is an abstract memory object.
type Obj struct {
	Kind Kind
	Name string
}

type objset map[*Obj]bool

// Write is one event that may modify memory of the given object.
type Write struct {
	Obj   *Obj
	Instr ssa.Instruction
	Fn    *ssa.Function
	What  string // "store field arch", "append", "sort.Strings", ...
}

// Undecided is a call the analysis has no summary for and that receives
// CALLER or GLOBAL memory.
type Undecided struct {
	Instr ssa.Instruction
	Fn    *ssa.Function
	What  string
}

// Analysis holds the fixpoint state.
type Analysis struct {
	ModulePrefix string
	IsPolicyType func(types.Type) bool
	PolicyRoots  map[*ssa.Function]bool

	caller, global, other *Obj
	pts                   map[ssa.Value]objset
	contents              map[*Obj]objset
	sites                 map[ssa.Instruction]*Obj
	Funcs                 map[*ssa.Function]bool
	roots                 []*ssa.Function
	rets                  map[*ssa.Function]objset
	changed               bool
	Writes                []Write
	Undecided             []Undecided
	writeSeen             map[string]bool
	byName                map[string][]*ssa.Function // methods of the module by name (CHA for invokes)
	NStores               int
	storeSeen             map[ssa.Instruction]bool
}

func New(modulePrefix string, isPolicy func(types.Type) bool) *Analysis {
	a := &Analysis{ModulePrefix: modulePrefix, IsPolicyType: isPolicy, PolicyRoots: map[*ssa.Function]bool{},
		pts: map[ssa.Value]objset{}, contents: map[*Obj]objset{}, sites: map[ssa.Instruction]*Obj{}, Funcs: map[*ssa.Function]bool{},
		rets: map[*ssa.Function]objset{}, writeSeen: map[string]bool{}, storeSeen: map[ssa.Instruction]bool{}, byName: map[string][]*ssa.Function{}}
	a.caller = &Obj{Caller, "CALLER"}
	a.global = &Obj{Global, "GLOBAL"}
	a.other = &Obj{Other, "OTHER"}
	a.contents[a.caller] = objset{a.caller: true}
	a.contents[a.global] = objset{a.global: true}
	a.contents[a.other] = objset{a.other: true}
	return a
}

func (a *Analysis) inModule(f *ssa.Function) bool {
	return f != nil && f.Pkg != nil && strings.HasPrefix(f.Pkg.Pkg.Path(), a.ModulePrefix) && len(f.Blocks) > 0
}

// AddRoot registers an API root; policy says whether its policy-typed parameters are CALLER memory.
func (a *Analysis) AddRoot(f *ssa.Function, policy bool) {
	a.roots = append(a.roots, f)
	if policy {
		a.PolicyRoots[f] = true
	}
}

// RegisterMethods makes the module's methods known for interface-call resolution.
func (a *Analysis) RegisterMethods(fns []*ssa.Function) {
	for _, f := range fns {
		if f.Signature.Recv() != nil {
			a.byName[f.Name()] = append(a.byName[f.Name()], f)
		}
	}
}

func pointerLike(t types.Type) bool {
	switch u := t.Underlying().(type) {
	case *types.Basic:
		return u.Kind() == types.UnsafePointer
	case *types.Pointer, *types.Slice, *types.Map, *types.Chan, *types.Signature, *types.Interface:
		return true
	case *types.Struct:
		for i := 0; i < u.NumFields(); i++ {
			if pointerLike(u.Field(i).Type()) {
				return true
			}
		}
		return false
	case *types.Array:
		return pointerLike(u.Elem())
	case *types.Tuple:
		for i := 0; i < u.Len(); i++ {
			if pointerLike(u.At(i).Type()) {
				return true
			}
		}
	}
	return false
}

func (a *Analysis) add(v ssa.Value, o *Obj) {
	if v == nil || o == nil {
		return
	}
	s := a.pts[v]
	if s == nil {
		s = objset{}
		a.pts[v] = s
	}
	if !s[o] {
		s[o] = true
		a.changed = true
	}
}

func (a *Analysis) addAll(v ssa.Value, os objset) {
	for o := range os {
		a.add(v, o)
	}
}

func (a *Analysis) addContents(o *Obj, os objset) {
	if o.Kind != Fresh {
		return // abstract classes keep their self-loop only
	}
	c := a.contents[o]
	if c == nil {
		c = objset{}
		a.contents[o] = c
	}
	for x := range os {
		if !c[x] {
			c[x] = true
			a.changed = true
		}
	}
}

func (a *Analysis) site(in ssa.Instruction, what string) *Obj {
	if o, ok := a.sites[in]; ok {
		return o
	}
	o := &Obj{Fresh, what}
	a.sites[in] = o
	return o
}

// Pts returns the points-to set of a value (globals and constants handled).
func (a *Analysis) Pts(v ssa.Value) objset {
	switch x := v.(type) {
	case *ssa.Global:
		return objset{a.global: true}
	case *ssa.Const:
		return nil
	case *ssa.Function:
		return nil
	case *ssa.Builtin:
		return nil
	default:
		_ = x
	}
	return a.pts[v]
}

func (a *Analysis) write(o *Obj, in ssa.Instruction, fn *ssa.Function, what string) {
	if o.Kind != Caller && o.Kind != Global {
		return
	}
	k := fmt.Sprintf("%p|%p|%s", o, in, what)
	if a.writeSeen[k] {
		return
	}
	a.writeSeen[k] = true
	a.Writes = append(a.Writes, Write{o, in, fn, what})
}

// Run computes the fixpoint.
func (a *Analysis) Run() {
	// reachable functions
	var work []*ssa.Function
	for _, f := range a.roots {
		if a.inModule(f) && !a.Funcs[f] {
			a.Funcs[f] = true
			work = append(work, f)
		}
	}
	for len(work) > 0 {
		f := work[len(work)-1]
		work = work[:len(work)-1]
		for _, b := range f.Blocks {
			for _, in := range b.Instrs {
				c, ok := in.(ssa.CallInstruction)
				if !ok {
					continue
				}
				for _, g := range a.callees(c) {
					if a.inModule(g) && !a.Funcs[g] {
						a.Funcs[g] = true
						work = append(work, g)
					}
				}
			}
		}
		for _, anon := range f.AnonFuncs {
			if !a.Funcs[anon] {
				a.Funcs[anon] = true
				work = append(work, anon)
			}
		}
	}
	// seed parameters of roots
	for _, f := range a.roots {
		for _, p := range f.Params {
			if !pointerLike(p.Type()) {
				continue
			}
			if a.PolicyRoots[f] && a.IsPolicyType(p.Type()) {
				a.add(p, a.caller)
			} else {
				a.add(p, a.other)
			}
		}
	}
	var fns []*ssa.Function
	for f := range a.Funcs {
		fns = append(fns, f)
	}
	sort.Slice(fns, func(i, j int) bool { return fns[i].Pos() < fns[j].Pos() })
	for iter := 0; iter < 200; iter++ {
		a.changed = false
		for _, f := range fns {
			a.function(f)
		}
		if !a.changed {
			break
		}
	}
}

func (a *Analysis) callees(c ssa.CallInstruction) []*ssa.Function {
	if f := c.Common().StaticCallee(); f != nil {
		return []*ssa.Function{f}
	}
	if c.Common().IsInvoke() {
		return a.byName[c.Common().Method.Name()]
	}
	// call through a function value: functions of the module with an identical signature
	var out []*ssa.Function
	sig := c.Common().Signature()
	for f := range a.Funcs {
		if f.Signature.Recv() == nil && types.Identical(f.Signature, sig) {
			out = append(out, f)
		}
	}
	return out
}

func (a *Analysis) function(f *ssa.Function) {
	for _, b := range f.Blocks {
		for _, in := range b.Instrs {
			a.instr(f, in)
		}
	}
}

func (a *Analysis) load(dst ssa.Value, addr ssa.Value) {
	for o := range a.Pts(addr) {
		a.addAll(dst, a.contents[o])
	}
}

func (a *Analysis) instr(f *ssa.Function, in ssa.Instruction) {
	switch x := in.(type) {
	case *ssa.Alloc:
		a.add(x, a.site(x, "alloc "+x.Comment+" in "+f.Name()))
	case *ssa.MakeSlice:
		a.add(x, a.site(x, "make slice in "+f.Name()))
	case *ssa.MakeMap:
		a.add(x, a.site(x, "make map in "+f.Name()))
	case *ssa.MakeChan:
		a.add(x, a.site(x, "make chan in "+f.Name()))
	case *ssa.MakeClosure:
		o := a.site(x, "closure in "+f.Name())
		a.add(x, o)
		for _, b := range x.Bindings {
			a.addContents(o, a.Pts(b))
		}
	case *ssa.UnOp:
		if x.Op == token.MUL {
			if pointerLike(x.Type()) {
				a.load(x, x.X)
			}
		} else if x.Op == token.ARROW {
			a.load(x, x.X)
		}
	case *ssa.Store:
		a.countStore(x)
		for o := range a.Pts(x.Addr) {
			a.write(o, x, f, "store "+describeAddr(x.Addr))
			if pointerLike(x.Val.Type()) {
				a.addContents(o, a.Pts(x.Val))
			}
		}
	case *ssa.MapUpdate:
		a.countStore(x)
		for o := range a.Pts(x.Map) {
			a.write(o, x, f, "map update")
			a.addContents(o, a.Pts(x.Key))
			a.addContents(o, a.Pts(x.Value))
		}
	case *ssa.FieldAddr:
		a.addAll(x, a.Pts(x.X))
	case *ssa.IndexAddr:
		a.addAll(x, a.Pts(x.X))
	case *ssa.Slice:
		a.addAll(x, a.Pts(x.X))
	case *ssa.Field:
		if pointerLike(x.Type()) {
			a.addAll(x, a.Pts(x.X))
		}
	case *ssa.Index:
		if pointerLike(x.Type()) {
			// indexing an array value or a string
			a.addAll(x, a.Pts(x.X))
		}
	case *ssa.Lookup:
		if pointerLike(x.Type()) {
			a.load(x, x.X)
		}
	case *ssa.Range:
		a.addAll(x, a.Pts(x.X))
	case *ssa.Next:
		// tuple (ok, k, v): both may carry what the container holds
		if !x.IsString {
			a.load(x, x.Iter)
		}
	case *ssa.Extract:
		if pointerLike(x.Type()) {
			a.addAll(x, a.Pts(x.Tuple))
		}
	case *ssa.Phi:
		if pointerLike(x.Type()) {
			for _, e := range x.Edges {
				a.addAll(x, a.Pts(e))
			}
		}
	case *ssa.Convert:
		if pointerLike(x.Type()) {
			a.addAll(x, a.Pts(x.X))
		}
	case *ssa.ChangeType:
		a.addAll(x, a.Pts(x.X))
	case *ssa.ChangeInterface:
		a.addAll(x, a.Pts(x.X))
	case *ssa.MakeInterface:
		a.addAll(x, a.Pts(x.X))
	case *ssa.TypeAssert:
		a.addAll(x, a.Pts(x.X))
	case *ssa.SliceToArrayPointer:
		a.addAll(x, a.Pts(x.X))
	case *ssa.Send:
		for o := range a.Pts(x.Chan) {
			a.write(o, x, f, "channel send")
			a.addContents(o, a.Pts(x.X))
		}
	case *ssa.Return:
		s := a.rets[f]
		if s == nil {
			s = objset{}
			a.rets[f] = s
		}
		for _, r := range x.Results {
			for o := range a.Pts(r) {
				if !s[o] {
					s[o] = true
					a.changed = true
				}
			}
		}
	case ssa.CallInstruction:
		a.call(f, x)
	}
}

func (a *Analysis) countStore(in ssa.Instruction) {
	if !a.storeSeen[in] {
		a.storeSeen[in] = true
		a.NStores++
	}
}

func describeAddr(v ssa.Value) string {
	switch x := v.(type) {
	case *ssa.FieldAddr:
		st := x.X.Type().Underlying().(*types.Pointer).Elem().Underlying().(*types.Struct)
		n := ""
		if named, ok := x.X.Type().Underlying().(*types.Pointer).Elem().(*types.Named); ok {
			n = named.Obj().Name() + "."
		}
		return "field " + n + st.Field(x.Field).Name()
	case *ssa.IndexAddr:
		return "element"
	case *ssa.Global:
		return "global " + x.Name()
	case *ssa.Parameter:
		return "*" + x.Name()
	}
	return "cell"
}

var mutators = map[string]bool{
	"sort.Strings": true, "sort.Ints": true, "sort.Float64s": true, "sort.Slice": true, "sort.SliceStable": true, "sort.Sort": true, "sort.Stable": true,
	"slices.Sort": true, "slices.SortFunc": true, "slices.SortStableFunc": true, "slices.Reverse": true, "slices.Compact": true, "slices.CompactFunc": true,
	"slices.Delete": true, "slices.Insert": true, "slices.Replace": true, "math/rand.Shuffle": true,
	"encoding/binary.PutUvarint": true, "encoding/binary.Write": true, "io.ReadFull": true,
	"strings.Builder.WriteString": true, "bytes.Buffer.Write": true,
}

// readOnlyInPlacePkgs: in the packages whose business is rearranging a slice or map in place (slices, sort, maps) every function
// is taken to write its first argument unless it is listed here as reading only - the list of mutators above cannot be
// complete for packages that grow with every release (seed C13h: slices.DeleteFunc compacts the caller's names in place
// and zeroes the tail).
var readOnlyInPlace = map[string]bool{
	"slices.Contains": true, "slices.ContainsFunc": true, "slices.Index": true, "slices.IndexFunc": true, "slices.Equal": true, "slices.EqualFunc": true,
	"slices.Compare": true, "slices.CompareFunc": true, "slices.BinarySearch": true, "slices.BinarySearchFunc": true, "slices.Max": true, "slices.MaxFunc": true,
	"slices.Min": true, "slices.MinFunc": true, "slices.IsSorted": true, "slices.IsSortedFunc": true, "slices.Clone": true, "slices.Concat": true,
	"slices.All": true, "slices.Values": true, "slices.Backward": true, "slices.Collect": true, "slices.Sorted": true, "slices.SortedFunc": true, "slices.SortedStableFunc": true,
	"slices.Repeat": true, "slices.Chunk": true,
	"sort.SearchStrings": true, "sort.SearchInts": true, "sort.SearchFloat64s": true, "sort.Search": true, "sort.Find": true, "sort.StringsAreSorted": true, "sort.IntsAreSorted": true,
	"sort.Float64sAreSorted": true, "sort.SliceIsSorted": true, "sort.IsSorted": true, "sort.Reverse": true,
	"sort.StringSlice.Len": true, "sort.StringSlice.Less": true, "sort.IntSlice.Len": true, "sort.IntSlice.Less": true,
	"maps.Keys": true, "maps.Values": true, "maps.All": true, "maps.Equal": true, "maps.EqualFunc": true, "maps.Clone": true, "maps.Collect": true,
}

func inPlacePkgCall(name string) bool {
	for _, pk := range []string{"slices.", "sort.", "maps."} {
		if strings.HasPrefix(name, pk) {
			return !readOnlyInPlace[name]
		}
	}
	return false
}

// purePkgs: calls into these packages do not write memory reachable from their arguments
// (other than receivers / destinations listed in mutators) and return fresh values.
var purePkgs = map[string]bool{
	"fmt": true, "strings": true, "errors": true, "strconv": true, "math": true, "unicode": true, "unicode/utf8": true,
	"golang.org/x/net/bpf": true, "syscall": true, "runtime": true, "reflect": true, "golang.org/x/sys/unix": true, "unsafe": true, "io": true,
	"encoding/binary": true, "sort": true, "slices": true, "maps": true,
}

func qualName(f *ssa.Function) string {
	if f == nil {
		return ""
	}
	// an instance of a generic function (`slices.Sort[[]string,string]`) is named like the function it instantiates
	if o := f.Origin(); o != nil {
		f = o
	}
	pkg := ""
	if f.Pkg != nil {
		pkg = f.Pkg.Pkg.Path()
	} else if o := f.Object(); o != nil && o.Pkg() != nil {
		pkg = o.Pkg().Path()
	}
	if f.Signature.Recv() != nil {
		t := f.Signature.Recv().Type()
		if p, ok := t.(*types.Pointer); ok {
			t = p.Elem()
		}
		if n, ok := t.(*types.Named); ok {
			return pkg + "." + n.Obj().Name() + "." + f.Name()
		}
	}
	return pkg + "." + f.Name()
}

func (a *Analysis) call(f *ssa.Function, c ssa.CallInstruction) {
	com := c.Common()
	val := c.Value() // nil for go/defer
	if bi, ok := com.Value.(*ssa.Builtin); ok {
		switch bi.Name() {
		case "append":
			x := com.Args[0]
			o := a.site(c, "append in "+f.Name())
			if val != nil {
				a.add(val, o)
				a.addAll(val, a.Pts(x))
			}
			// may write into the spare capacity of x's backing array
			for ox := range a.Pts(x) {
				a.write(ox, c, f, "append (may write into the backing array of its first operand)")
				a.addContents(o, a.contents[ox])
			}
			if len(com.Args) > 1 {
				y := com.Args[1]
				for oy := range a.Pts(y) {
					a.addContents(o, a.contents[oy])
					for ox := range a.Pts(x) {
						a.addContents(ox, a.contents[oy])
					}
				}
			}
		case "copy":
			for od := range a.Pts(com.Args[0]) {
				a.write(od, c, f, "copy into")
				for os := range a.Pts(com.Args[1]) {
					a.addContents(od, a.contents[os])
				}
			}
		case "delete":
			for om := range a.Pts(com.Args[0]) {
				a.write(om, c, f, "delete from map")
			}
		case "clear":
			for om := range a.Pts(com.Args[0]) {
				a.write(om, c, f, "clear")
			}
		}
		return
	}
	callees := a.callees(c)
	handled := false
	for _, g := range callees {
		if !a.inModule(g) {
			continue
		}
		handled = true
		args := com.Args
		params := g.Params
		if com.IsInvoke() {
			// receiver is com.Value
			if len(params) > 0 {
				a.addAll(params[0], a.Pts(com.Value))
				params = params[1:]
			}
		}
		for i, p := range params {
			if i < len(args) && pointerLike(p.Type()) {
				a.addAll(p, a.Pts(args[i]))
			}
		}
		if val != nil && pointerLike(val.Type()) {
			a.addAll(val, a.rets[g])
		}
		// free variables of closures
		if mc, ok := com.Value.(*ssa.MakeClosure); ok {
			for i, fv := range g.FreeVars {
				if i < len(mc.Bindings) {
					a.addAll(fv, a.Pts(mc.Bindings[i]))
				}
			}
		}
	}
	if handled {
		return
	}
	// external callee
	var g *ssa.Function
	if len(callees) > 0 {
		g = callees[0]
	}
	name := qualName(g)
	if g == nil {
		if com.IsInvoke() {
			name = "(interface)." + com.Method.Name()
		} else {
			name = "(func value)"
		}
	}
	if mutators[name] || inPlacePkgCall(name) {
		for o := range a.Pts(com.Args[0]) {
			a.write(o, c, f, "call to "+name+" (modifies its first argument in place)")
		}
	}
	pure := false
	if g != nil {
		pkg := ""
		if g.Pkg != nil {
			pkg = g.Pkg.Pkg.Path()
		} else if o := g.Object(); o != nil && o.Pkg() != nil {
			pkg = o.Pkg().Path()
		}
		pure = purePkgs[pkg]
	}
	if com.IsInvoke() {
		// error.Error(), fmt.Stringer etc. on foreign interfaces: reads only
		switch com.Method.Name() {
		case "Error", "String", "Write":
			pure = true
		}
	}
	if val != nil && pointerLike(val.Type()) {
		a.add(val, a.site(c, "result of "+name+" in "+f.Name()))
	}
	if !pure {
		sensitive := false
		all := com.Args
		if com.IsInvoke() {
			all = append([]ssa.Value{com.Value}, all...)
		}
		for _, arg := range all {
			for o := range a.Pts(arg) {
				if o.Kind == Caller || o.Kind == Global {
					sensitive = true
				}
				if val != nil && pointerLike(val.Type()) {
					a.add(val, o)
				}
			}
		}
		if sensitive {
			k := fmt.Sprintf("und|%p", c)
			if !a.writeSeen[k] {
				a.writeSeen[k] = true
				a.Undecided = append(a.Undecided, Undecided{c, f, "call to " + name + " receives caller-owned or global memory and has no effect summary"})
			}
		}
	}
}
