// Package tables reads data that lives in the source: map and struct literals,
// constants, struct tags (engine E4).  Everything is resolved through go/types.
package tables

import (
	"go/ast"
	"go/constant"
	"go/token"
	"go/types"
	"reflect"
	"strconv"

	"golang.org/x/tools/go/packages"
)

// Row is one key/value pair of a map literal.
type Row struct {
	Key    constant.Value
	Val    constant.Value // nil when the value is not constant
	ValObj types.Object   // object the value expression denotes (identifier / &identifier), if any
	KeyPos token.Pos
	ValEx  ast.Expr
}

// MapLit is a package-level variable initialised with a map literal.
type MapLit struct {
	Obj  *types.Var
	Type *types.Map
	Rows []Row
	Pos  token.Pos
}

// PackageVarInits returns, for each package-level variable with a single-name
// initialiser, its init expression.
func PackageVarInits(pkg *packages.Package) map[*types.Var]ast.Expr {
	out := map[*types.Var]ast.Expr{}
	for _, f := range pkg.Syntax {
		for _, d := range f.Decls {
			gd, ok := d.(*ast.GenDecl)
			if !ok || gd.Tok != token.VAR {
				continue
			}
			for _, s := range gd.Specs {
				vs := s.(*ast.ValueSpec)
				if len(vs.Values) != len(vs.Names) {
					continue
				}
				for i, n := range vs.Names {
					if v, ok := pkg.TypesInfo.Defs[n].(*types.Var); ok {
						out[v] = vs.Values[i]
					}
				}
			}
		}
	}
	return out
}

// MapLits returns all package-level map literals of pkg.
func MapLits(pkg *packages.Package) []*MapLit {
	var out []*MapLit
	for v, e := range PackageVarInits(pkg) {
		cl, ok := ast.Unparen(e).(*ast.CompositeLit)
		if !ok {
			continue
		}
		mt, ok := pkg.TypesInfo.TypeOf(cl).Underlying().(*types.Map)
		if !ok {
			continue
		}
		m := &MapLit{Obj: v, Type: mt, Pos: cl.Pos()}
		for _, el := range cl.Elts {
			kv, ok := el.(*ast.KeyValueExpr)
			if !ok {
				continue
			}
			r := Row{KeyPos: kv.Key.Pos(), ValEx: kv.Value}
			if tv, ok := pkg.TypesInfo.Types[kv.Key]; ok {
				r.Key = tv.Value
			}
			if tv, ok := pkg.TypesInfo.Types[kv.Value]; ok {
				r.Val = tv.Value
			}
			r.ValObj = ObjOf(pkg, kv.Value)
			m.Rows = append(m.Rows, r)
		}
		out = append(out, m)
	}
	return out
}

// ObjOf resolves x, &x, pkg.x to the object denoted.
func ObjOf(pkg *packages.Package, e ast.Expr) types.Object {
	e = ast.Unparen(e)
	switch x := e.(type) {
	case *ast.Ident:
		return pkg.TypesInfo.Uses[x]
	case *ast.SelectorExpr:
		return pkg.TypesInfo.Uses[x.Sel]
	case *ast.UnaryExpr:
		if x.Op == token.AND {
			return ObjOf(pkg, x.X)
		}
	}
	return nil
}

// StructLit is a composite literal of a struct type with keyed fields.
type StructLit struct {
	Type   *types.Named
	Fields map[string]ast.Expr
	Pos    token.Pos
}

// AsStructLit interprets e (T{...} or &T{...}) as a keyed struct literal.
func AsStructLit(pkg *packages.Package, e ast.Expr) *StructLit {
	e = ast.Unparen(e)
	if u, ok := e.(*ast.UnaryExpr); ok && u.Op == token.AND {
		e = ast.Unparen(u.X)
	}
	cl, ok := e.(*ast.CompositeLit)
	if !ok {
		return nil
	}
	t := pkg.TypesInfo.TypeOf(cl)
	if t == nil {
		return nil
	}
	named, _ := t.(*types.Named)
	if _, ok := t.Underlying().(*types.Struct); !ok {
		return nil
	}
	s := &StructLit{Type: named, Fields: map[string]ast.Expr{}, Pos: cl.Pos()}
	st := t.Underlying().(*types.Struct)
	for i, el := range cl.Elts {
		if kv, ok := el.(*ast.KeyValueExpr); ok {
			if id, ok := kv.Key.(*ast.Ident); ok {
				s.Fields[id.Name] = kv.Value
			}
		} else if i < st.NumFields() {
			s.Fields[st.Field(i).Name()] = el
		}
	}
	return s
}

// ConstOf returns the constant value of an expression, if it has one.
func ConstOf(pkg *packages.Package, e ast.Expr) constant.Value {
	if tv, ok := pkg.TypesInfo.Types[e]; ok {
		return tv.Value
	}
	return nil
}

// Uint64 converts an integer constant.
func Uint64(v constant.Value) (uint64, bool) {
	if v == nil || v.Kind() != constant.Int {
		return 0, false
	}
	if u, ok := constant.Uint64Val(v); ok {
		return u, true
	}
	if i, ok := constant.Int64Val(v); ok {
		return uint64(i), true
	}
	return 0, false
}

// PkgConst looks up a package-level constant by name.
func PkgConst(pkg *types.Package, name string) (constant.Value, bool) {
	c, ok := pkg.Scope().Lookup(name).(*types.Const)
	if !ok {
		return nil, false
	}
	return c.Val(), true
}

// Tag returns the key of a struct tag (the part before the first comma) and
// whether the tag is present.
func Tag(tag, key string) (string, bool) {
	v, ok := reflect.StructTag(tag).Lookup(key)
	if !ok {
		return "", false
	}
	for i := 0; i < len(v); i++ {
		if v[i] == ',' {
			return v[:i], true
		}
	}
	return v, true
}

// Itoa is strconv.Itoa for int64.
func Itoa(i int64) string { return strconv.FormatInt(i, 10) }
