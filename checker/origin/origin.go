// Package origin turns an SSA value into a symbolic expression tree ("value
// origin") by walking def-use chains through conversions, arithmetic, field
// and element loads, spilled locals and (with a binding context) parameters.
// It identifies values; it does not evaluate program paths.
package origin

import (
	"fmt"
	"go/constant"
	"go/token"
	"go/types"
	"sbpfcheck/flow"
	"sort"
	"strings"

	"golang.org/x/tools/go/ssa"
)

// Kind of an origin node.
type Kind int

const (
	KConst     Kind = iota
	KParam          // parameter (or free variable) of the root function of the binding context
	KGlobal         // load of a package-level variable
	KField          // X.field
	KElem           // X[i]  (slice/array element)
	KConv           // numeric conversion to Type
	KBin            // X op Y
	KUn             // op X
	KCall           // result #Index of Callee(Args)
	KLookup         // X[key] (map), Index 0 = value, 1 = ok
	KRangeKey       // key / index of a range over X
	KRangeVal       // value of a range over X
	KLen            // len(X)
	KAlloc          // address of a fresh allocation (identity = the alloc instruction + context)
	KPhi            // join of several origins
	KMakeSlice      // make([]T, len)
	KNil
	KUnknown
	KStructLit // a struct value built field by field in a local (composite literal) and loaded whole; fields resolve on demand
)

// O is an origin expression.
type O struct {
	Kind   Kind
	Type   types.Type
	Const  constant.Value  // KConst
	Param  *ssa.Parameter  // KParam
	FV     *ssa.FreeVar    // KParam (free variable)
	Global *ssa.Global     // KGlobal
	Field  *types.Var      // KField
	Op     token.Token     // KBin, KUn
	Callee *ssa.Function   // KCall (nil for dynamic / builtin)
	Name   string          // KCall: display name; KUnknown: reason
	Index  int             // KCall result index, KLookup component
	Args   []*O            // operands: KField/KElem/KConv/KUn: [X]; KElem: [X, idx]; KBin: [X,Y]; KCall: args; KPhi: alternatives
	Val    ssa.Value       // the SSA value this node was built from (identity for KAlloc/KUnknown/KRange*)
	Ctx    string          // context id for KAlloc / loop-instance identity
	Lit    *ssa.Alloc      // KStructLit: the local the literal was built in
	LitAt  ssa.Instruction // KStructLit: the whole-value load
	LitFr  *Frame          // KStructLit: the frame it was built in
	Fields map[string]*O   // KStructLit: known field origins (a row of a constant table), instead of Lit
}

func (o *O) String() string {
	if o == nil {
		return "<nil>"
	}
	switch o.Kind {
	case KConst:
		if o.Const == nil {
			return "zero"
		}
		if o.Const.Kind() == constant.Int {
			if u, ok := constant.Uint64Val(o.Const); ok && u > 4096 {
				return fmt.Sprintf("%#x", u)
			}
		}
		return o.Const.ExactString()
	case KNil:
		return "nil"
	case KParam:
		if o.FV != nil {
			return "freevar:" + o.FV.Name()
		}
		return "param:" + o.Param.Name()
	case KGlobal:
		return "global:" + o.Global.Name()
	case KField:
		return o.Args[0].String() + "." + o.Field.Name()
	case KElem:
		return o.Args[0].String() + "[" + o.Args[1].String() + "]"
	case KConv:
		return types.TypeString(o.Type, func(p *types.Package) string { return p.Name() }) + "(" + o.Args[0].String() + ")"
	case KBin:
		return "(" + o.Args[0].String() + " " + o.Op.String() + " " + o.Args[1].String() + ")"
	case KUn:
		return o.Op.String() + o.Args[0].String()
	case KCall:
		var a []string
		for _, x := range o.Args {
			a = append(a, x.String())
		}
		s := o.Name + "(" + strings.Join(a, ", ") + ")"
		if o.Index >= 0 {
			s += fmt.Sprintf("#%d", o.Index)
		}
		return s
	case KLookup:
		s := o.Args[0].String() + "[" + o.Args[1].String() + "]"
		if o.Index == 1 {
			s += "#ok"
		}
		return s
	case KRangeKey:
		return "rangekey(" + o.Args[0].String() + ")"
	case KRangeVal:
		return "rangeval(" + o.Args[0].String() + ")"
	case KLen:
		return "len(" + o.Args[0].String() + ")"
	case KAlloc:
		return "alloc:" + o.Name
	case KMakeSlice:
		return "make(" + o.Args[0].String() + ")"
	case KPhi:
		var a []string
		for _, x := range o.Args {
			a = append(a, x.String())
		}
		sort.Strings(a)
		return "phi{" + strings.Join(a, " | ") + "}"
	case KUnknown:
		return "?" + o.Name
	case KStructLit:
		return "lit:" + o.Name
	}
	return "?"
}

// Equal compares two origins structurally.
func Equal(a, b *O) bool { return a.String() == b.String() }

// IsConstInt returns the integer value if o is an integer constant (through conversions).
func (o *O) IsConstInt() (int64, bool) {
	for o != nil && o.Kind == KConv {
		o = o.Args[0]
	}
	if o == nil || o.Kind != KConst {
		return 0, false
	}
	if o.Const == nil {
		return 0, true
	}
	if o.Const.Kind() != constant.Int {
		return 0, false
	}
	if i, ok := constant.Int64Val(o.Const); ok {
		return i, true
	}
	if u, ok := constant.Uint64Val(o.Const); ok {
		return int64(u), true
	}
	return 0, false
}

// StripConv removes conversion nodes.
func (o *O) StripConv() *O {
	for o != nil && o.Kind == KConv {
		o = o.Args[0]
	}
	return o
}

// Frame binds the parameters of a function activation to caller-side origins.
type Frame struct {
	Fn     *ssa.Function
	Args   map[*ssa.Parameter]*O
	Parent *Frame
	ID     string // context id (call string)
}

// Resolver computes origins within a frame.
type Resolver struct {
	busy  map[memoKey]bool
	depth int
	memo  map[memoKey]*O
	// LoopVal, when set, lets the client substitute loop-carried values.
	Hook func(v ssa.Value, fr *Frame) *O
}

type memoKey struct {
	v  ssa.Value
	fr *Frame
	at ssa.Instruction
}

func NewResolver() *Resolver { return &Resolver{memo: map[memoKey]*O{}, busy: map[memoKey]bool{}} }

func unknown(v ssa.Value, why string) *O {
	return &O{Kind: KUnknown, Name: why, Val: v, Type: v.Type()}
}

// Of returns the origin of v as seen by instruction `at` (needed for loads from
// spilled locals: the reaching store depends on the position).
func (r *Resolver) Of(v ssa.Value, fr *Frame, at ssa.Instruction) *O {
	k := memoKey{v, fr, nil}
	if _, isLoad := v.(*ssa.UnOp); isLoad {
		k.at = at
	}
	if o, ok := r.memo[k]; ok {
		return o
	}
	if r.depth > 60 {
		return unknown(v, "depth")
	}
	if r.busy[k] {
		// loop-carried value reached again through its own definition
		return &O{Kind: KUnknown, Name: "loop:" + v.Name(), Val: v, Type: v.Type()}
	}
	r.busy[k] = true
	r.depth++
	o := r.of(v, fr, at)
	r.depth--
	delete(r.busy, k)
	r.memo[k] = o
	return o
}

func (r *Resolver) of(v ssa.Value, fr *Frame, at ssa.Instruction) *O {
	if r.Hook != nil {
		if o := r.Hook(v, fr); o != nil {
			return o
		}
	}
	switch x := v.(type) {
	case *ssa.Const:
		if x.IsNil() {
			return &O{Kind: KNil, Type: x.Type(), Val: v}
		}
		return &O{Kind: KConst, Const: x.Value, Type: x.Type(), Val: v}
	case *ssa.Parameter:
		if fr != nil {
			if o, ok := fr.Args[x]; ok {
				return o
			}
		}
		return &O{Kind: KParam, Param: x, Type: x.Type(), Val: v}
	case *ssa.FreeVar:
		return &O{Kind: KParam, FV: x, Type: x.Type(), Val: v}
	case *ssa.Global:
		return &O{Kind: KGlobal, Global: x, Type: x.Type(), Val: v, Name: "&"}
	case *ssa.Convert:
		return &O{Kind: KConv, Type: x.Type(), Args: []*O{r.Of(x.X, fr, at)}, Val: v}
	case *ssa.ChangeType:
		return &O{Kind: KConv, Type: x.Type(), Args: []*O{r.Of(x.X, fr, at)}, Val: v}
	case *ssa.MakeInterface:
		return r.Of(x.X, fr, at)
	case *ssa.ChangeInterface:
		return r.Of(x.X, fr, at)
	case *ssa.BinOp:
		if ph, ok := x.X.(*ssa.Phi); ok && ph.Comment == "rangeindex" && x.Op == token.ADD {
			if k, ok := x.Y.(*ssa.Const); ok && k.Value != nil && k.Value.ExactString() == "1" {
				if rg := rangedValue(ph, x); rg != nil {
					return &O{Kind: KRangeKey, Type: x.Type(), Args: []*O{r.Of(rg, fr, at)}, Val: v}
				}
			}
		}
		if over := countedIndex(x); over != nil {
			return &O{Kind: KRangeKey, Type: x.Type(), Args: []*O{r.Of(over, fr, at)}, Val: v}
		}
		return &O{Kind: KBin, Op: x.Op, Type: x.Type(), Args: []*O{r.Of(x.X, fr, at), r.Of(x.Y, fr, at)}, Val: v}
	case *ssa.UnOp:
		if x.Op == token.MUL {
			return r.load(x, fr)
		}
		return &O{Kind: KUn, Op: x.Op, Type: x.Type(), Args: []*O{r.Of(x.X, fr, at)}, Val: v}
	case *ssa.Field:
		st := x.X.Type().Underlying().(*types.Struct)
		base := r.Of(x.X, fr, at)
		if base.Kind == KStructLit && base.Fields != nil {
			if o, ok := base.Fields[st.Field(x.Field).Name()]; ok && o != nil {
				return o
			}
		}
		if base.Kind == KStructLit && base.Lit != nil {
			// the field of a literal built in a local (possibly in a caller and handed down by value): the store that
			// reaches the whole-value load, resolved where the literal was built
			if o := r.reaching(base.Lit, []int{x.Field}, base.LitAt, base.LitFr); o != nil {
				return o
			}
			return unknown(v, "ambiguous-store:"+base.Lit.Comment+"."+st.Field(x.Field).Name())
		}
		return &O{Kind: KField, Field: st.Field(x.Field), Type: x.Type(), Args: []*O{base}, Val: v}
	case *ssa.Index:
		return &O{Kind: KElem, Type: x.Type(), Args: []*O{r.Of(x.X, fr, at), r.Of(x.Index, fr, at)}, Val: v}
	case *ssa.Lookup:
		return &O{Kind: KLookup, Type: x.Type(), Args: []*O{r.Of(x.X, fr, at), r.Of(x.Index, fr, at)}, Val: v, Index: 0}
	case *ssa.Extract:
		switch t := x.Tuple.(type) {
		case *ssa.Lookup:
			return &O{Kind: KLookup, Type: x.Type(), Args: []*O{r.Of(t.X, fr, at), r.Of(t.Index, fr, at)}, Val: v, Index: x.Index}
		case *ssa.Next:
			rg, ok := t.Iter.(*ssa.Range)
			if !ok {
				return unknown(v, "next")
			}
			switch x.Index {
			case 1:
				return &O{Kind: KRangeKey, Type: x.Type(), Args: []*O{r.Of(rg.X, fr, at)}, Val: t}
			case 2:
				return &O{Kind: KRangeVal, Type: x.Type(), Args: []*O{r.Of(rg.X, fr, at)}, Val: t}
			}
			return unknown(v, "next-ok")
		case *ssa.Call:
			o := r.call(t, fr, at)
			c := *o
			c.Index = x.Index
			c.Type = x.Type()
			c.Val = v
			return &c
		case *ssa.TypeAssert:
			if x.Index == 0 {
				return r.Of(t.X, fr, at)
			}
			return unknown(v, "typeassert-ok")
		}
		return unknown(v, "extract")
	case *ssa.Call:
		return r.call(x, fr, at)
	case *ssa.Alloc:
		id := ""
		if fr != nil {
			id = fr.ID
		}
		return &O{Kind: KAlloc, Type: x.Type(), Val: v, Name: x.Comment + "@" + x.Parent().Name(), Ctx: id}
	case *ssa.MakeSlice:
		return &O{Kind: KMakeSlice, Type: x.Type(), Args: []*O{r.Of(x.Len, fr, at)}, Val: v}
	case *ssa.Slice:
		// s[:]  of an array/slice with no bounds: same sequence
		if x.Low == nil && x.High == nil && x.Max == nil {
			return r.Of(x.X, fr, at)
		}
		args := []*O{r.Of(x.X, fr, at)}
		for _, b := range []ssa.Value{x.Low, x.High, x.Max} {
			if b == nil {
				args = append(args, &O{Kind: KNil})
			} else {
				args = append(args, r.Of(b, fr, at))
			}
		}
		return &O{Kind: KCall, Name: "slice", Index: -1, Type: x.Type(), Args: args, Val: v}
	case *ssa.FieldAddr:
		st := x.X.Type().Underlying().(*types.Pointer).Elem().Underlying().(*types.Struct)
		return &O{Kind: KField, Field: st.Field(x.Field), Type: x.Type(), Args: []*O{r.Of(x.X, fr, at)}, Val: v, Name: "&"}
	case *ssa.IndexAddr:
		return &O{Kind: KElem, Type: x.Type(), Args: []*O{r.Of(x.X, fr, at), r.Of(x.Index, fr, at)}, Val: v, Name: "&"}
	case *ssa.Phi:
		// rangeindex induction variable
		if x.Comment == "rangeindex" {
			return &O{Kind: KRangeKey, Type: x.Type(), Args: []*O{{Kind: KUnknown, Name: "rangeindex", Val: x}}, Val: x}
		}
		// the variable of any other loop that visits every index of a sequence in order (`for i := 0; i < len(s); i++`)
		if over := countedIndex(x); over != nil {
			return &O{Kind: KRangeKey, Type: x.Type(), Args: []*O{r.Of(over, fr, at)}, Val: v}
		}
		var alts []*O
		seen := map[string]bool{}
		for _, e := range x.Edges {
			if e == x {
				continue
			}
			o := r.Of(e, fr, at)
			if !seen[o.String()] {
				seen[o.String()] = true
				alts = append(alts, o)
			}
		}
		if len(alts) == 1 {
			return alts[0]
		}
		return &O{Kind: KPhi, Type: x.Type(), Args: alts, Val: v}
	case *ssa.TypeAssert:
		if !x.CommaOk {
			return r.Of(x.X, fr, at)
		}
	case *ssa.Function:
		return &O{Kind: KCall, Callee: x, Name: "func:" + x.Name(), Index: -1, Type: x.Type(), Val: v}
	}
	return unknown(v, fmt.Sprintf("%T", v))
}

func (r *Resolver) call(c *ssa.Call, fr *Frame, at ssa.Instruction) *O {
	if bi, ok := c.Call.Value.(*ssa.Builtin); ok {
		if bi.Name() == "len" && len(c.Call.Args) == 1 {
			return &O{Kind: KLen, Type: c.Type(), Args: []*O{r.Of(c.Call.Args[0], fr, at)}, Val: c}
		}
		var args []*O
		for _, a := range c.Call.Args {
			args = append(args, r.Of(a, fr, at))
		}
		return &O{Kind: KCall, Name: bi.Name(), Index: -1, Type: c.Type(), Args: args, Val: c}
	}
	var args []*O
	for _, a := range c.Call.Args {
		args = append(args, r.Of(a, fr, at))
	}
	o := &O{Kind: KCall, Index: -1, Type: c.Type(), Args: args, Val: c}
	if f := c.Call.StaticCallee(); f != nil {
		o.Callee = f
		o.Name = f.Name()
		if f.Pkg != nil {
			o.Name = f.Pkg.Pkg.Name() + "." + f.Name()
		}
	} else if c.Call.IsInvoke() {
		o.Name = "invoke:" + c.Call.Method.Name()
		o.Args = append([]*O{r.Of(c.Call.Value, fr, at)}, o.Args...)
	} else {
		o.Name = "dynamic"
	}
	return o
}

// countedIndex: v is the index visited by the current iteration of a loop over all indices of a sequence, in any
// spelling (flow.CountedLoops); returns the sequence.
func countedIndex(v ssa.Value) ssa.Value {
	in, ok := v.(ssa.Instruction)
	if !ok || in.Parent() == nil {
		return nil
	}
	for _, l := range flow.CountedLoops(in.Parent()) {
		if l.IsIndex(v) {
			return l.Over
		}
	}
	return nil
}

// rangedValue finds X of `for i := range X` from the rotated loop header:
// next = phi + 1; if next < len(X).
func rangedValue(ph *ssa.Phi, next *ssa.BinOp) ssa.Value {
	b := ph.Block()
	if len(b.Instrs) == 0 {
		return nil
	}
	ifi, ok := b.Instrs[len(b.Instrs)-1].(*ssa.If)
	if !ok {
		return nil
	}
	cmp, ok := ifi.Cond.(*ssa.BinOp)
	if !ok || cmp.Op != token.LSS || cmp.X != ssa.Value(next) {
		return nil
	}
	c, ok := cmp.Y.(*ssa.Call)
	if !ok {
		return nil
	}
	if bi, ok := c.Call.Value.(*ssa.Builtin); !ok || bi.Name() != "len" || len(c.Call.Args) != 1 {
		return nil
	}
	return c.Call.Args[0]
}

// FieldOfParam reports whether o is <prm>.<field> (the parameter itself or its entry spill).
func FieldOfParam(o *O, prm *ssa.Parameter, field string) bool {
	if o == nil || o.Kind != KField || o.Field.Name() != field {
		return false
	}
	b := o.Args[0]
	return b.Kind == KParam && b.Param == prm
}

// load resolves *addr.
func (r *Resolver) load(ld *ssa.UnOp, fr *Frame) *O {
	switch a := ld.X.(type) {
	case *ssa.Global:
		return &O{Kind: KGlobal, Global: a, Type: ld.Type(), Val: ld}
	case *ssa.FieldAddr:
		st := a.X.Type().Underlying().(*types.Pointer).Elem().Underlying().(*types.Struct)
		fld := st.Field(a.Field)
		if al, ok := a.X.(*ssa.Alloc); ok {
			if o := r.reaching(al, []int{a.Field}, ld, fr); o != nil {
				return o
			}
			return unknown(ld, "ambiguous-store:"+al.Comment+"."+fld.Name())
		}
		base := r.Of(a.X, fr, ld)
		return &O{Kind: KField, Field: fld, Type: ld.Type(), Args: []*O{deref(base)}, Val: ld}
	case *ssa.IndexAddr:
		if al, ok := a.X.(*ssa.Alloc); ok {
			if k, isC := a.Index.(*ssa.Const); isC && k.Value != nil {
				if i, ok := constant.Int64Val(k.Value); ok {
					if o := r.reachingElem(al, int(i), ld, fr); o != nil {
						return o
					}
				}
			}
		}
		base := r.Of(a.X, fr, ld)
		if _, isPtr := a.X.Type().Underlying().(*types.Pointer); isPtr {
			base = deref(base)
		}
		return &O{Kind: KElem, Type: ld.Type(), Args: []*O{base, r.Of(a.Index, fr, ld)}, Val: ld}
	case *ssa.Alloc:
		if o := r.reaching(a, nil, ld, fr); o != nil {
			return o
		}
		if _, isStruct := a.Type().Underlying().(*types.Pointer).Elem().Underlying().(*types.Struct); isStruct {
			if recs, escapes := storesOf(a); !escapes && len(recs) > 0 {
				fieldsOnly := true
				for _, rc := range recs {
					if rc.field < 0 {
						fieldsOnly = false
					}
				}
				if fieldsOnly {
					id := ""
					if fr != nil {
						id = fr.ID
					}
					return &O{Kind: KStructLit, Type: ld.Type(), Val: ld, Name: a.Comment + "@" + a.Parent().Name() + "/" + id + "/" + ld.Name(), Lit: a, LitAt: ld, LitFr: fr}
				}
			}
		}
		return unknown(ld, "ambiguous-store:"+a.Comment)
	}
	return &O{Kind: KUn, Op: token.MUL, Type: ld.Type(), Args: []*O{r.Of(ld.X, fr, ld)}, Val: ld}
}

func deref(o *O) *O {
	// &X.f nodes are marked Name "&": the pointee is the same path
	if (o.Kind == KField || o.Kind == KElem || o.Kind == KGlobal) && o.Name == "&" {
		c := *o
		c.Name = ""
		return &c
	}
	if o.Kind == KAlloc {
		return o
	}
	return &O{Kind: KUn, Op: token.MUL, Args: []*O{o}, Type: o.Type}
}

// storesTo collects stores into alloc (whole) or into its field path.
type storeRec struct {
	st    *ssa.Store
	field int // -1 whole
}

func storesOf(al *ssa.Alloc) (recs []storeRec, escapes bool) {
	for _, ref := range *al.Referrers() {
		switch x := ref.(type) {
		case *ssa.Store:
			if x.Addr == al {
				recs = append(recs, storeRec{x, -1})
			} else {
				escapes = true // address stored somewhere
			}
		case *ssa.FieldAddr:
			for _, r2 := range *x.Referrers() {
				switch y := r2.(type) {
				case *ssa.Store:
					if y.Addr == x {
						recs = append(recs, storeRec{y, x.Field})
					} else {
						escapes = true
					}
				case *ssa.UnOp:
				case *ssa.FieldAddr, *ssa.IndexAddr:
					// nested path: treated as escape for whole-field queries only when stored through
					if hasStoreThrough(y.(ssa.Value)) {
						escapes = true
					}
				case *ssa.DebugRef:
				default:
					escapes = true
				}
			}
		case *ssa.UnOp, *ssa.DebugRef:
		case *ssa.IndexAddr, *ssa.Slice:
		default:
			// passed to a call etc.: contents may change there
			escapes = true
		}
	}
	return
}

// clobbersOf lists the instructions through which the content of the local (path nil) or of one of its fields can be
// changed other than by a direct store: calls that receive the address, stores of the address into memory.
func clobbersOf(al *ssa.Alloc, path []int) []ssa.Instruction {
	var out []ssa.Instruction
	var via func(addr ssa.Value, depth int)
	via = func(addr ssa.Value, depth int) {
		if depth > 4 || addr.Referrers() == nil {
			return
		}
		for _, ref := range *addr.Referrers() {
			switch x := ref.(type) {
			case *ssa.Store:
				if x.Val == addr {
					out = append(out, x) // the address itself is stored somewhere
				}
			case *ssa.UnOp, *ssa.DebugRef:
			case *ssa.FieldAddr:
				via(x, depth+1)
			case *ssa.IndexAddr:
				via(x, depth+1)
			case *ssa.Slice:
				via(x, depth+1)
			case ssa.CallInstruction:
				// builtins that only read
				if bi, ok := x.Common().Value.(*ssa.Builtin); ok {
					switch bi.Name() {
					case "len", "cap", "print", "println":
						continue
					case "copy", "append":
						if len(x.Common().Args) > 0 && x.Common().Args[0] != addr {
							continue // source operand
						}
					}
				}
				out = append(out, x)
			case *ssa.MakeInterface, *ssa.MakeClosure, *ssa.Phi, *ssa.ChangeType, *ssa.Convert:
				out = append(out, ref) // escapes: treat as a clobber from here on
			}
		}
	}
	for _, ref := range *al.Referrers() {
		switch x := ref.(type) {
		case *ssa.FieldAddr:
			if len(path) == 0 || x.Field == path[0] {
				via(x, 0)
			}
		case *ssa.Store:
			if x.Val == ssa.Value(al) {
				out = append(out, x)
			}
		case *ssa.UnOp, *ssa.DebugRef:
		case *ssa.IndexAddr:
			via(x, 0)
		case *ssa.Slice:
			via(x, 0)
		case ssa.CallInstruction:
			out = append(out, x)
		case *ssa.MakeInterface, *ssa.MakeClosure, *ssa.Phi, *ssa.ChangeType, *ssa.Convert:
			out = append(out, ref)
		}
	}
	return out
}

func hasStoreThrough(v ssa.Value) bool {
	refs := v.Referrers()
	if refs == nil {
		return false
	}
	for _, ref := range *refs {
		switch y := ref.(type) {
		case *ssa.Store:
			if y.Addr == v {
				return true
			}
		case *ssa.FieldAddr:
			if hasStoreThrough(y) {
				return true
			}
		case *ssa.IndexAddr:
			if hasStoreThrough(y) {
				return true
			}
		case *ssa.UnOp, *ssa.DebugRef:
		default:
			return true
		}
	}
	return false
}

func instrIndex(in ssa.Instruction) int {
	for i, x := range in.Block().Instrs {
		if x == in {
			return i
		}
	}
	return -1
}

func dominatesInstr(a, b ssa.Instruction) bool {
	if a.Block() == b.Block() {
		return instrIndex(a) < instrIndex(b)
	}
	return a.Block().Dominates(b.Block())
}

// reaching finds the unique store that reaches the load of alloc (path = nil)
// or of alloc.field (path = [field]).
func (r *Resolver) reaching(al *ssa.Alloc, path []int, ld ssa.Instruction, fr *Frame) *O {
	recs, _ := storesOf(al)
	var cands []storeRec
	for _, s := range recs {
		if len(path) == 0 {
			if s.field == -1 {
				cands = append(cands, s)
			} else {
				return nil // whole load of a value assembled field by field: not needed here
			}
		} else if s.field == -1 || s.field == path[0] {
			cands = append(cands, s)
		}
	}
	if len(cands) == 0 {
		// zero value
		if len(path) == 0 {
			return &O{Kind: KConst, Type: al.Type().Underlying().(*types.Pointer).Elem(), Name: "zero"}
		}
		st := al.Type().Underlying().(*types.Pointer).Elem().Underlying().(*types.Struct)
		return &O{Kind: KConst, Type: st.Field(path[0]).Type()}
	}
	// the latest dominating store; every other candidate must dominate it (so it is overwritten)
	// or be unable to reach the load without passing the chosen one.
	var best *storeRec
	for i := range cands {
		c := &cands[i]
		if !dominatesInstr(c.st, ld) {
			continue
		}
		if best == nil || dominatesInstr(best.st, c.st) {
			best = c
		}
	}
	if best == nil {
		return nil
	}
	for i := range cands {
		c := &cands[i]
		if c == best || dominatesInstr(c.st, best.st) {
			continue
		}
		// a store that does not dominate the chosen one: it must not be able to reach the load
		// without passing through the chosen store's block again (loop re-entry stores are fine
		// when the chosen store is in the same iteration, i.e. chosen dominates the load and the
		// other store is dominated by the load or the chosen store).
		if dominatesInstr(best.st, c.st) && !dominatesInstr(c.st, ld) {
			// c executes after best on some path; does it reach ld without re-executing best?
			if reachesWithout(c.st, ld, best.st) {
				return nil
			}
			continue
		}
		return nil
	}
	// the address (of the local, or of the queried field) handed to a call between the chosen store and the load: the
	// callee may have written through it, so the stored value is not what the load sees
	for _, k := range clobbersOf(al, path) {
		if k == ssa.Instruction(best.st) {
			continue
		}
		after := dominatesInstr(best.st, k) || reachesWithout(best.st, k, nil)
		if after && (k == ld || reachesWithout(k, ld, best.st)) {
			return nil
		}
	}
	o := r.Of(best.st.Val, fr, best.st)
	if len(path) == 1 && best.field == -1 {
		if o.Kind == KStructLit && o.Fields != nil {
			st := al.Type().Underlying().(*types.Pointer).Elem().Underlying().(*types.Struct)
			if fo, ok := o.Fields[st.Field(path[0]).Name()]; ok && fo != nil {
				return fo
			}
			return nil
		}
		if o.Kind == KStructLit && o.Lit != nil {
			// the whole value is a literal built elsewhere (a struct handed down by value and spilled here)
			if fo := r.reaching(o.Lit, path, o.LitAt, o.LitFr); fo != nil {
				return fo
			}
			return nil
		}
		st := al.Type().Underlying().(*types.Pointer).Elem().Underlying().(*types.Struct)
		return &O{Kind: KField, Field: st.Field(path[0]), Type: st.Field(path[0]).Type(), Args: []*O{o}, Val: ld.(ssa.Value)}
	}
	return o
}

// reachesWithout: can control flow go from `from` to `to` without executing `avoid`?
func reachesWithout(from, to, avoid ssa.Instruction) bool {
	// block-level search; within-block ordering handled for the start/end blocks
	start := from.Block()
	seen := map[*ssa.BasicBlock]bool{}
	var walk func(b *ssa.BasicBlock, fromIdx int) bool
	walk = func(b *ssa.BasicBlock, fromIdx int) bool {
		for i := fromIdx; i < len(b.Instrs); i++ {
			if b.Instrs[i] == avoid {
				return false
			}
			if b.Instrs[i] == to {
				return true
			}
		}
		for _, s := range b.Succs {
			if seen[s] {
				continue
			}
			seen[s] = true
			if walk(s, 0) {
				return true
			}
		}
		return false
	}
	return walk(start, instrIndex(from)+1)
}

// reachingElem: load of alloc[i] for an array alloc with constant-index stores.
func (r *Resolver) reachingElem(al *ssa.Alloc, idx int, ld ssa.Instruction, fr *Frame) *O {
	var cands []*ssa.Store
	for _, ref := range *al.Referrers() {
		switch x := ref.(type) {
		case *ssa.IndexAddr:
			k, isC := x.Index.(*ssa.Const)
			ci := int64(-1)
			if isC && k.Value != nil {
				ci, _ = constant.Int64Val(k.Value)
			}
			for _, r2 := range *x.Referrers() {
				if st, ok := r2.(*ssa.Store); ok && st.Addr == x {
					if !isC {
						return nil
					}
					if int(ci) == idx {
						cands = append(cands, st)
					}
				}
			}
		case *ssa.Slice:
			// the array is sliced: if the slice is only passed to append/varargs reads that is fine,
			// but a copy() into it writes elements -> not resolved here
			for _, r2 := range *x.Referrers() {
				if c, ok := r2.(*ssa.Call); ok {
					if bi, ok := c.Call.Value.(*ssa.Builtin); ok && bi.Name() == "copy" && c.Call.Args[0] == x {
						return nil
					}
				}
			}
		}
	}
	if len(cands) != 1 || !dominatesInstr(cands[0], ld) {
		return nil
	}
	return r.Of(cands[0].Val, fr, cands[0])
}
