// Package core holds what every rule shares: obligation records, instance
// floors, known-finding matching, and the evidence / replay writers.
package core

import (
	"encoding/json"
	"fmt"
	"os"
	"path/filepath"
	"sort"
	"strings"
	"time"
)

// Status of one obligation.
type Status string

const (
	Discharged Status = "discharged"
	Violated   Status = "violated"
	Undecided  Status = "undecided"
	Known      Status = "known" // violated, listed in known_findings.json with status "known"
)

// Obligation is one instance of one rule.  Key names the construct by function
// and role, never by line; Pos is only for the reader.
type Obligation struct {
	Property string `json:"property"`
	Rule     string `json:"rule"`
	Key      string `json:"key"`
	Pos      string `json:"pos,omitempty"`
	Status   Status `json:"status"`
	Detail   string `json:"detail,omitempty"`
}

// Finding is one entry of /verif/known_findings.json.
type Finding struct {
	Property string `json:"property"`
	Rule     string `json:"rule"`
	Key      string `json:"key"`
	Status   string `json:"status"` // "known" or "fixed"
	What     string `json:"what"`
	Commit   string `json:"commit,omitempty"`
	Demo     string `json:"demo,omitempty"`
}

// Run collects the obligations of one check invocation.
type Run struct {
	Property    string
	Tier        string
	Seed        int
	Level       string // level claimed in the manifest for this property
	VerifDir    string
	RepoDir     string
	Cmd         string
	Explanation string
	Trusted     []string
	Assumptions []string

	// Quiet: a sub-run (required property, control variant): nothing is printed or written for it
	Quiet bool

	// KeyPrefix is prepended to the key of every obligation recorded while it is set (used by the thorough
	// tier to repeat the rules under other build targets).
	KeyPrefix string

	start   time.Time
	obls    []Obligation
	counts  map[string]int // "what was analysed" counters
	floors  []floor
	notes   []string
	extra   map[string]interface{}
	samples []interface{}
}

type floor struct {
	rule     string
	got, min int
}

func NewRun(prop, tier string, seed int, level, verif, repo string) *Run {
	return &Run{Property: prop, Tier: tier, Seed: seed, Level: level, VerifDir: verif, RepoDir: repo,
		start: time.Now(), counts: map[string]int{}, extra: map[string]interface{}{}}
}

func (r *Run) add(rule, key, pos string, st Status, detail string) {
	r.obls = append(r.obls, Obligation{Property: r.Property, Rule: rule, Key: r.KeyPrefix + key, Pos: r.rel(pos), Status: st, Detail: detail})
}

func (r *Run) rel(pos string) string {
	if r.RepoDir != "" && strings.HasPrefix(pos, r.RepoDir+"/") {
		return pos[len(r.RepoDir)+1:]
	}
	return pos
}

// OK records a discharged obligation.
func (r *Run) OK(rule, key, pos, detail string) { r.add(rule, key, pos, Discharged, detail) }

// Bad records a violated obligation.
func (r *Run) Bad(rule, key, pos, detail string) { r.add(rule, key, pos, Violated, detail) }

// Unknown records an obligation the analysis could not decide (fails the check).
func (r *Run) Unknown(rule, key, pos, detail string) { r.add(rule, key, pos, Undecided, detail) }

// Check records OK or Bad depending on cond.
func (r *Run) Check(cond bool, rule, key, pos, okDetail, badDetail string) bool {
	if cond {
		r.OK(rule, key, pos, okDetail)
	} else {
		r.Bad(rule, key, pos, badDetail)
	}
	return cond
}

// Floor demands that rule matched at least min instances (else the rule is vacuous).
func (r *Run) Floor(rule string, got, min int) {
	r.floors = append(r.floors, floor{r.KeyPrefix + rule, got, min})
}

// Failed reports whether any violated or undecided obligation (or unmet floor) was recorded so far.
func (r *Run) Failed() (bool, string) {
	for _, o := range r.obls {
		if o.Status == Violated || o.Status == Undecided {
			return true, o.Rule + " " + o.Key
		}
	}
	for _, f := range r.floors {
		if f.got < f.min {
			return true, "floor " + f.rule
		}
	}
	return false, ""
}

// FirstFailure returns the first violated or undecided obligation (or unmet floor) with its text.
func (r *Run) FirstFailure() (bool, string) {
	for _, o := range r.obls {
		if o.Status == Violated || o.Status == Undecided {
			d := o.Detail
			if len(d) > 300 {
				d = d[:300] + "..."
			}
			return true, fmt.Sprintf("%s %s @%s: %s", o.Rule, o.Key, o.Pos, d)
		}
	}
	for _, f := range r.floors {
		if f.got < f.min {
			return true, fmt.Sprintf("rule %s matched %d instance(s), fewer than %d", f.rule, f.got, f.min)
		}
	}
	return false, ""
}

// Count adds to a "what was analysed" counter shown in the evidence.
func (r *Run) Count(what string, n int) { r.counts[r.KeyPrefix+what] += n }

// Note prints and records a remark that is not an obligation.
func (r *Run) Note(format string, a ...interface{}) {
	r.notes = append(r.notes, fmt.Sprintf(format, a...))
}

// Extra stores an additional coverage key.
func (r *Run) Extra(key string, v interface{}) { r.extra[key] = v }

// Sample records one analysed case written out for the evidence file.
func (r *Run) Sample(v interface{}) {
	if len(r.samples) < 40 {
		r.samples = append(r.samples, v)
	}
}

// Obligations returns what was recorded so far.
func (r *Run) Obligations() []Obligation { return r.obls }

// HasBad reports whether a rule already has a violated or undecided obligation.
func (r *Run) HasBad(rule string) bool {
	for _, o := range r.obls {
		if o.Rule == rule && (o.Status == Violated || o.Status == Undecided) {
			return true
		}
	}
	return false
}

// Mark returns a position in the record; FailedSince and Retract refer to what was recorded after it.
func (r *Run) Mark() [2]int { return [2]int{len(r.obls), len(r.floors)} }

func ruleIn(rule string, rules []string) bool {
	if i := strings.Index(rule, "("); i >= 0 {
		rule = rule[:i]
	}
	for _, x := range rules {
		if rule == x {
			return true
		}
	}
	return false
}

// FailedSince reports whether an obligation (or floor) of one of the rules recorded after the mark is open.
func (r *Run) FailedSince(m [2]int, rules ...string) bool {
	for _, o := range r.obls[m[0]:] {
		if ruleIn(o.Rule, rules) && (o.Status == Violated || o.Status == Undecided) {
			return true
		}
	}
	for _, f := range r.floors[m[1]:] {
		if ruleIn(strings.TrimPrefix(f.rule, r.KeyPrefix), rules) && f.got < f.min {
			return true
		}
	}
	return false
}

// Retract removes the obligations and floors of the rules recorded after the mark; it is used when a second decision
// procedure, sound for the same statements, has decided them (the caller records its obligations instead).
func (r *Run) Retract(m [2]int, rules ...string) int {
	n := 0
	keep := r.obls[:m[0]:m[0]]
	for _, o := range r.obls[m[0]:] {
		if ruleIn(o.Rule, rules) {
			n++
			continue
		}
		keep = append(keep, o)
	}
	r.obls = keep
	kf := r.floors[:m[1]:m[1]]
	for _, f := range r.floors[m[1]:] {
		if ruleIn(strings.TrimPrefix(f.rule, r.KeyPrefix), rules) {
			continue
		}
		kf = append(kf, f)
	}
	r.floors = kf
	return n
}

func loadFindings(path string) ([]Finding, error) {
	b, err := os.ReadFile(path)
	if err != nil {
		if os.IsNotExist(err) {
			return nil, nil
		}
		return nil, err
	}
	var f struct {
		Findings []Finding `json:"findings"`
	}
	if err := json.Unmarshal(b, &f); err != nil {
		return nil, fmt.Errorf("%s: %v", path, err)
	}
	return f.Findings, nil
}

func sanitize(s string) string {
	var b strings.Builder
	for _, c := range s {
		switch {
		case c >= 'a' && c <= 'z', c >= 'A' && c <= 'Z', c >= '0' && c <= '9', c == '.', c == '-', c == '_':
			b.WriteRune(c)
		default:
			b.WriteByte('_')
		}
	}
	out := b.String()
	if len(out) > 80 {
		out = out[:80]
	}
	return out
}

// Finish applies floors and known findings, writes evidence and replay files,
// prints the report and returns the process exit code.
func (r *Run) Finish() int {
	for _, f := range r.floors {
		key := fmt.Sprintf("floor/%s", f.rule)
		if f.got < f.min {
			r.Bad("floor", key, "", fmt.Sprintf("rule %s matched %d instance(s), fewer than the %d confirmed by hand: the rule would pass vacuously", f.rule, f.got, f.min))
		} else {
			r.OK("floor", key, "", fmt.Sprintf("rule %s matched %d instance(s) (floor %d)", f.rule, f.got, f.min))
		}
	}
	if len(r.obls) == 0 {
		r.Bad("floor", "floor/any", "", "the check produced no obligation at all")
	}

	findings, err := loadFindings(filepath.Join(r.VerifDir, "known_findings.json"))
	if err != nil {
		r.Unknown("core", "known_findings.json", "", err.Error())
	}
	knownPrinted := map[string]bool{}
	var knownLines []string
	for i := range r.obls {
		o := &r.obls[i]
		if o.Status != Violated {
			continue
		}
		for _, f := range findings {
			if f.Status == "known" && f.Property == o.Property && f.Rule == o.Rule && f.Key == o.Key {
				o.Status = Known
				id := f.Rule + "|" + f.Key
				if !knownPrinted[id] {
					knownPrinted[id] = true
					knownLines = append(knownLines, fmt.Sprintf("KNOWN-FINDING: property=%s %s [%s %s]", o.Property, f.What, f.Rule, f.Key))
				}
				break
			}
		}
	}

	// Summary by rule.
	type agg struct{ total, ok, bad, und, known int }
	byRule := map[string]*agg{}
	var rules []string
	distinct := map[string]bool{}
	nDis, nBad, nUnd, nKnown := 0, 0, 0, 0
	for _, o := range r.obls {
		a := byRule[o.Rule]
		if a == nil {
			a = &agg{}
			byRule[o.Rule] = a
			rules = append(rules, o.Rule)
		}
		a.total++
		distinct[o.Rule+"|"+o.Key] = true
		switch o.Status {
		case Discharged:
			a.ok++
			nDis++
		case Violated:
			a.bad++
			nBad++
		case Undecided:
			a.und++
			nUnd++
		case Known:
			a.known++
			nKnown++
		}
	}
	sort.Strings(rules)

	fmt.Printf("== %s tier=%s repo=%s\n", r.Property, r.Tier, r.RepoDir)
	var cnames []string
	for k := range r.counts {
		cnames = append(cnames, k)
	}
	sort.Strings(cnames)
	for _, k := range cnames {
		fmt.Printf("   analysed %-34s %d\n", k, r.counts[k])
	}
	for _, ru := range rules {
		a := byRule[ru]
		fmt.Printf("   rule %-28s obligations=%d discharged=%d violated=%d undecided=%d known=%d\n", ru, a.total, a.ok, a.bad, a.und, a.known)
	}
	for _, n := range r.notes {
		fmt.Printf("   note: %s\n", n)
	}
	for _, l := range knownLines {
		fmt.Println(l)
	}

	// Replay files + VIOLATION lines.
	replayDir := filepath.Join(r.VerifDir, "evidence", "replay")
	if old, _ := filepath.Glob(filepath.Join(replayDir, r.Property+"-*.json")); len(old) > 0 {
		for _, f := range old {
			os.Remove(f)
		}
	}
	exit := 0
	n := 0
	var violLines []string
	perRuleShown := map[string]int{}
	suppressed := 0
	for _, o := range r.obls {
		if o.Status != Violated && o.Status != Undecided {
			continue
		}
		exit = 1
		perRuleShown[o.Rule]++
		if perRuleShown[o.Rule] > 6 {
			suppressed++
			continue
		}
		n++
		os.MkdirAll(replayDir, 0o755)
		name := fmt.Sprintf("%s-%s-%d.json", r.Property, sanitize(o.Rule+"-"+o.Key), n)
		path := filepath.Join(replayDir, name)
		b, _ := json.MarshalIndent(map[string]interface{}{
			"property": o.Property, "rule": o.Rule, "key": o.Key, "pos": o.Pos, "status": o.Status,
			"detail": o.Detail, "tier": r.Tier, "repo": r.RepoDir,
		}, "", " ")
		os.WriteFile(path, append(b, '\n'), 0o644)
		fmt.Printf("   %s %s %s @%s: %s\n", strings.ToUpper(string(o.Status)), o.Rule, o.Key, o.Pos, o.Detail)
		violLines = append(violLines, fmt.Sprintf("VIOLATION property=%s replay=%s", r.Property, path))
	}
	if suppressed > 0 {
		fmt.Printf("   ... and %d further violated/undecided obligations (at most 6 per rule are written out; all are counted in the evidence)\n", suppressed)
	}
	for _, l := range violLines {
		fmt.Println(l)
	}

	// Evidence.
	level := r.Level
	if level == "proof" && (nDis != len(r.obls)) {
		level = "other"
	}
	samples := r.samples
	// Always show a few actual obligations too.
	shown := 0
	for _, o := range r.obls {
		if shown >= 12 {
			break
		}
		if o.Rule == "floor" {
			continue
		}
		samples = append(samples, o)
		shown++
	}
	cov := map[string]interface{}{
		"obligations":         len(r.obls),
		"discharged":          nDis,
		"known_findings_open": nKnown,
		"undecided":           nUnd,
		"checker_cmd":         r.Cmd,
		"trusted_base":        r.Trusted,
		"explanation":         r.Explanation,
		"evaluations":         len(r.obls),
		"distinct_nontrivial": len(distinct),
		"rule":                "one evaluation per rule instance (obligation) found in /repo's current source; distinct = distinct (rule, construct) keys; every instance is a construct of the analysed program, none is trivial by construction (floor obligations included)",
		"samples":             samples,
		"analysed":            r.counts,
		"exhaustive":          true,
		"notes":               r.notes,
	}
	perRule := map[string]interface{}{}
	for _, ru := range rules {
		a := byRule[ru]
		perRule[ru] = map[string]int{"obligations": a.total, "discharged": a.ok, "violated": a.bad, "undecided": a.und, "known": a.known}
	}
	cov["per_rule"] = perRule
	for k, v := range r.extra {
		cov[k] = v
	}
	if r.Trusted == nil {
		cov["trusted_base"] = []string{}
	}
	ev := map[string]interface{}{
		"property_id": r.Property,
		"tier":        r.Tier,
		"seed":        r.Seed,
		"level":       level,
		"coverage":    cov,
		"assumptions": r.Assumptions,
		"wall_s":      time.Since(r.start).Seconds(),
		"violations":  nBad + nUnd,
	}
	if r.Assumptions == nil {
		ev["assumptions"] = []string{}
	}
	evDir := filepath.Join(r.VerifDir, "evidence")
	os.MkdirAll(evDir, 0o755)
	b, _ := json.MarshalIndent(ev, "", " ")
	if err := os.WriteFile(filepath.Join(evDir, r.Property+".json"), append(b, '\n'), 0o644); err != nil {
		fmt.Printf("cannot write evidence: %v\n", err)
		exit = 1
	}
	fmt.Printf("== %s: obligations=%d discharged=%d violated=%d undecided=%d known=%d level=%s exit=%d (%.1fs)\n",
		r.Property, len(r.obls), nDis, nBad, nUnd, nKnown, level, exit, time.Since(r.start).Seconds())
	return exit
}
