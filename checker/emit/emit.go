// Package emit is engine E1: it turns the emitter functions of the root
// package (the code generator) into a finite automaton of emission events with
// tracked predicates, resolves labels on it and hands the resulting
// object-level instruction graph to the rules.  The automaton's paths are the
// event traces of all runs of the generator, so a "must" fact proved on it
// holds for every policy.  Nothing of the repository is executed: this is a
// path-sensitive dataflow analysis over go/ssa.
package emit

import (
	"fmt"
	"go/constant"
	"go/token"
	"go/types"
	"sort"
	"strings"

	"golang.org/x/tools/go/ssa"

	"sbpfcheck/origin"
)

// Kind of an event.
type Kind int

const (
	EvNew Kind = iota
	EvJrec
	EvEmit
	EvBind
	EvEnd // the program object is handed to the patcher / its instruction list is read
)

func (k Kind) String() string { return [...]string{"NEW", "JREC", "EMIT", "BIND", "END"}[k] }

// LabelVal identifies a label by the NewLabel call site and its calling context.
type LabelVal struct {
	Site ssa.Instruction
	Ctx  string
	Role string // variable name at the creation site, for reports
	// Cum is the loop depth of the creation site counted across the inlined call chain from the root emitter
	// (loop depth of the NewLabel call + loop depths of all enclosing call sites): it does not change when a loop
	// body is moved into a helper function.  Builder: the label is created inside a method of the builder itself.
	Cum     int
	Builder bool
}

func (l *LabelVal) Key() string {
	if l == nil {
		return "<unresolved>"
	}
	return fmt.Sprintf("%s@%p", l.Ctx, l.Site)
}

func (l *LabelVal) String() string {
	if l == nil {
		return "<unresolved label>"
	}
	return l.Role
}

// Literal is one emitted instruction literal.
type Literal struct {
	Type   string // LoadAbsolute, JumpIf, Jump, RetConstant, or another type name
	Fields map[string]*origin.O
	Pos    token.Pos
	Fn     *ssa.Function // function containing the literal
}

// Node is one event instance (event site x analysis state).
type Node struct {
	ID    int
	Kind  Kind
	Instr ssa.Instruction
	Fn    *ssa.Function
	Ctx   string
	Lit   *Literal  // EvEmit
	LT    *LabelVal // EvJrec
	LF    *LabelVal
	L     *LabelVal // EvBind, EvNew
	Succ  []*Node
	Ops   string // operation set known at this point (for reports)
	Lag   int    // EvJrec: 0 = the record names the next emission, 1 = the emission just made
	// Jrec is the jump record that annotates this EMIT (set by Link).
	Jrec   *Node
	endian int
	// IterStart: first emission after a new condition became current; Last: +1/-1 when the innermost
	// tracked loop's last-iteration predicate is known for this node.
	IterStart bool
	Last      int8
	InCond    bool // emitted while a condition is current (inside the per-condition lowering)
	// CallPos is the position of the builder call (in the emitter that is not itself a builder method) that
	// produced this event: what a reader wants to look at.
	CallPos token.Pos
}

// Config tells the builder about repository-specific facts established by other rules.
type Config struct {
	// ValidatedOps: operations a condition can carry when it reaches the emitter (nil = any string).
	ValidatedOps []string
	// AllOps: every constant of type Operation (tracked domain).
	AllOps []string
	// NonEmptyLists: condition lists reaching the emitter are non-empty.
	NonEmptyLists bool
	// Endian: "little", "big" or "" (explore both).
	Endian string
}

// Graph is the event automaton of one program object.
type Graph struct {
	Root    *ssa.Function
	Object  *ssa.Alloc
	Entry   []*Node // first events
	Nodes   []*Node
	Problem []string // constructs the builder could not model (=> undecided)
	Cfg     Config
	// CondSources: where each condition that becomes current comes from (origin of the value stored into the condition
	// variable, resolved through the calling contexts), by position of the store.
	CondSources map[token.Pos]*origin.O
}

type frame struct {
	fn     *ssa.Function
	parent *frame
	call   *ssa.Call
	of     *origin.Frame
	id     string
}

type env struct {
	ops  map[string]uint32    // frame id -> set of possible operations (bit i = AllOps[i], bit len = other)
	last map[string]int8      // loop key -> +1 (this iteration is the last) / -1 (it is not)
	phis map[string]int       // frame id + phi name -> chosen edge
	lenz map[string]int8      // origin string -> +1 len==0, -1 len>0
	rets map[string]*origin.O // calling frame id + call register -> origin of the value a pure helper returned on this path
}

func (e env) clone() env {
	n := env{ops: map[string]uint32{}, last: map[string]int8{}, phis: map[string]int{}, lenz: map[string]int8{}, rets: map[string]*origin.O{}}
	for k, v := range e.rets {
		n.rets[k] = v
	}
	for k, v := range e.ops {
		n.ops[k] = v
	}
	for k, v := range e.last {
		n.last[k] = v
	}
	for k, v := range e.phis {
		n.phis[k] = v
	}
	for k, v := range e.lenz {
		n.lenz[k] = v
	}
	return n
}

func (e env) key() string {
	var parts []string
	for k, v := range e.rets {
		parts = append(parts, fmt.Sprintf("r:%s=%s", k, v.String()))
	}
	for k, v := range e.ops {
		parts = append(parts, fmt.Sprintf("o:%s=%x", k, v))
	}
	for k, v := range e.last {
		parts = append(parts, fmt.Sprintf("l:%s=%d", k, v))
	}
	for k, v := range e.phis {
		parts = append(parts, fmt.Sprintf("p:%s=%d", k, v))
	}
	for k, v := range e.lenz {
		parts = append(parts, fmt.Sprintf("z:%s=%d", k, v))
	}
	sort.Strings(parts)
	return strings.Join(parts, ";")
}

type state struct {
	fr  *frame
	blk *ssa.BasicBlock
	idx int
	env env
	sub int // index within a multi-literal emission
}

func (s state) key() string {
	return fmt.Sprintf("%s|%d|%d|%d|%s", s.fr.id, s.blk.Index, s.idx, s.sub, s.env.key())
}

// Builder explores one root function for one program object.
type Builder struct {
	Pkg      *ssa.Package
	PkgPath  string
	cfg      Config
	g        *Graph
	emitters map[*ssa.Function]bool
	newFns   map[*ssa.Function]bool
	patcher  map[*ssa.Function]bool
	frames   map[string]*frame
	lits     map[string]*Literal // instruction literals returned by helper functions, by id (see env.rets)
	allFns   []*ssa.Function
	opTabs   map[*ssa.Global]map[string]map[string]*origin.O // dispatch tables: map[Operation]row literals of the package
	more     []*state                                        // further successors of the branch just evaluated (table dispatch)
	nodes    map[string]*Node
	pending  []pendingNode
	opIndex  map[string]int
	progType types.Type
}

type pendingNode struct {
	n     *Node
	after state
}

// ProgramType returns the named type Program of the package.
func programType(pkg *ssa.Package) types.Type {
	if o := pkg.Pkg.Scope().Lookup("Program"); o != nil {
		return o.Type()
	}
	return nil
}

// recvPath renders an address as a path from a *Program-typed base value:
// returns (base, ".instructions") etc.
func recvPath(addr ssa.Value, prog types.Type) (ssa.Value, string, bool) {
	switch x := addr.(type) {
	case *ssa.FieldAddr:
		pt, ok := x.X.Type().Underlying().(*types.Pointer)
		if !ok {
			return nil, "", false
		}
		st, ok := pt.Elem().Underlying().(*types.Struct)
		if !ok {
			return nil, "", false
		}
		if types.Identical(pt.Elem(), prog) {
			return x.X, "." + st.Field(x.Field).Name(), true
		}
		b, p, ok := recvPath(x.X, prog)
		return b, p + "." + st.Field(x.Field).Name(), ok
	case *ssa.IndexAddr:
		if ld, ok := x.X.(*ssa.UnOp); ok && ld.Op == token.MUL {
			b, p, ok := recvPath(ld.X, prog)
			return b, p + "[]", ok
		}
	}
	return nil, "", false
}

func isBuiltin(c *ssa.Call, name string) bool {
	bi, ok := c.Call.Value.(*ssa.Builtin)
	return ok && bi.Name() == name
}

// classify finds emitter functions, NEW-summary functions and the patcher's functions.
func (b *Builder) classify(all []*ssa.Function) {
	prog := b.progType
	b.emitters = map[*ssa.Function]bool{}
	b.newFns = map[*ssa.Function]bool{}
	b.patcher = map[*ssa.Function]bool{}
	// the patcher: (*Program).Assemble and everything it reaches inside the package
	var asm *ssa.Function
	for _, f := range all {
		if f.Name() == "Assemble" && f.Signature.Recv() != nil {
			if pt, ok := f.Signature.Recv().Type().(*types.Pointer); ok && types.Identical(pt.Elem(), prog) {
				asm = f
			}
		}
	}
	var mark func(f *ssa.Function)
	mark = func(f *ssa.Function) {
		if f == nil || b.patcher[f] || f.Pkg != b.Pkg {
			return
		}
		b.patcher[f] = true
		for _, blk := range f.Blocks {
			for _, in := range blk.Instrs {
				if c, ok := in.(ssa.CallInstruction); ok {
					if cal := c.Common().StaticCallee(); cal != nil && cal.Name() != "computeSkipN" || cal != nil {
						mark(cal)
					}
				}
			}
		}
	}
	mark(asm)
	primitive := func(f *ssa.Function) bool {
		for _, blk := range f.Blocks {
			for _, in := range blk.Instrs {
				switch x := in.(type) {
				case *ssa.Store:
					if _, p, ok := recvPath(x.Addr, prog); ok && (p == ".instructions" || p == ".jumps" || p == ".nextLabel") {
						return true
					}
				case *ssa.MapUpdate:
					if ld, ok := x.Map.(*ssa.UnOp); ok {
						if _, p, ok := recvPath(ld.X, prog); ok && p == ".labels" {
							return true
						}
					}
				}
			}
		}
		return false
	}
	for _, f := range all {
		if b.patcher[f] {
			continue
		}
		if primitive(f) {
			b.emitters[f] = true
		}
		// NEW summary: nextLabel = nextLabel + 1; return nextLabel
		inc, ret := false, false
		for _, blk := range f.Blocks {
			for _, in := range blk.Instrs {
				switch x := in.(type) {
				case *ssa.Store:
					if _, p, ok := recvPath(x.Addr, prog); ok && p == ".nextLabel" {
						if bo, ok := x.Val.(*ssa.BinOp); ok && bo.Op == token.ADD {
							if k, ok := bo.Y.(*ssa.Const); ok && k.Value != nil && k.Value.ExactString() == "1" {
								inc = true
							}
						}
					}
				case *ssa.Return:
					if len(x.Results) == 1 {
						if ld, ok := x.Results[0].(*ssa.UnOp); ok {
							if _, p, ok := recvPath(ld.X, prog); ok && p == ".nextLabel" {
								ret = true
							}
						}
					}
				}
			}
		}
		if inc && ret {
			b.newFns[f] = true
		}
	}
	// transitive closure over static calls
	for changed := true; changed; {
		changed = false
		for _, f := range all {
			if b.emitters[f] || b.patcher[f] {
				continue
			}
			for _, blk := range f.Blocks {
				for _, in := range blk.Instrs {
					if c, ok := in.(*ssa.Call); ok {
						if cal := c.Call.StaticCallee(); cal != nil && b.emitters[cal] {
							b.emitters[f] = true
							changed = true
						}
					}
				}
			}
		}
	}
}

// IsEmitter reports whether f takes part in emission.
func (b *Builder) IsEmitter(f *ssa.Function) bool { return b.emitters[f] }

// IsPatcher reports whether f belongs to the jump patcher ((*Program).Assemble and what it calls).
func (b *Builder) IsPatcher(f *ssa.Function) bool { return b.patcher[f] }

// Emitters lists the emitter functions.
func (b *Builder) Emitters() []*ssa.Function {
	var out []*ssa.Function
	for f := range b.emitters {
		out = append(out, f)
	}
	sort.Slice(out, func(i, j int) bool { return out[i].Pos() < out[j].Pos() })
	return out
}

// NewBuilder prepares the classification of the package's functions.
func NewBuilder(pkg *ssa.Package, all []*ssa.Function, cfg Config) *Builder {
	b := &Builder{Pkg: pkg, PkgPath: pkg.Pkg.Path(), cfg: cfg, progType: programType(pkg), allFns: all, opTabs: map[*ssa.Global]map[string]map[string]*origin.O{}}
	b.opIndex = map[string]int{}
	for i, o := range cfg.AllOps {
		b.opIndex[o] = i
	}
	b.classify(all)
	return b
}

func (b *Builder) problem(format string, a ...interface{}) {
	msg := fmt.Sprintf(format, a...)
	for _, p := range b.g.Problem {
		if p == msg {
			return
		}
	}
	b.g.Problem = append(b.g.Problem, msg)
}

func (b *Builder) frameFor(parent *frame, call *ssa.Call, fn *ssa.Function, e env) *frame {
	id := "root"
	if parent != nil {
		id = fmt.Sprintf("%s>%s@%d", parent.id, fn.Name(), callOrdinal(call))
	}
	// argument origins depend on tracked phi choices of the caller; include them in the identity
	res := b.resolver(parent, e)
	of := &origin.Frame{Fn: fn, Args: map[*ssa.Parameter]*origin.O{}, ID: id}
	var sig []string
	if call != nil {
		if parent != nil {
			of.Parent = parent.of
		}
		for i, p := range fn.Params {
			if i < len(call.Call.Args) {
				var pf *origin.Frame
				if parent != nil {
					pf = parent.of
				}
				o := res.Of(call.Call.Args[i], pf, call)
				of.Args[p] = o
				sig = append(sig, o.String())
			}
		}
	}
	key := id + "|" + strings.Join(sig, ",")
	if f, ok := b.frames[key]; ok {
		return f
	}
	f := &frame{fn: fn, parent: parent, call: call, of: of, id: id}
	// distinguish frames with the same call string but different argument origins
	if n := len(b.frames); n > 0 {
		for _, other := range b.frames {
			if other.id == id {
				f.id = fmt.Sprintf("%s#%d", id, n)
				of.ID = f.id
				break
			}
		}
	}
	b.frames[key] = f
	return f
}

func callOrdinal(c *ssa.Call) int {
	n := 0
	for _, blk := range c.Parent().Blocks {
		for _, in := range blk.Instrs {
			if x, ok := in.(*ssa.Call); ok {
				if x == c {
					return n
				}
				n++
			}
		}
	}
	return -1
}

// resolver returns an origin resolver whose phi hook follows the choices recorded in e.
func (b *Builder) resolver(fr *frame, e env) *origin.Resolver {
	r := origin.NewResolver()
	r.Hook = func(v ssa.Value, of *origin.Frame) *origin.O {
		if c, isCall := v.(*ssa.Call); isCall && of != nil && e.rets != nil {
			if o, ok := e.rets[of.ID+"/"+c.Name()]; ok {
				return o
			}
			return nil
		}
		if of != nil && len(e.ops) > 0 {
			if o := b.tableCell(v, of, e); o != nil {
				return o
			}
		}
		ph, ok := v.(*ssa.Phi)
		if !ok || of == nil {
			return nil
		}
		if ch, ok := e.phis[of.ID+"/"+ph.Name()]; ok && ch < len(ph.Edges) {
			return r.Of(ph.Edges[ch], of, ph)
		}
		return nil
	}
	return r
}

// opTableOf: v is the load of a package-level map keyed by Operation whose value is a literal that nothing modifies;
// returns row -> field -> constant ("" for a non-struct value).
func (b *Builder) opTableOf(v ssa.Value) (map[string]map[string]*origin.O, bool) {
	ld, ok := v.(*ssa.UnOp)
	if !ok || ld.Op != token.MUL {
		return nil, false
	}
	g, ok := ld.X.(*ssa.Global)
	if !ok || g.Pkg != b.Pkg {
		return nil, false
	}
	if t, ok := b.opTabs[g]; ok {
		return t, t != nil
	}
	b.opTabs[g] = nil
	mt, ok := g.Type().Underlying().(*types.Pointer).Elem().Underlying().(*types.Map)
	if !ok || !isOperationType(mt.Key()) {
		return nil, false
	}
	ini, _ := b.Pkg.Members["init"].(*ssa.Function)
	if ini == nil {
		return nil, false
	}
	// the initialiser: *g = m with m a fresh map filled by constant-keyed updates
	var mm *ssa.MakeMap
	for _, blk := range ini.Blocks {
		for _, in := range blk.Instrs {
			if st, ok := in.(*ssa.Store); ok && st.Addr == ssa.Value(g) {
				if mm != nil {
					return nil, false
				}
				mm, _ = st.Val.(*ssa.MakeMap)
				if mm == nil {
					return nil, false
				}
			}
		}
	}
	if mm == nil {
		return nil, false
	}
	// nothing else writes the table
	for _, f := range b.allFns {
		if f == ini {
			continue
		}
		for _, blk := range f.Blocks {
			for _, in := range blk.Instrs {
				switch x := in.(type) {
				case *ssa.Store:
					if x.Addr == ssa.Value(g) {
						return nil, false
					}
				case *ssa.MapUpdate:
					if l2, ok := x.Map.(*ssa.UnOp); ok && l2.X == ssa.Value(g) {
						return nil, false
					}
				case *ssa.Call:
					if bi, ok := x.Call.Value.(*ssa.Builtin); ok && bi.Name() == "delete" {
						if l2, ok := x.Call.Args[0].(*ssa.UnOp); ok && l2.X == ssa.Value(g) {
							return nil, false
						}
					}
				}
			}
		}
	}
	r := origin.NewResolver()
	tab := map[string]map[string]*origin.O{}
	for _, ref := range *mm.Referrers() {
		mu, ok := ref.(*ssa.MapUpdate)
		if !ok {
			if _, isStore := ref.(*ssa.Store); isStore {
				continue
			}
			if _, isDbg := ref.(*ssa.DebugRef); isDbg {
				continue
			}
			return nil, false
		}
		k, ok := mu.Key.(*ssa.Const)
		if !ok || k.Value == nil || k.Value.Kind() != constant.String {
			return nil, false
		}
		row := map[string]*origin.O{}
		if ldv, ok := mu.Value.(*ssa.UnOp); ok && ldv.Op == token.MUL {
			al, ok := ldv.X.(*ssa.Alloc)
			st, isStruct := ldv.Type().Underlying().(*types.Struct)
			if !ok || !isStruct {
				return nil, false
			}
			for i := 0; i < st.NumFields(); i++ {
				row[st.Field(i).Name()] = &origin.O{Kind: origin.KConst, Type: st.Field(i).Type()}
			}
			for _, r2 := range *al.Referrers() {
				fa, ok := r2.(*ssa.FieldAddr)
				if !ok {
					continue
				}
				for _, r3 := range *fa.Referrers() {
					if stt, ok := r3.(*ssa.Store); ok && stt.Addr == ssa.Value(fa) {
						o := r.Of(stt.Val, nil, stt)
						if o.Kind != origin.KConst && o.StripConv().Kind != origin.KConst {
							return nil, false
						}
						row[st.Field(fa.Field).Name()] = o
					}
				}
			}
		} else {
			o := r.Of(mu.Value, nil, mu)
			if o.StripConv().Kind != origin.KConst {
				return nil, false
			}
			row[""] = o
		}
		tab[constant.StringVal(k.Value)] = row
	}
	if len(tab) == 0 {
		return nil, false
	}
	b.opTabs[g] = tab
	return tab, true
}

// tableCell: v reads a dispatch table at the operation that is known in this world: the row's constant.
func (b *Builder) tableCell(v ssa.Value, of *origin.Frame, e env) *origin.O {
	var lk *ssa.Lookup
	field := ""
	switch x := v.(type) {
	case *ssa.Field:
		ex, ok := x.X.(*ssa.Extract)
		if ok && ex.Index == 0 {
			lk, _ = ex.Tuple.(*ssa.Lookup)
		} else if l2, ok := x.X.(*ssa.Lookup); ok && !l2.CommaOk {
			lk = l2
		}
		if lk != nil {
			st, ok := x.X.Type().Underlying().(*types.Struct)
			if !ok {
				return nil
			}
			field = st.Field(x.Field).Name()
		}
	case *ssa.Extract:
		if x.Index == 0 {
			lk, _ = x.Tuple.(*ssa.Lookup)
		}
		if lk != nil {
			if _, isStruct := x.Type().Underlying().(*types.Struct); isStruct {
				field = "<row>"
			}
		}
	case *ssa.Lookup:
		if !x.CommaOk {
			lk = x
			if _, isStruct := x.Type().Underlying().(*types.Struct); isStruct {
				field = "<row>"
			}
		}
	}
	if lk == nil {
		return nil
	}
	tab, ok := b.opTableOf(lk.X)
	if !ok {
		return nil
	}
	mask, have := e.ops[of.ID]
	if !have || mask == 0 || mask&(mask-1) != 0 {
		return nil // the operation is not a single known one here
	}
	for i, name := range b.cfg.AllOps {
		if mask == 1<<uint(i) {
			if row, ok := tab[name]; ok {
				if field == "<row>" {
					// the whole row (stored into a local and read field by field)
					return &origin.O{Kind: origin.KStructLit, Type: v.Type(), Val: v, Name: "row:" + name, Fields: row}
				}
				return row[field]
			}
		}
	}
	return nil
}

// labelOf resolves a Label-typed value to its creation site.
func (b *Builder) labelOf(v ssa.Value, fr *frame, e env, depth int) *LabelVal {
	if depth > 20 || fr == nil {
		return nil
	}
	switch x := v.(type) {
	case *ssa.Call:
		if cal := x.Call.StaticCallee(); cal != nil && b.newFns[cal] {
			return b.newLabelVal(x, fr)
		}
	case *ssa.Parameter:
		if fr.call == nil {
			return nil
		}
		for i, p := range fr.fn.Params {
			if p == x && i < len(fr.call.Call.Args) {
				return b.labelOf(fr.call.Call.Args[i], fr.parent, e, depth+1)
			}
		}
	case *ssa.Phi:
		if ch, ok := e.phis[fr.id+"/"+x.Name()]; ok && ch < len(x.Edges) {
			return b.labelOf(x.Edges[ch], fr, e, depth+1)
		}
	case *ssa.Field:
		// a label carried in a struct handed down by value (a "parameter object"): the field of the caller's literal
		if v2, f2 := structFieldValue(x.X, x.Field, fr, 0); v2 != nil {
			return b.labelOf(v2, f2, e, depth+1)
		}
	case *ssa.UnOp:
		if fa, ok := x.X.(*ssa.FieldAddr); ok && x.Op == token.MUL {
			if al, ok := fa.X.(*ssa.Alloc); ok {
				// the struct parameter spilled at entry, or a literal of this function
				if st := flowOnlyStore(al); st != nil {
					if v2, f2 := structFieldValue(st.Val, fa.Field, fr, 0); v2 != nil {
						return b.labelOf(v2, f2, e, depth+1)
					}
				} else if v2 := fieldStoreBefore(al, fa.Field, x); v2 != nil {
					return b.labelOf(v2, fr, e, depth+1)
				}
			}
		}
	}
	return nil
}

// flowOnlyStore: the single whole-value store into a local.
func flowOnlyStore(al *ssa.Alloc) *ssa.Store {
	var only *ssa.Store
	for _, ref := range *al.Referrers() {
		if st, ok := ref.(*ssa.Store); ok && st.Addr == ssa.Value(al) {
			if only != nil {
				return nil
			}
			only = st
		}
	}
	return only
}

// fieldStoreBefore: the value of the only store into field idx of the local, which must dominate `at`.
func fieldStoreBefore(al *ssa.Alloc, idx int, at ssa.Instruction) ssa.Value {
	var val ssa.Value
	n := 0
	for _, ref := range *al.Referrers() {
		switch x := ref.(type) {
		case *ssa.FieldAddr:
			if x.Field != idx {
				continue
			}
			for _, r2 := range *x.Referrers() {
				if st, ok := r2.(*ssa.Store); ok && st.Addr == ssa.Value(x) {
					n++
					val = st.Val
					if !(st.Block() == at.Block() && instrIndex(st) < instrIndex(at)) && !(st.Block() != at.Block() && st.Block().Dominates(at.Block())) {
						return nil
					}
				}
			}
		case *ssa.Store:
			if x.Addr == ssa.Value(al) {
				return nil
			}
		case *ssa.UnOp, *ssa.DebugRef:
		default:
			return nil // the address escapes
		}
	}
	if n != 1 {
		return nil
	}
	return val
}

// structFieldValue: the value of field idx of the struct value sv in frame fr: sv is a parameter (the caller's argument, in
// the caller's frame) or the whole-value load of a literal built field by field in a local.
func structFieldValue(sv ssa.Value, idx int, fr *frame, depth int) (ssa.Value, *frame) {
	if depth > 8 || fr == nil {
		return nil, nil
	}
	switch x := sv.(type) {
	case *ssa.Parameter:
		if fr.call == nil {
			return nil, nil
		}
		for i, p := range fr.fn.Params {
			if p == x && i < len(fr.call.Call.Args) {
				return structFieldValue(fr.call.Call.Args[i], idx, fr.parent, depth+1)
			}
		}
	case *ssa.UnOp:
		if al, ok := x.X.(*ssa.Alloc); ok && x.Op == token.MUL {
			if st := flowOnlyStore(al); st != nil {
				return structFieldValue(st.Val, idx, fr, depth+1)
			}
			if v := fieldStoreBefore(al, idx, x); v != nil {
				return v, fr
			}
		}
	}
	return nil, nil
}

func (b *Builder) newLabelVal(x *ssa.Call, fr *frame) *LabelVal {
	l := &LabelVal{Site: x, Ctx: fr.id, Role: roleOf(x), Cum: LoopDepth(x.Block()), Builder: b.isBuilderMethod(x.Parent())}
	for f := fr; f != nil && f.call != nil; f = f.parent {
		l.Cum += LoopDepth(f.call.Block())
	}
	return l
}

// roleOf names a label structurally: function, loop nesting depth of the NewLabel call, ordinal among the
// NewLabel calls of that function (no line numbers, no variable names).
func roleOf(c *ssa.Call) string {
	return fmt.Sprintf("%s/depth%d/new#%d", c.Parent().Name(), LoopDepth(c.Block()), newOrdinal(c))
}

// LoopDepth is the number of loop headers that dominate b (b itself included when it is a header).
func LoopDepth(b *ssa.BasicBlock) int {
	d := 0
	for x := b; x != nil; x = x.Idom() {
		if isLoopHeader(x) && (x == b || loopContains(x, b)) {
			d++
		}
	}
	return d
}

// loopContains: b belongs to the natural loop of header h (h dominates b and b reaches h without leaving h's dominance).
func loopContains(h, b *ssa.BasicBlock) bool {
	if !h.Dominates(b) {
		return false
	}
	seen := map[*ssa.BasicBlock]bool{}
	var walk func(x *ssa.BasicBlock) bool
	walk = func(x *ssa.BasicBlock) bool {
		if x == h {
			return true
		}
		if seen[x] || !h.Dominates(x) {
			return false
		}
		seen[x] = true
		for _, s := range x.Succs {
			if walk(s) {
				return true
			}
		}
		return false
	}
	for _, s := range b.Succs {
		if walk(s) {
			return true
		}
	}
	return false
}

func newOrdinal(c *ssa.Call) int {
	n := 0
	for _, blk := range c.Parent().Blocks {
		for _, in := range blk.Instrs {
			if x, ok := in.(*ssa.Call); ok && x.Call.StaticCallee() == c.Call.StaticCallee() {
				if x == c {
					return n
				}
				n++
			}
		}
	}
	return -1
}

// Depth returns the loop depth of the label's creation site.
func (l *LabelVal) Depth() int {
	if l == nil {
		return -1
	}
	return LoopDepth(l.Site.Block())
}

// Fn returns the function that created the label.
func (l *LabelVal) Fn() *ssa.Function {
	if l == nil {
		return nil
	}
	return l.Site.Parent()
}

// BuildIn explores the function of a calling context (its parameters bound to the caller's values) for a program
// object allocated there; the exploration ends when that function returns.
func (b *Builder) BuildIn(in *Frame, obj *ssa.Alloc) *Graph {
	return b.build(in.fn, obj, &frame{fn: in.fn, of: in.of, id: in.id})
}

// Build explores root for the program object obj (an Alloc of type Program in root).
func (b *Builder) Build(root *ssa.Function, obj *ssa.Alloc) *Graph { return b.build(root, obj, nil) }

func (b *Builder) build(root *ssa.Function, obj *ssa.Alloc, fr *frame) *Graph {
	b.g = &Graph{Root: root, Object: obj, Cfg: b.cfg}
	b.frames = map[string]*frame{}
	if b.lits == nil {
		b.lits = map[string]*Literal{}
	}
	b.nodes = map[string]*Node{}
	b.pending = nil
	e := env{ops: map[string]uint32{}, last: map[string]int8{}, phis: map[string]int{}, lenz: map[string]int8{}, rets: map[string]*origin.O{}}
	if fr == nil {
		fr = b.frameFor(nil, nil, root, e)
	}
	start := state{fr: fr, blk: root.Blocks[0], idx: 0, env: e}
	b.g.Entry = b.next(start, map[string]bool{})
	for len(b.pending) > 0 {
		p := b.pending[len(b.pending)-1]
		b.pending = b.pending[:len(b.pending)-1]
		p.n.Succ = b.next(p.after, map[string]bool{})
	}
	sort.Slice(b.g.Nodes, func(i, j int) bool { return b.g.Nodes[i].ID < b.g.Nodes[j].ID })
	return b.g
}

func (b *Builder) node(s state, kind Kind, in ssa.Instruction, after state) (*Node, bool) {
	k := fmt.Sprintf("%d|%s", kind, s.key())
	if n, ok := b.nodes[k]; ok {
		return n, false
	}
	n := &Node{ID: len(b.g.Nodes), Kind: kind, Instr: in, Fn: s.fr.fn, Ctx: s.fr.id}
	for _, m := range s.env.ops {
		n.Ops = b.opsString(m)
	}
	n.endian = int(s.env.lenz["endian"])
	for _, v := range s.env.last {
		n.Last = v
	}
	n.CallPos = in.Pos()
	for f := s.fr; f != nil && f.call != nil; f = f.parent {
		n.CallPos = f.call.Pos()
		if f.parent == nil || !b.isBuilderMethod(f.parent.fn) {
			break
		}
	}
	_, n.InCond = s.env.phis["incond"]
	if kind == EvEmit {
		if _, ok := s.env.phis["iterstart"]; ok {
			n.IterStart = true
		}
	}
	b.nodes[k] = n
	b.g.Nodes = append(b.g.Nodes, n)
	b.pending = append(b.pending, pendingNode{n, after})
	if len(b.g.Nodes) > 20000 {
		b.problem("state space exceeds 20000 event nodes")
		b.pending = nil
	}
	return n, true
}

func (b *Builder) opsString(m uint32) string {
	var out []string
	for i, o := range b.cfg.AllOps {
		if m&(1<<uint(i)) != 0 {
			out = append(out, o)
		}
	}
	if m&(1<<uint(len(b.cfg.AllOps))) != 0 {
		out = append(out, "<other>")
	}
	return strings.Join(out, "|")
}

func (b *Builder) allOpsMask() uint32 {
	if b.cfg.ValidatedOps == nil {
		return (1 << uint(len(b.cfg.AllOps)+1)) - 1
	}
	var m uint32
	for _, o := range b.cfg.ValidatedOps {
		if i, ok := b.opIndex[o]; ok {
			m |= 1 << uint(i)
		} else {
			m |= 1 << uint(len(b.cfg.AllOps))
		}
	}
	return m
}

// objectOf: does the Program-typed base value denote the object under analysis?
func (b *Builder) objectOf(base ssa.Value, fr *frame, e env) bool {
	o := b.resolver(fr, e).Of(base, fr.of, nil)
	for o.Kind == origin.KConv {
		o = o.Args[0]
	}
	return o.Kind == origin.KAlloc && o.Val == ssa.Value(b.g.Object)
}

// next walks forward from s without producing events and returns the event nodes reached.
func (b *Builder) next(s state, seen map[string]bool) []*Node {
	var out []*Node
	add := func(ns []*Node) {
		for _, n := range ns {
			dup := false
			for _, o := range out {
				if o == n {
					dup = true
				}
			}
			if !dup {
				out = append(out, n)
			}
		}
	}
	for {
		k := s.key()
		if seen[k] {
			return out
		}
		seen[k] = true
		if s.idx >= len(s.blk.Instrs) {
			return out
		}
		in := s.blk.Instrs[s.idx]
		adv := s
		adv.idx++
		adv.sub = 0
		switch x := in.(type) {
		case *ssa.Store:
			base, path, ok := recvPath(x.Addr, b.progType)
			if ok && b.objectOf(base, s.fr, s.env) {
				switch path {
				case ".instructions":
					if !b.emitters[s.fr.fn] || b.patcher[s.fr.fn] {
						break
					}
					lits, okl := b.literals(x, s)
					if !okl {
						b.problem("%s: store to the instruction list that is not append(list, literals...)", s.fr.fn.Name())
						break
					}
					if s.sub < len(lits) {
						after := adv
						if s.sub+1 < len(lits) {
							after = s
							after.sub = s.sub + 1
						}
						if _, ok := after.env.phis["iterstart"]; ok {
							ne := after.env.clone()
							delete(ne.phis, "iterstart")
							after.env = ne
						}
						n, _ := b.node(s, EvEmit, in, after)
						n.Lit = lits[s.sub]
						return append(out, n)
					}
				case ".jumps":
					lt, lf, lag, okj := b.jumpRecord(x, s)
					if !okj {
						b.problem("%s: store to the jump list that is not append(list, JumpIf{...})", s.fr.fn.Name())
						break
					}
					n, _ := b.node(s, EvJrec, in, adv)
					n.LT, n.LF, n.Lag = lt, lf, lag
					return append(out, n)
				}
			}
			// whole-store to the loop variable of conditions: a new condition, reset the operation set
			if al, ok := x.Addr.(*ssa.Alloc); ok && isConditionType(al.Type().Underlying().(*types.Pointer).Elem()) {
				if b.g.CondSources == nil {
					b.g.CondSources = map[token.Pos]*origin.O{}
				}
				b.g.CondSources[x.Pos()] = b.resolver(s.fr, s.env).Of(x.Val, s.fr.of, x)
				ne := s.env.clone()
				ne.ops[s.fr.id] = b.allOpsMask()
				ne.phis["iterstart"] = 1
				ne.phis["incond"] = 1
				adv.env = ne
			}
			s = adv
		case *ssa.MapUpdate:
			if ld, ok := x.Map.(*ssa.UnOp); ok {
				if base, path, ok := recvPath(ld.X, b.progType); ok && path == ".labels" && b.objectOf(base, s.fr, s.env) {
					l := b.labelOf(x.Key, s.fr, s.env, 0)
					if l == nil {
						b.problem("%s: label bound through a value that cannot be resolved to a NewLabel call", s.fr.fn.Name())
					}
					// the bound position is the current end of the list
					if app, ok := x.Value.(*ssa.Call); ok && isBuiltin(app, "append") && len(app.Call.Args) == 2 {
						if vals, ok := elementsOf(app.Call.Args[1]); ok && len(vals) == 1 {
							if lag, ok := b.positionLag(vals[0], in); !ok || lag != 0 {
								b.problem("%s: a label is bound to something other than the current end of the instruction list", s.fr.fn.Name())
							}
						} else {
							b.problem("%s: a label is bound by something other than append(candidates, position)", s.fr.fn.Name())
						}
					} else {
						b.problem("%s: a label is bound by something other than append(candidates, position)", s.fr.fn.Name())
					}
					n, _ := b.node(s, EvBind, in, adv)
					n.L = l
					return append(out, n)
				}
			}
			s = adv
		case *ssa.Call:
			cal := x.Call.StaticCallee()
			switch {
			case cal != nil && b.newFns[cal] && b.recvIsObject(x, s):
				n, _ := b.node(s, EvNew, in, adv)
				n.L = b.newLabelVal(x, s.fr)
				return append(out, n)
			case cal != nil && b.patcher[cal] && b.recvIsObject(x, s):
				n, _ := b.node(s, EvEnd, in, adv)
				n.Succ = nil
				// nothing after the patcher matters for the label-level program
				b.dropPending(n)
				return append(out, n)
			case cal != nil && b.emitters[cal] && cal.Pkg == b.Pkg && b.touchesObject(x, s):
				if depthOf(s.fr) > 12 {
					b.problem("emitter call depth exceeds 12 (recursion?) at %s", cal.Name())
					s = adv
					break
				}
				nf := b.frameFor(s.fr, x, cal, s.env)
				s = state{fr: nf, blk: cal.Blocks[0], idx: 0, env: s.env}
			case cal != nil && b.emitters[s.fr.fn] && b.valueHelper(cal) && depthOf(s.fr) <= 12:
				// a pure helper that computes a value for an emission (an offset, a return word): explore it like an emitter so
				// that the branches it takes (byte order, action == errno) are known when the value is used
				nf := b.frameFor(s.fr, x, cal, s.env)
				s = state{fr: nf, blk: cal.Blocks[0], idx: 0, env: s.env}
			default:
				s = adv
			}
		case *ssa.UnOp:
			// direct read of the object's instruction list in the root (outside builder methods): end of its life
			if x.Op == token.MUL && s.fr.parent == nil {
				if base, path, ok := recvPath(x.X, b.progType); ok && path == ".instructions" && b.objectOf(base, s.fr, s.env) && !b.isBuilderMethod(s.fr.fn) {
					n, _ := b.node(s, EvEnd, in, adv)
					b.dropPending(n)
					return append(out, n)
				}
			}
			s = adv
		case *ssa.Return:
			if s.fr.parent == nil {
				return out // end of the root: no further events
			}
			// continue in the caller after the call
			call := s.fr.call
			ne := b.dropFrame(s.env, s.fr)
			if !b.emitters[s.fr.fn] && len(x.Results) == 1 {
				// a value helper: remember what it returned on this path
				if isBPFStruct(x.Results[0].Type()) {
					// an instruction built by a helper: keep the literal as built on this path
					lit := b.literalOf(x.Results[0], s)
					id := "literal:" + s.fr.id + "/" + lit.signature()
					b.lits[id] = lit
					ne.rets[s.fr.parent.id+"/"+call.Name()] = &origin.O{Kind: origin.KUnknown, Name: id, Val: x.Results[0], Type: x.Results[0].Type()}
				} else {
					ne.rets[s.fr.parent.id+"/"+call.Name()] = b.resolver(s.fr, s.env).Of(x.Results[0], s.fr.of, x)
				}
			}
			s = state{fr: s.fr.parent, blk: call.Block(), idx: instrIndex(call) + 1, env: ne}
		case *ssa.Jump:
			s = b.enter(s, s.blk, s.blk.Succs[0])
		case *ssa.If:
			b.more = nil
			t, f := b.branch(x, s)
			for _, m := range b.more {
				add(b.next(*m, seen))
			}
			b.more = nil
			switch {
			case t != nil && f != nil:
				add(b.next(*t, seen))
				s = *f
			case t != nil:
				s = *t
			case f != nil:
				s = *f
			default:
				return out
			}
		case *ssa.Panic:
			return out
		default:
			s = adv
		}
	}
}

func (b *Builder) dropPending(n *Node) {
	for i := range b.pending {
		if b.pending[i].n == n {
			b.pending = append(b.pending[:i], b.pending[i+1:]...)
			return
		}
	}
}

func depthOf(f *frame) int {
	d := 0
	for ; f != nil; f = f.parent {
		d++
	}
	return d
}

func (b *Builder) isBuilderMethod(f *ssa.Function) bool {
	if f.Signature.Recv() == nil {
		return false
	}
	if pt, ok := f.Signature.Recv().Type().(*types.Pointer); ok {
		return types.Identical(pt.Elem(), b.progType)
	}
	return false
}

func (b *Builder) recvIsObject(c *ssa.Call, s state) bool {
	if len(c.Call.Args) == 0 {
		return false
	}
	return b.objectOf(c.Call.Args[0], s.fr, s.env)
}

// touchesObject: some argument of the call denotes the object under analysis.
func (b *Builder) touchesObject(c *ssa.Call, s state) bool {
	for _, a := range c.Call.Args {
		if pt, ok := a.Type().Underlying().(*types.Pointer); ok && types.Identical(pt.Elem(), b.progType) {
			if b.objectOf(a, s.fr, s.env) {
				return true
			}
		}
	}
	return false
}

func instrIndex(in ssa.Instruction) int {
	for i, x := range in.Block().Instrs {
		if x == in {
			return i
		}
	}
	return -1
}

func (b *Builder) dropFrame(e env, fr *frame) env {
	ne := e.clone()
	if _, had := ne.ops[fr.id]; had {
		delete(ne.phis, "iterstart")
		delete(ne.phis, "incond")
	}
	delete(ne.ops, fr.id)
	for k := range ne.lenz {
		if strings.HasPrefix(k, fr.id+"/") {
			delete(ne.lenz, k)
		}
	}
	for k := range ne.phis {
		if strings.HasPrefix(k, fr.id+"/") {
			delete(ne.phis, k)
		}
	}
	for k := range ne.last {
		if strings.HasPrefix(k, fr.id+"/") {
			delete(ne.last, k)
		}
	}
	for k := range ne.rets {
		if strings.HasPrefix(k, fr.id+"/") {
			delete(ne.rets, k)
		}
	}
	return ne
}

func isLoopHeader(b *ssa.BasicBlock) bool {
	for _, p := range b.Preds {
		if b.Dominates(p) || p == b {
			return true
		}
	}
	return false
}

// rangedInFunc: the function ranges over a value with the same origin as v (so a fact about len(v) can matter).
func rangedInFunc(v ssa.Value, res *origin.Resolver, of *origin.Frame) bool {
	in, ok := v.(ssa.Instruction)
	var fn *ssa.Function
	if ok {
		fn = in.Parent()
	} else if p, ok := v.(*ssa.Parameter); ok {
		fn = p.Parent()
	}
	if fn == nil {
		return false
	}
	want := res.Of(v, of, nil).String()
	for _, blk := range fn.Blocks {
		if len(blk.Instrs) == 0 {
			continue
		}
		ifi, ok := blk.Instrs[len(blk.Instrs)-1].(*ssa.If)
		if !ok {
			continue
		}
		bo, ok := ifi.Cond.(*ssa.BinOp)
		if !ok || bo.Op != token.LSS {
			continue
		}
		add, ok := bo.X.(*ssa.BinOp)
		if !ok {
			continue
		}
		if ph, ok := add.X.(*ssa.Phi); !ok || ph.Comment != "rangeindex" {
			continue
		}
		lc, ok := bo.Y.(*ssa.Call)
		if !ok || !isBuiltin(lc, "len") {
			continue
		}
		if res.Of(lc.Call.Args[0], of, lc).String() == want {
			return true
		}
	}
	return false
}

func hasLoops(f *ssa.Function) bool {
	for _, blk := range f.Blocks {
		for _, s := range blk.Succs {
			if s.Dominates(blk) || s == blk {
				return true
			}
		}
	}
	return false
}

func isLabelType(t types.Type) bool {
	n, ok := t.(*types.Named)
	return ok && n.Obj().Name() == "Label"
}

func isConditionType(t types.Type) bool {
	n, ok := t.(*types.Named)
	return ok && n.Obj().Name() == "Condition"
}

// enter moves along the edge from -> to and records the choices of tracked phis.
func (b *Builder) enter(s state, from, to *ssa.BasicBlock) state {
	edge := -1
	for i, p := range to.Preds {
		if p == from {
			edge = i
		}
	}
	ne := s.env
	cloned := false
	track := !hasLoops(s.fr.fn)
	for _, in := range to.Instrs {
		ph, ok := in.(*ssa.Phi)
		if !ok {
			break
		}
		if ph.Comment == "rangeindex" && edge >= 0 {
			// remember whether the loop header is evaluated on entry (index -1) or after an iteration
			if !cloned {
				ne = ne.clone()
				cloned = true
			}
			fk := s.fr.id + "/" + ph.Name() + "/first"
			if k, ok := constInt(ph.Edges[edge]); ok && k == -1 {
				ne.phis[fk] = 1
			} else {
				delete(ne.phis, fk)
			}
			continue
		}
		if !(isLabelType(ph.Type()) || track) {
			continue
		}
		if !cloned {
			ne = ne.clone()
			cloned = true
		}
		ne.phis[s.fr.id+"/"+ph.Name()] = edge
	}
	// (re-)entering a loop header: facts about values defined inside the loop are dead
	if isLoopHeader(to) {
		if !cloned {
			ne = ne.clone()
			cloned = true
		}
		for _, blk := range s.fr.fn.Blocks {
			if blk == to || !to.Dominates(blk) {
				continue
			}
			for _, in := range blk.Instrs {
				switch x := in.(type) {
				case *ssa.Phi:
					delete(ne.phis, s.fr.id+"/"+x.Name())
					delete(ne.phis, s.fr.id+"/"+x.Name()+"/first")
				case *ssa.Store:
					if al, ok := x.Addr.(*ssa.Alloc); ok && isConditionType(al.Type().Underlying().(*types.Pointer).Elem()) {
						delete(ne.ops, s.fr.id)
						delete(ne.phis, "iterstart")
						delete(ne.phis, "incond")
					}
				}
			}
			if isLoopHeader(blk) {
				delete(ne.last, fmt.Sprintf("%s/%d", s.fr.id, blk.Index))
			}
		}
	}
	return state{fr: s.fr, blk: to, idx: 0, env: ne}
}

// branch evaluates a conditional branch under the tracked predicates.
func (b *Builder) branch(ifi *ssa.If, s state) (t, f *state) {
	blk := s.blk
	mk := func(to *ssa.BasicBlock, e env) *state {
		ns := b.enter(state{fr: s.fr, blk: blk, env: e}, blk, to)
		return &ns
	}
	cond := ifi.Cond
	pol := true
	for {
		u, ok := cond.(*ssa.UnOp)
		if !ok || u.Op != token.NOT {
			break
		}
		cond = u.X
		pol = !pol
	}
	tBlk, fBlk := blk.Succs[0], blk.Succs[1]
	if !pol {
		tBlk, fBlk = fBlk, tBlk
	}
	res := b.resolver(s.fr, s.env)
	// ---- operation dispatch through a table: `row, ok := table[c.Operation]` with a package-level map literal keyed by
	// Operation: one world per key of the table that is still possible (the row's fields are then known constants), and
	// one for the operations that are not in the table
	if ex, ok := cond.(*ssa.Extract); ok && ex.Index == 1 {
		if lk, ok := ex.Tuple.(*ssa.Lookup); ok && lk.CommaOk {
			if tab, isTab := b.opTableOf(lk.X); isTab {
				if o := res.Of(lk.Index, s.fr.of, ifi); o.Kind == origin.KField && o.Field.Name() == "Operation" {
					cur, have := s.env.ops[s.fr.id]
					if !have {
						cur = b.allOpsMask()
					}
					var keyMask uint32
					for name := range tab {
						if i, ok := b.opIndex[name]; ok {
							keyMask |= 1 << uint(i)
						} else {
							b.problem("dispatch table key %q is not a declared operation", name)
						}
					}
					var trues []*state
					for i := range b.cfg.AllOps {
						bit := uint32(1) << uint(i)
						if cur&keyMask&bit != 0 {
							e := s.env.clone()
							e.ops[s.fr.id] = bit
							trues = append(trues, mk(tBlk, e))
						}
					}
					if rest := cur &^ keyMask; rest != 0 {
						e := s.env.clone()
						e.ops[s.fr.id] = rest
						f = mk(fBlk, e)
					}
					if len(trues) > 0 {
						t = trues[0]
						b.more = append(b.more, trues[1:]...)
					}
					return
				}
			}
		}
	}
	// ---- byte order decided by the caller: `p.ldArgWord(arg, nativeEndian == binary.LittleEndian)` with `if second {…}` in
	// the helper: the condition is a boolean parameter (possibly negated) whose argument is the byte-order test
	{
		c2, neg := cond, false
		if u, ok := c2.(*ssa.UnOp); ok && u.Op == token.NOT {
			c2, neg = u.X, true
		}
		if prm, ok := c2.(*ssa.Parameter); ok {
			v, cf := ssa.Value(prm), s.fr
			for i := 0; i < 8; i++ {
				q, isP := v.(*ssa.Parameter)
				if !isP || cf == nil || cf.call == nil {
					break
				}
				idx := -1
				for k, pp := range cf.fn.Params {
					if pp == q {
						idx = k
					}
				}
				if idx < 0 || idx >= len(cf.call.Call.Args) {
					break
				}
				v, cf = cf.call.Call.Args[idx], cf.parent
			}
			if abo, ok := v.(*ssa.BinOp); ok && (abo.Op == token.EQL || abo.Op == token.NEQ) {
				if which := endianTestIn(abo, cf); which != 0 {
					want := which
					if abo.Op == token.NEQ {
						want = -want
					}
					if neg {
						want = -want
					}
					known := s.env.lenz["endian"]
					if b.cfg.Endian == "little" {
						known = 1
					} else if b.cfg.Endian == "big" {
						known = -1
					}
					if known == 0 || int(known) == want {
						e := s.env.clone()
						e.lenz["endian"] = int8(want)
						t = mk(tBlk, e)
					}
					if known == 0 || int(known) == -want {
						e := s.env.clone()
						e.lenz["endian"] = int8(-want)
						f = mk(fBlk, e)
					}
					return
				}
			}
		}
	}
	if bo, ok := cond.(*ssa.BinOp); ok {
		// ---- byte order: nativeEndian == binary.LittleEndian / BigEndian (one consistent world per exploration)
		if bo.Op == token.EQL || bo.Op == token.NEQ {
			if which := endianTestIn(bo, s.fr); which != 0 {
				want := which // +1: test is "== little", -1: test is "== big"
				if bo.Op == token.NEQ {
					want = -want
				}
				known := s.env.lenz["endian"]
				if b.cfg.Endian == "little" {
					known = 1
				} else if b.cfg.Endian == "big" {
					known = -1
				}
				if known == 0 || int(known) == want {
					e := s.env.clone()
					e.lenz["endian"] = int8(want)
					t = mk(tBlk, e)
				}
				if known == 0 || int(known) == -want {
					e := s.env.clone()
					e.lenz["endian"] = int8(-want)
					f = mk(fBlk, e)
				}
				return
			}
		}
		// ---- operation dispatch: c.Operation == K
		if bo.Op == token.EQL || bo.Op == token.NEQ {
			for _, pair := range [][2]ssa.Value{{bo.X, bo.Y}, {bo.Y, bo.X}} {
				k, isC := pair[1].(*ssa.Const)
				if !isC || k.Value == nil || k.Value.Kind() != constant.String || !isOperationType(pair[0].Type()) {
					continue
				}
				o := res.Of(pair[0], s.fr.of, ifi)
				if o.Kind != origin.KField || o.Field.Name() != "Operation" {
					continue
				}
				cur, have := s.env.ops[s.fr.id]
				if !have {
					cur = b.allOpsMask()
				}
				name := constant.StringVal(k.Value)
				var bit uint32
				if i, ok := b.opIndex[name]; ok {
					bit = 1 << uint(i)
				} else {
					b.problem("operation constant %q compared but not declared", name)
				}
				eqMask, neMask := cur&bit, cur&^bit
				if bo.Op == token.NEQ {
					eqMask, neMask = neMask, eqMask
				}
				if eqMask != 0 {
					e := s.env.clone()
					e.ops[s.fr.id] = eqMask
					t = mk(tBlk, e)
				}
				if neMask != 0 {
					e := s.env.clone()
					e.ops[s.fr.id] = neMask
					f = mk(fBlk, e)
				}
				return
			}
		}
		// ---- len(X) == 0 / != 0 / > 0
		if lc, ok := bo.X.(*ssa.Call); ok && isBuiltin(lc, "len") {
			if k, isK := constInt(bo.Y); isK && k == 0 && rangedInFunc(lc.Call.Args[0], res, s.fr.of) {
				o := s.fr.id + "/" + res.Of(lc.Call.Args[0], s.fr.of, ifi).String()
				known := s.env.lenz[o]
				zeroOnTrue := 0
				switch bo.Op {
				case token.EQL, token.LEQ:
					zeroOnTrue = 1
				case token.NEQ, token.GTR:
					zeroOnTrue = -1
				}
				if zeroOnTrue != 0 {
					if known == 0 || int(known) == zeroOnTrue {
						e := s.env.clone()
						e.lenz[o] = int8(zeroOnTrue)
						t = mk(tBlk, e)
					}
					if known == 0 || int(known) == -zeroOnTrue {
						e := s.env.clone()
						e.lenz[o] = int8(-zeroOnTrue)
						f = mk(fBlk, e)
					}
					return
				}
			}
		}
		// ---- last-iteration test: i == len(X)-1  (i the index of a range loop over X)
		if bo.Op == token.EQL {
			for _, pair := range [][2]ssa.Value{{bo.X, bo.Y}, {bo.Y, bo.X}} {
				if H, ok := lastIterTest(pair[0], pair[1], res, s.fr.of); ok {
					key := fmt.Sprintf("%s/%d", s.fr.id, H.Index)
					et := s.env.clone()
					et.last[key] = 1
					ef := s.env.clone()
					ef.last[key] = -1
					return mk(tBlk, et), mk(fBlk, ef)
				}
			}
		}
		// ---- range-index loop header: next < len(X)
		if bo.Op == token.LSS {
			if add, ok := bo.X.(*ssa.BinOp); ok {
				if ph, ok := add.X.(*ssa.Phi); ok && ph.Comment == "rangeindex" && ph.Block() == blk {
					key := fmt.Sprintf("%s/%d", s.fr.id, blk.Index)
					if v, ok := s.env.last[key]; ok {
						e := s.env.clone()
						delete(e.last, key)
						delete(e.phis, s.fr.id+"/"+ph.Name()+"/first")
						if v > 0 {
							return nil, mk(fBlk, e) // the iteration just finished was the last one
						}
						return mk(tBlk, e), nil
					}
					// first entry: use emptiness knowledge about X
					if lc, ok := bo.Y.(*ssa.Call); ok && isBuiltin(lc, "len") {
						xo := res.Of(lc.Call.Args[0], s.fr.of, ifi)
						first := b.firstEntry(ph, s)
						e := s.env.clone()
						delete(e.phis, s.fr.id+"/"+ph.Name()+"/first")
						if first {
							if z := s.env.lenz[s.fr.id+"/"+xo.String()]; z < 0 {
								return mk(tBlk, e), nil
							} else if z > 0 {
								return nil, mk(fBlk, e)
							}
							if b.cfg.NonEmptyLists && isArgumentConditions(lc.Call.Args[0].Type()) {
								return mk(tBlk, e), nil
							}
						}
						return mk(tBlk, e), mk(fBlk, e)
					}
				}
			}
		}
	}
	return mk(tBlk, s.env), mk(fBlk, s.env)
}

// firstEntry: the header is being evaluated on entry from outside the loop (the index phi took its -1 edge).
func (b *Builder) firstEntry(ph *ssa.Phi, s state) bool {
	// the header block was entered via enter(); tracked phis only include labels, so look at the predecessor we came from:
	// we cannot see it here, so use the structural fact that on the back edge a last-iteration fact or nothing is present.
	// A conservative answer is needed only for using emptiness facts, which are established before the loop and not
	// invalidated inside it; using them on a later header evaluation would be wrong (would force the body again), so
	// require that the loop body cannot reach the header without a last-iteration fact... simpler: record entry in env.
	_, ok := s.env.phis[s.fr.id+"/"+ph.Name()+"/first"]
	return ok
}

// endianTest recognises `nativeEndian == binary.LittleEndian` (+1) / `== binary.BigEndian` (-1).
// endianTestIn is endianTest with the byte order possibly handed in as a parameter (`nativeEndian == secondWordOn`).
func endianTestIn(bo *ssa.BinOp, fr *frame) int {
	if w := endianTest(bo); w != 0 {
		return w
	}
	sub := func(v ssa.Value) ssa.Value {
		f := fr
		for i := 0; i < 8; i++ {
			p, ok := v.(*ssa.Parameter)
			if !ok || f == nil || f.call == nil {
				return v
			}
			idx := -1
			for k, q := range f.fn.Params {
				if q == p {
					idx = k
				}
			}
			if idx < 0 || idx >= len(f.call.Call.Args) {
				return v
			}
			v, f = f.call.Call.Args[idx], f.parent
		}
		return v
	}
	x, y := sub(bo.X), sub(bo.Y)
	if x == bo.X && y == bo.Y {
		return 0
	}
	return endianTest2(x, y)
}

func endianTest(bo *ssa.BinOp) int { return endianTest2(bo.X, bo.Y) }

func endianTest2(X, Y ssa.Value) int {
	isNative := func(v ssa.Value) bool {
		ld, ok := v.(*ssa.UnOp)
		if !ok {
			return false
		}
		g, ok := ld.X.(*ssa.Global)
		return ok && g.Name() == "nativeEndian"
	}
	which := func(v ssa.Value) int {
		if mi, ok := v.(*ssa.MakeInterface); ok {
			v = mi.X
		}
		ld, ok := v.(*ssa.UnOp)
		if !ok {
			return 0
		}
		g, ok := ld.X.(*ssa.Global)
		if !ok || g.Pkg == nil || g.Pkg.Pkg.Path() != "encoding/binary" {
			return 0
		}
		switch g.Name() {
		case "LittleEndian":
			return 1
		case "BigEndian":
			return -1
		}
		return 0
	}
	if isNative(X) {
		return which(Y)
	}
	if isNative(Y) {
		return which(X)
	}
	return 0
}

// valueHelper: a function of the package that only computes a value: no stores other than into its own locals, no calls
// other than builtins and other value helpers, a single non-pointer result.
func (b *Builder) valueHelper(f *ssa.Function) bool {
	return b.valueHelperD(f, 0)
}

func (b *Builder) valueHelperD(f *ssa.Function, depth int) bool {
	if f == nil || depth > 3 || f.Pkg != b.Pkg || len(f.Blocks) == 0 || b.emitters[f] || b.patcher[f] || b.newFns[f] {
		return false
	}
	if f.Signature.Results().Len() != 1 {
		return false
	}
	if _, ok := f.Signature.Results().At(0).Type().Underlying().(*types.Basic); !ok && !isBPFStruct(f.Signature.Results().At(0).Type()) {
		return false
	}
	nb := 0
	for _, blk := range f.Blocks {
		nb++
		for _, in := range blk.Instrs {
			switch x := in.(type) {
			case *ssa.Store:
				if _, ok := x.Addr.(*ssa.Alloc); !ok {
					if fa, ok := x.Addr.(*ssa.FieldAddr); !ok || !isLocalAlloc(fa.X) {
						return false
					}
				}
			case *ssa.MapUpdate, *ssa.Go, *ssa.Defer, *ssa.Send, *ssa.Panic:
				return false
			case *ssa.Call:
				if _, isB := x.Call.Value.(*ssa.Builtin); isB {
					continue
				}
				if !b.valueHelperD(x.Call.StaticCallee(), depth+1) {
					return false
				}
			}
		}
	}
	return nb <= 12
}

// isBPFStruct: one of the instruction structs of golang.org/x/net/bpf (a helper may build and return a single instruction).
func isBPFStruct(t types.Type) bool {
	n, ok := t.(*types.Named)
	if !ok || n.Obj().Pkg() == nil || n.Obj().Pkg().Path() != "golang.org/x/net/bpf" {
		return false
	}
	_, isStruct := n.Underlying().(*types.Struct)
	return isStruct
}

func isLocalAlloc(v ssa.Value) bool {
	al, ok := v.(*ssa.Alloc)
	return ok && !al.Heap
}

// EndianOf reports the byte-order world of a node (+1 little, -1 big, 0 not yet decided on its paths).
func (n *Node) EndianOf() int { return n.endian }

func isOperationType(t types.Type) bool {
	n, ok := t.(*types.Named)
	return ok && n.Obj().Name() == "Operation"
}

func isArgumentConditions(t types.Type) bool {
	n, ok := t.(*types.Named)
	return ok && n.Obj().Name() == "ArgumentConditions"
}

func constInt(v ssa.Value) (int64, bool) {
	c, ok := v.(*ssa.Const)
	if !ok || c.Value == nil || c.Value.Kind() != constant.Int {
		return 0, false
	}
	i, ok := constant.Int64Val(c.Value)
	return i, ok
}

// lastIterTest recognises `i == len(X)-1` (or i+1 == len(X)) for the index i of a range loop over X
// and returns the loop header.
func lastIterTest(iv, bound ssa.Value, res *origin.Resolver, of *origin.Frame) (*ssa.BasicBlock, bool) {
	plus := int64(0)
	if add, ok := iv.(*ssa.BinOp); ok && add.Op == token.ADD {
		if ph, ok := add.X.(*ssa.Phi); ok && ph.Comment == "rangeindex" {
			// iv is the loop index itself (phi+1)
			return lastIterBound(ph, add, bound, 0, res, of)
		}
		if k, ok := constInt(add.Y); ok {
			plus = k
			iv = add.X
		}
	}
	add, ok := iv.(*ssa.BinOp)
	if !ok || add.Op != token.ADD {
		return nil, false
	}
	ph, ok := add.X.(*ssa.Phi)
	if !ok || ph.Comment != "rangeindex" {
		return nil, false
	}
	return lastIterBound(ph, add, bound, plus, res, of)
}

func lastIterBound(ph *ssa.Phi, idx *ssa.BinOp, bound ssa.Value, plus int64, res *origin.Resolver, of *origin.Frame) (*ssa.BasicBlock, bool) {
	if k, ok := constInt(idx.Y); !ok || k != 1 {
		return nil, false
	}
	// bound = len(X) - (1 - plus)
	minus := int64(0)
	if sub, ok := bound.(*ssa.BinOp); ok && sub.Op == token.SUB {
		if k, ok := constInt(sub.Y); ok {
			minus = k
			bound = sub.X
		}
	}
	if plus+minus != 1 {
		return nil, false
	}
	lc, ok := bound.(*ssa.Call)
	if !ok || !isBuiltin(lc, "len") {
		return nil, false
	}
	// X must be the value the loop ranges over
	H := ph.Block()
	ifi, ok := H.Instrs[len(H.Instrs)-1].(*ssa.If)
	if !ok {
		return nil, false
	}
	cmp, ok := ifi.Cond.(*ssa.BinOp)
	if !ok || cmp.Op != token.LSS || cmp.X != ssa.Value(idx) {
		return nil, false
	}
	hl, ok := cmp.Y.(*ssa.Call)
	if !ok || !isBuiltin(hl, "len") {
		return nil, false
	}
	a := res.Of(lc.Call.Args[0], of, lc).String()
	c := res.Of(hl.Call.Args[0], of, hl).String()
	if a != c {
		return nil, false
	}
	return H, true
}
